#!/usr/bin/env python3
# tools/seedkeep.py <seed-id> <property-checked> <detected: yes|no|partial> "<note>"  — copy a confirmed seeded change into /verif/seeded/
import json, os, shutil, sys
sid, prop, det, note = sys.argv[1:5]
src = f"/tmp/seed/{sid}"
name = sys.argv[5] if len(sys.argv) > 5 else sid
dst = f"/verif/seeded/{name}"
os.makedirs(dst, exist_ok=True)
for f in os.listdir(src):
    if f in ("patch.diff", "meta.json", "verify.log") or f.endswith(".go"):
        shutil.copy(os.path.join(src, f), dst)
m = json.load(open(os.path.join(dst, "meta.json")))
m["breaks_property"] = m.get("property", sid)
v = open(os.path.join(src, "verify.log")).read().strip().splitlines()[-1] if os.path.exists(os.path.join(src, "verify.log")) else ""
m["confirmed_by_me"] = {"tool": "tools/seedverify.sh (scratch worktree: build, demo fails with / passes without the change, package tests pass with it)", "result": v}
m["checked_with"] = {"command": f"tools/seedrun.sh seeded/{name}/patch.diff {prop}", "property_check": prop, "detected": det, "note": note}
json.dump(m, open(os.path.join(dst, "meta.json"), "w"), indent=1)
print("kept", dst)
