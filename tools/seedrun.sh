#!/bin/bash
# tools/seedrun.sh <patch.diff> <Cxx> [tier]: apply a seeded change to /repo, run the check, undo it.
set -u
patch=$1; id=$2; tier=${3:-quick}
cd /repo && git diff --quiet || { echo "repo dirty"; exit 9; }
git -C /repo apply "$patch" || { echo "patch does not apply"; exit 9; }
mkdir -p /verif/build/evsave && cp /verif/evidence/$id.json /verif/build/evsave/$id.json 2>/dev/null
cd /verif && ./check $id --tier $tier; rc=$?
cp /verif/build/evsave/$id.json /verif/evidence/$id.json 2>/dev/null
git -C /repo checkout -- . ; git -C /repo clean -fdq
echo "seedrun rc=$rc"
exit $rc
