#!/bin/bash
# tools/seedrun.sh <patch.diff> <Cxx> [tier]: apply a seeded change to /repo, run the check, undo it.
set -u
patch=$1; id=$2; tier=${3:-quick}
cd /repo && git diff --quiet || { echo "repo dirty"; exit 9; }
git -C /repo apply "$patch" || { echo "patch does not apply"; exit 9; }
cd /verif && ./check $id --tier $tier; rc=$?
git -C /repo checkout -- . ; git -C /repo clean -fdq
echo "seedrun rc=$rc"
exit $rc
