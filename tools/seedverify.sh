#!/bin/bash
# tools/seedverify.sh <seeddir> <demo-file> <dest-rel-path-in-repo> <go test pkg> <-run regex> [extra test pkgs...]
# Confirms in a scratch worktree: builds; demo fails with the change and passes without; package tests pass with it.
set -u
export GOFLAGS=-mod=mod GOPROXY=off GOSUMDB=off GOTOOLCHAIN=local
sd=$1; demo=$2; dest=$3; pkg=$4; run=$5; shift 5
wt=/tmp/wt/verify-$$
git -C /repo worktree add --detach $wt HEAD -q || exit 9
cd $wt
cp "$sd/$demo" "$dest"
echo "== demo without change"; go test -vet=off -count=1 -run "$run" $pkg 2>&1 | tail -3; r0=${PIPESTATUS[0]}
git apply "$sd/patch.diff" || { echo "patch fails"; }
echo "== build with change"; go build ./... 2>&1 | tail -3
echo "== demo with change"; go test -vet=off -count=1 -run "$run" $pkg 2>&1 | tail -5; r1=${PIPESTATUS[0]}
rm -f "$dest"
echo "== package tests with change"; go test -vet=off -count=1 $pkg "$@" 2>&1 | grep -v "no test files" | tail -8; r2=${PIPESTATUS[0]}
cd /; git -C /repo worktree remove --force $wt
echo "RESULT demo_without=$r0 (want 0) demo_with=$r1 (want !=0) tests_with=$r2 (want 0)"
