# Per-property configuration of ./check (which Lean modules carry the property theorems, which
# correspondence areas tie the model to the code, sizes per tier).

def kv_preamble(facts, impl):
    bt = (facts.get("backends_track") or {})
    name = {"leveldb": "leveldb", "pebble": "pebble", "memorydb": "memorydb",
            "table_memorydb": "table", "table_leveldb": "table"}[impl]
    inner = {"table_memorydb": "memorydb", "table_leveldb": "leveldb"}.get(impl)
    t = bt.get(name, False) and (bt.get(inner, False) if inner else True)
    return "cfg tracks %d\n" % (1 if t else 0)

PROPS = {
    "C17": dict(
        lean_modules=["QuaiVerif.Props.C17"],
        areas=[dict(name="kv", n_quick=600, n_thorough=8000, seeds_thorough=3, n_search=3000, preamble=kv_preamble)],
        facts=["backends_track"],
        rule="a case is one random history (1-400 ops) of put/del/get/has/iter/batch ops applied in lock-step to leveldb, pebble, "
             "memorydb, table(memorydb), table(leveldb); non-trivial = uses >= 4 distinct op kinds; distinct by generator sub-seed",
        trusted=["ValueSize() is not compared (not in the property); a written batch is always Reset before reuse (interface contract)"],
        assumptions=["single-threaded use of one batch", "a commit of one batch is atomic (C11)"],
        level_text="Refinement of the store to a finite map, iteration exactness/order, batch issue-order, read-your-writes, reset/replay are Lean theorems "
                   "for all histories (induction over op lists); the batch-tracking fact is regenerated from the four batch types' source; the model is run in "
                   "lock-step against leveldb, pebble, memorydb and both table wrappers on random histories and every answer compared.",
        level_note="Trusted: Lean kernel, the extractor's classification of SetPending/GetPending bodies, the harness generator (keys with shared prefixes, "
                   "empty key, 0xff runs, empty values). Modelled not verified: goleveldb/pebble internals; batch commit atomicity is assumed (C11).",
    ),
}

PROPS["C16"] = dict(
    lean_modules=["QuaiVerif.Props.C16"],
    areas=[dict(name="addr", spec_ops=("filter",), n_quick=400, n_thorough=6000, seeds_thorough=3, n_search=2000),
           dict(name="utxo", n_quick=300, n_thorough=6000, seeds_thorough=2, n_search=1500),
           dict(name="sign", spec_ops=("sender", "sigvals"), n_quick=400, n_thorough=6000, seeds_thorough=2, n_search=1500),
           dict(name="etxq", spec_ops=("commit",), n_quick=60, n_thorough=1500, seeds_thorough=2, n_search=200, timeout=3000)],
    rule="a case is one node location plus 10-40 operations over byte strings of length 0-40 biased to the location prefix byte, the 127/128 ledger "
         "boundary and all-zero addresses: every constructor/decoder (bytes, bytes20, hex, proto, scan, pubkey, CREATE, CREATE2, RLP, JSON, text), scope "
         "predicates, StateDB account creation with adversarial addresses, GrindContract; non-trivial = yields both kinds or reaches state/grind",
    level_text="Partition of addresses by zone/ledger, agreement of all location-taking constructors on 20-byte inputs, the account-state scope invariant "
               "for every sequence of creations, the UTXO address guard and Create/Grind soundness are Lean theorems over the address model; the model's "
               "executable definitions are compared with the real common/crypto/state/vm functions on generated inputs (every answer).",
    level_note="Trusted: Lean kernel; harness generators. keccak is opaque (hash images are handed to the model). The CREATE path inside EVM.create and "
               "UTXO-creating branches of block processing are tied through C01/C05 areas, not here. Known finding: location-free decoders classify with Location{0,0}.",
    assumptions=["locations have at most 2 components with region, zone < 16", "keccak256 treated as an opaque function"],
)

def lockup_preamble(facts, impl):
    return "cfg undoUsesOldDelegate %d\ncfg revertRestoresBatch %d\n" % (1 if facts.get("lockup_undo_uses_old_delegate") else 0, 1 if facts.get("revert_restores_lockup_batch") else 0)

def state_preamble(facts, impl):
    return "cfg suicideRestoresSize %d\n" % (1 if facts.get("suicide_restores_size") else 0)

PROPS["C12"] = dict(
    lean_modules=["QuaiVerif.Props.C12"],
    areas=[dict(name="state", n_quick=3000, n_thorough=40000, seeds_thorough=3, n_search=2500, preamble=state_preamble),
           dict(name="lockup", spec_ops=("claim",), n_quick=600, n_thorough=12000, seeds_thorough=2, n_search=2500, preamble=lockup_preamble),
           dict(name="evm", spec_ops=("gasbuy",), n_quick=2500, n_thorough=20000, seeds_thorough=2, n_search=8000)],
    facts=["suicide_restores_size", "journal_reverts"],
    rule="a case is a committed pre-state (accounts with balance/nonce/code/storage, so size counters > 0) plus 5-60 journalled mutator calls "
         "with nested Snapshot/RevertToSnapshot frames (depth <= 6) on the real StateDB; after each revert the full dump and the IntermediateRoot of a copy "
         "are compared with those at frame entry and with the model; non-trivial = at least one revert and >= 4 mutator kinds",
    level_text="'A reverting frame leaves the state equal to the state at entry' is a Lean theorem over the journal model for every frame body with nested "
               "frames at any depth (mutual structural induction; one lemma per mutator/journal-entry pair), plus sibling-frame preservation; the journal "
               "table and the suicide/size fact are regenerated from journal.go/statedb.go; the model is run against the real StateDB on random nested programs.",
    level_note="Trusted: Lean kernel; extractor's reading of journal.go; harness generator. EVM-level side state (ETX cache, coinbase-lockup deletions) is "
               "covered by the evm area of C05; size-counter updates at commit (updateTrie) are observed, not modelled: the pre-state is read from the real StateDB.",
    assumptions=["CreateAccount only on addresses evm.create accepts (nonce 0, no code)", "SubBalance/SubRefund never exceed the current value (callers guarantee)"],
)

PROPS["C05"] = dict(
    lean_modules=["QuaiVerif.Props.C05", "QuaiVerif.Props.C05b"],
    areas=[dict(name="evm", spec_ops=("wrapped",), n_quick=2500, n_thorough=40000, seeds_thorough=3, n_search=8000),
           dict(name="c07", n_quick=2, n_thorough=12, seeds_thorough=2, n_search=6, timeout=3000),
           dict(name="lockup", spec_ops=("claim",), n_quick=600, n_thorough=12000, seeds_thorough=2, n_search=2500, preamble=lockup_preamble)],
    facts=["etx_exits"],
    rule="a case is one real interpreter run: (etx/conv) a contract executing one ETX / CONVERT with generated destination, value, gas limit, tip/fee cap or gas "
         "price (incl. zero and near-2^256 values), balance around the total, ETX-cache length (incl. 65535..65537), valid/malformed/empty access-list blob, "
         "eligibility, PrimeTerminusNumber around every fork; (xcall) a top-level call to a foreign / own-zone-Qi address; (tree) a tree of "
         "CALL/DELEGATECALL/CALLCODE/STATICCALL frames (depth <= 3) emitting ETXs and ending in STOP or REVERT. Every case is non-trivial; distinct by sub-seed. [c07, shared with C07] on real zone chains the outbound ETXs recorded in each transaction's receipt carry that transaction's hash as origin and are, in order, the non-reward ETXs the block commits to; assembler and validator agree on them",
    level_text="All-or-nothing of ETX / CONVERT / foreign call as Lean theorems over decision functions that follow the code's checks (uint256 arithmetic "
               "explicit), and 'outbound set = sends of non-reverted frames in order' by mutual induction over frame trees; exit discipline of the three Go "
               "functions is regenerated from source and checked by decide; the model is run against the real interpreter on generated contracts.",
    level_note="Trusted: Lean kernel, extractor (exit/debit positions by go/ast), harness. Modelled not verified: the interpreter's opcode dispatch, gas metering, "
               "memory; coinbase-lockup claims are covered under C13; Qi unwrap / deposit claims of the lockup contract have their own model (Wrapped, theorems in Props/C05b; "
               "ETX-cache overflow inside an unwrap is not modelled). Pre-fork regime wraps uint256 (the _partial theorem).",
    assumptions=["the executing contract's own address is an internal Quai address (it exists in this zone's state, C16)"],
)

PROPS["C14"] = dict(
    lean_modules=["QuaiVerif.Props.C14"],
    areas=[dict(name="codec", n_quick=2500, n_thorough=40000, seeds_thorough=3, n_search=8000)],
    facts=["proto_messages"],
    rule="a case is one generated object: Quai tx (really signed; optional to/data/access list with several tuples and keys/work fields), External tx, Qi tx "
         "(1-3 inputs, 0-3 outputs, Schnorr signature), Header (every Set* method driven through reflection with boundary-width integers, all contexts), "
         "WorkObjectHeader (both sides of the KawPow fork), UTXO entry; encoded by the real ProtoEncode+proto.Marshal. Every case non-trivial; distinct by sub-seed",
    level_text="Varint and wire-field round trip, byte-identical re-encoding and injectivity of the protobuf wire encoding are Lean theorems for all field lists "
               "(so hash-of-encoding binds every encoded field under an injective hash); the message schemas are regenerated from the .proto sources; the Lean "
               "decoder's dump of the real bytes must equal protobuf-go's; per-type glue (ProtoEncode/ProtoDecode/JSON/hash) is checked by round-trip oracles.",
    level_note="Trusted: Lean kernel, .proto parser of the extractor, protobuf-go reflection as the reference dump. Modelled not verified: the per-type "
               "ProtoEncode/ProtoDecode glue is tied by T3 round-trip/fingerprint oracles (decode(encode x) = x via getters/JSON, re-encode identical, hash "
               "stable over wire and JSON, single-field mutation changes the hash), not by a Lean model of each type. RLP, receipts, work-object bodies, p2p envelopes not yet covered.",
    assumptions=["keccak256 injective (hypothesis hH of C14_hash_binds_fields)", "varints below 2^64 (protobuf-go rejects longer ones; the model has no bound)"],
)

PROPS["C03"] = dict(
    lean_modules=["QuaiVerif.Props.C03"],
    areas=[dict(name="sign", spec_ops=("sender", "sigvals"), n_quick=400, n_thorough=6000, seeds_thorough=3, n_search=1500), dict(name="utxo", n_quick=300, n_thorough=6000, seeds_thorough=2, n_search=1500)],
    facts=["tx_fields"],
    rule="a case is one really signed Quai transaction (random key, optional to/data/access list, chain id incl. 0) and: 4 boundary (v,r,s) triples through "
         "ValidateSignatureValues; Sender through 6 signers of equal/different/zero chain id on the same object (cache); 7 single-field mutations carrying the "
         "original signature; 7 signature mutations (high-S twin, zero, N, out-of-range v). Every case non-trivial; distinct by sub-seed. [utxo, shared with C01] Qi transactions through the real ProcessQiTx with real Schnorr / MuSig2 signatures: right keys, a wrong key on one input, the attacker's own key repeated on a foreign input, other chain id, invalid signatures",
    level_text="Chain-id rejection, signature-range rejection, cache transparency for every sequence of signers, and 'same sender + same signature => same signed "
               "payload' (under explicit injectivity/unforgeability hypotheses) are Lean theorems over the Sender model; that the signed payload covers every "
               "non-signature field is decided over field sets regenerated from ProtoEncode / ProtoEncodeTxSigningData; the model's verdict classes are compared "
               "with the real Sender on signed transactions and all their mutations.",
    level_note="Trusted: Lean kernel; extractor's field-set reading; ECDSA recovery and keccak are opaque parameters (recovered address supplied by the harness); "
               "cryptographic unforgeability is a theorem hypothesis. Qi (Schnorr / MuSig2) authorisation is checked through ProcessQiTx in the C01 area.",
    assumptions=["hSig: a signature recovers a given signer for at most one digest", "hH: keccak256 injective on signing payloads"],
)

PROPS["C18"] = dict(
    lean_modules=["QuaiVerif.Props.C18"],
    areas=[dict(name="trie", n_quick=300, n_thorough=5000, seeds_thorough=3, n_search=1200)],
    rule="a case is one history of 1-300 updates/deletes/gets on a real trie.Trie or SecureTrie (keys with shared prefixes, keys that are prefixes of one "
         "another, empty key, values shorter/longer than 32 bytes and single bytes below/above 0x80), with commit+reload at arbitrary points and Prove/VerifyProof "
         "(incl. one single-bit corruption per proof); or a DeriveSha run over 0-270 items (around the 0x7f/0x80 and 1-byte/2-byte index boundaries). Non-trivial: all",
    level_text="The Lean trie model (insert/delete/get, compact encoding, RLP, node embedding, concrete keccak-256) reproduces every root, lookup and proof of the "
               "real trie byte for byte on random histories; theorems (Props/C18.lean): lookup after insert and after delete (through branch collapse and short-node merge) for all well-formed tries and "
               "keys; every history of writes and deletes refines a finite map; insert and delete keep the canonical form, two canonical tries with the same "
               "content are the same tree, hence the root of every reachable trie depends only on its content (C18_root_depends_only_on_content, for the real "
               "hash function and any other). Reload, proof exactness, stack-trie = full-trie, a StackTrie reference root and copy independence are "
               "additionally checked on the real code.",
    level_note="Trusted: Lean kernel; harness; keccak-256/RLP are executable Lean code validated against the real roots (not verified). Partial: soundness of "
               "Prove / VerifyProof is T2 (model proofs = real proofs) and T3 (corrupted proofs rejected) only, not a Lean theorem; VerifyRangeProof and the node iterator are not covered.",
    assumptions=["keys are used in hex-nibble form with terminator, as keybytesToHex produces"],
)

PROPS["C04"] = dict(
    lean_modules=["QuaiVerif.Props.C04", "QuaiVerif.Props.C04b"],
    areas=[dict(name="etxq", spec_ops=("commit",), n_quick=60, n_thorough=1500, seeds_thorough=2, n_search=200, timeout=3000),
           dict(name="c04h", n_quick=12, n_thorough=150, seeds_thorough=3, n_search=16, timeout=3000, confirm_diff=True)],
    rule="a case is one history of 5-300 PushETX / PushETXs(0-3) / PopETX / ReadETX / counter reads on a real StateDB ETX trie with CommitEtxs+reload at "
         "arbitrary points, over real ExternalTx objects (random value/data/access list/type); includes empty-queue pops and index growth past one byte; plus a "
         "copy-independence probe (mutating NewTx(etx.Inner()) must not change the original); one case in ~30 (and always the second) runs 520 operations so "
         "that the newest index passes 256 while the oldest still fits one byte. Every case non-trivial; distinct by sub-seed. [c04h] a case is one 50-block "
         "history of a real prime / region / zone hierarchy driven by the chainworld generator (transfers, contract calls, Quai->Qi and Qi->Quai conversions "
         "with slippage bounds, lockup claims, Qi spends, coinbases to both ledgers), the harness mining each block with real work of a chosen order (zone / "
         "region / prime); both sides of the conversion-discount fork (one case in four before it)",
    level_text="(a) the destination queue refines a FIFO list for every push/pop history and (b) acceptance implies the block's inbound ETXs are exactly the "
               "next queue items with the minimum-inclusion bound met are Lean theorems (invariant + induction over histories); the queue model, and the ETX-trie "
               "root recomputed by the Lean trie model with concrete keccak, are compared with the real StateDB on random histories incl. reload.",
    level_note="(c) routing: 'what the zone has received plus what is held at a definite stage of the route is a permutation of what its blocks emitted' "
               "(nothing lost, nothing duplicated; with distinct ETXs none delivered twice), 'a region-order block delivers every region-confirmed ETX rolled up "
               "so far and nothing else', 'a prime-order block delivers exactly the coinbases / conversions rolled up before it, largest slippage bound first' "
               "are Lean theorems over the routing model (C04b), which is run in lock-step with a real prime / region / zone hierarchy (three core.Core wired "
               "through their dom / sub interfaces; area c04h): per block the model must name, in order, the ETXs the zone receives; T3 follows every ETX by "
               "identity from emission to execution (received once, unaltered apart from conversion repricing, executed once in the order received). "
               "PARTIAL: one zone per region (a second zone cannot be started from genesis: ComputeExpansionNumber special-cases zone 0-0), no reorgs at "
               "region / prime level, stability of prime's sort for equal slippage bounds is checked by T2 only.",
    assumptions=["keccak256 collision-free for the secure-trie keys (index keys are minimal big-endian, counter keys are 32-byte strings with leading zeros)"],
)

PROPS["C20"] = dict(
    lean_modules=["QuaiVerif.Props.C20"],
    areas=[dict(name="conv", spec_ops=("vol", "q2u", "u2q", "fmd"), n_quick=800, n_thorough=20000, seeds_thorough=3, n_search=3000),
           dict(name="c13chain", n_quick=3, n_thorough=30, seeds_thorough=2, n_search=8, timeout=3000),
           dict(name="c04h", n_quick=12, n_thorough=150, seeds_thorough=3, n_search=16, timeout=3000, confirm_diff=True)],
    facts=["denominations", "conv_pipeline_fingerprint"],
    rule="a case is one block context (PrimeTerminusNumber around the KawPow / SHA-equivalent / kQuai-reset forks or early, random number, difficulty, "
         "exchange rate, share counts) with 6 amounts (0, dust, minimum conversion, 2^60..2^120, random) through the real QiToQuai / QuaiToQi both ways, "
         "4 amounts through FindMinDenominations, 4 (value, mean) pairs (incl. value = mean, 10*mean, 10*mean+1) through ApplyCubicDiscount, and a probe that "
         "repricing copies of a conversion ETX twice leaves the cached ETX untouched. [c13chain, shared with C13] an address that receives nothing but Qi->Quai conversions must hold, after every block, exactly the conversions past their lock period (credited once, at that height). [c04h, shared with C04] every conversion the chainworld users make on a "
         "real prime / region / zone hierarchy (both directions, slippage bounds 0..9999 bp and none, amounts up to thousands of times the minimum) is followed "
         "from the zone block that debits it through prime's repricing to the zone block that receives it",
    level_text="Round trips at a fixed rate never gain, monotonicity of unit conversion, 'repriced amount is between 10% of the original and the original', "
               "'exactly one outcome (bounded conversion or full refund)' and 'denominations sum exactly' are Lean theorems; the denomination table and a "
               "fingerprint of the prime repricing block are regenerated from source; QiToQuai / QuaiToQi / FindMinDenominations are run against the model.",
    level_note="The prime repricing pipeline is inline in Slice.Append: its per-ETX arithmetic is the Reprice model (theorems above), a source fingerprint "
               "reports any edit of that block, and on the real hierarchy (area c04h) every conversion that comes out of prime is checked (T3) to be either a "
               "ConversionRevert carrying exactly the original amount or a conversion credited between the rate value of 10 % of the original and the rate value "
               "of the original, at the exchange rate prime derived for that block (read from the next prime pending header). ApplyCubicDiscount (big.Float) is a "
               "parameter of the theorems with the hypothesis D <= A: true of the current protocol (checked on the real function), false before the "
               "ConversionSlipChangeBlock fork - there the bound fails on the real chain too (known finding, Lean counterexample). PARTIAL: the running "
               "amounts / token-choice set / new exchange rate computation is not modelled (its result is read from the chain); origin debit (C05/C01) and "
               "destination minting/lock (C13) are those properties' checks.",
    assumptions=["cubic discount returns at most its argument (checked by T3)", "k-quai discount <= KQuaiDiscountMultiplier (header field range)",
                 "after the kQuai reset fork block difficulty exceeds KQuaiDifficultyDivisor (else CalculateQuaiReward is negative)"],
)

PROPS["C13"] = dict(
    lean_modules=["QuaiVerif.Props.C13", "QuaiVerif.Props.C13b", "QuaiVerif.Props.C13c", "QuaiVerif.Props.C13d", "QuaiVerif.Props.C10"],
    areas=[dict(name="lockup", spec_ops=("claim",), n_quick=600, n_thorough=12000, seeds_thorough=3, n_search=2500, preamble=lockup_preamble), dict(name="c13chain", spec_ops=("tdisc", "split"), n_quick=4, n_thorough=40, seeds_thorough=3, n_search=10, timeout=3000),
           dict(name="c07", n_quick=2, n_thorough=12, seeds_thorough=2, n_search=6, timeout=3000)],
    facts=["lockup_undo_uses_old_delegate", "revert_restores_lockup_batch"],
    rule="[c13chain] a case is one 36-block history of the real zone node (see C06) in which three reward-only Quai addresses that exist from genesis and two that do not exist yet receive coinbases (lock bytes 0-3, as miner coinbase and as inbound coinbase ETXs, incl. groups of 2-3 that unlock together with amounts just below / at / above the account-creation fee) and Qi->Quai conversions and never transact; after every block their balances (and, for the new ones, their existence) are compared with the model and with an independent replay of matured rewards. [lockup] a case is one multi-block history on a real block batch (pending mode, committed at block boundaries) of 6-30 operations over 2 owner contracts x 2 miners "
         "x 3 lockup bytes x 3 epochs: AddNewLock (delegate changes, unlock heights incl. epoch-aligned 0), claims through EVM.Call into the lockup precompile by "
         "owner and non-owner, before/at/after the tranche unlock height, with too little gas, to the other ledger, repeated in the same and in later blocks, and "
         "claims inside a frame that REVERTs; all non-trivial; distinct by sub-seed",
    level_text="[payout schedule] 'after blocks 1..h a reward-only account holds exactly the rewards whose unlock height block+depth has been reached, each once, none earlier' is a Lean theorem (induction over heights) over the RedeemLockedQuai look-back model, run in lock-step with reward-only accounts of a real zone chain (area c13chain: Quai coinbases of every lock byte and Qi->Quai conversions, balances after every block, plus an independent ledger); issuance: 'one reward per seal (block or work share) of the rewarded height, none above the block reward, all together at most the block reward plus the one-unit floor' are theorems over the entropy-proportional split (C13d, the rule before the KawPow fork), compared per block with the coinbase ETXs the real chain emits (recipient, label = seal hash, amount; T3: no seal rewarded by two blocks), the time discount of a share's reward (full up to the no-penalty threshold, then linear down to the unlively share at the liveness time of its algorithm: never above the reward, never below the floor) is a theorem over the formula, run against the real CalculateTimeDiscountedShareReward for every algorithm and delays around every threshold; and blocks that carry a work share twice, a share an ancestor already carries, or an ancestor as a share must be rejected (area c07); for accounts that do not exist yet, 'the creation fee is withheld at most once - from the first payout that can cover it, smaller ones before it are dropped, every later one is credited in full' and 'never more than the payouts' are theorems over the sequential payout model (C13c), which for accounts that exist is proved equal to the schedule. Claim conditions and amount, claim-once, owner-only, per-tranche accumulation (balance = sum of values over any run of additions) and the undo "
               "record being the old record are Lean theorems over the lockup-ledger model; the two source facts the fixed variant depends on are regenerated; "
               "the model is run against the real AddNewLock / lockup precompile / ReadCoinbaseLockup on a real batch across block boundaries.",
    level_note="PARTIAL: the base reward CalculateQuaiReward / CalculateQiReward and the fee components are read from the real functions (inputs of the split), the "
               "post-KawPow per-algorithm share counts, liveliness / time-discount penalties and the lockup multiplier after two months of blocks are not modelled (the "
               "generated chains stay before those forks). Trusted: Lean kernel, extractor facts, harness.",
    assumptions=["AddNewLock callers pass sender = OneInternal(location) and checked addresses (state processor / worker)"],
)

PROPS["C01"] = dict(
    lean_modules=["QuaiVerif.Props.C01"],
    areas=[dict(name="utxo", n_quick=500, n_thorough=10000, seeds_thorough=3, n_search=2000),
           dict(name="c07", n_quick=2, n_thorough=12, seeds_thorough=2, n_search=6, timeout=3000),
           dict(name="c10", n_quick=3, n_thorough=20, seeds_thorough=2, n_search=6, timeout=3000)],
    facts=["backends_track", "denominations"],
    rule="a case is one block of 1-6 Qi transactions over a UTXO set of 5-30 entries, processed by the real core.ProcessQiTx on one batch in pending mode on "
         "memorydb / leveldb / pebble, with real keys and Schnorr / MuSig2 signatures, each tx passed through the wire encoding first: mostly valid spends plus "
         "same outpoint twice in a tx / in two txs, spending outputs created earlier in the block, non-owner and Quai-ledger keys, locked entries (lock = height-1, "
         "height, height+1), bad denominations and merges, duplicate output addresses, non-zero output lock, conversion / wrapping / mixed data, foreign-zone outputs "
         "with eligible and ineligible slices and exhausted ETX limits, fee below the floor, tiny gas limits, wrong chain id, altered-after-signing, 19/21-byte "
         "addresses, both sides of the wrapping fork and the conversion hold intervals; the final UTXO scan (after batch.Write or after dropping a rejected block) is compared. [c07, shared with C07] real zone chains whose pool is also handed Qi transactions naming one outpoint twice (signed by its key twice): the block the worker assembles must not consume any outpoint twice (read off the block itself) and must pass the node's own validation",
    level_text="'An accepted transaction names pairwise distinct, present, unlocked outpoints owned by the presented keys (signature verified when checked), "
               "outputs <= inputs, fee = difference', 'consumed outpoints are absent afterwards, nothing else changes', 'two transactions accepted on one batch "
               "consume disjoint outpoints' and the value equation inputs = local outputs + sent + converted + fee are Lean theorems over the ProcessQiTx model "
               "(structural induction over the input and output loops); the model is run against the real ProcessQiTx on three backends.",
    level_note="Trusted: Lean kernel; harness; signature validity, the float-based intrinsic gas and the exchange-rate rewards are inputs of the model (computed by the "
               "real functions). Backend independence rests on C17 (all batch types track pending writes - regenerated fact). PARTIAL: mempool validation "
               "(ValidateQiTxInputs / ValidateQiTxOutputsAndSignature) and the worker's assembly-time variant are not yet driven; coinbase / conversion / trimming supply "
               "events are C06/C13 territory. The value equation is proved from the wrapping fork on (before it a wrapped output also created a local UTXO).",
    assumptions=["transaction hashes do not collide with the hashes of outpoints they spend", "batch view = committed store + pending writes (C17)"],
)

PROPS["C02"] = dict(
    lean_modules=["QuaiVerif.Props.C02", "QuaiVerif.Props.C02b", "QuaiVerif.Props.C05"],
    areas=[dict(name="evm", spec_ops=("gasbuy",), n_quick=3000, n_thorough=40000, seeds_thorough=3, n_search=8000)],
    rule="(shared area with C05) the vtree cases: a tree (depth <= 3, up to 12 contracts with random balances) of CALL / CALLCODE with values 0-400, DELEGATECALL, "
         "STATICCALL, ETX emissions, SELFDESTRUCT to any account incl. itself, frames ending in STOP or REVERT, both sides of the self-destruct refund fork, run "
         "either through EVM.Call or as a whole transaction through core.ApplyMessage with gas purchase and refund; every account balance and the emitted ETXs compared",
    level_text="'Sum of balances after + value carried by emitted ETXs + value destroyed = sum before + state-rent refunds credited' is a Lean theorem for every frame "
               "tree (mutual structural induction over the value skeleton), with its corollary 'never more than before plus refunds' and 'a frame that fails or "
               "reaches REVERT restores the entry state exactly'; the skeleton is run against the real interpreter on generated bytecode and the gas charge of "
               "ApplyMessage is checked to lie between gasUsed x price and gasLimit x price.",
    level_note="PARTIAL / trusted: the theorem is about the value skeleton (CanTransfer / Transfer / debit-for-ETX / suicide move / refund / frame revert); that the "
               "interpreter's other opcodes write no balance is established only by the T2 balance comparison. Gas accounting (buyGas / refundGas / intrinsic gas) is "
               "checked by T3 bounds on the real ApplyMessage, not modelled; inbound-ETX execution (value staged on the zero address), CREATE / CREATE2, precompiles and "
               "the lockup contract are not in the generated programs yet.",
    assumptions=["every account a program touches is in the finite universe summed over", "enough gas at every frame (harness budgets)"],
)

PROPS["C15"] = dict(
    lean_modules=["QuaiVerif.Props.C15"],
    areas=[dict(name="mem", n_quick=2500, n_thorough=40000, seeds_thorough=3, n_search=8000),
           dict(name="c08", spec_ops=("seal", "share"), n_quick=40, n_thorough=600, seeds_thorough=2, n_search=300, timeout=3000)],
    facts=["memory_ops"],
    rule="a case is one of: (i) a sequence of 1-4 MSTORE / MSTORE8 / MLOAD at offsets from 0 to 2^64-1 with a gas budget from 0 to 2M, whose final memory size or "
         "out-of-gas verdict is compared with the model; (ii) one of 20 memory-growing opcodes (incl. ETX) with offset / size operands from {0, small, 2^20..2^63, "
         "the last 70 values below 2^64, above 2^64, around 0x1FFFFFFFE0}: peak Memory.Len() seen through the Tracer must be paid for by the gas used and nothing "
         "may panic; (iii) a valid Transaction / Header / WorkObject (each of the 5 views) whose wire message has random sub-sets of fields cleared, byte fields "
         "truncated / extended / emptied, and the encoding truncated / bit-flipped / spliced, decoded under recover()",
    level_text="'If every memory-growing instruction is charged the expansion cost, then memory (in words w) always satisfies 3w + w^2/512 <= gas budget' is a Lean "
               "theorem by induction over any instruction sequence; which opcodes declare a memorySize and whether their dynamic gas reaches memoryGasCost is "
               "regenerated from jump_table.go / eips.go / gas_table.go and decided; the model is run against the real interpreter, which is additionally probed "
               "per opcode at the uint64 boundaries, and the wire decoders are fuzzed structure-aware.",
    level_note="PARTIAL: part (a) of the property (no decoder panics, memory proportional to input) is established by structure-aware fuzzing under recover() only - "
               "there is no Lean model of the decoders; RLP / hexutil / AuxPoW donor parsers / p2p envelopes are not fuzzed yet. Known finding (open): the ETX "
               "opcode declares memoryETX but has no dynamic gas, so its memory expansion is never charged (and a large inSize makes Memory.Resize allocate / abort).",
    assumptions=["constant and state gas of an instruction are independent of memory size"],
)

NOT_APPLICABLE = {}

PROPS["C06"] = dict(
    lean_modules=["QuaiVerif.Props.C06", "QuaiVerif.Props.C06b"],
    areas=[dict(name="c06", n_quick=6, n_thorough=40, seeds_thorough=3, n_search=12, timeout=3000),
           dict(name="snap", n_quick=400, n_thorough=20000, seeds_thorough=3, n_search=3000),
           dict(name="state", n_quick=2000, n_thorough=20000, seeds_thorough=2, n_search=2500, preamble=state_preamble),
           dict(name="lockup", spec_ops=("claim",), n_quick=600, n_thorough=12000, seeds_thorough=2, n_search=2500, preamble=lockup_preamble)],
    rule="a case is one 40-block history of a real zone node (core.Slice, blake3pow, blocks assembled by its own worker and mined by the harness): Quai "
         "transfers, contract deployment and storage writes, Qi spends (1-3 inputs, musig), Quai->Qi conversions, lockup-contract claims incl. reverting "
         "ones through the real tx pool; region blocks at which the harness, playing the dominant chains, hands over inbound ETXs (own coinbase / conversion / "
         "redemption ETXs returning, Quai and Qi coinbases with lock bytes 0-3 plain or to the lockup contract with delegate, conversions both ways, "
         "conversion reverts, transfers from other zones); rescaled horizons so lockups mature, epochs roll and trimming runs; 20% of cases stay in the "
         "pre-TimeToStartTx regime with ETX batches of 40-160. Each block is replayed on a leveldb node with snapshots and address index and on a pebble node "
         "under GOMAXPROCS=1; after every block the 'ut'/'cl' key spaces of all three databases are scanned. Every case non-trivial; distinct by sub-seed. "
         "[snap] a case is a chain of 3-16 blocks over 4 accounts x 3 slots on the real snapshot.Tree (empty generated base): per block accounts destructed, "
         "re-created in the same block, data and slots written / cleared; Cap of the head with 0-3 layers after 45% of the blocks; after every block every root "
         "is read through the real layers and compared with the layer model (T2) and with the content of applying the blocks in order (T3)",
    level_text="'After every well-formed history the commitment is exactly the database content and the set size its cardinality' (invariant by induction over "
               "blocks) and 'the accumulator is insensitive to the order of a block's additions and removals' (permutation invariance) are Lean theorems over "
               "the ledger model; the model is fed each real block's own bookkeeping (undo records) and its predicted set size / consistency is compared with the "
               "header and with an independent scan + MuHash of the database; determinism across backends, GOMAXPROCS and cache warmth is "
               "observed (replicas must accept every block and hold identical ledgers and receipts), not proved - except the flat-state layers: 'reading through "
               "any stack of snapshot diff layers gives the content of applying the blocks in order, and merging layers (flatten, write to disk) changes no read' "
               "are Lean theorems (C06b) over a layer model compared with the real snapshot.Tree on the same block chains.",
    level_note="PARTIAL: determinism over schedules / backends / caches is sampled by the replicas (T3), the theorem covers the accumulator's order-insensitivity only. "
               "Block processing itself (which entries a block creates) is taken from the implementation's undo records; the per-transaction rules are C01/C13. "
               "Protocol horizons are rescaled (params variables) and the harness plays region/prime: dom-side ETX validation is out of scope. Known finding: an "
               "output spent in the block that trims it is removed twice from the commitment (C06_counterexample_spent_and_trimmed).",
    assumptions=["MuHash Add/Remove form an abelian group action with negligible collisions (crypto/multiset is not modelled beyond that)",
                 "a block's undo records (created keys, spent, trimmed, created/deleted lockups) list what Process fed to Finalize"],
)

PROPS["C07"] = dict(
    lean_modules=["QuaiVerif.Props.C07"],
    areas=[dict(name="c07", n_quick=4, n_thorough=40, seeds_thorough=3, n_search=12, timeout=3000)],
    facts=["validate_state_compares", "validate_body_compares", "process_compares", "mirror_worker", "mirror_processor"],
    rule="a case is one 36-block history of the real zone node (see C06) in which every block is assembled by the node's own worker from its tx pool and "
         "inbound ETX queue (30% of cases in the pre-TimeToStartTx regime with ETX backlogs of 40-160 per region block) and must be accepted by the same node; "
         "before 35% of the blocks up to 3 mutants are offered first: one declared result changed (EVM/UTXO/ETX-set root, receipt hash, gas used, state "
         "used, state size, avg/total fees, uncled entropy, outbound ETX hash, tx hash) or one body component changed (tx dropped / duplicated / swapped / "
         "added / value altered, outbound ETX altered / dropped) with body roots recomputed, header hash updated and the block re-sealed with real work; "
         "15% of blocks are appended as a neutral re-sealing (other nonce). After each rejection the whole database is diffed against its image before",
    level_text="'own block validates', 'wrong declared result or altered body is rejected', 'accept iff re-execution yields exactly the declared results' and "
               "'a rejected block leaves the state unchanged' are Lean theorems for every execution function (the worker and the validator are modelled as "
               "running the same one); T1 regenerates the table of header fields compared in ValidateBody / ValidateState / Process and a theorem checks it "
               "covers every declared result; the claim that both sides really run the same execution is what area c07 tests on real blocks and mutants.",
    level_note="PARTIAL: that worker (core/worker.go) and validator (core/state_processor.go) implement the same execution function is established by "
               "differential testing of whole blocks, not by proof - the two are separate 3000-line implementations; the per-transaction rules they share are "
               "proved in C01/C05/C13. 'No trace' is checked on every key space except block storage (header, body, termini, manifest, inbound-ETX record "
               "of the rejected hash), which the node keeps for any block it has seen.",
    assumptions=["the execution function is deterministic (C06)", "mutants are re-sealed by the harness: sealing (C08) is not in question here"],
)

PROPS["C10"] = dict(
    lean_modules=["QuaiVerif.Props.C10"],
    areas=[dict(name="c10", n_quick=6, n_thorough=40, seeds_thorough=3, n_search=12, timeout=3000)],
    facts=["rollback_writes"],
    rule="a case is one fork scenario on real zone nodes: node X builds a common prefix of 8-17 blocks and branch A (1-5 blocks); node Y (fresh database) "
         "replays the prefix and builds branch B (1-5 blocks) with independent activity (spends of pre-fork outputs, outputs created and spent on the same "
         "branch, trimming, coinbase lockup creation / accumulation / claims, conversions); B is handed to X as side blocks, X is switched to B's tip by the "
         "real SetCurrentHeader, extends B with 0-3 blocks of its own (pool re-injected A's transactions, so same-block create-and-spend occurs), and is "
         "switched back to A and forth again up to 3 more times; half the cases run with the address index on. After every switch X's 'ut', 'cl', address "
         "index, canonical number->hash map and head pointers are compared with a node that only ever followed the winning branch",
    level_text="'rollback inverts a block / a segment', 'a reorg equals following the new branch from the common ancestor', 'switching back restores the "
               "original state' and 'no residue per key' are Lean theorems over the ledger + undo-record model for all branch pairs and block contents that block "
               "processing can produce (per-key invariant by induction over a block's actions); the order of the rollback writes is regenerated from "
               "SetCurrentHeader and must equal the modelled one; the model, fed the real blocks' actions, must reach the same ledger digest as the real "
               "node after every block, rollback and switch.",
    level_note="Modelled not verified: how Process derives a block's actions (C01/C13) - they are read from the block's undo records; the address index and "
               "canonical map are compared between nodes (T3) but not modelled. The theorem's hypothesis 'no lockup record is re-created after being deleted in "
               "the same block' holds in the code because inbound ETXs precede transactions in a block the worker builds; a block that violated it "
               "(C10_counterexample_recreate_after_delete) is not constructible without foreign block assembly and was not exercised.",
    assumptions=["outpoints are unique (tx / ETX hashes do not repeat)", "a block's trimming pass only touches outputs created by an older block"],
)

PROPS["C11"] = dict(
    lean_modules=["QuaiVerif.Props.C11"],
    areas=[dict(name="c11", n_quick=2, n_thorough=20, seeds_thorough=3, n_search=6, timeout=3000)],
    facts=["append_batch_writes_head", "rollback_writes"],
    rule="a case is one 10-17 block history of the real zone node over a recording key-value store, then 2-4 further block appends and one switch to a "
         "1-3 block branch built by a second node; while each of these runs every write reaching the store is recorded in order (a direct put / delete is "
         "one step, a committed batch one atomic step: trie-node and code commits, canonical hash, the block batch, head pointer, header / body / termini "
         "writes). For every prefix of the recorded steps (all prefixes for the first append and the first case's reorg, a 25% sample plus the full "
         "schedule otherwise) a fresh node is opened on 'image before + prefix' and must open, report a head whose state opens and whose 'ut'/'cl' scan is "
         "exactly what its header commits to, and complete the interrupted append / switch ending in the ledger and head of the node that did not crash",
    level_text="'Every prefix of a schedule in which each ledger batch carries the head pointer leaves a consistent database', for chains of appends and for "
               "any reorganisation, and 'the interrupted append can be completed from every crash point' are Lean theorems over the write-schedule model "
               "(induction over the schedule); that the current source puts the head pointer into BodyDb.Append's batch and into the rollback batch is "
               "regenerated from source; the harness classifies the recorded real steps in the model's terms and restarts a real node on every prefix.",
    level_note="Assumed, not verified: a committed batch is atomic and writes reach the store in program order (true of leveldb / pebble WAL semantics; OS / "
               "disk reordering and torn batches are outside the model and the harness). The classification of recorded steps (stepClass) is trusted. The trie "
               "database's own dirty-node cache is exercised but not modelled. Fixed defect: the head pointer used to be written after the block batch.",
    assumptions=["batch commits are atomic and ordered with direct writes", "state tries are content addressed: an extra trie node never hurts"],
)

PROPS["C09"] = dict(
    lean_modules=["QuaiVerif.Props.C09"],
    areas=[dict(name="c09", spec_ops=("diff", "limit", "order", "total", "delta", "basefee", "flow"), n_quick=4, n_thorough=60, seeds_thorough=3, n_search=12, timeout=3000)],
    facts=["verify_header_compares"],
    rule="a case is one 30-block history of the real zone node (see C06) with miner-chosen block times of 0-3 s (10%: up to 39 s) and zone / region blocks; for "
         "every block the model's CalcDifficulty, gas / state limit ramp, TotalLogEntropy, DeltaLogEntropy and CalcOrder are evaluated on the real header "
         "fields and compared with the real functions, and the chain accumulator of the model must reproduce TotalLogEntropy block after block; the block "
         "must pass VerifyHeader, its entropy must exceed its parent's, order / entropy must be identical on 3 repeated calls and on a second node that "
         "computes them cold; before 40% of the blocks 4 single-field deviations (number, time, difficulty, limits, base fee, prime terminus, expansion, "
         "entropy fields, location, lock byte, data, gas used) of the valid block are offered to VerifyHeader and must be refused",
    level_text="'accumulated entropy grows by exactly the block's own entropy whatever its order' (invariant over chains of zone / region / prime blocks), "
               "'it strictly increases along every chain', 'a valid seal at difficulty >= 2 has positive entropy', difficulty floor / steady state / "
               "monotonicity in block time and the limit ramp are Lean theorems; the regenerated list of fields compared in verifyHeader must cover every "
               "derived field; all formulas are run against the real functions on real headers.",
    level_note="PARTIAL: base fee (QiToQuai of the fee floor, C20's model), share-difficulty fields after the KawPow fork (CalculatePowDiffAndCount, share "
               "targets; core/headerchain_test.go covers their tables) and workshare entropy with uncles are not modelled - the chains here are pre-fork and "
               "uncle-free. The region / prime parts of the header are supplied by the harness playing those chains; the zone cannot check them. The "
               "mantissa of the binary logarithm (modernc mathutil) is opaque: entropy values are inputs of the model.",
    assumptions=["the dominant chains record their own running totals correctly (parentEntropy / parentDeltaEntropy of region and prime context)"],
)

PROPS["C08"] = dict(
    lean_modules=["QuaiVerif.Props.C08"],
    areas=[dict(name="c08", spec_ops=("seal", "share"), n_quick=40, n_thorough=1500, seeds_thorough=3, n_search=300, timeout=3000)],
    facts=["wo_header_fields", "wo_seal_keys", "wo_seal_keys_conditional", "header_fields", "header_seal_keys", "validate_body_compares"],
    rule="a case is one random sealed-header object: 12 (proof-of-work hash, difficulty) pairs through the real HeaderChain.VerifySeal (blake3pow) and "
         "CheckWorkThreshold - difficulties 0, -1, 1, 2, 3, 2^255, 2^256-1, 2^256, 2^256+1, 2^300, random 1-24 bit values, one really mined header - "
         "then every setter of WorkObjectHeader (except nonce / mix hash / AuxPoW) and of the body Header applied to a copy: if the encoding changes the "
         "seal hash resp. header hash must change; per run 2 (thorough: 12) KAWPOW nonce triples (n, n with a high bit flipped, n with a low bit flipped) "
         "through ComputePowLight against the cache-free share verifier; once per run, on a real region chain, a header carrying the AuxPoW proof made for "
         "another header (prime terminus = activation block, +1, later) through VerifyHeader",
    level_text="'accepted seal <=> hash <= floor(2^256 / difficulty)' with 'hash * difficulty <= 2^256', monotonicity in difficulty, the boundary values and "
               "'a seal is a work share' are Lean theorems; 'the seal pre-image covers every consensus field of the sealed header', 'the contained header hash "
               "covers every field of the body header' and 'ValidateBody ties the roots to the body' are theorems over tables regenerated from SealEncode, the "
               "struct definitions and ValidateBody; the arithmetic is run against the real functions on real hashes.",
    level_note="PARTIAL: of the AuxPoW acceptance rules only the first - the donor coinbase commits to this header's seal hash - is exercised on real code "
               "(a header carrying the donor proof made for another header must be refused on a real region chain, at the activation block and after); the "
               "merkle branch and the template signature are not: building donor headers with valid template signatures needs the signing keys; those rules "
               "are covered only by the T1 table (SealHash / MerkleRoot / VerifySignature appear among verifyHeader's rejecting comparisons, see C09's fact). Collision resistance of "
               "blake3 / keccak and the KAWPOW / ProgPoW kernels themselves are trusted; only the caching around KAWPOW is tested.",
    assumptions=["the hash functions are collision resistant", "protobuf encoding of the seal pre-image is injective on its fields (C14)"],
)

PROPS["C19"] = dict(
    lean_modules=["QuaiVerif.Props.C19"],
    areas=[dict(name="c19", n_quick=20, n_thorough=150, seeds_thorough=3, n_search=60, timeout=3000, confirm_diff=True)],
    rule="a case is one history of 12-36 operations on the real core.TxPool over a scripted chain (real StateDB and blocks, harness-driven head feed, 1 ms "
         "reorg tick): submissions for 3 accounts - next nonce, gaps of 1-3, same-nonce replacements priced at old, old+1, 105% -1 / exactly / +1 and 200%, "
         "stale nonces, unaffordable values, resubmissions of earlier transactions - blocks that include a prefix of the accounts' pending lists with "
         "balance changes, and reorgs to a longer sibling branch that includes none of them (re-injection) with balance changes; after every operation the "
         "pool settles and each account's (pending, queued) lists are compared with the model and the invariants are checked on Content / Stats / Get; "
         "every fifth case floods a pool with limits 4/12/3/8 from 4 goroutines (AddRemotes / AddLocal, 240 transactions over 5 accounts, nonces 0-13) while "
         "6 blocks arrive, then checks invariants, limits and termination",
    level_text="'every reachable per-account state has a pending list that is nonce-contiguous from the state nonce' (induction over histories of submissions "
               "and head changes), 'after a head change every pending transaction is affordable and not stale', the replacement rule (strictly higher price "
               "and the configured bump, else rejected; ok means the nonce was free) 'no nonce is held twice, so nothing is both pending and queued' (counting invariant through add / promote / re-injection / demotion) and 'a rejected submission changes nothing' are Lean theorems over "
               "the per-account pool model (add / promote / reset with re-injection / demotion); the model runs in lock-step with the real pool.",
    level_note="PARTIAL: proofs cover the sequential per-account core. Not modelled: the global limits and price-based eviction (truncatePending / "
               "truncateQueue / priced heap; checked on the real pool only), lifetime eviction, the journal, the Qi pool, gas-price changes, and - the "
               "property's 'any interleaving' - concurrency: the flood cases and the race detector (thorough tier builds the harness with -race when "
               "VERIF_RACE=1) sample schedules, they do not cover them. Index = lists = stats is checked on the real pool at every quiescent point, not proved. Quiescence is detected by polling (7 identical snapshots 3 ms apart); a promotion the pool has not carried out yet (pending a strict prefix of the executable run - the reorg tick only re-examines accounts marked dirty) is masked in the comparison, anything else is compared exactly; a model disagreement without an invariant violation is re-run before it is reported.",
    assumptions=["accounts are independent in the pool (per-account lists; the global limits are out of the model)",
                 "a transaction's validity against the state is nonce >= state nonce and cost <= balance (gas limit and base-fee floor are kept satisfied by the generator)"],
)


# ---- additions of rounds 4-7 to the case rules (appended here so that the long rule texts above stay as they were written) ----
EXTRA_RULES = {
    "C01": "Further: change outputs go back to the wallet's own keys and later transactions of the block prefer outputs created earlier in it; every "
           "disk-backed case is shadowed by an in-memory engine fed the same UTXOs and transactions (verdict and fee must agree); amounts are valued with a "
           "start-up copy of the denomination table. [c10, shared with C10] after every reorganisation the value of the unspent outputs equals that of a node "
           "that only followed the winning branch.",
    "C02": "Further: whole transactions with gas prices up to 2^256-1 (op gasbuy against the Gas model: verdict, payer balance, recipient gain); a contract "
           "that self-destructs, is paid again and self-destructs again within one transaction; a creation transaction (constructor sends an ETX and ends in "
           "any way, incl. code-store out of gas) followed by a transfer on the same EVM - each transaction must account for its own ETXs; value-tree cases "
           "in which the last self-destruct pays an account destroyed earlier in the transaction, and the second transaction then pays that account.",
    "C03": "Further: recipient none <-> zone zero address, last data byte, access-list storage keys among the payload mutations; recovery ids congruent to the "
           "genuine one modulo 2^8 / 2^32 / 2^56 and beyond 64 bits; in the utxo area any signed part of a Qi transaction (addresses, denominations, each data "
           "byte) is altered after signing.",
    "C04": "Further: op commit - the commitment to an ETX list (1-300 entries, boundary sizes 126-131 / 254-259) against the Lean trie root of {rlp(i) -> entry}, "
           "with single-entry replacement / removal at the boundary positions; queues of any zone. [c04h] every zone-order block has a competitor: the "
           "pending header on the same parent sealed by a second miner (another coinbase, before the users act) and appended after the block the history "
           "continues with; two runs of five zone-order blocks per case make manifests of three and more entries; after every block the manifest the zone "
           "reports (Slice.GetManifest) for the block and for its parent must end with that block and be a chain of parents; the delivery oracles stay as "
           "they were - nothing a competitor emitted may arrive, nothing of the accepted block may be lost.",
    "C05": "Further: gas-limit words beyond 64 bits with a valid low part; creations ending in code-store out of gas (known finding); [lockup, shared] a "
           "completed claim is not undone by a later reverting frame; every fourth case also runs one transaction in which an owner contract makes 2-5 "
           "calls to the lockup contract about its wrapped Qi - unwraps below / at / above what is left (40%: two unwraps that each fit the starting balance "
           "and together exceed it), claims of deposits present or not - op wrapped against the Wrapped model (status of every call, balance, deposit slots, "
           "ETX values) and T3 balance + deposits + emitted value unchanged.",
    "C06": "Further: [lockup, shared] the lockup ledger on leveldb / pebble / memorydb, a record restored by a revert is the committed one; [state, shared with "
           "C12] both executions of a case start from one shared parent state-size object, as they do from a cached parent header: the object must be left "
           "as it was and both runs must end with the same state size.",
    "C07": "Further (T1): the argument lists of vm.AddNewLock / AddBalance in worker.go commitTransaction and state_processor.go Process, normalised, must be "
           "the same list (fact Mirror). In the c07 area three senders regularly submit a transfer at 6x, a transfer at 5x and a creation "
           "whose constructor reverts at 4x the base fee (the rest pays 3x); whenever a block lists a dearer transaction directly before a cheaper one of "
           "another sender the two are exchanged, with transaction root and receipts (cumulative gas) recomputed honestly - preferring a pair whose cheaper "
           "transaction failed - and the block must be rejected.",
    "C08": "Further, once per run: a merge-mined share whose donor header carries a foreign mix digest on a chain built with the real KAWPOW engine (must be "
           "classified Invalid); per case: two AuxPoW proofs that differ in one donor header field must not give the same signed template message (low version "
           "bits exempt for the SHA chains only), and every prefix of the donor coinbase goes through ConvertToTemplate().VerifySignature() without a crash.",
    "C09": "Further: 35 single-field deviations (numbers + 2^64, future / top-bit / maximal times, extra data, limits, foreign-zone coinbase / lockup contract "
           "/ beneficiary); the two limit rules also on copies of a parent with any height and limit (zero or not).",
    "C10": "Further: blocks nobody asks anything of (no user activity, zone order, Quai coinbase) on the abandoned branch, so that some of them only trim.",
    "C11": "Further: the chain is extended until a block that trims has been crash-tested; every other history deploys and calls a contract whose receipt "
           "carries a 110000-byte log (write batch above 100 KiB), such blocks are tested at every prefix; after every recovery the restarted node must also "
           "accept the next block of the chain, built beforehand on the node that did not crash.",
    "C12": "Further: transaction ends (Finalize) between frames - accounts deleted by an earlier transaction are preferred afterwards; [evm, shared] a "
           "value-carrying call to a precompile that refuses its input leaves no trace; [lockup, shared] whole-ledger comparison around reverted claims.",
    "C13": "Further: the lockup ledger lives on one of the three storage engines; unlock heights exactly on epoch boundaries; reward -> claim -> read and "
           "reverted claim -> claim sequences on one tranche; per-transaction claim bookkeeping is reset at every reward (EVM.Reset).",
    "C14": "Further: receipts in storage form (logs, topics, outbound ETXs; failed ones too) through proto and rawdb, pending-ETX roll-ups, termini, whole "
           "blocks; post-fork headers with a donor proof of each of the four algorithms; input keys reused across cases and negated (same X, other Y).",
    "C15": "Further: data-reading opcodes with any source offset (bytes delivered vs the zero-padded window); MCOPY enabled (block height past the opcode fork) "
           "with one far end; empty ranges at far offsets for every opcode that copies out of memory; [c08, shared] truncated donor coinbases.",
    "C16": "Further: op filter - Transactions.FilterToSub over a 3 x 3 hierarchy against keepForSub; [sign, shared] the sender of one transaction asked for by "
           "signers of four locations in random order; [etxq, shared] ETXs popped in any zone are classified for that zone.",
    "C17": "Further: compact (well-formed ranges; content compared by the following operations) once in about 400 operations, and the script put / put / "
           "batch delete / write / reset / compact / get / has / iter.",
    "C18": "Further: trieGC - blocks committed into one node store with Reference / Dereference / Cap / Commit and repeated roots; trieRange - range proofs of "
           "contiguous runs, deviations, zero-element proofs at stored and absent keys.",
    "C19": "Further, with every flood case: two local-account scenarios (NoLocals off; peer-delivered replacements, price-floor raises) and five pending-limit "
           "scenarios (AccountSlots 1-3, GlobalSlots 2-8 or just enough, runs of consecutive transactions from 2-4 accounts, a block that advances one list, a "
           "further run); directed replacements of queued transactions beyond a gap; reorganisations where the oldest abandoned transaction is unaffordable; "
           "a 90 s / 60 s watchdog around every case.",
    "C20": "Further: op vol - ComputeConversionAmountInQuai on headers whose miner difficulty differs from their difficulty; [c13chain] a refund-only account for "
           "reverted Quai->Qi conversions carrying 0-40 bytes of data, refused Qi->Quai conversions addressed to the conversion-only account; oracles classify "
           "ETXs by their type field, not with the code's predicates.",
}
for _k, _v in EXTRA_RULES.items():
    PROPS[_k]["rule"] = PROPS[_k]["rule"].rstrip() + ". " + _v
