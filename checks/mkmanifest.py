#!/usr/bin/env python3
# Regenerates /verif/MANIFEST.json from checks/props.py (claimed properties) — run after editing props.py.
import json, os, sys, subprocess
ROOT = os.path.dirname(os.path.dirname(os.path.abspath(__file__)))
sys.path.insert(0, os.path.join(ROOT, "checks"))
from props import PROPS, NOT_APPLICABLE
base = json.load(open("/root/.vp/BASELINE.json"))
ids = [json.loads(l)["id"] for l in open(os.path.join(ROOT, "properties.jsonl"))]
hooks = []
try:
    out = subprocess.run(["git", "-C", "/repo", "log", "--format=%H %s"], capture_output=True, text=True).stdout
    hooks = [l.split()[0] for l in out.splitlines() if l.split(" ", 1)[1].startswith("verif hook:")]
except Exception:
    pass
checks = []
for pid in ids:
    if pid not in PROPS:
        continue
    c = PROPS[pid]
    checks.append(dict(
        property_id=pid,
        quick_cmd=f"./check {pid} --tier quick",
        thorough_cmd=f"./check {pid} --tier thorough",
        evidence_file=f"evidence/{pid}.json",
        replay_cmd_template=f"./check {pid} --replay {{path}}",
        engine="lean4+qvh",
        level_claimed=dict(category="proof", text=c["level_text"], design_ref=c.get("design_ref", f"DESIGN.md §4 {pid}")),
        level_note=c["level_note"],
        technique=c.get("technique", "Lean 4 theorems over an executable model; model tied to /repo by regenerated facts (T1) and model/implementation correspondence (T2)"),
    ))
na = [dict(property_id=p, reason=NOT_APPLICABLE.get(p, "not yet claimed: model and correspondence for this property are not built yet (see DESIGN.md §8 status)")) for p in ids if p not in PROPS]
m = dict(
    version=1,
    setup_cmd="./setup.sh",
    hooks=dict(guard="verif", enable="go build -tags verif (the harness module go/ is built with -tags verif against /repo via a replace directive)",
               baseline_off_cmd=base["cmd"], source_commits=hooks, add_only=True),
    engines=[dict(name="lean4+qvh", path="check", serves_properties=[c["property_id"] for c in checks],
                  kind_free_text="Lean 4 proofs (lean/QuaiVerif/Props) + Go AST translator (go/cmd/extract) + in-process correspondence harness (go/cmd/qvh) against compiled Lean model driver (qvdriver)")],
    checks=checks,
    not_applicable=na,
    notes="All checks are ./check <id>; see DESIGN.md. Evidence level is 'proof' with the correspondence statistics as extra coverage keys.",
)
json.dump(m, open(os.path.join(ROOT, "MANIFEST.json"), "w"), indent=1)
print("claimed:", [c["property_id"] for c in checks], "not claimed:", [n["property_id"] for n in na])
