import QuaiVerif.Driver.KV
import QuaiVerif.Driver.Addr
import QuaiVerif.Driver.State
import QuaiVerif.Driver.Evm
import QuaiVerif.Driver.Codec
import QuaiVerif.Driver.Sign
import QuaiVerif.Driver.Trie
import QuaiVerif.Driver.EtxQ
import QuaiVerif.Driver.Snap
import QuaiVerif.Driver.Conv
import QuaiVerif.Driver.Lockup
import QuaiVerif.Driver.Utxo
import QuaiVerif.Driver.Mem
import QuaiVerif.Driver.Ledger
import QuaiVerif.Driver.Validate
import QuaiVerif.Driver.Reorg
import QuaiVerif.Driver.Crash
import QuaiVerif.Driver.HeaderRules
import QuaiVerif.Driver.Seal
import QuaiVerif.Driver.Pool
import QuaiVerif.Driver.Payout
import QuaiVerif.Driver.Route
/- qvdriver: `qvdriver <area>` reads protocol lines on stdin, answers one line per line. -/
open QuaiVerif

def main (args : List String) : IO UInt32 := do
  let stdin ← IO.getStdin
  let stdout ← IO.getStdout
  match args with
  | ["kv"] => ioLoop KV.step stdin stdout {}; return 0
  | ["state"] => ioLoop State.step stdin stdout {}; return 0
  | ["evm"] => ioLoop Etx.step stdin stdout (); return 0
  | ["codec"] => ioLoop Proto.step stdin stdout (); return 0
  | ["sign"] => ioLoop Sign.step stdin stdout {}; return 0
  | ["trie"] => ioLoop Trie.step stdin stdout {}; return 0
  | ["etxq"] => ioLoop EtxQueue.step stdin stdout {}; return 0
  | ["snap"] => ioLoop Snap.step stdin stdout {}; return 0
  | ["conv"] => ioLoop Convert.step stdin stdout (); return 0
  | ["lockup"] => ioLoop Lockup.step stdin stdout {}; return 0
  | ["utxo"] => ioLoop Utxo.step stdin stdout {}; return 0
  | ["mem"] => ioLoop Mem.step' stdin stdout (); return 0
  | ["c11"] => ioLoop Crash.step stdin stdout (); return 0
  | ["c13chain"] => ioLoop Payout.step stdin stdout {}; return 0
  | ["c04h"] => ioLoop Route.dstep stdin stdout Route.init; return 0
  | ["c19"] => ioLoop Pool.step stdin stdout {}; return 0
  | ["c08"] => ioLoop Seal.step stdin stdout (); return 0
  | ["c09"] => ioLoop HeaderRules.step stdin stdout HeaderRules.Acc.genesis; return 0
  | ["c10"] => ioLoop Reorg.step stdin stdout {}; return 0
  | ["c07"] => ioLoop Validate.step stdin stdout {}; return 0
  | ["c06"] => ioLoop Ledger.step stdin stdout {}; return 0
  | ["addr"] => ioLoop Addr.step stdin stdout {}; return 0
  | _ => IO.eprintln "usage: qvdriver <area>"; return 2
