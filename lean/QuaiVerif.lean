-- Root of the QuaiVerif library: models (core-only), regenerated facts, property theorems.
import QuaiVerif.Base.Util
import QuaiVerif.Model.KV
