import QuaiVerif.Base.Util
/- RLP encoding of byte strings and lists (rlp/encode.go), executable; core only. -/
namespace QuaiVerif.RLP

def beBytes (n : Nat) : Bytes :=
  if h : n = 0 then [] else beBytes (n / 256) ++ [n % 256]
termination_by n
decreasing_by omega

def encodeLen (offset : Nat) (len : Nat) : Bytes :=
  if len < 56 then [offset + len]
  else let l := beBytes len; (offset + 55 + l.length) :: l

/-- RLP of a byte string -/
def encodeBytes (b : Bytes) : Bytes :=
  match b with
  | [x] => if x < 128 then [x] else encodeLen 128 1 ++ b
  | _ => encodeLen 128 b.length ++ b

/-- RLP of a list whose items are already encoded -/
def encodeList (items : List Bytes) : Bytes :=
  let payload := items.flatten
  encodeLen 192 payload.length ++ payload

/-- RLP of an unsigned integer (big-endian, no leading zeros) -/
def encodeNat (n : Nat) : Bytes := encodeBytes (beBytes n)

end QuaiVerif.RLP
