/-
Base utilities shared by all models and the line-protocol driver (core Lean only).
Byte strings are `List Nat` (each element < 256 when produced by `unhex`); theorems never need the
bound, so models are stated over arbitrary `List Nat`.
-/
namespace QuaiVerif

abbrev Bytes := List Nat

def hexVal (c : Char) : Option Nat :=
  if '0' ≤ c ∧ c ≤ '9' then some (c.toNat - '0'.toNat)
  else if 'a' ≤ c ∧ c ≤ 'f' then some (c.toNat - 'a'.toNat + 10)
  else if 'A' ≤ c ∧ c ≤ 'F' then some (c.toNat - 'A'.toNat + 10)
  else none

def unhexChars : List Char → Option Bytes
  | [] => some []
  | [_] => none
  | a :: b :: t => do
      let x ← hexVal a
      let y ← hexVal b
      let r ← unhexChars t
      pure ((x * 16 + y) :: r)

/-- `-` denotes the empty byte string (so that every field is a non-empty token). -/
def unhex (s : String) : Option Bytes :=
  if s = "-" then some [] else unhexChars s.toList

def hexDigit (n : Nat) : Char :=
  if n < 10 then Char.ofNat (n + '0'.toNat) else Char.ofNat (n - 10 + 'a'.toNat)

def hex (b : Bytes) : String :=
  if b.isEmpty then "-" else
  String.ofList (b.foldr (fun x acc => hexDigit (x / 16 % 16) :: hexDigit (x % 16) :: acc) [])

def words (line : String) : List String :=
  (line.trimAscii.toString.splitOn " ").filter (· ≠ "")

/-- Generic streaming loop of the line protocol: one input line, one output line. -/
partial def ioLoop {σ : Type} (step : σ → List String → σ × String) (h : IO.FS.Stream)
    (out : IO.FS.Stream) (s : σ) : IO Unit := do
  let line ← h.getLine
  if line.isEmpty then
    out.flush
    return ()
  let ws := words line
  if ws.isEmpty then ioLoop step h out s
  else
    let (s', o) := step s ws
    out.putStrLn o
    ioLoop step h out s'

def natOfBytesBE (b : Bytes) : Nat := b.foldl (fun acc x => acc * 256 + x) 0

def bytesOfNatBE : Nat → Nat → Bytes   -- fixed width, big-endian
  | 0, _ => []
  | w + 1, n => bytesOfNatBE w (n / 256) ++ [n % 256]

end QuaiVerif
