import QuaiVerif.Base.Util
/-
Executable keccak-256 (the legacy-padding variant used by Ethereum / go-quai's crypto.Keccak256), so
that the driver can print byte-identical roots and hashes. No theorem depends on its internals:
hash functions enter theorems only as abstract injective functions.
-/
namespace QuaiVerif.Keccak

def rc : Array UInt64 := #[
  0x0000000000000001, 0x0000000000008082, 0x800000000000808A, 0x8000000080008000,
  0x000000000000808B, 0x0000000080000001, 0x8000000080008081, 0x8000000000008009,
  0x000000000000008A, 0x0000000000000088, 0x0000000080008009, 0x000000008000000A,
  0x000000008000808B, 0x800000000000008B, 0x8000000000008089, 0x8000000000008003,
  0x8000000000008002, 0x8000000000000080, 0x000000000000800A, 0x800000008000000A,
  0x8000000080008081, 0x8000000000008080, 0x0000000080000001, 0x8000000080008008]

def rotc : Array UInt64 := #[1, 3, 6, 10, 15, 21, 28, 36, 45, 55, 2, 14, 27, 41, 56, 8, 25, 43, 62, 18, 39, 61, 20, 44]
def piln : Array Nat := #[10, 7, 11, 17, 18, 3, 5, 16, 8, 21, 24, 4, 15, 23, 19, 13, 12, 2, 20, 14, 22, 9, 6, 1]

def rotl (x : UInt64) (n : UInt64) : UInt64 := (x <<< n) ||| (x >>> (64 - n))

def round (st : Array UInt64) (r : Nat) : Array UInt64 := Id.run do
  let mut st := st
  -- theta
  let mut bc : Array UInt64 := Array.replicate 5 0
  for i in [0:5] do
    bc := bc.set! i (st[i]! ^^^ st[i + 5]! ^^^ st[i + 10]! ^^^ st[i + 15]! ^^^ st[i + 20]!)
  for i in [0:5] do
    let t := bc[(i + 4) % 5]! ^^^ rotl bc[(i + 1) % 5]! 1
    for j in [0:5] do
      st := st.set! (j * 5 + i) (st[j * 5 + i]! ^^^ t)
  -- rho pi
  let mut t := st[1]!
  for i in [0:24] do
    let j := piln[i]!
    let b := st[j]!
    st := st.set! j (rotl t rotc[i]!)
    t := b
  -- chi
  for j in [0:5] do
    let row := #[st[j * 5]!, st[j * 5 + 1]!, st[j * 5 + 2]!, st[j * 5 + 3]!, st[j * 5 + 4]!]
    for i in [0:5] do
      st := st.set! (j * 5 + i) (row[i]! ^^^ ((~~~ row[(i + 1) % 5]!) &&& row[(i + 2) % 5]!))
  -- iota
  st := st.set! 0 (st[0]! ^^^ rc[r]!)
  return st

def keccakF (st : Array UInt64) : Array UInt64 := Id.run do
  let mut st := st
  for r in [0:24] do
    st := round st r
  return st

def absorbBlock (st : Array UInt64) (blk : Array UInt8) : Array UInt64 := Id.run do
  let mut st := st
  for i in [0:17] do   -- 136 / 8 lanes
    let mut lane : UInt64 := 0
    for j in [0:8] do
      lane := lane ||| ((blk[i * 8 + j]!).toUInt64 <<< (8 * j).toUInt64)
    st := st.set! i (st[i]! ^^^ lane)
  return keccakF st

def keccak256Arr (input : Array UInt8) : Array UInt8 := Id.run do
  let rate := 136
  let mut st : Array UInt64 := Array.replicate 25 0
  let n := input.size
  let full := n / rate
  for b in [0:full] do
    st := absorbBlock st (input.extract (b * rate) ((b + 1) * rate))
  -- last block with padding 0x01 .. 0x80
  let rem := input.extract (full * rate) n
  let mut last : Array UInt8 := rem ++ Array.replicate (rate - rem.size) 0
  last := last.set! rem.size (last[rem.size]! ||| 0x01)
  last := last.set! (rate - 1) (last[rate - 1]! ||| 0x80)
  st := absorbBlock st last
  let mut out : Array UInt8 := Array.mkEmpty 32
  for i in [0:4] do
    for j in [0:8] do
      out := out.push ((st[i]! >>> (8 * j).toUInt64) &&& 0xff).toUInt8
  return out

def keccak256 (b : Bytes) : Bytes :=
  (keccak256Arr (b.map (fun x => x.toUInt8)).toArray).toList.map (fun x => x.toNat)

end QuaiVerif.Keccak
