import QuaiVerif.Model.Reorg
/- Helper lemmas for C10: closed forms of the rollback folds and the per-key invariants of block processing. -/
namespace QuaiVerif.Reorg

def lastFor (k : K) : List (K × V) → Option V
  | [] => none
  | kv :: t => match lastFor k t with
    | some w => some w
    | none => if kv.1 = k then some kv.2 else none

def firstFor (k : K) : List (K × V) → Option V
  | [] => none
  | kv :: t => if kv.1 = k then some kv.2 else firstFor k t

theorem foldl_put (l : List (K × V)) (m : M) (k : K) :
    (l.foldl (fun m kv => put m kv.1 kv.2) m) k = match lastFor k l with | some w => some w | none => m k := by
  induction l generalizing m with
  | nil => rfl
  | cons kv t ih =>
    simp only [List.foldl, ih, lastFor]
    cases lastFor k t with
    | some w => rfl
    | none =>
      simp only [put]
      by_cases h : kv.1 = k
      · simp [h]
      · have : ¬ k = kv.1 := fun e => h e.symm
        simp [h, this]

theorem foldl_del (l : List K) (m : M) (k : K) : (l.foldl del m) k = if k ∈ l then none else m k := by
  induction l generalizing m with
  | nil => simp
  | cons a t ih =>
    simp only [List.foldl, ih, del, List.mem_cons]
    by_cases h1 : k ∈ t
    · simp [h1]
    · by_cases h2 : k = a <;> simp [h1, h2]

theorem lastFor_append (k : K) (a b : List (K × V)) :
    lastFor k (a ++ b) = match lastFor k b with | some w => some w | none => lastFor k a := by
  induction a with
  | nil => simp [lastFor]; cases lastFor k b <;> rfl
  | cons kv t ih =>
    simp only [List.cons_append, lastFor, ih]
    cases lastFor k b with
    | some w => rfl
    | none => rfl

theorem lastFor_reverse (k : K) (l : List (K × V)) : lastFor k l.reverse = firstFor k l := by
  induction l with
  | nil => rfl
  | cons kv t ih =>
    simp only [List.reverse_cons, lastFor_append, lastFor, firstFor, ih]
    by_cases h : kv.1 = k <;> simp [h]

theorem lastFor_mem {k : K} {l : List (K × V)} {w : V} (h : lastFor k l = some w) : (k, w) ∈ l := by
  induction l with
  | nil => simp [lastFor] at h
  | cons kv t ih =>
    simp only [lastFor] at h
    cases ht : lastFor k t with
    | some w' =>
      simp [ht] at h; subst h
      exact List.mem_cons_of_mem _ (ih ht)
    | none =>
      simp [ht] at h
      obtain ⟨h1, h2⟩ := h
      have : kv = (k, w) := by cases kv; simp_all
      simp [this]

theorem lastFor_none {k : K} {l : List (K × V)} (h : lastFor k l = none) : k ∉ keys l := by
  induction l with
  | nil => simp [keys]
  | cons kv t ih =>
    simp only [lastFor] at h
    cases ht : lastFor k t with
    | some w' => simp [ht] at h
    | none =>
      simp [ht] at h
      simp only [keys, List.map_cons, List.mem_cons, not_or]
      exact ⟨fun e => h e.symm, ih ht⟩

theorem firstFor_none {k : K} {l : List (K × V)} (h : firstFor k l = none) : k ∉ keys l := by
  induction l with
  | nil => simp [keys]
  | cons kv t ih =>
    simp only [firstFor] at h
    by_cases e : kv.1 = k
    · simp [e] at h
    · simp [e] at h
      simp only [keys, List.map_cons, List.mem_cons, not_or]
      exact ⟨fun e' => e e'.symm, ih h⟩

theorem firstFor_append (k : K) (a b : List (K × V)) :
    firstFor k (a ++ b) = match firstFor k a with | some w => some w | none => firstFor k b := by
  induction a with
  | nil => simp [firstFor]
  | cons kv t ih =>
    simp only [List.cons_append, firstFor, ih]
    by_cases h : kv.1 = k <;> simp [h]

theorem mem_keys {k : K} {v : V} {l : List (K × V)} (h : (k, v) ∈ l) : k ∈ keys l :=
  List.mem_map.mpr ⟨(k, v), h, rfl⟩

theorem keys_append (a b : List (K × V)) : keys (a ++ b) = keys a ++ keys b := by simp [keys]

/-- Per-key invariant of the output key space while a block is being processed. -/
def InvU (s0 : St) (p : St × Undo) : Prop :=
  ∀ k, (k ∈ p.2.created → s0.ut k = none) ∧
       (k ∉ p.2.created → ∀ v, (k, v) ∈ p.2.spent ++ p.2.trimmed → s0.ut k = some v) ∧
       (k ∉ p.2.created → k ∉ keys (p.2.spent ++ p.2.trimmed) → p.1.ut k = s0.ut k) ∧
       (k ∈ keys (p.2.spent ++ p.2.trimmed) → p.1.ut k = none)

/-- Per-key invariant of the lockup key space. -/
def InvL (s0 : St) (p : St × Undo) : Prop :=
  ∀ k, (k ∈ p.2.newLocks → s0.cl k = none) ∧
       (k ∉ p.2.newLocks → ∀ v, firstFor k p.2.delLocks = some v → s0.cl k = some v) ∧
       (k ∉ p.2.newLocks → k ∉ keys p.2.delLocks → p.1.cl k = s0.cl k)

theorem inv_init (s0 : St) : InvU s0 (s0, {}) ∧ InvL s0 (s0, {}) := by
  constructor
  · intro k; simp [keys]
  · intro k; simp [keys, firstFor]

end QuaiVerif.Reorg

namespace QuaiVerif.Reorg

theorem put_same (m : M) (k : K) (v : V) : put m k v k = some v := by simp [put]
theorem put_other (m : M) {k j : K} (v : V) (h : j ≠ k) : put m k v j = m j := by simp [put, h]
theorem del_same (m : M) (k : K) : del m k k = none := by simp [del]
theorem del_other (m : M) {k j : K} (h : j ≠ k) : del m k j = m j := by simp [del, h]

theorem invU_create {s0 : St} {p : St × Undo} {k : K} {v : V} (hU : InvU s0 p)
    (ok : actOK s0 p (.createU k v)) : InvU s0 (applyAct s0 p (.createU k v)) := by
  obtain ⟨h0, _, hs, ht⟩ := ok
  intro j
  obtain ⟨a, b, c, d⟩ := hU j
  simp only [applyAct, List.mem_append, List.mem_singleton]
  by_cases hj : j = k
  · subst hj
    refine ⟨fun _ => h0, fun hn => absurd (Or.inr rfl) hn, fun hn => absurd (Or.inr rfl) hn, ?_⟩
    intro hk
    rw [keys_append, List.mem_append] at hk
    exact absurd hk (by simp [hs, ht])
  · refine ⟨fun h => a (h.resolve_right hj), fun hn w hw => b (fun h => hn (Or.inl h)) w (List.mem_append.mpr hw), ?_, ?_⟩
    · intro hn hk; rw [put_other _ _ hj]; exact c (fun h => hn (Or.inl h)) hk
    · intro hk; rw [put_other _ _ hj]; exact d hk

theorem invU_spend {s0 : St} {p : St × Undo} {k : K} (hU : InvU s0 p)
    (ok : actOK s0 p (.spendU k)) : InvU s0 (applyAct s0 p (.spendU k)) := by
  simp only [actOK] at ok
  simp only [applyAct]
  cases hv : p.1.ut k with
  | none => exact absurd hv ok
  | some v =>
    intro j
    obtain ⟨a, b, c, d⟩ := hU j
    simp only
    by_cases hj : j = k
    · subst hj
      refine ⟨a, ?_, ?_, fun _ => del_same _ _⟩
      · intro hn w hw
        have hw' : (j, w) ∈ p.2.spent ++ p.2.trimmed ∨ w = v := by
          simp only [List.mem_append, List.mem_singleton, Prod.mk.injEq] at hw ⊢
          rcases hw with (h | h) | h
          · exact Or.inl (Or.inl h)
          · exact Or.inr h.2
          · exact Or.inl (Or.inr h)
        rcases hw' with h | h
        · exact b hn w h
        · subst h
          by_cases hk : j ∈ keys (p.2.spent ++ p.2.trimmed)
          · rw [d hk] at hv; cases hv
          · rw [← c hn hk]; exact hv
      · intro _ hk
        exfalso; apply hk
        simp [keys]
    · refine ⟨a, ?_, ?_, ?_⟩
      · intro hn w hw
        apply b hn w
        simp only [List.mem_append, List.mem_singleton, Prod.mk.injEq] at hw ⊢
        rcases hw with (h | h) | h
        · exact Or.inl h
        · exact absurd h.1 hj
        · exact Or.inr h
      · intro hn hk
        rw [del_other _ hj]
        apply c hn
        intro h; apply hk
        simp only [keys, List.map_append, List.mem_append, List.map_cons, List.map_nil, List.mem_singleton] at h ⊢
        rcases h with h | h
        · exact Or.inl (Or.inl h)
        · exact Or.inr h
      · intro hk
        rw [del_other _ hj]
        apply d
        simp only [keys, List.map_append, List.mem_append, List.map_cons, List.map_nil, List.mem_singleton] at hk ⊢
        rcases hk with (h | h) | h
        · exact Or.inl h
        · exact absurd h hj
        · exact Or.inr h

theorem invU_trim {s0 : St} {p : St × Undo} {k : K} (hU : InvU s0 p)
    (ok : actOK s0 p (.trimU k)) : InvU s0 (applyAct s0 p (.trimU k)) := by
  obtain ⟨ok1, ok2⟩ := ok
  simp only [applyAct]
  cases hv : s0.ut k with
  | none => exact absurd hv ok1
  | some v =>
    intro j
    obtain ⟨a, b, c, d⟩ := hU j
    simp only
    by_cases hj : j = k
    · subst hj
      refine ⟨a, ?_, ?_, fun _ => del_same _ _⟩
      · intro hn w hw
        simp only [List.mem_append, List.mem_singleton, Prod.mk.injEq] at hw
        rcases hw with h | h | h
        · exact b hn w (List.mem_append.mpr (Or.inl h))
        · exact b hn w (List.mem_append.mpr (Or.inr h))
        · rw [h.2]; exact hv
      · intro _ hk
        exfalso; apply hk
        simp [keys]
    · refine ⟨a, ?_, ?_, ?_⟩
      · intro hn w hw
        apply b hn w
        simp only [List.mem_append, List.mem_singleton, Prod.mk.injEq] at hw ⊢
        rcases hw with h | h | h
        · exact Or.inl h
        · exact Or.inr h
        · exact absurd h.1 hj
      · intro hn hk
        rw [del_other _ hj]
        apply c hn
        intro h; apply hk
        simp only [keys, List.map_append, List.mem_append, List.map_cons, List.map_nil, List.mem_singleton] at h ⊢
        rcases h with h | h
        · exact Or.inl h
        · exact Or.inr (Or.inl h)
      · intro hk
        rw [del_other _ hj]
        apply d
        simp only [keys, List.map_append, List.mem_append, List.map_cons, List.map_nil, List.mem_singleton] at hk ⊢
        rcases hk with h | h | h
        · exact Or.inl h
        · exact Or.inr h
        · exact absurd h hj

theorem invL_new {s0 : St} {p : St × Undo} {k : K} {v : V} (hL : InvL s0 p)
    (ok : actOK s0 p (.lockNew k v)) : InvL s0 (applyAct s0 p (.lockNew k v)) := by
  obtain ⟨hn, hd⟩ := ok
  intro j
  obtain ⟨a, b, c⟩ := hL j
  simp only [applyAct, List.mem_append, List.mem_singleton]
  by_cases hj : j = k
  · subst hj
    refine ⟨fun _ => ?_, fun h => absurd (Or.inr rfl) h, fun h => absurd (Or.inr rfl) h⟩
    by_cases hm : j ∈ p.2.newLocks
    · exact a hm
    · rw [← c hm hd]; exact hn
  · refine ⟨fun h => a (h.resolve_right hj), fun h => b (fun x => h (Or.inl x)), ?_⟩
    intro h hk; rw [put_other _ _ hj]; exact c (fun x => h (Or.inl x)) hk

theorem invL_modify {s0 : St} {p : St × Undo} {k : K} {old : V} (f : M) (hf : ∀ j, j ≠ k → f j = p.1.cl j)
    (hL : InvL s0 p) (hv : p.1.cl k = some old) :
    InvL s0 ({ p.1 with cl := f }, { p.2 with delLocks := p.2.delLocks ++ [(k, old)] }) := by
  intro j
  obtain ⟨a, b, c⟩ := hL j
  simp only
  refine ⟨a, ?_, ?_⟩
  · intro hn w hw
    rw [firstFor_append] at hw
    cases hf1 : firstFor j p.2.delLocks with
    | some w' => rw [hf1] at hw; simp at hw; subst hw; exact b hn w' hf1
    | none =>
      rw [hf1] at hw
      simp only [firstFor] at hw
      by_cases hj : k = j
      · subst hj
        simp at hw; subst hw
        rw [← c hn (firstFor_none hf1)]; exact hv
      · simp [hj] at hw
  · intro hn hk
    have hjk : j ≠ k := by
      intro e; apply hk; subst e; simp [keys]
    rw [hf j hjk]
    apply c hn
    intro h; apply hk
    simp only [keys, List.map_append, List.mem_append] at h ⊢
    exact Or.inl h

theorem invL_replace {s0 : St} {p : St × Undo} {k : K} {v : V} (hL : InvL s0 p)
    (ok : actOK s0 p (.lockReplace k v)) : InvL s0 (applyAct s0 p (.lockReplace k v)) := by
  simp only [actOK] at ok
  simp only [applyAct]
  cases hv : p.1.cl k with
  | none => exact absurd hv ok
  | some old => exact invL_modify (put p.1.cl k v) (fun j hj => put_other _ _ hj) hL hv

theorem invL_delete {s0 : St} {p : St × Undo} {k : K} (hL : InvL s0 p)
    (ok : actOK s0 p (.lockDelete k)) : InvL s0 (applyAct s0 p (.lockDelete k)) := by
  simp only [actOK] at ok
  simp only [applyAct]
  cases hv : p.1.cl k with
  | none => exact absurd hv ok
  | some old => exact invL_modify (del p.1.cl k) (fun j hj => del_other _ hj) hL hv

/-- Actions on one key space leave the other key space and its undo lists alone. -/
theorem invL_of_utxo_act {s0 : St} {p q : St × Undo} (hL : InvL s0 p) (h1 : q.1.cl = p.1.cl)
    (h2 : q.2.newLocks = p.2.newLocks) (h3 : q.2.delLocks = p.2.delLocks) : InvL s0 q := by
  intro k; have := hL k; simp only [h1, h2, h3]; exact this

theorem invU_of_lock_act {s0 : St} {p q : St × Undo} (hU : InvU s0 p) (h1 : q.1.ut = p.1.ut)
    (h2 : q.2.created = p.2.created) (h3 : q.2.spent = p.2.spent) (h4 : q.2.trimmed = p.2.trimmed) : InvU s0 q := by
  intro k; have := hU k; simp only [h1, h2, h3, h4]; exact this

theorem inv_step {s0 : St} {p : St × Undo} {a : Act} (hU : InvU s0 p) (hL : InvL s0 p) (ok : actOK s0 p a) :
    InvU s0 (applyAct s0 p a) ∧ InvL s0 (applyAct s0 p a) := by
  cases a with
  | createU k v => exact ⟨invU_create hU ok, invL_of_utxo_act hL rfl rfl rfl⟩
  | spendU k =>
    refine ⟨invU_spend hU ok, ?_⟩
    simp only [applyAct]; cases p.1.ut k <;> first | exact hL | exact invL_of_utxo_act hL rfl rfl rfl
  | trimU k =>
    refine ⟨invU_trim hU ok, ?_⟩
    simp only [applyAct]; cases s0.ut k <;> first | exact hL | exact invL_of_utxo_act hL rfl rfl rfl
  | lockNew k v => exact ⟨invU_of_lock_act hU rfl rfl rfl rfl, invL_new hL ok⟩
  | lockReplace k v =>
    refine ⟨?_, invL_replace hL ok⟩
    simp only [applyAct]; cases p.1.cl k <;> first | exact hU | exact invU_of_lock_act hU rfl rfl rfl rfl
  | lockDelete k =>
    refine ⟨?_, invL_delete hL ok⟩
    simp only [applyAct]; cases p.1.cl k <;> first | exact hU | exact invU_of_lock_act hU rfl rfl rfl rfl

theorem inv_run {s0 : St} (acts : List Act) (p : St × Undo) (hU : InvU s0 p) (hL : InvL s0 p)
    (ok : actsOK s0 p acts) : InvU s0 (runFrom s0 p acts) ∧ InvL s0 (runFrom s0 p acts) := by
  induction acts generalizing p with
  | nil => exact ⟨hU, hL⟩
  | cons a as ih =>
    obtain ⟨ok1, ok2⟩ := ok
    have := inv_step hU hL ok1
    exact ih _ this.1 this.2 ok2

end QuaiVerif.Reorg
