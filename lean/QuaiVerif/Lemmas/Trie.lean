import QuaiVerif.Model.Trie
/- Lemmas for the trie model (C18): well-formedness for terminated keys, lookup after insert. -/
namespace QuaiVerif.Trie

/-- all nibbles below 16 -/
def Nib (k : List Nat) : Prop := ∀ x ∈ k, x < 16

/-- a key (suffix) as the Go code holds it: nibbles followed by the terminator 16 -/
def HexKey (k : List Nat) : Prop := ∃ b, k = b ++ [16] ∧ Nib b

def NotValue : Node → Prop
  | .value _ => False
  | _ => True

/-- well-formed subtrie for terminated keys: values sit exactly behind a terminator -/
inductive WF : Node → Prop where
  | nil : WF .nil
  | leaf (b : List Nat) (v : Bytes) : Nib b → WF (.short (b ++ [16]) (.value v))
  | ext (k : List Nat) (c : Node) : Nib k → k ≠ [] → WF c → NotValue c → WF (.short k c)
  | full (cs : Nat → Node) : (∀ i, i < 16 → WF (cs i)) → (∀ i, i < 16 → NotValue (cs i)) →
      (cs 16 = .nil ∨ ∃ v, cs 16 = .value v) → WF (.full cs)

theorem nib_nil : Nib [] := fun _ h => nomatch h
theorem nib_cons {x : Nat} {k : List Nat} : Nib (x :: k) ↔ x < 16 ∧ Nib k := by
  unfold Nib; simp
theorem nib_append {a b : List Nat} : Nib (a ++ b) ↔ Nib a ∧ Nib b := by
  unfold Nib; simp [or_imp, forall_and]

theorem hexKey_ne_nil {k : List Nat} (h : HexKey k) : k ≠ [] := by
  obtain ⟨b, rfl, _⟩ := h; simp

theorem hexKey_cons {x : Nat} {k : List Nat} (h : HexKey (x :: k)) : (x = 16 ∧ k = []) ∨ (x < 16 ∧ HexKey k) := by
  obtain ⟨b, hb, hn⟩ := h
  cases b with
  | nil => simp at hb; exact Or.inl hb
  | cons y b' =>
    simp at hb
    obtain ⟨rfl, rfl⟩ := hb
    exact Or.inr ⟨(nib_cons.mp hn).1, b', rfl, (nib_cons.mp hn).2⟩

theorem hexKey_16 : HexKey [16] := ⟨[], rfl, nib_nil⟩
theorem hexKey_cons_of {x : Nat} {k : List Nat} (hx : x < 16) (h : HexKey k) : HexKey (x :: k) := by
  obtain ⟨b, rfl, hn⟩ := h
  exact ⟨x :: b, rfl, nib_cons.mpr ⟨hx, hn⟩⟩

/-- lookup in the Go style, specialised: `get` on a cons key at a short node -/
theorem get_short (k : List Nat) (c : Node) (key : List Nat) :
    get (.short k c) key = if k.isPrefixOf key then get c (key.drop k.length) else none := by
  cases key <;> simp [get]

theorem get_nil (key : List Nat) : get .nil key = none := by cases key <;> simp [get]

theorem get_value_cons (v : Bytes) (x : Nat) (r : List Nat) : get (.value v) (x :: r) = none := by simp [get]

theorem get_full_cons (cs : Nat → Node) (x : Nat) (r : List Nat) : get (.full cs) (x :: r) = get (cs x) r := by simp [get]

theorem prefixLen_cons (a b : Nat) (as bs : List Nat) :
    prefixLen (a :: as) (b :: bs) = if a = b then prefixLen as bs + 1 else 0 := by simp [prefixLen]

end QuaiVerif.Trie

namespace QuaiVerif.Trie

/-! ### decomposition of the common prefix computed by `prefixLen` -/

theorem prefixLen_le_left (a b : List Nat) : prefixLen a b ≤ a.length := by
  induction a generalizing b with
  | nil => simp [prefixLen]
  | cons x xs ih =>
    cases b with
    | nil => simp [prefixLen]
    | cons y ys =>
      rw [prefixLen_cons]
      split
      · have := ih ys; simp; omega
      · simp

theorem prefixLen_le_right (a b : List Nat) : prefixLen a b ≤ b.length := by
  induction a generalizing b with
  | nil => simp [prefixLen]
  | cons x xs ih =>
    cases b with
    | nil => simp [prefixLen]
    | cons y ys =>
      rw [prefixLen_cons]
      split
      · have := ih ys; simp; omega
      · simp

/-- the three possible outcomes of comparing `key` with a short node's key `k` -/
theorem prefixLen_cases (key k : List Nat) :
    (prefixLen key k = k.length ∧ ∃ r, key = k ++ r) ∨
    (prefixLen key k = key.length ∧ prefixLen key k < k.length ∧ ∃ r, r ≠ [] ∧ k = key ++ r) ∨
    (∃ p x rk a ra, key = p ++ x :: rk ∧ k = p ++ a :: ra ∧ x ≠ a ∧ prefixLen key k = p.length) := by
  induction key generalizing k with
  | nil =>
    cases k with
    | nil => left; simp [prefixLen]
    | cons a ra => right; left; simp [prefixLen]
  | cons x rk ih =>
    cases k with
    | nil => left; simp [prefixLen]
    | cons a ra =>
      rw [prefixLen_cons]
      by_cases hxa : x = a
      · subst hxa
        simp only [if_true]
        rcases ih ra with ⟨h1, r, h2⟩ | ⟨h1, h2, r, h3, h4⟩ | ⟨p, y, rk', b, ra', h1, h2, h3, h4⟩
        · left; exact ⟨by simp [h1], r, by simp [h2]⟩
        · right; left; exact ⟨by simp [h1], by simp; omega, r, h3, by simp [h4]⟩
        · right; right; exact ⟨x :: p, y, rk', b, ra', by simp [h1], by simp [h2], h3, by simp [h4]⟩
      · simp only [hxa, if_false]
        right; right
        exact ⟨[], x, rk, a, ra, rfl, rfl, hxa, rfl⟩

/-- wrap a node behind a (possibly empty) common prefix -/
def wrap (p : List Nat) (n : Node) : Node := if p = [] then n else .short p n

theorem insert_short_prefix (k : List Nat) (c : Node) (r : List Nat) (v : Node) (hk : k ++ r ≠ []) :
    insert (.short k c) (k ++ r) v = .short k (insert c r v) := by
  have hm : prefixLen (k ++ r) k = k.length := by
    induction k with
    | nil => cases r <;> simp [prefixLen]
    | cons a k ih => simp [prefixLen_cons]; cases hkr : k ++ r with
      | nil => simp at hkr; simp [hkr.1, prefixLen]
      | cons y ys => rw [← hkr]; exact ih (by simp [hkr])
  cases hkr : k ++ r with
  | nil => exact absurd hkr hk
  | cons x rest =>
    rw [insert]
    simp only [← hkr, hm, if_true, List.drop_left]

theorem insert_short_split (p : List Nat) (x : Nat) (rk : List Nat) (a : Nat) (ra : List Nat) (c v : Node) (hxa : x ≠ a) :
    insert (.short (p ++ a :: ra) c) (p ++ x :: rk) v =
      wrap p (.full (upd (upd (fun _ => .nil) a (mk ra c)) x (mk rk v))) := by
  have hm : prefixLen (p ++ x :: rk) (p ++ a :: ra) = p.length := by
    induction p with
    | nil => simp [prefixLen_cons, hxa]
    | cons y p ih => simp [prefixLen_cons, ih]
  have hlen : p.length ≠ (p ++ a :: ra).length := by simp
  cases hkey : p ++ x :: rk with
  | nil => simp at hkey
  | cons y rest =>
    rw [insert]
    simp only [← hkey, hm, hlen, if_false]
    have h1 : (p ++ a :: ra).getD p.length 0 = a := by simp [List.getD_eq_getElem?_getD]
    have h2 : (p ++ x :: rk).getD p.length 0 = x := by simp [List.getD_eq_getElem?_getD]
    have h3 : (p ++ a :: ra).drop (p.length + 1) = ra := by simp [List.drop_append]
    have h4 : (p ++ x :: rk).drop (p.length + 1) = rk := by simp [List.drop_append]
    have h5 : (p ++ x :: rk).take p.length = p := by simp
    rw [h1, h2, h3, h4, h5]
    unfold wrap
    cases p with
    | nil => simp
    | cons y p => simp

end QuaiVerif.Trie

namespace QuaiVerif.Trie

theorem mk_eq_wrap (k : List Nat) (n : Node) : mk k n = wrap k n := rfl

theorem get_wrap (p : List Nat) (n : Node) (key : List Nat) :
    get (wrap p n) key = if p.isPrefixOf key then get n (key.drop p.length) else none := by
  unfold wrap
  by_cases h : p = []
  · subst h; simp
  · simp only [h, if_false, get_short]

/-- decompose a lookup key against a prefix -/
theorem prefix_cases (p key : List Nat) : (p.isPrefixOf key = false) ∨ (∃ r, key = p ++ r) := by
  by_cases h : p.isPrefixOf key = true
  · right
    rw [List.isPrefixOf_iff_prefix] at h
    obtain ⟨r, hr⟩ := h
    exact ⟨r, hr.symm⟩
  · left; exact Bool.eq_false_iff.mpr h

theorem isPrefixOf_append_self (p r : List Nat) : p.isPrefixOf (p ++ r) = true := by
  rw [List.isPrefixOf_iff_prefix]; exact List.prefix_append p r

theorem isPrefixOf_append_left (p a b : List Nat) : (p ++ a).isPrefixOf (p ++ b) = a.isPrefixOf b := by
  induction p with
  | nil => simp
  | cons x p ih => simp [List.isPrefixOf, ih]

theorem not_isPrefixOf_append (p q key : List Nat) (h : p.isPrefixOf key = false) : (p ++ q).isPrefixOf key = false := by
  cases hh : (p ++ q).isPrefixOf key with
  | false => rfl
  | true =>
    rw [List.isPrefixOf_iff_prefix] at hh
    have : p <+: key := List.IsPrefix.trans (List.prefix_append p q) hh
    rw [← List.isPrefixOf_iff_prefix] at this
    rw [this] at h; cases h

/-- hex keys are prefix free -/
theorem hexKey_prefix_eq {a r : List Nat} (ha : HexKey a) (hb : HexKey (a ++ r)) : r = [] := by
  obtain ⟨ba, rfl, _⟩ := ha
  obtain ⟨bb, hbb, hn⟩ := hb
  cases r with
  | nil => rfl
  | cons y ys =>
    exfalso
    -- position ba.length of bb ++ [16] holds 16 but lies inside bb
    have hlen : bb.length = ba.length + 1 + ys.length := by
      have := congrArg List.length hbb
      simp at this; omega
    have h16 : (bb ++ [16])[ba.length]? = some 16 := by
      rw [← hbb]; simp
    have hin : ba.length < bb.length := by omega
    rw [List.getElem?_append_left hin] at h16
    have := hn (bb[ba.length]) (List.getElem_mem hin)
    rw [List.getElem?_eq_getElem hin] at h16
    simp at h16
    omega

theorem hexKey_drop_prefix {p r : List Nat} (h : HexKey (p ++ r)) (hr : r ≠ []) : HexKey r ∧ Nib p := by
  obtain ⟨b, hb, hn⟩ := h
  -- r is a non-empty suffix of b ++ [16]
  obtain ⟨r', rfl⟩ : ∃ r', r = r' ++ [16] := by
    have := List.eq_nil_or_concat r
    rcases this with h0 | ⟨r', x, h1⟩
    · exact absurd h0 hr
    · refine ⟨r', ?_⟩
      rw [h1] at hb ⊢
      have := congrArg List.getLast? hb
      simp at this
      simp [this]
  have hb' : p ++ r' = b := by
    have : (p ++ r') ++ [16] = b ++ [16] := by simpa using hb
    exact List.append_cancel_right this
  rw [← hb'] at hn
  exact ⟨⟨r', rfl, (nib_append.mp hn).2⟩, (nib_append.mp hn).1⟩

end QuaiVerif.Trie

namespace QuaiVerif.Trie

/-- a value behind a key tail: the tails of two hex keys after a common prefix and equal nibble are
either both empty (the nibble was the terminator) or both hex keys -/
def TailPair (a b : List Nat) : Prop := (a = [] ∧ b = []) ∨ (HexKey a ∧ HexKey b)

theorem isPrefixOf_self (r : List Nat) : r.isPrefixOf r = true := by
  rw [List.isPrefixOf_iff_prefix]; exact List.prefix_refl r

theorem get_tail_value (rk r : List Nat) (v : Bytes) (h : TailPair rk r) :
    get (wrap rk (.value v)) r = if r = rk then some v else none := by
  rw [get_wrap]
  rcases h with ⟨rfl, rfl⟩ | ⟨h1, h2⟩
  · simp [get]
  · rcases prefix_cases rk r with hp | ⟨q, rfl⟩
    · rw [hp]
      have : ¬ r = rk := by
        intro e; subst e
        rw [isPrefixOf_self] at hp; cases hp
      simp [this]
    · have hq := hexKey_prefix_eq h1 h2
      subst hq
      simp [isPrefixOf_self, get]

/-- the tails of two hex keys that share `p ++ [x]` form a `TailPair` -/
theorem tailPair_of (p : List Nat) (x : Nat) (a b : List Nat) (ha : HexKey (p ++ x :: a)) (hb : HexKey (p ++ x :: b)) :
    TailPair a b := by
  have h1 := (hexKey_drop_prefix ha (by simp)).1
  have h2 := (hexKey_drop_prefix hb (by simp)).1
  rcases hexKey_cons h1 with ⟨hx, ra⟩ | ⟨hx, ka⟩
  · rcases hexKey_cons h2 with ⟨_, rb⟩ | ⟨hx', _⟩
    · exact Or.inl ⟨ra, rb⟩
    · omega
  · rcases hexKey_cons h2 with ⟨hx', _⟩ | ⟨_, kb⟩
    · omega
    · exact Or.inr ⟨ka, kb⟩

/-- a hex key that has `p` as a prefix continues after it (when `p` holds only nibbles) -/
theorem hexKey_after_nib {p r : List Nat} (h : HexKey (p ++ r)) (hp : Nib p) : ∃ y r', r = y :: r' := by
  cases r with
  | nil =>
    exfalso
    simp at h
    obtain ⟨b, hb, _⟩ := h
    have : 16 ∈ p := by rw [hb]; simp
    have := hp 16 this
    omega
  | cons y r' => exact ⟨y, r', rfl⟩

theorem get_leafnode (k : List Nat) (hk : HexKey k) (v : Bytes) (key' : List Nat) (hk' : HexKey key') :
    get (.short k (.value v)) key' = if key' = k then some v else none := by
  have hne := hexKey_ne_nil hk
  have : Node.short k (.value v) = wrap k (.value v) := by simp [wrap, hne]
  rw [this]
  exact get_tail_value k key' v (Or.inr ⟨hk, hk'⟩)

end QuaiVerif.Trie
