import QuaiVerif.Lemmas.Trie
/- Lookup after insert (the refinement of the trie to a finite map), for all well-formed tries. -/
namespace QuaiVerif.Trie

theorem insert_nil_key (n : Node) (v : Node) : insert n [] v = v := by
  cases n <;> simp [insert]

/-- the split case, for any child `c` under the old short key and any lookup key continuing `p` -/
theorem get_split (p : List Nat) (x a : Nat) (rk ra : List Nat) (c : Node) (v : Bytes) (hxa : x ≠ a)
    (y : Nat) (r : List Nat) :
    get (wrap p (.full (upd (upd (fun _ => .nil) a (mk ra c)) x (mk rk (.value v))))) (p ++ y :: r) =
      if y = x then get (wrap rk (.value v)) r
      else if y = a then get (wrap ra c) r else none := by
  rw [get_wrap, isPrefixOf_append_self]
  simp only [if_true, List.drop_left, get_full_cons, upd, mk_eq_wrap]
  by_cases h1 : y = x
  · simp [h1]
  · by_cases h2 : y = a
    · subst h2
      simp [h1, Ne.symm hxa]
    · simp [h1, h2, get_nil]

theorem get_insert {t : Node} (hwf : WF t) :
    ∀ (key : List Nat), HexKey key → ∀ (v : Bytes) (key' : List Nat), HexKey key' →
      get (insert t key (.value v)) key' = if key' = key then some v else get t key' := by
  induction hwf with
  | nil =>
    intro key hk v key' hk'
    obtain ⟨x, rest, rfl⟩ := List.exists_cons_of_ne_nil (hexKey_ne_nil hk)
    simp only [insert]
    rw [get_leafnode _ hk v key' hk', get_nil]
  | leaf b w hb =>
    intro key hk v key' hk'
    have hkk : HexKey (b ++ [16]) := ⟨b, rfl, hb⟩
    rcases prefixLen_cases key (b ++ [16]) with ⟨_, r, hr⟩ | ⟨_, _, r, hr0, hr⟩ | ⟨p, x, rk, a, ra, hkey, hk2, hxa, _⟩
    · -- key extends the leaf key: they are equal
      have : r = [] := hexKey_prefix_eq hkk (hr ▸ hk)
      subst this
      simp only [List.append_nil] at hr
      subst hr
      have h1 := insert_short_prefix (b ++ [16]) (.value w) [] (.value v) (by simp)
      simp only [List.append_nil] at h1
      rw [h1, insert_nil_key, get_leafnode _ hkk v key' hk', get_leafnode _ hkk w key' hk']
      by_cases e : key' = b ++ [16] <;> simp [e]
    · exact absurd (hexKey_prefix_eq hk (hr ▸ hkk)) hr0
    · rw [hkey, hk2, insert_short_split p x rk a ra _ _ hxa]
      rw [hk2] at hkk
      rw [hkey] at hk
      have hp : Nib p := (hexKey_drop_prefix hk (by simp)).2
      rcases prefix_cases p key' with hnp | ⟨r', rfl⟩
      · rw [get_wrap, hnp, get_short, not_isPrefixOf_append p _ key' hnp]
        have : ¬ key' = p ++ x :: rk := by
          intro e; rw [e, isPrefixOf_append_self] at hnp; cases hnp
        simp [this]
      · obtain ⟨y, r, rfl⟩ := hexKey_after_nib hk' hp
        rw [get_split p x a rk ra _ v hxa y r]
        by_cases h1 : y = x
        · subst h1
          rw [if_pos rfl, get_tail_value rk r v (tailPair_of p y rk r hk hk')]
          have hne : ¬ (p ++ a :: ra).isPrefixOf (p ++ y :: r) = true := by
            rw [isPrefixOf_append_left]; simp [List.isPrefixOf]; intro e; exact absurd e.symm hxa
          rw [get_short]
          simp only [hne, if_false, Bool.false_eq_true]
          by_cases e : r = rk <;> simp [e]
        · simp only [h1, if_false]
          have hkne : ¬ (p ++ y :: r = p ++ x :: rk) := by simp [h1]
          simp only [hkne, if_false]
          by_cases h2 : y = a
          · subst h2
            simp only [if_true]
            have hw : Node.short (p ++ y :: ra) (.value w) = wrap (p ++ y :: ra) (.value w) := by simp [wrap]
            rw [get_tail_value ra r w (tailPair_of p y ra r hkk hk'), hw,
              get_tail_value _ _ w (Or.inr ⟨hkk, hk'⟩)]
            by_cases e : r = ra <;> simp [e]
          · simp only [h2, if_false]
            rw [get_short, isPrefixOf_append_left]
            simp [List.isPrefixOf, Ne.symm h2]
  | ext k c hnk hne hc hnv ih =>
    intro key hk v key' hk'
    rcases prefixLen_cases key k with ⟨_, r, hr⟩ | ⟨_, _, r, hr0, hr⟩ | ⟨p, x, rk, a, ra, hkey, hk2, hxa, _⟩
    · subst hr
      obtain ⟨y0, r0, hr0⟩ := hexKey_after_nib hk hnk
      have hkr : HexKey r := (hexKey_drop_prefix hk (by simp [hr0])).1
      rw [insert_short_prefix k c r _ (by simp [hne]), get_short, get_short]
      rcases prefix_cases k key' with hnp | ⟨r', rfl⟩
      · rw [hnp]
        have : ¬ key' = k ++ r := by
          intro e; rw [e, isPrefixOf_append_self] at hnp; cases hnp
        simp [this]
      · obtain ⟨y1, r1, hr1⟩ := hexKey_after_nib hk' hnk
        have hkr' : HexKey r' := (hexKey_drop_prefix hk' (by simp [hr1])).1
        simp only [isPrefixOf_append_self, if_true, List.drop_left]
        rw [ih r hkr v r' hkr']
        by_cases e : r' = r <;> simp [e]
    · -- key would be a proper prefix of a nibble-only key: impossible, key contains the terminator
      exfalso
      obtain ⟨b, hb, _⟩ := hk
      have : 16 ∈ k := by rw [hr, hb]; simp
      have := hnk 16 this
      omega
    · rw [hkey, hk2, insert_short_split p x rk a ra _ _ hxa]
      rw [hkey] at hk
      have hp : Nib p := (hexKey_drop_prefix hk (by simp)).2
      rcases prefix_cases p key' with hnp | ⟨r', rfl⟩
      · rw [get_wrap, hnp, get_short, not_isPrefixOf_append p _ key' hnp]
        have : ¬ key' = p ++ x :: rk := by
          intro e; rw [e, isPrefixOf_append_self] at hnp; cases hnp
        simp [this]
      · obtain ⟨y, r, rfl⟩ := hexKey_after_nib hk' hp
        rw [get_split p x a rk ra _ v hxa y r]
        by_cases h1 : y = x
        · subst h1
          rw [if_pos rfl, get_tail_value rk r v (tailPair_of p y rk r hk hk')]
          have hne' : ¬ (p ++ a :: ra).isPrefixOf (p ++ y :: r) = true := by
            rw [isPrefixOf_append_left]; simp [List.isPrefixOf]; intro e; exact absurd e.symm hxa
          rw [get_short]
          simp only [hne', if_false, Bool.false_eq_true]
          by_cases e : r = rk <;> simp [e]
        · simp only [h1, if_false]
          have hkne : ¬ (p ++ y :: r = p ++ x :: rk) := by simp [h1]
          simp only [hkne, if_false]
          by_cases h2 : y = a
          · subst h2
            simp only [if_true]
            rw [get_wrap, get_short, isPrefixOf_append_left]
            have hcons : (y :: ra).isPrefixOf (y :: r) = ra.isPrefixOf r := by simp [List.isPrefixOf]
            rw [hcons]
            rcases prefix_cases ra r with hn | ⟨q, rfl⟩
            · simp [hn]
            · simp only [isPrefixOf_append_self, if_true, List.drop_left]
              have : p ++ y :: (ra ++ q) = (p ++ y :: ra) ++ q := by simp
              rw [this, List.drop_left]
          · simp only [h2, if_false]
            rw [get_short, isPrefixOf_append_left]
            simp [List.isPrefixOf, Ne.symm h2]
  | full cs hcs hnv h16 ih =>
    intro key hk v key' hk'
    obtain ⟨x, rest, rfl⟩ := List.exists_cons_of_ne_nil (hexKey_ne_nil hk)
    obtain ⟨y, r', rfl⟩ := List.exists_cons_of_ne_nil (hexKey_ne_nil hk')
    simp only [insert, get_full_cons, upd]
    by_cases hyx : y = x
    · subst hyx
      simp only [if_true]
      rcases hexKey_cons hk with ⟨hx, hrest⟩ | ⟨hx, hrest⟩
      · rcases hexKey_cons hk' with ⟨_, hr'⟩ | ⟨hy, _⟩
        · subst hrest; subst hr'
          simp [insert_nil_key, get]
        · omega
      · rcases hexKey_cons hk' with ⟨hy, _⟩ | ⟨_, hr'⟩
        · omega
        · rw [ih y hx rest hrest v r' hr']
          by_cases e : r' = rest <;> simp [e]
    · simp [hyx]

end QuaiVerif.Trie

namespace QuaiVerif.Trie

theorem notValue_insert (n : Node) (x : Nat) (rest : List Nat) (v : Node) : NotValue (insert n (x :: rest) v) := by
  cases n with
  | nil => simp [insert, NotValue]
  | value w => simp [insert, NotValue]
  | short k c =>
    simp only [insert]
    split
    · simp [NotValue]
    · split <;> simp [NotValue]
  | full cs => simp [insert, NotValue]

/-- the child hung under nibble `x` when a key tail `x :: rk` ends in a value -/
theorem wf_tail_value (x : Nat) (rk : List Nat) (v : Bytes) (h : HexKey (x :: rk)) :
    (x = 16 ∧ wrap rk (.value v) = .value v) ∨ (x < 16 ∧ WF (wrap rk (.value v)) ∧ NotValue (wrap rk (.value v))) := by
  rcases hexKey_cons h with ⟨hx, hr⟩ | ⟨hx, hr⟩
  · left; subst hr; exact ⟨hx, rfl⟩
  · right
    have hne := hexKey_ne_nil hr
    obtain ⟨b, rfl, hb⟩ := hr
    have : wrap (b ++ [16]) (.value v) = .short (b ++ [16]) (.value v) := by simp [wrap]
    rw [this]
    exact ⟨hx, WF.leaf b v hb, trivial⟩

theorem wf_wrap_full (p : List Nat) (cs : Nat → Node) (hp : Nib p) (h : WF (.full cs)) : WF (wrap p (.full cs)) := by
  unfold wrap
  by_cases e : p = []
  · simp [e]; exact h
  · simp only [e, if_false]
    exact WF.ext p _ hp e h trivial

/-- the two-child branch created by a split is well formed -/
theorem wf_split (x a : Nat) (nx na : Node) (hxa : x ≠ a)
    (hx : (x = 16 ∧ ∃ v, nx = .value v) ∨ (x < 16 ∧ WF nx ∧ NotValue nx))
    (ha : (a = 16 ∧ ∃ v, na = .value v) ∨ (a < 16 ∧ WF na ∧ NotValue na)) :
    WF (.full (upd (upd (fun _ => .nil) a na) x nx)) := by
  apply WF.full
  · intro i hi
    simp only [upd]
    by_cases h1 : i = x
    · subst h1
      rcases hx with ⟨h, _⟩ | ⟨_, h, _⟩
      · omega
      · simp [h]
    · by_cases h2 : i = a
      · subst h2
        rcases ha with ⟨h, _⟩ | ⟨_, h, _⟩
        · omega
        · simp [h1, h]
      · simp [h1, h2]; exact WF.nil
  · intro i hi
    simp only [upd]
    by_cases h1 : i = x
    · subst h1
      rcases hx with ⟨h, _⟩ | ⟨_, _, h⟩
      · omega
      · simp [h]
    · by_cases h2 : i = a
      · subst h2
        rcases ha with ⟨h, _⟩ | ⟨_, _, h⟩
        · omega
        · simp [h1, h]
      · simp [h1, h2, NotValue]
  · simp only [upd]
    by_cases h1 : 16 = x
    · rcases hx with ⟨_, v, hv⟩ | ⟨h, _⟩
      · right; exact ⟨v, by simp [h1, hv]⟩
      · omega
    · by_cases h2 : 16 = a
      · rcases ha with ⟨_, v, hv⟩ | ⟨h, _⟩
        · right
          have hax : ¬ a = x := fun e => hxa e.symm
          exact ⟨v, by simp [h1, ← h2, hv]⟩
        · omega
      · left; simp [h1, h2]

theorem wf_insert {t : Node} (hwf : WF t) :
    ∀ (key : List Nat), HexKey key → ∀ (v : Bytes), WF (insert t key (.value v)) := by
  induction hwf with
  | nil =>
    intro key hk v
    obtain ⟨x, rest, rfl⟩ := List.exists_cons_of_ne_nil (hexKey_ne_nil hk)
    simp only [insert]
    obtain ⟨b, hb, hn⟩ := hk
    rw [hb]; exact WF.leaf b v hn
  | leaf b w hb =>
    intro key hk v
    have hkk : HexKey (b ++ [16]) := ⟨b, rfl, hb⟩
    rcases prefixLen_cases key (b ++ [16]) with ⟨_, r, hr⟩ | ⟨_, _, r, hr0, hr⟩ | ⟨p, x, rk, a, ra, hkey, hk2, hxa, _⟩
    · have : r = [] := hexKey_prefix_eq hkk (hr ▸ hk)
      subst this
      simp only [List.append_nil] at hr
      subst hr
      have h1 := insert_short_prefix (b ++ [16]) (.value w) [] (.value v) (by simp)
      simp only [List.append_nil] at h1
      rw [h1, insert_nil_key]
      exact WF.leaf b v hb
    · exact absurd (hexKey_prefix_eq hk (hr ▸ hkk)) hr0
    · rw [hkey, hk2, insert_short_split p x rk a ra _ _ hxa]
      rw [hk2] at hkk
      rw [hkey] at hk
      have hp : Nib p := (hexKey_drop_prefix hk (by simp)).2
      have hxk : HexKey (x :: rk) := (hexKey_drop_prefix hk (by simp)).1
      have hak : HexKey (a :: ra) := (hexKey_drop_prefix hkk (by simp)).1
      apply wf_wrap_full p _ hp
      apply wf_split x a _ _ hxa
      · rcases wf_tail_value x rk v hxk with ⟨h1, h2⟩ | h
        · exact Or.inl ⟨h1, v, by rw [mk_eq_wrap, h2]⟩
        · exact Or.inr (by rw [mk_eq_wrap]; exact h)
      · rcases wf_tail_value a ra w hak with ⟨h1, h2⟩ | h
        · exact Or.inl ⟨h1, w, by rw [mk_eq_wrap, h2]⟩
        · exact Or.inr (by rw [mk_eq_wrap]; exact h)
  | ext k c hnk hne hc hnv ih =>
    intro key hk v
    rcases prefixLen_cases key k with ⟨_, r, hr⟩ | ⟨_, _, r, hr0, hr⟩ | ⟨p, x, rk, a, ra, hkey, hk2, hxa, _⟩
    · subst hr
      obtain ⟨y0, r0, hr0⟩ := hexKey_after_nib hk hnk
      have hkr : HexKey r := (hexKey_drop_prefix hk (by simp [hr0])).1
      rw [insert_short_prefix k c r _ (by simp [hne])]
      refine WF.ext k _ hnk hne (ih r hkr v) ?_
      rw [hr0]; exact notValue_insert c y0 r0 _
    · exfalso
      obtain ⟨b, hb, _⟩ := hk
      have : 16 ∈ k := by rw [hr, hb]; simp
      have := hnk 16 this
      omega
    · rw [hkey, hk2, insert_short_split p x rk a ra _ _ hxa]
      rw [hkey] at hk
      have hp : Nib p := (hexKey_drop_prefix hk (by simp)).2
      have hxk : HexKey (x :: rk) := (hexKey_drop_prefix hk (by simp)).1
      rw [hk2] at hnk
      have ha16 : a < 16 := (nib_cons.mp (nib_append.mp hnk).2).1
      have hra : Nib ra := (nib_cons.mp (nib_append.mp hnk).2).2
      apply wf_wrap_full p _ hp
      apply wf_split x a _ _ hxa
      · rcases wf_tail_value x rk v hxk with ⟨h1, h2⟩ | h
        · exact Or.inl ⟨h1, v, by rw [mk_eq_wrap, h2]⟩
        · exact Or.inr (by rw [mk_eq_wrap]; exact h)
      · right
        refine ⟨ha16, ?_⟩
        rw [mk_eq_wrap]
        unfold wrap
        by_cases e : ra = []
        · simp [e]; exact ⟨hc, hnv⟩
        · simp only [e, if_false]
          exact ⟨WF.ext ra c hra e hc hnv, trivial⟩
  | full cs hcs hnv h16 ih =>
    intro key hk v
    obtain ⟨x, rest, rfl⟩ := List.exists_cons_of_ne_nil (hexKey_ne_nil hk)
    simp only [insert]
    rcases hexKey_cons hk with ⟨hx, hrest⟩ | ⟨hx, hrest⟩
    · subst hx; subst hrest
      rw [insert_nil_key]
      apply WF.full
      · intro i hi; simp only [upd]; have : ¬ i = 16 := by omega
        simp [this]; exact hcs i hi
      · intro i hi; simp only [upd]; have : ¬ i = 16 := by omega
        simp [this]; exact hnv i hi
      · right; exact ⟨v, by simp [upd]⟩
    · obtain ⟨y0, r0, hr0⟩ := List.exists_cons_of_ne_nil (hexKey_ne_nil hrest)
      apply WF.full
      · intro i hi; simp only [upd]
        by_cases e : i = x
        · subst e; simp; exact ih i hi rest hrest v
        · simp [e]; exact hcs i hi
      · intro i hi; simp only [upd]
        by_cases e : i = x
        · subst e; simp; rw [hr0]; exact notValue_insert (cs i) y0 r0 _
        · simp [e]; exact hnv i hi
      · simp only [upd]
        have : ¬ 16 = x := by omega
        simp [this]; exact h16

end QuaiVerif.Trie
