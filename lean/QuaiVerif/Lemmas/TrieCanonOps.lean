import QuaiVerif.Lemmas.TrieCanon
/- insert and delete keep the trie model canonical (C18). -/
namespace QuaiVerif.Trie

theorem insert_ne_nil (n : Node) (x : Nat) (rest : List Nat) (v : Bytes) : insert n (x :: rest) (.value v) ≠ .nil := by
  cases n with
  | nil => simp [insert]
  | value w => simp [insert]
  | short k c =>
    simp only [insert]
    split
    · simp
    · split <;> simp
  | full cs => simp [insert]

theorem isFull_insert_full (cs : Nat → Node) (x : Nat) (rest : List Nat) (v : Node) : IsFull (insert (.full cs) (x :: rest) v) := by
  simp [insert, IsFull]

/-- the child hung under nibble `x` when a key tail `x :: rk` ends in a value (canonical version) -/
theorem canon_tail_value (x : Nat) (rk : List Nat) (v : Bytes) (h : HexKey (x :: rk)) :
    (x = 16 ∧ wrap rk (.value v) = .value v) ∨ (x < 16 ∧ Canon (wrap rk (.value v)) ∧ NotValue (wrap rk (.value v)) ∧ wrap rk (.value v) ≠ .nil) := by
  rcases hexKey_cons h with ⟨hx, hr⟩ | ⟨hx, hr⟩
  · left; subst hr; exact ⟨hx, rfl⟩
  · right
    have hne := hexKey_ne_nil hr
    obtain ⟨b, rfl, hb⟩ := hr
    have : wrap (b ++ [16]) (.value v) = .short (b ++ [16]) (.value v) := by simp [wrap]
    rw [this]
    exact ⟨hx, Canon.leaf b v hb, trivial, by simp⟩

theorem canon_wrap_full (p : List Nat) (cs : Nat → Node) (hp : Nib p) (h : Canon (.full cs)) : Canon (wrap p (.full cs)) := by
  unfold wrap
  by_cases e : p = []
  · simp [e]; exact h
  · simp only [e, if_false]
    exact Canon.ext p _ hp e trivial h

/-- the two-child branch created by a split is canonical -/
theorem canon_split (x a : Nat) (nx na : Node) (hxa : x ≠ a)
    (hx : (x = 16 ∧ ∃ v, nx = .value v) ∨ (x < 16 ∧ Canon nx ∧ NotValue nx ∧ nx ≠ .nil))
    (ha : (a = 16 ∧ ∃ v, na = .value v) ∨ (a < 16 ∧ Canon na ∧ NotValue na ∧ na ≠ .nil)) :
    Canon (.full (upd (upd (fun _ => .nil) a na) x nx)) := by
  have hx17 : x < 17 := by rcases hx with ⟨h, _⟩ | ⟨h, _⟩ <;> omega
  have ha17 : a < 17 := by rcases ha with ⟨h, _⟩ | ⟨h, _⟩ <;> omega
  have hxn : nx ≠ .nil := by
    rcases hx with ⟨_, v, hv⟩ | ⟨_, _, _, h⟩
    · rw [hv]; simp
    · exact h
  have han : na ≠ .nil := by
    rcases ha with ⟨_, v, hv⟩ | ⟨_, _, _, h⟩
    · rw [hv]; simp
    · exact h
  apply Canon.full
  · intro i hi
    simp only [upd]
    by_cases h1 : i = x
    · subst h1
      rcases hx with ⟨h, _⟩ | ⟨_, h, _⟩
      · omega
      · simp [h]
    · by_cases h2 : i = a
      · subst h2
        rcases ha with ⟨h, _⟩ | ⟨_, h, _⟩
        · omega
        · simp [h1, h]
      · simp [h1, h2]; exact Canon.nil
  · intro i hi
    simp only [upd]
    by_cases h1 : i = x
    · subst h1
      rcases hx with ⟨h, _⟩ | ⟨_, _, h, _⟩
      · omega
      · simp [h]
    · by_cases h2 : i = a
      · subst h2
        rcases ha with ⟨h, _⟩ | ⟨_, _, h, _⟩
        · omega
        · simp [h1, h]
      · simp [h1, h2, NotValue]
  · simp only [upd]
    by_cases h1 : 16 = x
    · rcases hx with ⟨_, v, hv⟩ | ⟨h, _⟩
      · right; exact ⟨v, by simp [h1, hv]⟩
      · omega
    · by_cases h2 : 16 = a
      · rcases ha with ⟨_, v, hv⟩ | ⟨h, _⟩
        · right
          exact ⟨v, by simp [h1, ← h2, hv]⟩
        · omega
      · left; simp [h1, h2]
  · intro i hi
    simp only [upd]
    have h1 : ¬ i = x := by omega
    have h2 : ¬ i = a := by omega
    simp [h1, h2]
  · refine ⟨x, a, hx17, ha17, hxa, ?_, ?_⟩
    · simp [upd]; exact hxn
    · have : ¬ a = x := fun e => hxa e.symm
      simp [upd, this]; exact han

/-- **insert keeps the trie canonical** -/
theorem canon_insert {t : Node} (hc : Canon t) :
    ∀ (key : List Nat), HexKey key → ∀ (v : Bytes), Canon (insert t key (.value v)) := by
  induction hc with
  | nil =>
    intro key hk v
    obtain ⟨x, rest, rfl⟩ := List.exists_cons_of_ne_nil (hexKey_ne_nil hk)
    simp only [insert]
    obtain ⟨b, hb, hn⟩ := hk
    rw [hb]; exact Canon.leaf b v hn
  | leaf b w hb =>
    intro key hk v
    have hkk : HexKey (b ++ [16]) := ⟨b, rfl, hb⟩
    rcases prefixLen_cases key (b ++ [16]) with ⟨_, r, hr⟩ | ⟨_, _, r, hr0, hr⟩ | ⟨p, x, rk, a, ra, hkey, hk2, hxa, _⟩
    · have : r = [] := hexKey_prefix_eq hkk (hr ▸ hk)
      subst this
      simp only [List.append_nil] at hr
      subst hr
      have h1 := insert_short_prefix (b ++ [16]) (.value w) [] (.value v) (by simp)
      simp only [List.append_nil] at h1
      rw [h1, insert_nil_key]
      exact Canon.leaf b v hb
    · exact absurd (hexKey_prefix_eq hk (hr ▸ hkk)) hr0
    · rw [hkey, hk2, insert_short_split p x rk a ra _ _ hxa]
      rw [hk2] at hkk
      rw [hkey] at hk
      have hp : Nib p := (hexKey_drop_prefix hk (by simp)).2
      have hxk : HexKey (x :: rk) := (hexKey_drop_prefix hk (by simp)).1
      have hak : HexKey (a :: ra) := (hexKey_drop_prefix hkk (by simp)).1
      apply canon_wrap_full p _ hp
      apply canon_split x a _ _ hxa
      · rcases canon_tail_value x rk v hxk with ⟨h1, h2⟩ | h
        · exact Or.inl ⟨h1, v, by rw [mk_eq_wrap, h2]⟩
        · exact Or.inr (by rw [mk_eq_wrap]; exact h)
      · rcases canon_tail_value a ra w hak with ⟨h1, h2⟩ | h
        · exact Or.inl ⟨h1, w, by rw [mk_eq_wrap, h2]⟩
        · exact Or.inr (by rw [mk_eq_wrap]; exact h)
  | ext k c hnk hne hf hcc ih =>
    intro key hk v
    rcases prefixLen_cases key k with ⟨_, r, hr⟩ | ⟨_, _, r, hr0, hr⟩ | ⟨p, x, rk, a, ra, hkey, hk2, hxa, _⟩
    · subst hr
      obtain ⟨y0, r0, hr0⟩ := hexKey_after_nib hk hnk
      have hkr : HexKey r := (hexKey_drop_prefix hk (by simp [hr0])).1
      rw [insert_short_prefix k c r _ (by simp [hne])]
      refine Canon.ext k _ hnk hne ?_ (ih r hkr v)
      rw [hr0]
      cases c with
      | full cs => exact isFull_insert_full cs y0 r0 _
      | nil => exact absurd hf (by simp [IsFull])
      | value w => exact absurd hf (by simp [IsFull])
      | short k2 c2 => exact absurd hf (by simp [IsFull])
    · exfalso
      obtain ⟨b, hb, _⟩ := hk
      have : 16 ∈ k := by rw [hr, hb]; simp
      have := hnk 16 this
      omega
    · rw [hkey, hk2, insert_short_split p x rk a ra _ _ hxa]
      rw [hkey] at hk
      have hp : Nib p := (hexKey_drop_prefix hk (by simp)).2
      have hxk : HexKey (x :: rk) := (hexKey_drop_prefix hk (by simp)).1
      rw [hk2] at hnk
      have ha16 : a < 16 := (nib_cons.mp (nib_append.mp hnk).2).1
      have hra : Nib ra := (nib_cons.mp (nib_append.mp hnk).2).2
      have hcn : c ≠ .nil := by cases c <;> simp_all [IsFull]
      have hcv : NotValue c := by cases c <;> simp_all [IsFull, NotValue]
      apply canon_wrap_full p _ hp
      apply canon_split x a _ _ hxa
      · rcases canon_tail_value x rk v hxk with ⟨h1, h2⟩ | h
        · exact Or.inl ⟨h1, v, by rw [mk_eq_wrap, h2]⟩
        · exact Or.inr (by rw [mk_eq_wrap]; exact h)
      · right
        refine ⟨ha16, ?_⟩
        rw [mk_eq_wrap]
        unfold wrap
        by_cases e : ra = []
        · simp [e]; exact ⟨hcc, hcv, hcn⟩
        · simp only [e, if_false]
          exact ⟨Canon.ext ra c hra e hf hcc, trivial, by simp⟩
  | full cs hcs hnv h16 hbig h2c ih =>
    intro key hk v
    obtain ⟨x, rest, rfl⟩ := List.exists_cons_of_ne_nil (hexKey_ne_nil hk)
    simp only [insert]
    have hx17 : x < 17 := hexKey_head_lt hk
    -- the updated child is not nil, so two non-nil children remain
    have hkeep : ∃ i j, i < 17 ∧ j < 17 ∧ i ≠ j ∧ upd cs x (insert (cs x) rest (.value v)) i ≠ .nil ∧ upd cs x (insert (cs x) rest (.value v)) j ≠ .nil := by
      obtain ⟨i, j, hi, hj, hij, hin, hjn⟩ := h2c
      have hnew : insert (cs x) rest (.value v) ≠ .nil := by
        cases rest with
        | nil => rw [insert_nil_key]; simp
        | cons y r => exact insert_ne_nil _ y r v
      refine ⟨i, j, hi, hj, hij, ?_, ?_⟩
      · simp only [upd]; by_cases e : i = x
        · simp [e]; exact hnew
        · simp [e]; exact hin
      · simp only [upd]; by_cases e : j = x
        · simp [e]; exact hnew
        · simp [e]; exact hjn
    rcases hexKey_cons hk with ⟨hx, hrest⟩ | ⟨hx, hrest⟩
    · subst hx; subst hrest
      rw [insert_nil_key] at hkeep ⊢
      apply Canon.full
      · intro i hi; simp only [upd]; have : ¬ i = 16 := by omega
        simp [this]; exact hcs i hi
      · intro i hi; simp only [upd]; have : ¬ i = 16 := by omega
        simp [this]; exact hnv i hi
      · right; exact ⟨v, by simp [upd]⟩
      · intro i hi; simp only [upd]; have : ¬ i = 16 := by omega
        simp [this]; exact hbig i hi
      · exact hkeep
    · obtain ⟨y0, r0, hr0⟩ := List.exists_cons_of_ne_nil (hexKey_ne_nil hrest)
      apply Canon.full
      · intro i hi; simp only [upd]
        by_cases e : i = x
        · subst e; simp; exact ih i hi rest hrest v
        · simp [e]; exact hcs i hi
      · intro i hi; simp only [upd]
        by_cases e : i = x
        · subst e; simp; rw [hr0]; exact notValue_insert (cs i) y0 r0 _
        · simp [e]; exact hnv i hi
      · simp only [upd]
        have : ¬ 16 = x := by omega
        simp [this]; exact h16
      · intro i hi; simp only [upd]
        have : ¬ i = x := by omega
        simp [this]; exact hbig i hi
      · exact hkeep

/-- when `singleChild` finds no single child, the branch has none or at least two -/
theorem singleChild_none_spec (cs : Nat → Node) (h : singleChild cs = none) :
    (∀ i, i < 17 → cs i = .nil) ∨ (∃ i j, i < 17 ∧ j < 17 ∧ i ≠ j ∧ cs i ≠ .nil ∧ cs j ≠ .nil) := by
  unfold singleChild at h
  have hmem : ∀ i, i ∈ (List.range 17).filter (fun i => !isNil (cs i)) ↔ i < 17 ∧ cs i ≠ .nil := by
    intro i
    simp only [List.mem_filter, List.mem_range, Bool.not_eq_true']
    constructor
    · intro ⟨h1, h2⟩
      refine ⟨h1, ?_⟩
      intro e
      rw [(isNil_iff _).mpr e] at h2; simp at h2
    · intro ⟨h1, h2⟩
      refine ⟨h1, ?_⟩
      cases hn : isNil (cs i)
      · rfl
      · exact absurd ((isNil_iff _).mp hn) h2
  have hnd : ((List.range 17).filter (fun i => !isNil (cs i))).Nodup :=
    List.Nodup.sublist List.filter_sublist List.nodup_range
  generalize hf : (List.range 17).filter (fun i => !isNil (cs i)) = l at h hmem hnd
  match l, h with
  | [], _ =>
    left
    intro i hi
    by_cases e : cs i = .nil
    · exact e
    · have := (hmem i).mpr ⟨hi, e⟩
      simp at this
  | [_], h => simp at h
  | a :: b :: rest, _ =>
    right
    have ha := (hmem a).mp (by simp)
    have hb := (hmem b).mp (by simp)
    have hab : a ≠ b := by
      intro e
      have := List.nodup_cons.mp hnd
      exact this.1 (by simp [e])
    exact ⟨a, b, ha.1, hb.1, hab, ha.2, hb.2⟩

theorem canon_prepend (k : List Nat) (hk : Nib k) (hne : k ≠ []) (k2 : List Nat) (c2 : Node) (h : Canon (.short k2 c2)) :
    Canon (.short (k ++ k2) c2) := by
  cases h with
  | leaf b v hb =>
    rw [← List.append_assoc]
    exact Canon.leaf (k ++ b) v (nib_append.mpr ⟨hk, hb⟩)
  | ext _ _ hk2 hne2 hf hc =>
    exact Canon.ext (k ++ k2) c2 (nib_append.mpr ⟨hk, hk2⟩) (by simp [hne]) hf hc

theorem canon_rejoin (k : List Nat) (hk : Nib k) (hne : k ≠ []) (d : Node) (hd : Canon d) (hnv : NotValue d) : Canon (rejoin k d) := by
  cases d with
  | nil => exact Canon.nil
  | value v => exact absurd hnv (by simp [NotValue])
  | short k2 c2 => exact canon_prepend k hk hne k2 c2 hd
  | full cs => exact Canon.ext k _ hk hne trivial hd

theorem canon_collapse (cs : Nat → Node) (pos : Nat) (hp : pos < 17) (hnn : cs pos ≠ .nil)
    (hc : ∀ i, i < 16 → Canon (cs i)) (hnv : ∀ i, i < 16 → NotValue (cs i)) (h16 : cs 16 = .nil ∨ ∃ v, cs 16 = .value v) :
    Canon (collapse cs pos) := by
  unfold collapse
  by_cases h : pos ≠ 16
  · have hlt : pos < 16 := by omega
    simp only [h, ne_eq, not_false_eq_true, if_true]
    have hw := hc pos hlt
    have hv := hnv pos hlt
    cases hcp : cs pos with
    | nil => exact absurd hcp hnn
    | value v => rw [hcp] at hv; exact absurd hv (by simp [NotValue])
    | short k2 c2 =>
      simp only []
      rw [hcp] at hw
      have : pos :: k2 = [pos] ++ k2 := rfl
      rw [this]
      exact canon_prepend [pos] (nib_cons.mpr ⟨hlt, nib_nil⟩) (by simp) k2 c2 hw
    | full cs2 =>
      simp only []
      rw [hcp] at hw
      exact Canon.ext [pos] _ (nib_cons.mpr ⟨hlt, nib_nil⟩) (by simp) trivial hw
  · have hp16 : pos = 16 := by omega
    simp only [h, if_false]
    subst hp16
    rcases h16 with hn | ⟨v, hv⟩
    · exact absurd hn hnn
    · rw [hv]; exact Canon.leaf [] v nib_nil

/-- **delete keeps the trie canonical** -/
theorem canon_delete {t : Node} (hc : Canon t) : ∀ (key : List Nat), HexKey key → Canon (delete t key) := by
  induction hc with
  | nil => intro key _; rw [delete_nil]; exact Canon.nil
  | leaf b w hb =>
    intro key hk
    have hkk : HexKey (b ++ [16]) := ⟨b, rfl, hb⟩
    rcases prefixLen_cases key (b ++ [16]) with ⟨_, r, hr⟩ | ⟨_, _, r, hr0, hr⟩ | ⟨p, x, rk, a, ra, hkey, hk2, hxa, hm⟩
    · have : r = [] := hexKey_prefix_eq hkk (hr ▸ hk)
      subst this
      simp only [List.append_nil] at hr
      subst hr
      rw [delete_short_exact]; exact Canon.nil
    · exact absurd (hexKey_prefix_eq hk (hr ▸ hkk)) hr0
    · have hlt : prefixLen key (b ++ [16]) < (b ++ [16]).length := by
        rw [hm, hk2]; simp
      rw [delete_short_other _ _ _ hlt]; exact Canon.leaf b w hb
  | ext k c hkn hne hf hcc ih =>
    intro key hkey
    rcases prefixLen_cases key k with ⟨_, r, hr⟩ | ⟨_, _, r, hr0, hr⟩ | ⟨p, x, rk, a, ra, hkeyeq, hk2, hxa, hm⟩
    · subst hr
      have hr' : r ≠ [] := by
        intro e; subst e
        simp only [List.append_nil] at hkey
        exact nib_not_hexKey hkn hkey
      have hkr : HexKey r := (hexKey_drop_prefix hkey hr').1
      rw [delete_short_prefix' k c r hr']
      exact canon_rejoin k hkn hne _ (ih r hkr) (notValue_delete c r)
    · exfalso
      have hkk : Nib key := by
        rw [hr] at hkn; exact (nib_append.mp hkn).1
      exact nib_not_hexKey hkk hkey
    · have hlt : prefixLen key k < k.length := by
        rw [hm, hk2]; simp
      rw [delete_short_other _ _ _ hlt]; exact Canon.ext k c hkn hne hf hcc
  | full cs hcs hnvc h16 hbig h2c ih =>
    intro key hkey
    obtain ⟨x, rest, rfl⟩ := List.exists_cons_of_ne_nil (hexKey_ne_nil hkey)
    have hx17 : x < 17 := hexKey_head_lt hkey
    have hc' : ∀ i, i < 16 → Canon (upd cs x (delete (cs x) rest) i) := by
      intro i hi
      by_cases hix : i = x
      · subst hix
        rw [upd_same]
        rcases hexKey_cons hkey with ⟨h16x, _⟩ | ⟨hx, hrest⟩
        · omega
        · exact ih i hx rest hrest
      · rw [upd_other _ _ _ _ hix]; exact hcs i hi
    have hnv' : ∀ i, i < 16 → NotValue (upd cs x (delete (cs x) rest) i) := by
      intro i hi
      by_cases hix : i = x
      · subst hix; rw [upd_same]; exact notValue_delete _ _
      · rw [upd_other _ _ _ _ hix]; exact hnvc i hi
    have h16' : upd cs x (delete (cs x) rest) 16 = .nil ∨ ∃ v, upd cs x (delete (cs x) rest) 16 = .value v := by
      by_cases hx : (16 : Nat) = x
      · subst hx
        rw [upd_same]
        left
        rcases hexKey_cons hkey with ⟨_, hrest⟩ | ⟨hlt, _⟩
        · subst hrest
          rcases h16 with hn | ⟨v, hv⟩
          · rw [hn]; simp [delete]
          · rw [hv]; simp [delete]
        · omega
      · rw [upd_other _ _ _ _ hx]; exact h16
    have hbig' : ∀ i, 16 < i → upd cs x (delete (cs x) rest) i = .nil := by
      intro i hi
      have : i ≠ x := by omega
      rw [upd_other _ _ _ _ this]; exact hbig i hi
    -- some child other than x is not nil
    have hother : ∃ j, j < 17 ∧ j ≠ x ∧ cs j ≠ .nil := by
      obtain ⟨i, j, hi, hj, hij, hin, hjn⟩ := h2c
      by_cases e : i = x
      · exact ⟨j, hj, by omega, hjn⟩
      · exact ⟨i, hi, e, hin⟩
    rw [delete_full_cons]
    simp only []
    by_cases hnn : (!isNil (delete (cs x) rest)) = true
    · simp only [hnn, if_true]
      refine Canon.full _ hc' hnv' h16' hbig' ?_
      obtain ⟨i, j, hi, hj, hij, hin, hjn⟩ := h2c
      have hnew : delete (cs x) rest ≠ .nil := by
        intro e
        rw [e] at hnn; simp [isNil] at hnn
      refine ⟨i, j, hi, hj, hij, ?_, ?_⟩
      · by_cases e : i = x
        · rw [e, upd_same]; exact hnew
        · rw [upd_other _ _ _ _ e]; exact hin
      · by_cases e : j = x
        · rw [e, upd_same]; exact hnew
        · rw [upd_other _ _ _ _ e]; exact hjn
    · simp only [hnn, Bool.false_eq_true, if_false]
      cases hsc : singleChild (upd cs x (delete (cs x) rest)) with
      | none =>
        simp only []
        rcases singleChild_none_spec _ hsc with hall | htwo
        · obtain ⟨j, hj, hjx, hjn⟩ := hother
          have := hall j hj
          rw [upd_other _ _ _ _ hjx] at this
          exact absurd this hjn
        · exact Canon.full _ hc' hnv' h16' hbig' htwo
      | some pos =>
        simp only []
        obtain ⟨hp, hne, _⟩ := singleChild_spec _ _ hsc
        exact canon_collapse _ pos hp hne hc' hnv' h16'

end QuaiVerif.Trie
