import QuaiVerif.Model.KV
/- Helper lemmas for the key-value model (C17, reused by C01/C10/C11/C13). Core Lean only. -/
namespace QuaiVerif.KV

def Sorted (s : Store) : Prop := s.Pairwise (fun a b => a.1 < b.1)

theorem key_lt_irrefl (k : Key) : ¬ k < k := List.lt_irrefl k
theorem key_lt_trans {a b c : Key} (h1 : a < b) (h2 : b < c) : a < c := List.lt_trans h1 h2
theorem key_lt_asymm {a b : Key} (h : a < b) : ¬ b < a := List.lt_asymm h

theorem key_trichotomy (a b : Key) : a < b ∨ a = b ∨ b < a := by
  by_cases h1 : a < b
  · exact Or.inl h1
  · by_cases h2 : b < a
    · exact Or.inr (Or.inr h2)
    · have h1' : b ≤ a := List.not_lt.mp h1
      have h2' : a ≤ b := List.not_lt.mp h2
      exact Or.inr (Or.inl (List.le_antisymm h2' h1'))

theorem get_nil (k : Key) : get [] k = none := rfl

theorem get_cons (k k' : Key) (v' : Val) (t : Store) :
    get ((k', v') :: t) k = if k = k' then some v' else get t k := by
  unfold get
  by_cases h : k = k'
  · subst h; simp [List.lookup]
  · have : (k == k') = false := by simpa using h
    simp [List.lookup, this, h]

theorem get_insert (s : Store) (k k' : Key) (v : Val) :
    get (insert k' v s) k = if k = k' then some v else get s k := by
  induction s with
  | nil => simp [insert, get_cons, get_nil]
  | cons hd t ih =>
    obtain ⟨k0, v0⟩ := hd
    unfold insert
    by_cases h1 : k' < k0
    · simp only [h1, if_true, get_cons]
    · simp only [h1, if_false]
      by_cases h2 : k' = k0
      · subst h2
        simp only [if_true, get_cons]
        by_cases h3 : k = k' <;> simp [h3]
      · simp only [h2, if_false, get_cons, ih]
        by_cases h3 : k = k0
        · subst h3
          have : ¬ k = k' := fun e => h2 e.symm
          simp [this]
        · simp [h3]

theorem get_erase (s : Store) (k k' : Key) :
    get (erase k' s) k = if k = k' then none else get s k := by
  induction s with
  | nil => simp [erase, get_nil]
  | cons hd t ih =>
    obtain ⟨k0, v0⟩ := hd
    unfold erase at *
    by_cases h : k0 = k'
    · subst h
      simp only [List.filter, bne_self_eq_false]
      rw [ih, get_cons]
      by_cases h3 : k = k0 <;> simp [h3]
    · have hne : (k0 != k') = true := by simpa using h
      simp only [List.filter, hne, get_cons, ih]
      by_cases h3 : k = k0
      · subst h3; simp [h]
      · simp [h3]

theorem sorted_nil : Sorted [] := List.Pairwise.nil

theorem mem_insert_key {s : Store} {k : Key} {v : Val} {p : Key × Val}
    (h : p ∈ insert k v s) : p = (k, v) ∨ p ∈ s := by
  induction s with
  | nil => simp [insert] at h; exact Or.inl h
  | cons hd t ih =>
    obtain ⟨k0, v0⟩ := hd
    unfold insert at h
    by_cases h1 : k < k0
    · simp only [h1, if_true, List.mem_cons] at h
      rcases h with h | h | h
      · exact Or.inl h
      · exact Or.inr (by simp [h])
      · exact Or.inr (by simp [h])
    · simp only [h1, if_false] at h
      by_cases h2 : k = k0
      · simp only [h2, if_true, List.mem_cons] at h
        rcases h with h | h
        · exact Or.inl (by simp [h, h2])
        · exact Or.inr (by simp [h])
      · simp only [h2, if_false, List.mem_cons] at h
        rcases h with h | h
        · exact Or.inr (by simp [h])
        · rcases ih h with h | h
          · exact Or.inl h
          · exact Or.inr (by simp [h])

theorem sorted_insert {s : Store} (hs : Sorted s) (k : Key) (v : Val) : Sorted (insert k v s) := by
  induction s with
  | nil => simp [insert, Sorted]
  | cons hd t ih =>
    obtain ⟨k0, v0⟩ := hd
    have hs' := hs
    unfold Sorted at hs
    rw [List.pairwise_cons] at hs
    obtain ⟨hhd, htl⟩ := hs
    unfold insert
    by_cases h1 : k < k0
    · simp only [h1, if_true]
      unfold Sorted
      rw [List.pairwise_cons]
      refine ⟨?_, hs'⟩
      intro p hp
      rw [List.mem_cons] at hp
      rcases hp with hp | hp
      · subst hp; exact h1
      · exact key_lt_trans h1 (hhd p hp)
    · simp only [h1, if_false]
      by_cases h2 : k = k0
      · subst h2
        simp only [if_true]
        unfold Sorted
        rw [List.pairwise_cons]
        exact ⟨hhd, htl⟩
      · simp only [h2, if_false]
        unfold Sorted
        rw [List.pairwise_cons]
        refine ⟨?_, ih htl⟩
        intro p hp
        rcases mem_insert_key hp with hp | hp
        · subst hp
          rcases key_trichotomy k k0 with h | h | h
          · exact absurd h h1
          · exact absurd h h2
          · exact h
        · exact hhd p hp

theorem sorted_erase {s : Store} (hs : Sorted s) (k : Key) : Sorted (erase k s) :=
  List.Pairwise.filter _ hs

theorem sorted_applyOp {s : Store} (hs : Sorted s) (op : BOp) : Sorted (applyOp s op) := by
  cases op with
  | put k v => exact sorted_insert hs k v
  | del k => exact sorted_erase hs k

theorem sorted_foldl {s : Store} (hs : Sorted s) (ops : List BOp) : Sorted (ops.foldl applyOp s) := by
  induction ops generalizing s with
  | nil => exact hs
  | cons op t ih => exact ih (sorted_applyOp hs op)

/-- In a sorted store membership and lookup coincide. -/
theorem mem_iff_get {s : Store} (hs : Sorted s) (k : Key) (v : Val) :
    (k, v) ∈ s ↔ get s k = some v := by
  induction s with
  | nil => simp [get_nil]
  | cons hd t ih =>
    obtain ⟨k0, v0⟩ := hd
    unfold Sorted at hs
    rw [List.pairwise_cons] at hs
    obtain ⟨hhd, htl⟩ := hs
    rw [List.mem_cons, get_cons]
    by_cases h : k = k0
    · subst h
      simp only [if_true]
      constructor
      · intro hm
        rcases hm with hm | hm
        · simp at hm; simp [hm]
        · exact absurd (hhd _ hm) (key_lt_irrefl k)
      · intro e; simp at e; exact Or.inl (by simp [e])
    · simp only [h, if_false]
      rw [← ih htl]
      constructor
      · intro hm
        rcases hm with hm | hm
        · simp at hm; exact absurd hm.1 h
        · exact hm
      · intro hm; exact Or.inr hm

end QuaiVerif.KV
