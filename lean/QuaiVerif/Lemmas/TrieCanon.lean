import QuaiVerif.Lemmas.TrieDelete
/- Canonical form of the trie model (C18): the node structure is determined by the content. -/
namespace QuaiVerif.Trie

def IsFull : Node → Prop
  | .full _ => True
  | _ => False

/-- canonical subtrie for terminated keys: as `WF`, and in addition an extension's child is a branch, a branch has at
least two children, and nothing hangs beyond index 16 -/
inductive Canon : Node → Prop where
  | nil : Canon .nil
  | leaf (b : List Nat) (v : Bytes) : Nib b → Canon (.short (b ++ [16]) (.value v))
  | ext (k : List Nat) (c : Node) : Nib k → k ≠ [] → IsFull c → Canon c → Canon (.short k c)
  | full (cs : Nat → Node) : (∀ i, i < 16 → Canon (cs i)) → (∀ i, i < 16 → NotValue (cs i)) →
      (cs 16 = .nil ∨ ∃ v, cs 16 = .value v) → (∀ i, 16 < i → cs i = .nil) →
      (∃ i j, i < 17 ∧ j < 17 ∧ i ≠ j ∧ cs i ≠ .nil ∧ cs j ≠ .nil) → Canon (.full cs)

theorem canon_wf {t : Node} (h : Canon t) : WF t := by
  induction h with
  | nil => exact WF.nil
  | leaf b v hb => exact WF.leaf b v hb
  | ext k c hk hne hf _ ih =>
    refine WF.ext k c hk hne ih ?_
    cases c <;> simp_all [IsFull, NotValue]
  | full cs _ hnv h16 _ _ ih => exact WF.full cs ih hnv h16

/-- a key is present -/
def Has (t : Node) (k : List Nat) : Prop := get t k ≠ none

/-- a canonical node other than nil / a value holds at least one terminated key -/
theorem canon_has_key {t : Node} (h : Canon t) : t ≠ .nil → ∃ k, HexKey k ∧ Has t k := by
  induction h with
  | nil => intro h; exact absurd rfl h
  | leaf b v hb =>
    intro _
    refine ⟨b ++ [16], ⟨b, rfl, hb⟩, ?_⟩
    unfold Has
    rw [get_leafnode _ ⟨b, rfl, hb⟩ v _ ⟨b, rfl, hb⟩]; simp
  | ext k c hk hne hf _ ih =>
    intro _
    have hcn : c ≠ .nil := by cases c <;> simp_all [IsFull]
    obtain ⟨r, hr, hhas⟩ := ih hcn
    refine ⟨k ++ r, ?_, ?_⟩
    · obtain ⟨b, rfl, hb⟩ := hr
      exact ⟨k ++ b, by simp, nib_append.mpr ⟨hk, hb⟩⟩
    · unfold Has at *
      rw [get_short, isPrefixOf_append_self]; simpa using hhas
  | full cs hc hnv h16 _ h2 ih =>
    intro _
    obtain ⟨i, j, hi, _, _, hin, _⟩ := h2
    by_cases hi16 : i = 16
    · subst hi16
      rcases h16 with hn | ⟨v, hv⟩
      · exact absurd hn hin
      · exact ⟨[16], hexKey_16, by unfold Has; rw [get_full_cons, hv]; simp [get]⟩
    · have hlt : i < 16 := by omega
      obtain ⟨r, hr, hhas⟩ := ih i hlt hin
      exact ⟨i :: r, hexKey_cons_of hlt hr, by unfold Has at *; rw [get_full_cons]; exact hhas⟩

/-- a branch holds keys under each of its non-nil children -/
theorem full_child_key (cs : Nat → Node) (h : Canon (.full cs)) (i : Nat) (hi : i < 17) (hin : cs i ≠ .nil) :
    ∃ r, HexKey (i :: r) ∧ Has (.full cs) (i :: r) := by
  cases h with
  | full _ hc hnv h16 _ _ =>
    by_cases hi16 : i = 16
    · subst hi16
      rcases h16 with hn | ⟨v, hv⟩
      · exact absurd hn hin
      · exact ⟨[], hexKey_16, by unfold Has; rw [get_full_cons, hv]; simp [get]⟩
    · have hlt : i < 16 := by omega
      obtain ⟨r, hr, hhas⟩ := canon_has_key (hc i hlt) hin
      exact ⟨r, hexKey_cons_of hlt hr, by unfold Has at *; rw [get_full_cons]; exact hhas⟩

theorem has_short_prefix (k : List Nat) (c : Node) (q : List Nat) (h : Has (.short k c) q) : ∃ r, q = k ++ r ∧ Has c r := by
  unfold Has at h
  rw [get_short] at h
  rcases prefix_cases k q with hnp | ⟨r, rfl⟩
  · simp [hnp] at h
  · rw [isPrefixOf_append_self] at h
    exact ⟨r, rfl, by unfold Has; simpa using h⟩

theorem has_short_append (k : List Nat) (c : Node) (r : List Nat) : Has (.short k c) (k ++ r) ↔ Has c r := by
  unfold Has
  rw [get_short, isPrefixOf_append_self]; simp

theorem get_short_append_eq (k : List Nat) (c : Node) (r : List Nat) : get (.short k c) (k ++ r) = get c r := by
  rw [get_short, isPrefixOf_append_self]; simp

theorem two_keys_full (cs : Nat → Node) (h : Canon (.full cs)) :
    ∃ i j r1 r2, i ≠ j ∧ HexKey (i :: r1) ∧ Has (.full cs) (i :: r1) ∧ HexKey (j :: r2) ∧ Has (.full cs) (j :: r2) := by
  have h' := h
  cases h with
  | full _ _ _ _ _ h2 =>
    obtain ⟨i, j, hi, hj, hij, hin, hjn⟩ := h2
    obtain ⟨r1, hk1, hh1⟩ := full_child_key cs h' i hi hin
    obtain ⟨r2, hk2, hh2⟩ := full_child_key cs h' j hj hjn
    exact ⟨i, j, r1, r2, hij, hk1, hh1, hk2, hh2⟩

theorem two_keys_ext (k : List Nat) (c : Node) (hk : Nib k) (hf : IsFull c) (hc : Canon c) :
    ∃ i j r1 r2, i ≠ j ∧ HexKey (k ++ i :: r1) ∧ Has (.short k c) (k ++ i :: r1) ∧ HexKey (k ++ j :: r2) ∧ Has (.short k c) (k ++ j :: r2) := by
  cases c with
  | full cs =>
    obtain ⟨i, j, r1, r2, hij, hk1, hh1, hk2, hh2⟩ := two_keys_full cs hc
    have e1 : HexKey (k ++ i :: r1) := by
      obtain ⟨b, hb, hn⟩ := hk1
      exact ⟨k ++ b, by rw [hb]; simp, nib_append.mpr ⟨hk, hn⟩⟩
    have e2 : HexKey (k ++ j :: r2) := by
      obtain ⟨b, hb, hn⟩ := hk2
      exact ⟨k ++ b, by rw [hb]; simp, nib_append.mpr ⟨hk, hn⟩⟩
    exact ⟨i, j, r1, r2, hij, e1, (has_short_append k _ _).mpr hh1, e2, (has_short_append k _ _).mpr hh2⟩
  | nil => exact absurd hf (by simp [IsFull])
  | value v => exact absurd hf (by simp [IsFull])
  | short k2 c2 => exact absurd hf (by simp [IsFull])

theorem leaf_keys (b : List Nat) (v : Bytes) (hb : Nib b) (q : List Nat) (hq : HexKey q) (h : Has (.short (b ++ [16]) (.value v)) q) :
    q = b ++ [16] := by
  unfold Has at h
  rw [get_leafnode _ ⟨b, rfl, hb⟩ v q hq] at h
  by_cases e : q = b ++ [16]
  · exact e
  · simp [e] at h

/-- two lists that extend a common stem with different next elements are different beyond the stem -/
theorem prefix_both (k k' : List Nat) (i j : Nat) (r1 r2 s1 s2 : List Nat) (hij : i ≠ j)
    (h1 : k ++ i :: r1 = k' ++ s1) (h2 : k ++ j :: r2 = k' ++ s2) : ∃ d, k = k' ++ d := by
  induction k generalizing k' with
  | nil =>
    cases k' with
    | nil => exact ⟨[], rfl⟩
    | cons x xs =>
      simp at h1 h2
      exact absurd (h1.1.trans h2.1.symm) hij
  | cons y ys ih =>
    cases k' with
    | nil => exact ⟨y :: ys, rfl⟩
    | cons x xs =>
      simp at h1 h2
      obtain ⟨d, hd⟩ := ih xs h1.2 h2.2
      exact ⟨d, by rw [h1.1, hd]; rfl⟩

/-- the two tries answer every terminated key alike -/
def SameContent (t1 t2 : Node) : Prop := ∀ k, HexKey k → get t1 k = get t2 k

theorem sameContent_symm {t1 t2 : Node} (h : SameContent t1 t2) : SameContent t2 t1 := fun k hk => (h k hk).symm

theorem has_transfer {t1 t2 : Node} (h : SameContent t1 t2) {k : List Nat} (hk : HexKey k) (hh : Has t1 k) : Has t2 k := by
  unfold Has at *; rw [← h k hk]; exact hh

theorem excl_nil {t : Node} (hc : Canon t) (hn : t ≠ .nil) (h : SameContent t .nil) : False := by
  obtain ⟨k, hk, hh⟩ := canon_has_key hc hn
  have := has_transfer h hk hh
  unfold Has at this; rw [get_nil] at this; exact this rfl

theorem excl_leaf_ext (b : List Nat) (v : Bytes) (hb : Nib b) (k : List Nat) (c : Node) (hk : Nib k) (hf : IsFull c) (hc : Canon c)
    (h : SameContent (.short k c) (.short (b ++ [16]) (.value v))) : False := by
  obtain ⟨i, j, r1, r2, hij, hk1, hh1, hk2, hh2⟩ := two_keys_ext k c hk hf hc
  have e1 := leaf_keys b v hb _ hk1 (has_transfer h hk1 hh1)
  have e2 := leaf_keys b v hb _ hk2 (has_transfer h hk2 hh2)
  have := List.append_cancel_left (e1.trans e2.symm)
  simp at this
  exact hij this.1

theorem excl_leaf_full (b : List Nat) (v : Bytes) (hb : Nib b) (cs : Nat → Node) (hc : Canon (.full cs))
    (h : SameContent (.full cs) (.short (b ++ [16]) (.value v))) : False := by
  obtain ⟨i, j, r1, r2, hij, hk1, hh1, hk2, hh2⟩ := two_keys_full cs hc
  have e1 := leaf_keys b v hb _ hk1 (has_transfer h hk1 hh1)
  have e2 := leaf_keys b v hb _ hk2 (has_transfer h hk2 hh2)
  have := e1.trans e2.symm
  simp at this
  exact hij this.1

theorem excl_ext_full (k : List Nat) (c : Node) (hne : k ≠ []) (cs : Nat → Node) (hc : Canon (.full cs))
    (h : SameContent (.full cs) (.short k c)) : False := by
  obtain ⟨i, j, r1, r2, hij, hk1, hh1, hk2, hh2⟩ := two_keys_full cs hc
  obtain ⟨s1, e1, _⟩ := has_short_prefix k c _ (has_transfer h hk1 hh1)
  obtain ⟨s2, e2, _⟩ := has_short_prefix k c _ (has_transfer h hk2 hh2)
  cases k with
  | nil => exact hne rfl
  | cons x xs =>
    simp at e1 e2
    exact hij (e1.1.trans e2.1.symm)

/-- **canonical tries with the same content are the same tree** -/
theorem canon_unique {t1 : Node} (h1 : Canon t1) : ∀ t2, Canon t2 → SameContent t1 t2 → t1 = t2 := by
  induction h1 with
  | nil =>
    intro t2 h2 hs
    by_cases hn : t2 = .nil
    · exact hn.symm
    · exact absurd (excl_nil h2 hn (sameContent_symm hs)) id
  | leaf b v hb =>
    intro t2 h2 hs
    cases h2 with
    | nil => exact absurd (excl_nil (Canon.leaf b v hb) (by simp) hs) id
    | leaf b' v' hb' =>
      have hk : HexKey (b ++ [16]) := ⟨b, rfl, hb⟩
      have hk' : HexKey (b' ++ [16]) := ⟨b', rfl, hb'⟩
      have e := hs (b ++ [16]) hk
      rw [get_leafnode _ hk v _ hk, get_leafnode _ hk' v' _ hk] at e
      by_cases hb2 : b ++ [16] = b' ++ [16]
      · simp [hb2] at e
        rw [hb2, e]
      · simp [hb2] at e
    | ext k c hk hne hf hc => exact absurd (excl_leaf_ext b v hb k c hk hf hc (sameContent_symm hs)) id
    | full cs a1 a2 a3 a4 a5 => exact absurd (excl_leaf_full b v hb cs (Canon.full cs a1 a2 a3 a4 a5) (sameContent_symm hs)) id
  | ext k c hk hne hf hc ih =>
    intro t2 h2 hs
    cases h2 with
    | nil => exact absurd (excl_nil (Canon.ext k c hk hne hf hc) (by simp) hs) id
    | leaf b' v' hb' => exact absurd (excl_leaf_ext b' v' hb' k c hk hf hc hs) id
    | ext k' c' hk' hne' hf' hc' =>
      -- the two stems are equal
      obtain ⟨i, j, r1, r2, hij, hk1, hh1, hk2, hh2⟩ := two_keys_ext k c hk hf hc
      obtain ⟨s1, e1, _⟩ := has_short_prefix k' c' _ (has_transfer hs hk1 hh1)
      obtain ⟨s2, e2, _⟩ := has_short_prefix k' c' _ (has_transfer hs hk2 hh2)
      obtain ⟨d, hd⟩ := prefix_both k k' i j r1 r2 s1 s2 hij e1 e2
      obtain ⟨i', j', r1', r2', hij', hk1', hh1', hk2', hh2'⟩ := two_keys_ext k' c' hk' hf' hc'
      obtain ⟨s1', e1', _⟩ := has_short_prefix k c _ (has_transfer (sameContent_symm hs) hk1' hh1')
      obtain ⟨s2', e2', _⟩ := has_short_prefix k c _ (has_transfer (sameContent_symm hs) hk2' hh2')
      obtain ⟨d', hd'⟩ := prefix_both k' k i' j' r1' r2' s1' s2' hij' e1' e2'
      have hkk : k = k' := by
        rw [hd'] at hd
        have : d' ++ d = [] := by
          have := congrArg List.length hd
          simp at this
          apply List.eq_nil_of_length_eq_zero
          simp; omega
        have hd0 : d' = [] := (List.append_eq_nil_iff.mp this).1
        rw [hd', hd0]; simp
      subst hkk
      have hcc : c = c' := by
        apply ih c' hc'
        intro r hr
        have hkr : HexKey (k ++ r) := by
          obtain ⟨b, rfl, hb⟩ := hr
          exact ⟨k ++ b, by simp, nib_append.mpr ⟨hk, hb⟩⟩
        have := hs (k ++ r) hkr
        rwa [get_short_append_eq, get_short_append_eq] at this
      rw [hcc]
    | full cs a1 a2 a3 a4 a5 => exact absurd (excl_ext_full k c hne cs (Canon.full cs a1 a2 a3 a4 a5) (sameContent_symm hs)) id
  | full cs hc hnv h16 hbig h2c ih =>
    intro t2 h2 hs
    cases h2 with
    | nil => exact absurd (excl_nil (Canon.full cs hc hnv h16 hbig h2c) (by simp) hs) id
    | leaf b' v' hb' => exact absurd (excl_leaf_full b' v' hb' cs (Canon.full cs hc hnv h16 hbig h2c) hs) id
    | ext k' c' hk' hne' hf' hc' => exact absurd (excl_ext_full k' c' hne' cs (Canon.full cs hc hnv h16 hbig h2c) hs) id
    | full cs' hc' hnv' h16' hbig' h2c' =>
      have : cs = cs' := by
        funext i
        by_cases hi : i < 16
        · apply ih i hi (cs' i) (hc' i hi)
          intro r hr
          have := hs (i :: r) (hexKey_cons_of hi hr)
          rwa [get_full_cons, get_full_cons] at this
        · by_cases hi16 : i = 16
          · subst hi16
            have e := hs [16] hexKey_16
            rw [get_full_cons, get_full_cons] at e
            rcases h16 with hn | ⟨v, hv⟩ <;> rcases h16' with hn' | ⟨v', hv'⟩
            · rw [hn, hn']
            · rw [hn, hv'] at e; simp [get] at e
            · rw [hv, hn'] at e; simp [get] at e
            · rw [hv, hv'] at e; simp [get] at e; rw [hv, hv', e]
          · rw [hbig i (by omega), hbig' i (by omega)]
      rw [this]

end QuaiVerif.Trie
