import QuaiVerif.Lemmas.TrieInsert
/- Lemmas for deletion in the trie model (C18): lookup after delete, well-formedness preserved. -/
namespace QuaiVerif.Trie

theorem isNil_iff (n : Node) : isNil n = true ↔ n = .nil := by
  cases n <;> simp [isNil]

/-- what `singleChild` promises -/
theorem singleChild_spec (cs : Nat → Node) (p : Nat) (h : singleChild cs = some p) :
    p < 17 ∧ cs p ≠ .nil ∧ ∀ i, i < 17 → i ≠ p → cs i = .nil := by
  unfold singleChild at h
  generalize hf : (List.range 17).filter (fun i => !isNil (cs i)) = l at h
  match l, h with
  | [q], h =>
    simp only [Option.some.injEq] at h
    subst h
    have hmem : ∀ i, i ∈ (List.range 17).filter (fun i => !isNil (cs i)) ↔ i = q := by
      intro i; rw [hf]; simp
    have hq := (hmem q).mpr rfl
    simp only [List.mem_filter, List.mem_range, Bool.not_eq_true', ] at hq
    refine ⟨hq.1, ?_, ?_⟩
    · intro e
      have : isNil (cs q) = true := (isNil_iff _).mpr e
      rw [this] at hq; exact absurd hq.2 (by simp)
    · intro i hi hne
      by_cases hn : isNil (cs i) = true
      · exact (isNil_iff _).mp hn
      · have : i ∈ (List.range 17).filter (fun i => !isNil (cs i)) := by
          simp only [List.mem_filter, List.mem_range, Bool.not_eq_true']
          exact ⟨hi, by simpa using hn⟩
        exact absurd ((hmem i).mp this) hne

/-- `delete` at a short node whose key is a proper prefix of the looked-up key -/
theorem delete_short_prefix (k : List Nat) (c : Node) (r : List Nat) (hr : r ≠ []) :
    delete (.short k c) (k ++ r) =
      match delete c r with
      | .short k2 c2 => .short (k ++ k2) c2
      | .nil => .nil
      | child => .short k child := by
  have hm : prefixLen (k ++ r) k = k.length := by
    induction k with
    | nil => cases r <;> simp [prefixLen]
    | cons x xs ih => simp [prefixLen, ih]
  have hlen : ¬ k.length = (k ++ r).length := by
    simpa using hr
  simp only [delete, hm, Nat.lt_irrefl, if_false, hlen, List.drop_left]
  generalize delete c r = d
  cases d <;> rfl

theorem delete_short_exact (k : List Nat) (c : Node) : delete (.short k c) k = .nil := by
  have hm : prefixLen k k = k.length := by
    induction k with
    | nil => simp [prefixLen]
    | cons x xs ih => simp [prefixLen, ih]
  simp [delete, hm]

theorem delete_short_other (k : List Nat) (c : Node) (key : List Nat) (h : prefixLen key k < k.length) :
    delete (.short k c) key = .short k c := by
  simp [delete, h]

theorem get_short_append (k k2 : List Nat) (c : Node) (q : List Nat) :
    get (.short (k ++ k2) c) q = get (.short k (.short k2 c)) q := by
  rw [get_short, get_short]
  rcases prefix_cases k q with hnp | ⟨r, rfl⟩
  · rw [hnp, not_isPrefixOf_append k k2 q hnp]; simp
  · rw [isPrefixOf_append_self, isPrefixOf_append_left, get_short]
    have : List.drop (k ++ k2).length (k ++ r) = List.drop k2.length r := by
      rw [List.length_append, ← List.drop_drop, List.drop_left]
    simp [this]

/-- a nibble-only key cannot be a terminated key -/
theorem nib_not_hexKey {k : List Nat} (hn : Nib k) (h : HexKey k) : False := by
  obtain ⟨b, rfl, _⟩ := h
  have := hn 16 (by simp)
  omega

/-- the three shapes `delete` may leave below a short node, looked up through that short node -/
def rejoin (k : List Nat) (d : Node) : Node :=
  match d with
  | .short k2 c2 => .short (k ++ k2) c2
  | .nil => .nil
  | child => .short k child

theorem delete_short_prefix' (k : List Nat) (c : Node) (r : List Nat) (hr : r ≠ []) :
    delete (.short k c) (k ++ r) = rejoin k (delete c r) := by
  rw [delete_short_prefix k c r hr]
  unfold rejoin
  generalize delete c r = d
  cases d <;> rfl

theorem get_rejoin_off (k : List Nat) (d : Node) (q : List Nat) (h : k.isPrefixOf q = false) : get (rejoin k d) q = none := by
  cases d with
  | nil => simp [rejoin, get_nil]
  | value v => simp [rejoin, get_short, h]
  | short k2 c2 => simp only [rejoin]; rw [get_short, not_isPrefixOf_append k k2 q h]; simp
  | full cs => simp [rejoin, get_short, h]

theorem get_rejoin_on (k : List Nat) (d : Node) (r : List Nat) (hr : r ≠ []) : get (rejoin k d) (k ++ r) = get d r := by
  cases d with
  | nil => simp [rejoin, get_nil]
  | value v =>
    simp only [rejoin]; rw [get_short, isPrefixOf_append_self]; simp
  | short k2 c2 =>
    simp only [rejoin]; rw [get_short_append, get_short, isPrefixOf_append_self]; simp
  | full cs =>
    simp only [rejoin]; rw [get_short, isPrefixOf_append_self]; simp

theorem upd_same (cs : Nat → Node) (x : Nat) (n : Node) : upd cs x n x = n := by simp [upd]
theorem upd_other (cs : Nat → Node) (x y : Nat) (n : Node) (h : y ≠ x) : upd cs x n y = cs y := by simp [upd, h]

/-- what the collapse of a full node with one remaining child looks up -/
def collapse (cs : Nat → Node) (pos : Nat) : Node :=
  if pos ≠ 16 then
    match cs pos with
    | .short k2 c2 => .short (pos :: k2) c2
    | c => .short [pos] c
  else .short [pos] (cs pos)

theorem get_collapse (cs : Nat → Node) (pos : Nat) (hs : ∀ i, i < 17 → i ≠ pos → cs i = .nil)
    (y : Nat) (r : List Nat) (hy : y < 17) : get (collapse cs pos) (y :: r) = get (cs y) r := by
  by_cases hyp : y = pos
  · subst hyp
    unfold collapse
    by_cases h16 : y ≠ 16
    · simp only [h16, ne_eq, not_false_eq_true, if_true]
      cases hc : cs y with
      | short k2 c2 =>
        simp only []
        have : (y :: k2) = [y] ++ k2 := rfl
        rw [this, get_short_append, get_short]; simp
      | nil => simp [get_short, get_nil]
      | value v => simp [get_short]
      | full cs2 => simp [get_short]
    · simp only [h16, if_false]; simp [get_short]
  · rw [hs y hy hyp, get_nil]
    unfold collapse
    by_cases h16 : pos ≠ 16
    · simp only [h16, ne_eq, not_false_eq_true, if_true]
      cases cs pos with
      | short k2 c2 => simp [get_short, hyp, Ne.symm hyp]
      | nil => simp [get_short, hyp, Ne.symm hyp]
      | value v => simp [get_short, hyp, Ne.symm hyp]
      | full cs2 => simp [get_short, hyp, Ne.symm hyp]
    · simp only [h16, if_false]; simp [get_short, hyp, Ne.symm hyp]

theorem delete_full_cons (cs : Nat → Node) (x : Nat) (rest : List Nat) :
    delete (.full cs) (x :: rest) =
      (let nn := delete (cs x) rest
       let cs' := upd cs x nn
       if !isNil nn then .full cs'
       else match singleChild cs' with
         | some pos => collapse cs' pos
         | none => .full cs') := by
  simp only [delete]
  by_cases hnn : (!isNil (delete (cs x) rest)) = true
  · simp only [hnn, if_true]
  · simp only [hnn, Bool.false_eq_true, if_false]
    cases hsc : singleChild (upd cs x (delete (cs x) rest)) with
    | none => rfl
    | some pos =>
      simp only [collapse]
      by_cases h : pos ≠ 16
      · simp only [h, ne_eq, not_false_eq_true, if_true]
        generalize upd cs x (delete (cs x) rest) pos = d
        cases d <;> rfl
      · simp only [h, if_false]

theorem hexKey_head_lt {y : Nat} {r : List Nat} (h : HexKey (y :: r)) : y < 17 := by
  rcases hexKey_cons h with ⟨rfl, _⟩ | ⟨hy, _⟩ <;> omega

theorem delete_nil (key : List Nat) : delete .nil key = .nil := by
  cases key <;> simp [delete]

/-- **lookup after delete** -/
theorem get_delete {t : Node} (hwf : WF t) :
    ∀ (key : List Nat), HexKey key → ∀ (q : List Nat), HexKey q →
      get (delete t key) q = if q = key then none else get t q := by
  induction hwf with
  | nil =>
    intro key _ q _
    rw [delete_nil, get_nil]; simp
  | leaf b w hb =>
    intro key hk q hq
    have hkk : HexKey (b ++ [16]) := ⟨b, rfl, hb⟩
    rcases prefixLen_cases key (b ++ [16]) with ⟨_, r, hr⟩ | ⟨_, _, r, hr0, hr⟩ | ⟨p, x, rk, a, ra, hkey, hk2, hxa, hm⟩
    · have : r = [] := hexKey_prefix_eq hkk (hr ▸ hk)
      subst this
      simp only [List.append_nil] at hr
      subst hr
      rw [delete_short_exact, get_nil, get_leafnode _ hkk w q hq]
      by_cases e : q = b ++ [16] <;> simp [e]
    · exact absurd (hexKey_prefix_eq hk (hr ▸ hkk)) hr0
    · have hlt : prefixLen key (b ++ [16]) < (b ++ [16]).length := by
        rw [hm, hk2]; simp
      rw [delete_short_other _ _ _ hlt]
      by_cases e : q = key
      · subst e
        rw [if_pos rfl, get_leafnode _ hkk w q hq]
        have : ¬ q = b ++ [16] := by
          intro e2
          rw [hkey, hk2] at e2
          have := List.append_cancel_left e2
          simp at this
          exact hxa this.1
        simp [this]
      · simp [e]
  | ext k c hkn hne hc hnv ih =>
    intro key hkey q hq
    rcases prefixLen_cases key k with ⟨_, r, hr⟩ | ⟨_, _, r, hr0, hr⟩ | ⟨p, x, rk, a, ra, hkeyeq, hk2, hxa, hm⟩
    · subst hr
      have hr' : r ≠ [] := by
        intro e; subst e
        simp only [List.append_nil] at hkey
        exact nib_not_hexKey hkn hkey
      have hkr : HexKey r := (hexKey_drop_prefix hkey hr').1
      rw [delete_short_prefix' k c r hr']
      rcases prefix_cases k q with hnp | ⟨r', rfl⟩
      · have hneq : ¬ (q = k ++ r) := by
          intro e; rw [e, isPrefixOf_append_self] at hnp; cases hnp
        rw [if_neg hneq, get_rejoin_off k _ q hnp, get_short, hnp]; simp
      · have hr'' : r' ≠ [] := by
          intro e; subst e
          simp only [List.append_nil] at hq
          exact nib_not_hexKey hkn hq
        have hkr' : HexKey r' := (hexKey_drop_prefix hq hr'').1
        rw [get_rejoin_on k _ r' hr'', ih r hkr r' hkr', get_short, isPrefixOf_append_self]
        by_cases e : r' = r
        · subst e; simp
        · have : ¬ (k ++ r' = k ++ r) := by
            intro e2; exact e (List.append_cancel_left e2)
          simp [e, this]
    · -- the key would be a proper prefix of the node's nibble-only key
      exfalso
      have hkk : Nib key := by
        rw [hr] at hkn; exact (nib_append.mp hkn).1
      exact nib_not_hexKey hkk hkey
    · have hlt : prefixLen key k < k.length := by
        rw [hm, hk2]; simp
      rw [delete_short_other _ _ _ hlt]
      by_cases e : q = key
      · subst e
        rw [if_pos rfl, get_short]
        have : k.isPrefixOf q = false := by
          rcases prefix_cases k q with h | ⟨r2, h2⟩
          · exact h
          · exfalso
            rw [hkeyeq, hk2, List.append_assoc] at h2
            have := List.append_cancel_left h2
            simp at this
            exact hxa this.1
        simp [this]
      · simp [e]
  | full cs hwfc hnvc h16 ih =>
    intro key hkey q hq
    obtain ⟨x, rest, rfl⟩ := List.exists_cons_of_ne_nil (hexKey_ne_nil hkey)
    obtain ⟨y, r, rfl⟩ := List.exists_cons_of_ne_nil (hexKey_ne_nil hq)
    have hy17 := hexKey_head_lt hq
    -- what the updated child array looks up
    have hchild : get (upd cs x (delete (cs x) rest) y) r = if y :: r = x :: rest then none else get (cs y) r := by
      by_cases hyx : y = x
      · subst hyx
        rw [upd_same]
        rcases hexKey_cons hkey with ⟨h16x, hrest⟩ | ⟨hx, hrest⟩
        · -- y = 16: the child is nil or a value, the rest of both keys is empty
          subst hrest
          rcases hexKey_cons hq with ⟨_, hr⟩ | ⟨hlt, _⟩
          · subst hr
            rcases h16 with hn | ⟨v, hv⟩
            · rw [h16x] at *; rw [hn]; simp [delete, get]
            · rw [h16x] at *; rw [hv]; simp [delete, get]
          · omega
        · rcases hexKey_cons hq with ⟨h16y, _⟩ | ⟨_, hr⟩
          · omega
          · rw [ih y hx rest hrest r hr]
            by_cases e : r = rest <;> simp [e]
      · rw [upd_other _ _ _ _ hyx]
        have : ¬ (y :: r = x :: rest) := by
          intro e; simp at e; exact hyx e.1
        simp [this]
    rw [delete_full_cons]
    simp only []
    by_cases hnn : (!isNil (delete (cs x) rest)) = true
    · simp only [hnn, if_true]
      rw [get_full_cons, get_full_cons, hchild]
    · simp only [hnn, Bool.false_eq_true, if_false]
      cases hsc : singleChild (upd cs x (delete (cs x) rest)) with
      | none =>
        simp only []
        rw [get_full_cons, get_full_cons, hchild]
      | some pos =>
        simp only []
        obtain ⟨_, _, hs⟩ := singleChild_spec _ _ hsc
        rw [get_collapse _ pos hs y r hy17, get_full_cons, hchild]

/-- `delete` never hands back a bare value -/
theorem notValue_delete (n : Node) (key : List Nat) : NotValue (delete n key) := by
  cases n with
  | nil => rw [delete_nil]; trivial
  | value v => simp [delete, NotValue]
  | short k c =>
    simp only [delete]
    split
    · trivial
    · split
      · trivial
      · split <;> trivial
  | full cs =>
    cases key with
    | nil => simp [delete, NotValue]
    | cons x rest =>
      rw [delete_full_cons]
      simp only []
      split
      · trivial
      · split
        · unfold collapse
          split
          · split <;> trivial
          · trivial
        · trivial

theorem wf_prepend (k : List Nat) (hk : Nib k) (hne : k ≠ []) (k2 : List Nat) (c2 : Node) (h : WF (.short k2 c2)) :
    WF (.short (k ++ k2) c2) := by
  cases h with
  | leaf b v hb =>
    rw [← List.append_assoc]
    exact WF.leaf (k ++ b) v (nib_append.mpr ⟨hk, hb⟩)
  | ext _ _ hk2 hne2 hc hnv =>
    exact WF.ext (k ++ k2) c2 (nib_append.mpr ⟨hk, hk2⟩) (by simp [hne]) hc hnv

theorem wf_rejoin (k : List Nat) (hk : Nib k) (hne : k ≠ []) (d : Node) (hd : WF d) (hnv : NotValue d) : WF (rejoin k d) := by
  cases d with
  | nil => exact WF.nil
  | value v => exact absurd hnv (by simp [NotValue])
  | short k2 c2 => exact wf_prepend k hk hne k2 c2 hd
  | full cs => exact WF.ext k _ hk hne hd trivial

theorem wf_collapse (cs : Nat → Node) (pos : Nat) (hp : pos < 17) (hnn : cs pos ≠ .nil)
    (hwf : ∀ i, i < 16 → WF (cs i)) (hnv : ∀ i, i < 16 → NotValue (cs i)) (h16 : cs 16 = .nil ∨ ∃ v, cs 16 = .value v) :
    WF (collapse cs pos) := by
  unfold collapse
  by_cases h : pos ≠ 16
  · have hlt : pos < 16 := by omega
    simp only [h, ne_eq, not_false_eq_true, if_true]
    have hw := hwf pos hlt
    have hv := hnv pos hlt
    cases hc : cs pos with
    | nil => exact absurd hc hnn
    | value v => rw [hc] at hv; exact absurd hv (by simp [NotValue])
    | short k2 c2 =>
      simp only []
      rw [hc] at hw
      have : pos :: k2 = [pos] ++ k2 := rfl
      rw [this]
      exact wf_prepend [pos] (nib_cons.mpr ⟨hlt, nib_nil⟩) (by simp) k2 c2 hw
    | full cs2 =>
      simp only []
      rw [hc] at hw
      exact WF.ext [pos] _ (nib_cons.mpr ⟨hlt, nib_nil⟩) (by simp) hw trivial
  · have hp16 : pos = 16 := by omega
    simp only [h, if_false]
    subst hp16
    rcases h16 with hn | ⟨v, hv⟩
    · exact absurd hn hnn
    · rw [hv]; exact WF.leaf [] v nib_nil

/-- **delete preserves well-formedness** -/
theorem wf_delete {t : Node} (hwf : WF t) : ∀ (key : List Nat), HexKey key → WF (delete t key) := by
  induction hwf with
  | nil => intro key _; rw [delete_nil]; exact WF.nil
  | leaf b w hb =>
    intro key hk
    have hkk : HexKey (b ++ [16]) := ⟨b, rfl, hb⟩
    rcases prefixLen_cases key (b ++ [16]) with ⟨_, r, hr⟩ | ⟨_, _, r, hr0, hr⟩ | ⟨p, x, rk, a, ra, hkey, hk2, hxa, hm⟩
    · have : r = [] := hexKey_prefix_eq hkk (hr ▸ hk)
      subst this
      simp only [List.append_nil] at hr
      subst hr
      rw [delete_short_exact]; exact WF.nil
    · exact absurd (hexKey_prefix_eq hk (hr ▸ hkk)) hr0
    · have hlt : prefixLen key (b ++ [16]) < (b ++ [16]).length := by
        rw [hm, hk2]; simp
      rw [delete_short_other _ _ _ hlt]; exact WF.leaf b w hb
  | ext k c hkn hne hc hnv ih =>
    intro key hkey
    rcases prefixLen_cases key k with ⟨_, r, hr⟩ | ⟨_, _, r, hr0, hr⟩ | ⟨p, x, rk, a, ra, hkeyeq, hk2, hxa, hm⟩
    · subst hr
      have hr' : r ≠ [] := by
        intro e; subst e
        simp only [List.append_nil] at hkey
        exact nib_not_hexKey hkn hkey
      have hkr : HexKey r := (hexKey_drop_prefix hkey hr').1
      rw [delete_short_prefix' k c r hr']
      exact wf_rejoin k hkn hne _ (ih r hkr) (notValue_delete c r)
    · exfalso
      have hkk : Nib key := by
        rw [hr] at hkn; exact (nib_append.mp hkn).1
      exact nib_not_hexKey hkk hkey
    · have hlt : prefixLen key k < k.length := by
        rw [hm, hk2]; simp
      rw [delete_short_other _ _ _ hlt]; exact WF.ext k c hkn hne hc hnv
  | full cs hwfc hnvc h16 ih =>
    intro key hkey
    obtain ⟨x, rest, rfl⟩ := List.exists_cons_of_ne_nil (hexKey_ne_nil hkey)
    -- the updated children
    have hwf' : ∀ i, i < 16 → WF (upd cs x (delete (cs x) rest) i) := by
      intro i hi
      by_cases hix : i = x
      · subst hix
        rw [upd_same]
        rcases hexKey_cons hkey with ⟨h16x, _⟩ | ⟨hx, hrest⟩
        · omega
        · exact ih i hx rest hrest
      · rw [upd_other _ _ _ _ hix]; exact hwfc i hi
    have hnv' : ∀ i, i < 16 → NotValue (upd cs x (delete (cs x) rest) i) := by
      intro i hi
      by_cases hix : i = x
      · subst hix; rw [upd_same]; exact notValue_delete _ _
      · rw [upd_other _ _ _ _ hix]; exact hnvc i hi
    have h16' : upd cs x (delete (cs x) rest) 16 = .nil ∨ ∃ v, upd cs x (delete (cs x) rest) 16 = .value v := by
      by_cases hx : (16 : Nat) = x
      · subst hx
        rw [upd_same]
        left
        rcases hexKey_cons hkey with ⟨_, hrest⟩ | ⟨hlt, _⟩
        · subst hrest
          rcases h16 with hn | ⟨v, hv⟩
          · rw [hn]; simp [delete]
          · rw [hv]; simp [delete]
        · omega
      · rw [upd_other _ _ _ _ hx]; exact h16
    rw [delete_full_cons]
    simp only []
    by_cases hnn : (!isNil (delete (cs x) rest)) = true
    · simp only [hnn, if_true]
      exact WF.full _ hwf' hnv' h16'
    · simp only [hnn, Bool.false_eq_true, if_false]
      cases hsc : singleChild (upd cs x (delete (cs x) rest)) with
      | none => exact WF.full _ hwf' hnv' h16'
      | some pos =>
        simp only []
        obtain ⟨hp, hne, _⟩ := singleChild_spec _ _ hsc
        exact wf_collapse _ pos hp hne hwf' hnv' h16'

end QuaiVerif.Trie
