import QuaiVerif.Model.State
/- Helper lemmas for the journal model (C12). -/
namespace QuaiVerif.State

@[simp] theorem upd_same {β : Type} (f : Nat → β) (a : Nat) (v : β) : upd f a v a = v := by simp [upd]
theorem upd_upd {β : Type} (f : Nat → β) (a : Nat) (v w : β) : upd (upd f a v) a w = upd f a w := by
  funext x; simp only [upd]; split <;> rfl
theorem upd_self {β : Type} (f : Nat → β) (a : Nat) : upd f a (f a) = f := by
  funext x; simp only [upd]; split <;> simp_all
theorem upd_upd_self {β : Type} (f : Nat → β) (a : Nat) (v : β) : upd (upd f a v) a (f a) = f := by
  rw [upd_upd, upd_self]
theorem upd2_upd2_self {β : Type} (f : Nat → Nat → β) (a k : Nat) (v : β) :
    upd2 (upd2 f a k v) a k (f a k) = f := by
  funext x y; simp only [upd2]; split
  · next h => rw [h.1, h.2]
  · rfl

theorem undo_journal (t : St) (e : Entry) : (undo t e).journal = t.journal := by
  cases e <;> simp [undo, St.setAcct] <;> (try split) <;> simp

theorem revertTo_stop (n : Nat) (s : St) (h : s.journal.length ≤ n) : revertTo n s = s := by
  unfold revertTo
  split
  · rfl
  · next e rest hj =>
    have : rest.length + 1 ≤ n := by rw [hj] at h; simpa using h
    simp [this]

theorem revertTo_cons (n : Nat) (s : St) (e : Entry) (rest : List Entry) (hj : s.journal = e :: rest)
    (h : n ≤ rest.length) : revertTo n s = revertTo n (undo { s with journal := rest } e) := by
  rw [revertTo]
  split
  · next h0 => rw [hj] at h0; cases h0
  · next e' rest' hj' =>
    rw [hj] at hj'
    cases hj'
    have : ¬ (rest.length + 1 ≤ n) := by omega
    simp [this]

theorem revertTo_journal_length (n : Nat) (s : St) (h : n ≤ s.journal.length) :
    (revertTo n s).journal.length = n := by
  generalize hl : s.journal.length = l
  induction l generalizing s with
  | zero => rw [revertTo_stop n s (by omega)]; omega
  | succ l ih =>
    match hj : s.journal with
    | [] => rw [hj] at hl; cases hl
    | e :: rest =>
      rw [hj] at hl
      have hr : rest.length = l := by simpa using hl
      by_cases hn : n ≤ rest.length
      · rw [revertTo_cons n s e rest hj hn]
        apply ih
        · rw [undo_journal]; exact hn
        · rw [undo_journal]; exact hr
      · have hh : s.journal.length = rest.length + 1 := by rw [hj]; simp
        rw [revertTo_stop n s (by omega)]
        omega

/-- reverting in two stages is reverting once -/
theorem revertTo_trans (n m : Nat) (s : St) (hnm : n ≤ m) :
    revertTo n (revertTo m s) = revertTo n s := by
  generalize hl : s.journal.length = l
  induction l generalizing s with
  | zero => rw [revertTo_stop m s (by omega)]
  | succ l ih =>
    match hj : s.journal with
    | [] => rw [hj] at hl; cases hl
    | e :: rest =>
      rw [hj] at hl
      have hr : rest.length = l := by simpa using hl
      by_cases hm : m ≤ rest.length
      · rw [revertTo_cons m s e rest hj hm, revertTo_cons n s e rest hj (by omega)]
        apply ih
        rw [undo_journal]; exact hr
      · rw [revertTo_stop m s (by rw [hj]; simp; omega)]


theorem st_ext (s t : St) (h1 : s.acct = t.acct) (h2 : s.refund = t.refund) (h3 : s.logs = t.logs)
    (h4 : s.accA = t.accA) (h5 : s.accS = t.accS) (h6 : s.trans = t.trans) (h7 : s.journal = t.journal) :
    s = t := by
  cases s; cases t; simp_all

end QuaiVerif.State
