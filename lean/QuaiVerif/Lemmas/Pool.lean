import QuaiVerif.Model.Pool
/- Counting lemmas for C19: no nonce is held twice (so in particular never both pending and queued). -/
namespace QuaiVerif.Pool

/-- number of held transactions with nonce `n` -/
def cnt (n : Nat) (l : List Tx) : Nat := l.countP (·.nonce == n)

def Uniq (a : Acct) : Prop := ∀ n, cnt n (a.pending ++ a.queue) ≤ 1

theorem cnt_append (n : Nat) (a b : List Tx) : cnt n (a ++ b) = cnt n a + cnt n b := by simp [cnt, List.countP_append]

theorem cnt_cons (n : Nat) (t : Tx) (l : List Tx) : cnt n (t :: l) = cnt n l + if t.nonce = n then 1 else 0 := by
  simp [cnt, List.countP_cons]

theorem cnt_filter_le (n : Nat) (f : Tx → Bool) (l : List Tx) : cnt n (l.filter f) ≤ cnt n l :=
  List.Sublist.countP_le List.filter_sublist

theorem cnt_replaceIn (n : Nat) (l : List Tx) (t : Tx) : cnt n (replaceIn l t) = cnt n l := by
  induction l with
  | nil => rfl
  | cons x rest ih =>
    simp only [replaceIn, List.map_cons] at ih ⊢
    rw [cnt_cons, cnt_cons, ih]
    by_cases h : x.nonce = t.nonce
    · simp [h]
    · simp [h]

theorem cnt_zero_of_getNonce_none {l : List Tx} {n : Nat} (h : getNonce l n = none) : cnt n l = 0 := by
  unfold getNonce at h
  simp only [cnt, List.countP_eq_zero]
  exact List.find?_eq_none.mp h

theorem cnt_pos_of_getNonce_some {l : List Tx} {n : Nat} {t : Tx} (h : getNonce l n = some t) : 1 ≤ cnt n l := by
  unfold getNonce at h
  have hm := List.mem_of_find?_eq_some h
  have hp := List.find?_some h
  simp only [cnt]
  exact List.countP_pos_iff.mpr ⟨t, hm, hp⟩

/-- removing every transaction with nonce `m` -/
theorem cnt_filter_ne (n m : Nat) (l : List Tx) :
    cnt n (l.filter (·.nonce != m)) = if n = m then 0 else cnt n l := by
  induction l with
  | nil => simp [cnt]
  | cons x rest ih =>
    by_cases hx : x.nonce = m
    · have : (x.nonce != m) = false := by simp [hx]
      simp only [List.filter, this, ih, cnt_cons]
      split
      · rfl
      · rename_i hn; have : ¬ x.nonce = n := by omega
        simp [this]
    · have : (x.nonce != m) = true := by simp [hx]
      simp only [List.filter, this, cnt_cons, ih]
      split
      · rename_i hn; have : ¬ x.nonce = n := by omega
        simp [this]
      · rfl

/-- takeReady never increases the number of holders of a nonce -/
theorem cnt_takeReady (fuel : Nat) (p q : List Tx) (s n : Nat) :
    cnt n ((takeReady fuel p q s).1 ++ (takeReady fuel p q s).2) ≤ cnt n (p ++ q) := by
  induction fuel generalizing p q s with
  | zero => simp [takeReady]
  | succ f ih =>
    simp only [takeReady]
    cases hg : getNonce q s with
    | none => simp
    | some t =>
      refine Nat.le_trans (ih _ _ _) ?_
      have ht := (getNonce_some' hg)
      rw [cnt_append, cnt_append, cnt_append, cnt_filter_ne, cnt_cons]
      have h1 := cnt_pos_of_getNonce_some hg
      have h0 : cnt n ([] : List Tx) = 0 := rfl
      by_cases hn : n = s
      · subst hn
        simp only [ht, if_true, h0]; omega
      · have hne : ¬ t.nonce = n := by omega
        simp only [hn, hne, if_false, h0]; omega
where
  getNonce_some' {l : List Tx} {n : Nat} {t : Tx} (h : getNonce l n = some t) : t.nonce = n := by
    unfold getNonce at h
    simpa using List.find?_some h

theorem uniq_promote {a : Acct} (h : Uniq a) : Uniq (promote a) := by
  intro n
  simp only [promote]
  refine Nat.le_trans (cnt_takeReady _ _ _ _ n) ?_
  rw [cnt_append]
  have := h n
  rw [cnt_append] at this
  have h1 := cnt_filter_le n (fun t => decide (t.cost ≤ a.balance)) (a.queue.filter (fun t => decide (a.stateNonce ≤ t.nonce)))
  have h2 := cnt_filter_le n (fun t => decide (a.stateNonce ≤ t.nonce)) a.queue
  omega

theorem uniq_addNoPromote (bump : Nat) {a : Acct} (t : Tx) (h : Uniq a) : Uniq (addNoPromote bump a t).1 := by
  unfold addNoPromote
  split
  · exact h
  · split
    · exact h
    · split
      · exact h
      · split
        · split
          · intro n; have := h n; simp only [cnt_append, cnt_replaceIn] at this ⊢; exact this
          · exact h
        · rename_i hp
          split
          · split
            · intro n; have := h n; simp only [cnt_append, cnt_replaceIn] at this ⊢; exact this
            · exact h
          · rename_i hq
            intro n
            have := h n
            simp only [cnt_append, cnt_cons] at this ⊢
            by_cases hn : t.nonce = n
            · subst hn
              rw [cnt_zero_of_getNonce_none hp, cnt_zero_of_getNonce_none hq]; simp
            · simp [hn]; exact this

theorem cnt_insertSorted (n : Nat) (t : Tx) (l : List Tx) : cnt n (insertSorted t l) = cnt n (t :: l) := by
  induction l with
  | nil => rfl
  | cons x rest ih =>
    simp only [insertSorted]
    split
    · rfl
    · rw [cnt_cons, ih, cnt_cons, cnt_cons, cnt_cons]; omega

theorem cnt_sortByNonce (n : Nat) (l : List Tx) : cnt n (sortByNonce l) = cnt n l := by
  induction l with
  | nil => rfl
  | cons x rest ih =>
    simp only [sortByNonce, List.foldr] at ih ⊢
    rw [cnt_insertSorted, cnt_cons, cnt_cons, ih]

theorem cnt_filterStrict (n bal : Nat) (l : List Tx) :
    cnt n (filterStrict bal l).1 + cnt n (filterStrict bal l).2 ≤ cnt n l := by
  induction l with
  | nil => simp [filterStrict, cnt]
  | cons x rest ih =>
    simp only [filterStrict]
    split
    · simp only [cnt_cons]; omega
    · have := cnt_filter_le n (fun y => decide (y.cost ≤ bal)) rest
      simp only [cnt_cons]
      have h0 : cnt n ([] : List Tx) = 0 := rfl
      omega

theorem takeContig_append (n : Nat) (l : List Tx) : (takeContig n l).1 ++ (takeContig n l).2 = l := by
  induction l generalizing n with
  | nil => rfl
  | cons x rest ih =>
    simp only [takeContig]
    split
    · simp [ih]
    · rfl

end QuaiVerif.Pool
