import QuaiVerif.Model.Convert
import QuaiVerif.Gen.Params
/- Line-protocol front end of the conversion arithmetic model (area `conv`). -/
namespace QuaiVerif.Convert

def step (u : Unit) (ws : List String) : Unit × String :=
  match ws with
  | ["newcase"] => (u, "ok")
  | ["q2u", a, b, x] => match a.toNat?, b.toNat?, x.toNat? with
    | some a, some b, some x => (u, toString (qiToQuai { quaiR := a, qiR := b } x))
    | _, _, _ => (u, "bad-op")
  | ["u2q", a, b, x] => match a.toNat?, b.toNat?, x.toNat? with
    | some a, some b, some x => (u, toString (quaiToQi { quaiR := a, qiR := b } x))
    | _, _, _ => (u, "bad-op")
  -- vol <quaiR> <qiR> <item>…: item = q:<quai> | u:<qi> | n
  | "vol" :: a :: b :: items => match a.toNat?, b.toNat? with
    | some a, some b =>
      let parsed := items.mapM fun it => match it.splitOn ":" with
        | ["q", v] => v.toNat?.map VolItem.toQi
        | ["u", v] => v.toNat?.map VolItem.toQuai
        | ["n"] => some VolItem.other
        | _ => none
      match parsed with
      | some l => (u, toString (volume { quaiR := a, qiR := b } l))
      | none => (u, "bad-op")
    | _, _ => (u, "bad-op")
  | ["fmd", v] => match v.toNat? with
    | some v =>
      let l := findMinDenoms Gen.denominations v
      (u, toString l.length ++ String.join (l.map fun (i, c) => s!" {i}:{c}"))
    | none => (u, "bad-op")
  | _ => (u, "bad-op")

end QuaiVerif.Convert
