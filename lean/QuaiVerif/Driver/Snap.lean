import QuaiVerif.Model.Snap
/- Line-protocol front end of the snapshot-layer model (area `snap`): a linear chain of blocks. -/
namespace QuaiVerif.Snap

structure DState where
  disk : Flat := {}
  diskRoot : Nat := 0
  stack : List (Nat × Layer) := []     -- newest first: (root index, diff layer)
  genLive : Bool := true               -- the generator of the freshly built base layer is still attached: the first
                                       -- merge goes to disk whatever its size (`genAbort != nil` in `Tree.cap`)

def accts : List Nat := [1, 2, 3, 4]
def slots : List Nat := [0, 1, 2]

def parseList (s : String) : List String := if s == "-" then [] else s.splitOn ","

def render (disk : Flat) (ls : List Layer) : String :=
  String.intercalate " " (accts.map fun a =>
    s!"{a}={readAcct disk ls a}" ++ String.join (slots.map fun k => s!",{readStor disk ls a k}"))

/-- `Tree.cap` on the head of a linear chain: keep the newest `n` diff layers, merge everything below into one
accumulator layer (root of the newest merged layer); `n = 0`: merge everything into the disk layer. -/
def cap (d : DState) (n : Nat) : DState :=
  if n = 0 then
    match d.stack with
    | [] => d
    | (r, _) :: _ =>
      { disk := (d.stack.reverse.map (·.2)).foldl toDisk d.disk, diskRoot := r, stack := [], genLive := false }
  else
    let upper := d.stack.take n
    let lower := d.stack.drop n
    match lower with
    | [] => d
    | (r, _) :: _ =>
      match flattenAll (lower.map (·.2)) with
      | some q =>
        if d.genLive then { disk := toDisk d.disk q, diskRoot := r, stack := upper, genLive := false }
        else { d with stack := upper ++ [(r, q)] }
      | none => d

def step (d : DState) (ws : List String) : DState × String :=
  match ws with
  | ["newcase"] => ({}, "ok")
  | ["update", r, ds, as, ss] =>
    match r.toNat?, ds.dropPrefix? "d=", as.dropPrefix? "acc=", ss.dropPrefix? "st=" with
    | some r, some ds, some as, some ss =>
      let dl := (parseList ds.toString).filterMap String.toNat?
      let al := (parseList as.toString).filterMap fun it => match it.splitOn ":" with
        | [a, v] => match a.toNat?, v.toNat? with | some a, some v => some (a, v) | _, _ => none
        | _ => none
      let sl := (parseList ss.toString).filterMap fun it => match it.splitOn ":" with
        | [a, k, v] => match a.toNat?, k.toNat?, v.toNat? with | some a, some k, some v => some (a, k, v) | _, _, _ => none
        | _ => none
      let l : Layer := {
        destruct := fun a => dl.contains a
        acct := fun a => (al.find? (·.1 == a)).map (·.2)
        stor := fun a k => (sl.find? (fun t => t.1 == a && t.2.1 == k)).map (·.2.2) }
      ({ d with stack := (r, l) :: d.stack }, "ok")
    | _, _, _, _ => (d, "bad-op")
  | ["cap", n] => match n.toNat? with
    | some n => (cap d n, "ok")
    | none => (d, "bad-op")
  | ["read", r] => match r.toNat? with
    | some r =>
      if r == d.diskRoot then (d, render d.disk [])
      else
        let below := d.stack.dropWhile (·.1 != r)
        if below.isEmpty then (d, "gone") else (d, render d.disk (below.map (·.2)))
    | none => (d, "bad-op")
  | _ => (d, "bad-op")

end QuaiVerif.Snap
