import QuaiVerif.Model.Seal
/- Line-protocol front end of the seal model (area `c08`). -/
namespace QuaiVerif.Seal

def step (u : Unit) (ws : List String) : Unit × String :=
  match ws with
  | ["newcase"] => (u, "ok")
  | ["seal", hs, d] => match hs.toNat?, d.toInt? with
    | some hv, some dv => (u, (verifySeal hv dv).str)
    | _, _ => (u, "bad-op")
  | ["share", hs, d, b] => match hs.toNat?, d.toInt?, b.toNat? with
    | some hv, some dv, some bv => (u, if isWorkShare hv dv bv then "1" else "0")
    | _, _, _ => (u, "bad-op")
  | _ => (u, "bad-op")

end QuaiVerif.Seal
