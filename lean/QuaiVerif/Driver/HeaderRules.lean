import QuaiVerif.Model.HeaderRules
/- Line-protocol front end of the header-rule model (area `c09`). -/
namespace QuaiVerif.HeaderRules

def ints (ws : List String) : Option (List Int) := ws.mapM String.toInt?

def step (a : Acc) (ws : List String) : Acc × String :=
  match ws with
  | ["newcase"] => (Acc.genesis, "ok")
  | "diff" :: rest => match ints rest with
    | some [dl, mn, pd, dt] => (a, toString (calcDifficulty { durationLimit := dl, minDifficulty := mn } pd.toNat dt))
    | _ => (a, "bad-op")
  | "limit" :: rest => match ints rest with
    | some [ttx, mn, bpm, ceil, pn, pl] => (a, toString (calcLimit ttx.toNat mn.toNat bpm.toNat ceil.toNat pn.toNat pl.toNat))
    | _ => (a, "bad-op")
  | "basefee" :: rest => match ints rest with
    | some [qr, qi, mq, tg] => (a, toString (baseFee qr.toNat qi.toNat mq.toNat tg.toNat))
    | _ => (a, "bad-op")
  | "flow" :: rest => match ints rest with
    | some [prev, cur, w, mn] => (a, toString (flowAmount prev.toNat cur.toNat w.toNat mn.toNat))
    | _ => (a, "bad-op")
  | "total" :: rest => match ints rest with
    | some [o, peP, peR, peZ, pdeR, pdeZ, s] => (a, toString (total o.toNat peP peR peZ pdeR pdeZ s))
    | _ => (a, "bad-op")
  | "delta" :: rest => match ints rest with
    | some [o, pdeR, pdeZ, s] => (a, toString (delta o.toNat pdeR pdeZ s))
    | _ => (a, "bad-op")
  | "order" :: rest => match ints rest with
    | some [s, zt, pdeR, pdeZ, pt, rt, pb, rb] => (a, toString (calcOrder s zt pdeR pdeZ pt rt pb rb))
    | _ => (a, "bad-op")
  | "acc" :: rest => match ints rest with
    | some [o, s] => let a' := next a o.toNat s; (a', toString a'.T)
    | _ => (a, "bad-op")
  | _ => (a, "bad-op")

end QuaiVerif.HeaderRules
