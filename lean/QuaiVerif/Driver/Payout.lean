import QuaiVerif.Model.Payout
/- Line-protocol front end of the payout-schedule model (area `c13chain`). -/
namespace QuaiVerif.Payout

structure DState where
  depths : List Nat := []
  rs     : List Reward := []
  addrs  : List String := []

def step (d : DState) (ws : List String) : DState × String :=
  match ws with
  | ["newcase"] => ({}, "ok")
  | "depths" :: l => ({ d with depths := l.filterMap String.toNat? }, "ok")
  | "watch" :: l => ({ d with addrs := l }, "ok")
  | ["ev", a, amt, b, dp] => match amt.toNat?, b.toNat?, dp.toNat? with
    | some amt, some b, some dp => ({ d with rs := ⟨a, amt, b, dp⟩ :: d.rs }, "ok")
    | _, _, _ => (d, "bad-op")
  | ["blk", h] => match h.toNat? with
    | some h => (d, " ".intercalate (d.addrs.map fun a => s!"{a}={creditedUpTo d.depths d.rs a h}"))
    | none => (d, "bad-op")
  | _ => (d, "bad-op")

end QuaiVerif.Payout
