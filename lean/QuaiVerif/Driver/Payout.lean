import QuaiVerif.Model.Payout
import QuaiVerif.Model.Reward
/- Line-protocol front end of the payout-schedule model (area `c13chain`). -/
namespace QuaiVerif.Payout

structure DState where
  depths : List Nat := []
  rs     : List Reward := []          -- in chain order
  addrs  : List String := []          -- accounts that exist from the start (with 1 wei)
  fresh  : List String := []          -- accounts that do not exist until a payout creates them
  fees   : List (Nat × Nat) := []     -- creation fee in force per height

def feeAt (fees : List (Nat × Nat)) (h : Nat) : Nat := ((fees.find? fun p => p.1 == h).map (·.2)).getD 0

def step (d : DState) (ws : List String) : DState × String :=
  match ws with
  | ["newcase"] => ({}, "ok")
  | "depths" :: l => ({ d with depths := l.filterMap String.toNat? }, "ok")
  | "watch" :: l => ({ d with addrs := l }, "ok")
  | "fresh" :: l => ({ d with fresh := l }, "ok")
  | ["ev", a, amt, b, dp] => match amt.toNat?, b.toNat?, dp.toNat? with
    | some amt, some b, some dp => ({ d with rs := d.rs ++ [⟨a, amt, b, dp⟩] }, "ok")
    | _, _, _ => (d, "bad-op")
  | ["blk", h, fee] => match h.toNat?, fee.toNat? with
    | some h, some fee =>
      let d := { d with fees := (h, fee) :: d.fees }
      let f := feeAt d.fees
      let old := d.addrs.map fun a => s!"{a}={(acctUpTo d.depths f d.rs a ⟨true, 1⟩ h).bal - 1}"
      let new := d.fresh.map fun a =>
        let r := acctUpTo d.depths f d.rs a ⟨false, 0⟩ h
        s!"{a}={r.bal}/{if r.live then 1 else 0}"
      (d, " ".intercalate (old ++ new))
    | _, _ => (d, "bad-op")
  | ["tdisc", liveSha, live, noPen, pen, dv, sha, reward, sig, ts] =>
    match [liveSha, live, noPen, pen, dv, reward, sig, ts].mapM String.toNat? with
    | some [liveSha, live, noPen, pen, dv, reward, sig, ts] =>
      (d, toString (Reward.timeDiscount liveSha live noPen pen dv (sha == "1") reward sig ts))
    | _ => (d, "bad-op")
  | "split" :: r :: es => match r.toNat?, es.mapM String.toNat? with
    | some r, some es =>
      let vs := Reward.split r es
      (d, " ".intercalate ((List.range vs.length).zip vs |>.map fun (i, v) => s!"r{i}={v}"))
    | _, _ => (d, "bad-op")
  | _ => (d, "bad-op")

end QuaiVerif.Payout
