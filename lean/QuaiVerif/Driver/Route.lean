import QuaiVerif.Model.Route
/- Line-protocol front end of the ETX routing model (area `c04h`). -/
namespace QuaiVerif.Route

def parseEtx (w : String) : Option Etx :=
  match w.splitOn ":" with
  | [id, cl, slip] => slip.toNat?.map fun n => { id := id, prm := cl == "P", slip := n }
  | _ => none

def dstep (s : St) (ws : List String) : St × String :=
  match ws with
  | ["newcase"] => (init, "ok")
  | "blk" :: o :: sorted :: items =>
    match o.toNat?, items.mapM parseEtx with
    | some o, some es =>
      let (s', inb) := step s o (sorted == "1") es
      (s', " ".intercalate (inb.map (·.id)))
    | _, _ => (s, "bad-op")
  | ["pending"] => (s, " ".intercalate ((pending s).map (·.id)))
  | _ => (s, "bad-op")

end QuaiVerif.Route
