import QuaiVerif.Model.EtxQueue
import QuaiVerif.Model.Trie
/- Line-protocol front end of the ETX queue model (area `etxq`): queue semantics + ETX-trie root. -/
namespace QuaiVerif.EtxQueue

structure DState where
  q : Q String := {}
  t : Trie.Node := .nil

def newestKey : Bytes := List.replicate 4 0 ++ List.replicate 28 255
def oldestKey : Bytes := List.replicate 4 0 ++ List.replicate 27 255 ++ [254]

def tput (t : Trie.Node) (k v : Bytes) : Trie.Node := Trie.update t (Keccak.keccak256 k) v

def pushD (d : DState) (id : String) (data : Bytes) (writeCounter : Bool) : DState :=
  let t := tput d.t (RLP.beBytes d.q.newest) data
  let q := push d.q id
  { q := q, t := if writeCounter then tput t newestKey (RLP.beBytes q.newest) else t }

def step (d : DState) (ws : List String) : DState × String :=
  match ws with
  | ["newcase"] => ({}, "ok")
  | ["push", id, data] => match unhex data with
    | some b => let d' := pushD d id b true; (d', hex (Trie.root d'.t))
    | none => (d, "bad-op")
  | "pushs" :: items =>
    let parsed := items.mapM fun it => match it.splitOn ":" with
      | [id, data] => (unhex data).map fun b => (id, b)
      | _ => none
    match parsed with
    | some l =>
      let d' := l.foldl (fun d (id, b) => pushD d id b false) d
      let d'' := if l.isEmpty then { d' with t := tput d'.t newestKey (RLP.beBytes d'.q.newest) }
                 else { d' with t := tput d'.t newestKey (RLP.beBytes d'.q.newest) }
      (d'', hex (Trie.root d''.t))
    | none => (d, "bad-op")
  | ["pop"] =>
    match pop d.q with
    | (none, _) => (d, "none " ++ hex (Trie.root d.t))
    | (some id, q') =>
      let t := tput d.t (RLP.beBytes d.q.oldest) []
      let t := tput t oldestKey (RLP.beBytes q'.oldest)
      ({ q := q', t := t }, id ++ " " ++ hex (Trie.root t))
  | ["read", i] => match i.toNat? with
    | some i => (d, (read d.q i).getD "none")
    | none => (d, "bad-op")
  | ["idx"] => (d, s!"{d.q.oldest} {d.q.newest}")
  | ["root"] => (d, hex (Trie.root d.t))
  -- commit <e0> <e1> …: the hash a block / roll-up commits to for the ETX list = root of the trie {rlp(i) -> entry i}
  | "commit" :: vs => match vs.mapM unhex with
    | some vals =>
      let t := (vals.zipIdx).foldl (fun t (v, i) => Trie.update t (RLP.encodeNat i) v) Trie.Node.nil
      (d, hex (Trie.root t))
    | none => (d, "bad-op")
  | _ => (d, "bad-op")

end QuaiVerif.EtxQueue
