import QuaiVerif.Model.Pool
/- Line-protocol front end of the pool model (area `c19`): a map of accounts. -/
namespace QuaiVerif.Pool

structure DState where
  accts : List (String × Acct) := []
  bump  : Nat := 5

def getA (d : DState) (k : String) : Acct := ((d.accts.find? (·.1 == k)).map (·.2)).getD {}
def setA (d : DState) (k : String) (a : Acct) : DState :=
  { d with accts := (k, a) :: d.accts.filter (·.1 != k) }

def showL (l : List Tx) : String := " ".intercalate ((sortByNonce l).map fun t => s!"{t.nonce}:{t.id}")

def showA (a : Acct) : String := s!"held[{showL (a.pending ++ a.queue)}] p={a.pending.length}"

def resStr : AddResult → String
  | .ok => "ok" | .replaced => "replaced" | .known => "known" | .nonceTooLow => "nonce-too-low"
  | .insufficientFunds => "insufficient-funds" | .replaceUnderpriced => "replace-underpriced"

def parseTx (w : String) : Option Tx :=
  match w.splitOn ":" with
  | [id, n, p, c] => do
      let n ← n.toNat?; let p ← p.toNat?; let c ← c.toNat?
      pure { id := id, nonce := n, price := p, cost := c }
  | _ => none

def step (d : DState) (ws : List String) : DState × String :=
  match ws with
  | ["newcase"] => ({}, "ok")
  | ["cfg", "bump", b] => ({ d with bump := b.toNat?.getD 5 }, "ok")
  | ["acct", k, n, b] => match n.toNat?, b.toNat? with
    | some n, some b => (setA d k { stateNonce := n, balance := b }, "ok")
    | _, _ => (d, "bad-op")
  | ["add", k, tx] => match parseTx tx with
    | some t => let r := add d.bump (getA d k) t; (setA d k r.1, resStr r.2)
    | none => (d, "bad-op")
  | "reset" :: k :: n :: b :: txs => match n.toNat?, b.toNat?, txs.mapM parseTx with
    | some n, some b, some l => (setA d k (reset d.bump (getA d k) n b l), "ok")
    | _, _, _ => (d, "bad-op")
  | ["show", k] => (d, showA (getA d k))
  | _ => (d, "bad-op")

end QuaiVerif.Pool
