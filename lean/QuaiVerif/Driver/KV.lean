import QuaiVerif.Model.KV
/- Line-protocol front end of the KV model (area `kv`). -/
namespace QuaiVerif.KV

structure DState where
  tracks : Bool := true
  store : Store := []
  batches : List (String × Batch) := []

def DState.batch (d : DState) (id : String) : Option Batch := d.batches.lookup id
def DState.setBatch (d : DState) (id : String) (b : Batch) : DState :=
  { d with batches := (id, b) :: d.batches.filter (·.1 != id) }

def showKVs (l : Store) : String :=
  toString l.length ++ String.join (l.map fun kv => " " ++ hex kv.1 ++ "=" ++ hex kv.2)

def showOps (l : List BOp) : String :=
  toString l.length ++ String.join (l.map fun
    | .put k v => " p:" ++ hex k ++ ":" ++ hex v
    | .del k => " d:" ++ hex k)

def step (d : DState) (ws : List String) : DState × String :=
  match ws with
  | ["cfg", "tracks", t] => ({ d with tracks := t == "1" }, "ok")
  | ["put", k, v] => match unhex k, unhex v with
    | some k, some v => ({ d with store := insert k v d.store }, "ok")
    | _, _ => (d, "bad-op")
  | ["del", k] => match unhex k with
    | some k => ({ d with store := erase k d.store }, "ok")
    | _ => (d, "bad-op")
  | ["get", k] => match unhex k with
    | some k => (d, match get d.store k with | some v => "v " ++ hex v | none => "nf")
    | _ => (d, "bad-op")
  | ["has", k] => match unhex k with
    | some k => (d, if has d.store k then "t" else "f")
    | _ => (d, "bad-op")
  | ["compact", _, _] => (d, "ok")          -- maintenance: changes no content
  | ["iter", p, s] => match unhex p, unhex s with
    | some p, some s => (d, showKVs (iter d.store p s))
    | _, _ => (d, "bad-op")
  | ["nb", id] => (d.setBatch id {}, "ok")
  | ["bput", id, k, v] => match d.batch id, unhex k, unhex v with
    | some b, some k, some v => (d.setBatch id (b.put d.tracks k v), "ok")
    | _, _, _ => (d, "bad-op")
  | ["bdel", id, k] => match d.batch id, unhex k with
    | some b, some k => (d.setBatch id (b.del d.tracks k), "ok")
    | _, _ => (d, "bad-op")
  | ["setp", id, v] => match d.batch id with
    | some b => (d.setBatch id (b.setPending d.tracks (v == "1")), "ok")
    | _ => (d, "bad-op")
  | ["getp", id, k] => match d.batch id, unhex k with
    | some b, some k => (d, match b.getPending k with
        | (true, _) => "d"
        | (false, some v) => "v " ++ hex v
        | (false, none) => "none")
    | _, _ => (d, "bad-op")
  | ["write", id] => match d.batch id with
    | some b => let (s, b') := b.write d.store; ({ d.setBatch id b' with store := s }, "ok")
    | _ => (d, "bad-op")
  | ["reset", id] => match d.batch id with
    | some b => (d.setBatch id b.reset, "ok")
    | _ => (d, "bad-op")
  | ["replay", id] => match d.batch id with
    | some b => (d, showOps b.replay)
    | _ => (d, "bad-op")
  | ["newcase"] => ({ tracks := d.tracks }, "ok")
  | _ => (d, "bad-op")

end QuaiVerif.KV
