import QuaiVerif.Model.Validate
/- Line-protocol front end of the assembly / validation model (area `c07`).  The execution function is abstract in
the theorems; the driver instantiates it with the one-bit abstraction the harness reports for each offered block:
`changed` = the block differs from what the worker assembled (in a declared result or in the body). -/
namespace QuaiVerif.Validate

/-- exec over the abstraction: the state counts appended blocks; the result of re-executing the genuine body is 0. -/
def exec1 (s : Nat) (_body : Nat) : Option (Nat × Nat) := some (s + 1, 0)

structure DState where
  s : Nat := 0
  lastRejected : Bool := false
  before : Nat := 0

def offer (d : DState) (declared : Nat) : DState × String :=
  let b : Block Nat Nat := { body := 0, declared := declared }
  let (s', ok) := append exec1 d.s b
  ({ s := s', lastRejected := !ok, before := d.s }, if ok then "accept" else "reject")

def step (d : DState) (ws : List String) : DState × String :=
  match ws with
  | ["newcase"] => ({}, "ok")
  | ["own"] => offer d 0
  | ["mut", _, "changed=1"] => offer d 1
  | ["mut", _, "changed=0"] => offer d 0
  | ["trace"] => (d, if d.lastRejected && d.s == d.before then "unchanged" else "changed")
  | _ => (d, "bad-op")

end QuaiVerif.Validate
