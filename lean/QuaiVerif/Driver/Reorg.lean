import QuaiVerif.Model.Reorg
/- Line-protocol front end of the reorg model (area `c10`): one node's ledger, its canonical stack with the undo
records of every block on it, block processing from the block's actions, rollback, digests. -/
namespace QuaiVerif.Reorg

structure DState where
  st    : St := { ut := fun _ => none, cl := fun _ => none }
  s0    : St := { ut := fun _ => none, cl := fun _ => none }   -- state at the start of the block being processed
  undo  : Undo := {}
  ok    : Bool := true
  stack : List (String × Undo) := []    -- canonical chain above genesis, newest first
  ukeys : List K := []
  lkeys : List K := []

def strHash (s : String) : Nat := s.foldl (fun h c => (h * 131 + c.toNat) % 2305843009213693951) 7

def digest (d : DState) : String :=
  let us := d.ukeys.filterMap fun k => (d.st.ut k).map fun v => strHash ("u" ++ k ++ "=" ++ v)
  let ls := d.lkeys.filterMap fun k => (d.st.cl k).map fun v => strHash ("l" ++ k ++ "=" ++ v)
  let sum := (us ++ ls).foldl (fun a b => (a + b) % 2305843009213693951) 0
  let head := match d.stack with | [] => "genesis" | (h, _) :: _ => h
  s!"n={us.length + ls.length} sum={sum} head={head} height={d.stack.length}"

def note (l : List K) (k : K) : List K := if l.contains k then l else k :: l

/-- decidable version of `actOK` for the driver's wf report -/
def actOKb (s0 : St) (p : St × Undo) : Act → Bool
  | .createU k _ => (s0.ut k).isNone && (p.1.ut k).isNone && !(keys p.2.spent).contains k && !(keys p.2.trimmed).contains k
  | .spendU k => (p.1.ut k).isSome
  | .trimU k => (s0.ut k).isSome && !p.2.created.contains k
  | .lockNew k _ => (p.1.cl k).isNone && !(keys p.2.delLocks).contains k
  | .lockReplace k _ => (p.1.cl k).isSome
  | .lockDelete k => (p.1.cl k).isSome

def act (d : DState) (a : Act) (isU : Bool) (k : K) : DState × String :=
  let p := applyAct d.s0 (d.st, d.undo) a
  ({ d with st := p.1, undo := p.2, ok := d.ok && actOKb d.s0 (d.st, d.undo) a,
            ukeys := if isU then note d.ukeys k else d.ukeys, lkeys := if isU then d.lkeys else note d.lkeys k }, "ok")

def step (d : DState) (ws : List String) : DState × String :=
  match ws with
  | ["newcase"] => ({}, "ok")
  | ["begin"] => ({ d with s0 := d.st, undo := {}, ok := true }, "ok")
  | ["cu", k, v] => act d (.createU k v) true k
  | ["su", k] => act d (.spendU k) true k
  | ["tu", k] => act d (.trimU k) true k
  | ["ln", k, v] => act d (.lockNew k v) false k
  | ["lr", k, v] => act d (.lockReplace k v) false k
  | ["ld", k] => act d (.lockDelete k) false k
  | ["commit", h] =>
    let d' := { d with stack := (h, d.undo) :: d.stack }
    (d', s!"wf={if d.ok then 1 else 0} " ++ digest d')
  | ["rollback", h] =>
    match d.stack with
    | (h', u) :: rest =>
      if h' = h then
        let d' := { d with st := rollback d.st u, stack := rest }
        (d', digest d')
      else (d, "not-head")
    | [] => (d, "not-head")
  | ["digest"] => (d, digest d)
  | _ => (d, "bad-op")

end QuaiVerif.Reorg
