import QuaiVerif.Model.Crash
/- Line-protocol front end of the crash model (area `c11`): the harness names the class of the last write step
that reached the store before the crash; the model says whether a restart finds a consistent database. -/
namespace QuaiVerif.Crash

def consistentB (d : Db) : Bool := d.ledger == d.head && d.tries.contains d.head

def d0 : Db := { ledger := 0, head := 0, tries := [0] }

def stepsOf : String → Option (List Step)
  | "start" => some []
  | "other" => some [.other]
  | "canonical" => some [.canonical 1]
  | "trie" => some [.trie 1]
  | "ledger" => some [.trie 1, .ledger 1 false]
  | "ledger+head" => some [.trie 1, .ledger 1 true]
  | "head" => some [.trie 1, .ledger 1 true, .head 1]
  | "head+other" => some [.trie 1, .ledger 1 true, .head 1, .other]
  | _ => none

def step (u : Unit) (ws : List String) : Unit × String :=
  match ws with
  | ["newcase"] => (u, "ok")
  | ["crash", _, cls] =>
    match stepsOf ((cls.splitOn "=").getLast!) with
    | some l => (u, if consistentB (applySteps d0 l) then "ok" else "inconsistent")
    | none => (u, "unknown-step-class")
  | _ => (u, "bad-op")

end QuaiVerif.Crash
