import QuaiVerif.Model.Lockup
/- Line-protocol front end of the lockup ledger model (area `lockup`). -/
namespace QuaiVerif.Lockup

structure DState where
  vr : Variant := {}
  eb : Nat := 50000
  l : Ledger := fun _ => none
  stack : List Ledger := []        -- frame snapshots of the batch view (EVM frames)

def showRec (r : Rec) : String := s!"{r.balance} {r.unlock} {r.elements} {r.delegate}"

def nats (ws : List String) : Option (List Nat) := ws.mapM String.toNat?

def step (d : DState) (ws : List String) : DState × String :=
  match ws with
  | ["newcase"] => ({ vr := d.vr, eb := d.eb }, "ok")
  | ["cfg", "epochblocks", n] => ({ d with eb := n.toNat?.getD 50000 }, "ok")
  | ["cfg", "undoUsesOldDelegate", v] => ({ d with vr := { d.vr with undoUsesOldDelegate := v == "1" } }, "ok")
  | ["cfg", "revertRestoresBatch", v] => ({ d with vr := { d.vr with revertRestoresBatch := v == "1" } }, "ok")
  | "add" :: rest => match nats rest with
    | some [o, m, b, e, dl, uh, v] =>
      match addNewLock d.vr d.eb d.l (o, m, b, e) dl uh v with
      | .ok res => ({ d with l := res.ledger },
          s!"ok del={if res.deleted then 1 else 0} rec={showRec res.stored} undo=" ++ (match res.undo with | some r => showRec r | none => "none"))
      | .error _ => (d, "err")
    | _ => (d, "bad-op")
  | "claim" :: rest => match nats rest with
    | some [c, m, b, e, bn, gas, gl, same, cl] =>
      match claim d.eb d.l { caller := c, miner := m, lockupByte := b, epoch := e, blockNumber := bn, gas := gas, etxGasLimit := gl, sameLedger := same == 1, cacheLen := cl } with
      | .ok (l', _, v) => ({ d with l := l' }, s!"ok {v}")
      | .error _ => (d, "err")
    | _ => (d, "bad-op")
  | "read" :: rest => match nats rest with
    | some [o, m, b, e] => (d, showRec (readRec d.l (o, m, b, e)))
    | _ => (d, "bad-op")
  | ["snap"] => ({ d with stack := d.l :: d.stack }, "ok")
  | ["revert"] => match d.stack with
    | s :: t => ({ d with stack := t, l := if d.vr.revertRestoresBatch then s else d.l }, "ok")
    | [] => (d, "bad-op")
  | ["commitframe"] => match d.stack with
    | _ :: t => ({ d with stack := t }, "ok")
    | [] => (d, "bad-op")
  | ["write"] => (d, "ok")
  | _ => (d, "bad-op")

end QuaiVerif.Lockup
