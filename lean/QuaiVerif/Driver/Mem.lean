import QuaiVerif.Model.Mem
/- Line-protocol front end of the memory metering model (area `mem`). -/
namespace QuaiVerif.Mem

def step' (u : Unit) (ws : List String) : Unit × String :=
  match ws with
  | ["newcase"] => (u, "ok")
  | ["note"] => (u, "ok")
  -- memrun <gas> <size:charged:other> … : run the instruction list, report final memory words or out-of-gas
  | "memrun" :: gas :: items =>
    let parsed := items.mapM fun it => match it.splitOn ":" with
      | [s, c, o] => match s.toNat?, o.toNat? with
        | some s, some o => some (s, c == "1", o)
        | _, _ => none
      | _ => none
    (u, match gas.toNat?, parsed with
      | some g, some prog => match run { words := 0, gas := g, paid := 0 } prog with
        | some s => s!"ok words={s.words}"
        | none => "oog"
      | _, _ => "bad-op")
  | _ => (u, "bad-op")

end QuaiVerif.Mem
