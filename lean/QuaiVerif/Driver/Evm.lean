import QuaiVerif.Model.Etx
import QuaiVerif.Model.Gas
import QuaiVerif.Model.Value
import QuaiVerif.Model.Create
import QuaiVerif.Model.Wrapped
/- Line-protocol front end of the ETX origin model (area `evm`). -/
namespace QuaiVerif.Etx

def kv (ws : List String) (k : String) : Option String :=
  ws.findSome? fun w => match w.splitOn "=" with
    | [a, b] => if a == k then some b else none
    | _ => none

def kvNat (ws : List String) (k : String) : Option Nat := (kv ws k).bind String.toNat?
def kvBool (ws : List String) (k : String) : Option Bool := (kv ws k).map (· == "1")

def parseCfg (ws : List String) : Option Cfg := do
  pure { pt := ← kvNat ws "pt", selfDestructFork := ← kvNat ws "sdf", controllerKickIn := ← kvNat ws "cki",
         kawpowFork := ← kvNat ws "kaw", shaFork := ← kvNat ws "sha", holdInterval := ← kvNat ws "hold",
         txGas := ← kvNat ws "txgas", etxGas := ← kvNat ws "etxgas", minConv := ← kvNat ws "minconv" }

def showOut (o : Out) : String :=
  "s=" ++ (match o.status with | some n => toString n | none => "none") ++ " d=" ++ toString o.debit ++ " e=" ++
    (match o.etx with | some (v, i, g) => s!"{v},{i},{g}" | none => "none")

/-- parse the serialized frame tree: `(` … `e<v>` … `)r` / `)c` -/
partial def parseActs : List String → List Act → Option (List Act × Bool × List String)
  | [], _ => none
  | ")r" :: rest, acc => some (acc.reverse, true, rest)
  | ")c" :: rest, acc => some (acc.reverse, false, rest)
  | "(c" :: rest, acc | "(d" :: rest, acc | "(o" :: rest, acc | "(s" :: rest, acc => match parseActs rest [] with
    | some (body, rv, rest') => parseActs rest' (.frame body rv :: acc)
    | none => none
  | w :: rest, acc =>
    if w.startsWith "e" then
      match (w.drop 1).toString.toNat? with
      | some v => parseActs rest (.emit v :: acc)
      | none => none
    else none

/-- value trees: `e<v>`, `x<beneficiary>`, `(c<value>@<addr>` `(o<value>@<addr>` `(d@<addr>` `(s@<addr>` … `)r` | `)c` -/
partial def parseItems : List String → List Value.Item → Option (List Value.Item × Bool × List String)
  | [], _ => none
  | ")r" :: rest, acc => some (acc.reverse, true, rest)
  | ")c" :: rest, acc => some (acc.reverse, false, rest)
  | w :: rest, acc =>
    if w.startsWith "e" then (w.drop 1).toString.toNat?.bind fun v => parseItems rest (.emit v :: acc)
    else if w.startsWith "x" then (w.drop 1).toString.toNat?.bind fun b => parseItems rest (.sd b :: acc)
    else if w.startsWith "(" then
      match ((w.drop 2).toString.splitOn "@") with
      | [v, a] =>
        let kind : Option Value.CallKind := match (w.drop 1).toString.take 1 |>.toString with
          | "c" => some .call | "o" => some .callcode | "d" => some .delegate | "s" => some .static | _ => none
        match kind, (if v.isEmpty then some 0 else v.toNat?), a.toNat?, parseItems rest [] with
        | some k, some v, some a, some (body, rv, rest') => parseItems rest' (.sub k v a body rv :: acc)
        | _, _, _, _ => none
      | _ => none
    else none

def natList (w : String) : Option (List Nat) :=
  if w == "-" then some [] else (w.splitOn ",").mapM String.toNat?

def showList (l : List Nat) : String := if l.isEmpty then "-" else ",".intercalate (l.map toString)

def parseWrappedOp (w : String) : Option Wrapped.Op :=
  if w.startsWith "u" then (w.drop 1).toString.toNat?.map Wrapped.Op.unwrap
  else if w.startsWith "c" then (w.drop 1).toString.toNat?.map Wrapped.Op.claim
  else none

def step (u : Unit) (ws : List String) : Unit × String :=
  match ws with
  -- wrapped <balance> <deposits> <u<value> | c<index>>...: one transaction of lockup-contract calls by the owner contract
  | "wrapped" :: b :: d :: ops => match b.toNat?, natList d, ops.mapM parseWrappedOp with
    | some b, some d, some ops =>
      let r := Wrapped.run { bal := b, deps := d, out := [] } ops
      (u, s!"s={showList (r.2.map fun x => if x then 1 else 0)} bal={r.1.bal} deps={showList r.1.deps} out={showList r.1.out}")
    | _, _, _ => (u, "bad-op")
  | ["newcase"] => (u, "ok")
  | ["note"] => (u, "ok")
  -- gasbuy <gasLimit> <gasPrice> <value> <balance> <used> <moved 0|1>: verdict and the payer's final balance
  | ["gasbuy", g, p, v, b, used, mv] => match g.toNat?, p.toNat?, v.toNat?, b.toNat?, used.toNat? with
    | some g, some p, some v, some b, some used =>
      let t : Gas.Tx := { gasLimit := g, gasPrice := p, value := v, balance := b }
      if Gas.accepted t then (u, s!"ok payer={Gas.payerAfter t used (mv == "1")} gain={Gas.recipientGain t (mv == "1")}")
      else (u, s!"refused payer={b} gain=0")
    | _, _, _, _, _ => (u, "bad-op")
  | "etx" :: rest => (u, match parseCfg rest, kvBool rest "inscope", kvNat rest "value", kvNat rest "gaslimit", kvNat rest "tip",
        kvNat rest "feecap", kvNat rest "balance", kvNat rest "cachelen", kvBool rest "alok", kvNat rest "alsize", kvBool rest "eligible" with
      | some c, some sc, some v, some g, some t, some f, some b, some cl, some ao, some as, some el =>
        showOut (opETX c { toInScope := sc, value := v, gasLimit := g, tip := t, feeCap := f, balance := b, cacheLen := cl,
                           accessListOk := ao, accessListSize := as, eligible := el })
      | _, _, _, _, _, _, _, _, _, _, _ => "bad-op")
  | "conv" :: rest => (u, match parseCfg rest, kvBool rest "inscope", kvBool rest "toqi", kvNat rest "value", kvNat rest "gaslimit",
        kvNat rest "gasprice", kvNat rest "balance", kvNat rest "cachelen" with
      | some c, some sc, some q, some v, some g, some p, some b, some cl =>
        showOut (opConvert c { toInScope := sc, toQi := q, value := v, gasLimit := g, gasPrice := p, balance := b, cacheLen := cl })
      | _, _, _, _, _, _, _, _ => "bad-op")
  | "xcall" :: rest => (u, match parseCfg rest, kvBool rest "inscope", kvBool rest "toqi", kvNat rest "value", kvNat rest "gas",
        kvNat rest "balance", kvNat rest "cachelen", kvBool rest "eligible" with
      | some c, some sc, some q, some v, some g, some b, some cl, some el =>
        showOut (createETX c { toInScope := sc, toQi := q, value := v, gas := g, balance := b, cacheLen := cl, eligible := el })
      | _, _, _, _, _, _, _, _ => "bad-op")
  | "tree" :: "(c" :: rest => (u, match parseActs rest [] with
      | some (body, rv, []) =>
        let l := runAct [] (.frame body rv)
        toString l.length ++ String.join (l.map fun v => " " ++ toString v)
      | _ => "bad-op")
  | "vtree" :: rest =>
    (u, match kvNat rest "refund", kvBool rest "once", (kv rest "bal").map (fun b => (b.splitOn ",").filterMap String.toNat?) with
      | some rf, some once, some bals =>
        let toks := rest.dropWhile (fun w => w != "(c0@1")
        match toks with
        | _ :: body => match parseItems body [] with
          | some (items, rv, []) =>
            let bal0 : Nat → Nat := fun a => bals.getD (a - 1) 0
            let s0 : Value.St := { bal := bal0, etxs := [], suicided := fun _ => false, minted := 0, burned := 0 }
            let (s1, r) := Value.execItems { refund := rf, refundOnce := once } 1 false s0 items
            let s := if r == .fail || (rv && r == .ok) then s0 else s1
            "bal=" ++ String.intercalate "," ((List.range bals.length).map fun i => toString (s.bal (i + 1))) ++
              " etxs=" ++ String.intercalate "," (s.etxs.map fun (a, v) => s!"{a}:{v}")
          | _ => "bad-op"
        | [] => "bad-op"
      | _, _, _ => "bad-op")
  | "create" :: rest =>
    (u, match kvNat rest "balance", kvNat rest "endow", kvBool rest "emit", kvNat rest "ev", kv rest "ending" with
      | some bal, some endow, some emit, some ev, some ending =>
        let e : Option Create.Ending := match ending with
          | "code" => some .code | "ef" => some .ef | "oversize" => some .oversize | "revert" => some .revert
          | "invalid" => some .invalid | "stop" => some .stop | "storeoog" => some .storeoog | _ => none
        match e with
        | some e =>
          let (s, ok) := Create.create ⟨bal, 0, false, []⟩ endow ev emit e
          s!"ok={if ok then 1 else 0} debit={bal - s.creator} created={s.created} etxs={s.etxs}"
        | none => "bad-op"
      | _, _, _, _, _ => "bad-op")
  | _ => (u, "bad-op")

end QuaiVerif.Etx
