import QuaiVerif.Model.Trie
/- Line-protocol front end of the trie model (area `trie`). -/
namespace QuaiVerif.Trie

structure DState where
  t : Node := .nil

def sortHex (l : List String) : List String := l.mergeSort (fun a b => a ≤ b)

def step (d : DState) (ws : List String) : DState × String :=
  match ws with
  | ["newcase"] => ({}, "ok")
  | ["upd", k, v] => match unhex k, unhex v with
    | some k, some v => let t := update d.t k v; ({ t := t }, hex (root t))
    | _, _ => (d, "bad-op")
  | ["supd", k, v] => match unhex k, unhex v with
    | some k, some v => let t := update d.t (Keccak.keccak256 k) v; ({ t := t }, hex (root t))
    | _, _ => (d, "bad-op")
  | ["get", k] => match unhex k with
    | some k => (d, match get d.t (keyToHex k) with | some v => "v " ++ hex v | none => "nf")
    | _ => (d, "bad-op")
  | ["sget", k] => match unhex k with
    | some k => (d, match get d.t (keyToHex (Keccak.keccak256 k)) with | some v => "v " ++ hex v | none => "nf")
    | _ => (d, "bad-op")
  | ["root"] => (d, hex (root d.t))
  | ["prove", k] => match unhex k with
    | some k => let p := sortHex ((prove d.t k).map hex); (d, toString p.length ++ String.join (p.map (" " ++ ·)))
    | _ => (d, "bad-op")
  -- derive <n> <v0> <v1> …: DeriveSha root of the list (key i = rlp(i))
  | "derive" :: vs => match vs.mapM unhex with
    | some vals =>
      let t := (vals.zipIdx).foldl (fun t (v, i) => update t (RLP.encodeNat i) v) Node.nil
      (d, hex (root t))
    | none => (d, "bad-op")
  | _ => (d, "bad-op")

end QuaiVerif.Trie
