import QuaiVerif.Model.Sign
/- Line-protocol front end of the sender-attribution model (area `sign`). -/
namespace QuaiVerif.Sign

/-- recovery is opaque: the harness supplies what ECDSA recovery yields ("a<hex>" or "none") -/
def showV : Verdict String → String
  | .errChainId => "chainid"
  | .errSig => "sig"
  | .errRecover => "recover-err"
  | .sender a => "sender " ++ a

structure DState where
  cache : Option (Nat × String) := none

def step (d : DState) (ws : List String) : DState × String :=
  match ws with
  | ["newcase"] => ({}, "ok")
  | ["sigvals", v, r, s] => match v.toNat?, r.toNat?, s.toNat? with
    | some v, some r, some s => (d, if validSigValues v r s then "t" else "f")
    | _, _, _ => (d, "bad-op")
  | ["newtx"] => ({ cache := none }, "ok")
  -- sender <txChain> <signerChain> <v> <r> <s> <recovered|none> : cached Sender on the current tx
  | ["sender", tc, sc, v, r, s, rec] => match tc.toNat?, sc.toNat?, v.toNat?, r.toNat?, s.toNat? with
    | some tc, some sc, some v, some r, some s =>
      let recover : Unit → Nat × Nat × Nat → Option String := fun _ _ => if rec == "none" then none else some rec
      let (vd, cache) := senderCached (fun _ => ()) recover d.cache sc { chainId := tc, payload := [], v := v, r := r, s := s }
      ({ cache := cache }, showV vd)
    | _, _, _, _, _ => (d, "bad-op")
  | _ => (d, "bad-op")

end QuaiVerif.Sign
