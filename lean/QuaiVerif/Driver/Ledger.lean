import QuaiVerif.Model.Ledger
/- Line-protocol front end of the ledger commitment model (area `c06`). -/
namespace QuaiVerif.Ledger

structure DState where
  l    : Ledger := {}
  seen : List Id := []
  wf   : Bool := true

def feed (d : DState) (o : Op) (x : Id) : DState × String :=
  ({ l := applyOp d.l o, seen := if d.seen.contains x then d.seen else x :: d.seen, wf := d.wf && opWF d.l o }, "ok")

def step (d : DState) (ws : List String) : DState × String :=
  match ws with
  | ["newcase"] => ({}, "ok")
  | ["blk"] => (d, "ok")
  | ["c", x] => feed d (.create x) x
  | ["s", x] => feed d (.spend x) x
  | ["t", x] => feed d (.trim x) x
  | ["end"] => (d, s!"size={d.l.size % 18446744073709551616} consistent={if consistentOn d.l d.seen then 1 else 0} wf={if d.wf then 1 else 0}")
  | _ => (d, "bad-op")

end QuaiVerif.Ledger
