import QuaiVerif.Model.Utxo
import QuaiVerif.Gen.Params
/- Line-protocol front end of the Qi transaction model (area `utxo`). -/
namespace QuaiVerif.Utxo

structure DState where
  env : Option Env := none
  block : Block := { utxos := fun _ => none, gasPool := 0, usedGas := 0, etxRLimit := 0, etxPLimit := 0 }
  keys : List OutPoint := []
  start : Utxos := fun _ => none          -- the committed UTXO set at the start of the block

def kvs (ws : List String) (k : String) : Option String :=
  ws.findSome? fun w => match w.splitOn "=" with
    | [a, b] => if a == k then some b else none
    | _ => none
def kvN (ws : List String) (k : String) : Option Nat := (kvs ws k).bind String.toNat?
def kvB (ws : List String) (k : String) : Option Bool := (kvs ws k).map (· == "1")
def kvH (ws : List String) (k : String) : Option Bytes := (kvs ws k).bind unhex

def hashNat (h : String) : Option Nat := (unhex h).map natOfBytesBE

def parseEnv (ws : List String) : Option Env := do
  pure { location := ← kvH ws "loc", chainId := ← kvN ws "chain", height := ← kvN ws "height", gasLimit := ← kvN ws "gaslimit", ptn := ← kvN ws "ptn", baseFee := ← kvN ws "basefee", quaiR := ← kvN ws "quair", qiR := ← kvN ws "qir", eligible := ← kvH ws "eligible", denoms := Gen.denominations, txGas := ← kvN ws "txgas", etxGas := ← kvN ws "etxgas", convGas := ← kvN ws "convgas", maxDataLen := ← kvN ws "maxdata", wrapChangeBlock := ← kvN ws "wrapblock", kawpowFork := ← kvN ws "kaw", shaFork := ← kvN ws "sha", holdInterval := ← kvN ws "hold", checkSig := ← kvB ws "checksig", isFirstQiTx := false }

/-- `in=<hash>:<idx>:<pkaddr>` -/
def parseIn (s : String) : Option TxIn := match s.splitOn ":" with
  | [h, i, a] => do pure { op := (← hashNat h, ← i.toNat?), pkAddr := ← unhex a }
  | _ => none
/-- `out=<denom>:<addr>:<lock>` -/
def parseOut (s : String) : Option TxOut := match s.splitOn ":" with
  | [d, a, l] => do pure { denom := ← d.toNat?, addr := ← unhex a, lock := ← l.toNat? }
  | _ => none

def multi (ws : List String) (k : String) : List String :=
  ws.filterMap fun w => if w.startsWith (k ++ "=") then some ((w.drop (k.length + 1)).toString) else none

def showEtx (x : Etx) : String :=
  let k := match x.kind with | .transfer => "t" | .conversion => "c" | .wrapping => "w"
  s!"{x.value}:{hex x.to}:{k}:{x.index}:{x.gas}"

def insertOP (a : OutPoint) : List OutPoint → List OutPoint
  | [] => [a]
  | x :: t => if a.1 < x.1 || (a.1 = x.1 && a.2 < x.2) then a :: x :: t else if a = x then x :: t else x :: insertOP a t

def step (d : DState) (ws : List String) : DState × String :=
  match ws with
  | ["newcase"] => ({}, "ok")
  | "env" :: rest => match parseEnv rest, kvN rest "gaspool", kvN rest "rlimit", kvN rest "plimit" with
    | some e, some gp, some rl, some pl => ({ d with env := some e, block := { d.block with gasPool := gp, usedGas := 0, etxRLimit := rl, etxPLimit := pl } }, "ok")
    | _, _, _, _ => (d, "bad-op")
  | "utxo" :: rest => match (kvs rest "h").bind hashNat, kvN rest "i", kvN rest "denom", kvH rest "addr", kvN rest "lock" with
    | some h, some i, some dn, some a, some l =>
      let u := updU d.block.utxos (h, i) (some { denom := dn, addr := a, lock := l })
      ({ d with block := { d.block with utxos := u }, start := u, keys := insertOP (h, i) d.keys }, "ok")
    | _, _, _, _, _ => (d, "bad-op")
  | "tx" :: rest => match d.env, (kvs rest "hash").bind hashNat, kvN rest "chain", kvH rest "data", kvN rest "ig", kvB rest "sigok", kvB rest "first",
        (multi rest "in").mapM parseIn, (multi rest "out").mapM parseOut with
    | some e, some h, some c, some data, some ig, some sok, some first, some ins, some outs =>
      let tx : QiTx := { hash := h, chainId := c, ins := ins, outs := outs, data := data, intrinsicGas := ig, sigOK := sok }
      match processQiTx { e with isFirstQiTx := first } d.block tx with
      | .error msg => (d, "err " ++ msg)
      | .ok r =>
        let keys := r.created.foldl (fun ks c => insertOP c.1 ks) d.keys
        ({ d with block := r.block, keys := keys },
          s!"ok fee={r.fee} in={r.totalIn} out={r.totalOut} conv={r.converted} used={r.block.usedGas} etxs=" ++
            String.intercalate "," (r.etxs.map showEtx) ++ s!" created={r.created.length} deleted={r.deleted.length}")
    | _, _, _, _, _, _, _, _, _ => (d, "bad-op")
  | ["abortblock"] => ({ d with block := { d.block with utxos := d.start } }, "ok")
  | ["scan"] =>
    let live := d.keys.filterMap fun k => (d.block.utxos k).map fun u => s!"{hex (bytesOfNatBE 32 k.1)}:{k.2}:{u.denom}:{hex u.addr}:{u.lock}"
    (d, toString live.length ++ String.join (live.map (" " ++ ·)))
  | _ => (d, "bad-op")

end QuaiVerif.Utxo
