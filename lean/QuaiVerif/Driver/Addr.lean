import QuaiVerif.Model.Addr
/- Line-protocol front end of the address model (area `addr`). -/
namespace QuaiVerif.Addr

structure DState where
  loc : Location := [0, 0]
  accts : List Bytes := []

def showAddr (a : Address) : String :=
  (match a.kind with | .internal => "I " | .external => "E ") ++ hex a.bytes

def b2s (b : Bool) : String := if b then "t" else "f"

def insertSorted (a : Bytes) : List Bytes → List Bytes
  | [] => [a]
  | x :: t => if a < x then a :: x :: t else if a = x then x :: t else x :: insertSorted a t

def step (d : DState) (ws : List String) : DState × String :=
  match ws with
  | ["newcase"] => ({}, "ok")
  | ["b2a", l, b] | ["ctor", _, l, b] => match unhex l, unhex b with
    | some l, some b => (d, showAddr (bytesToAddress b l))
    | _, _ => (d, "bad-op")
  | ["scope", l, b] => match unhex l, unhex b with
    | some l, some b => (d, b2s (isInChainScope b l))
    | _, _ => (d, "bad-op")
  | ["noloc", _, b] => match unhex b with
    | some b => (d, showAddr (decodeNoLoc b))
    | _ => (d, "bad-op")
  | ["ciq", l, b] => match unhex l, unhex b with
    | some l, some b => (d, b2s (checkBytesInternalAndQi b l))
    | _, _ => (d, "bad-op")
  | ["iaq", l, b] => match unhex l, unhex b with
    | some l, some b => (d, b2s (internalAndQuai (bytesToAddress b l)))
    | _, _ => (d, "bad-op")
  | ["iaqi", l, b] => match unhex l, unhex b with
    | some l, some b => (d, b2s (internalAndQi (bytesToAddress b l)))
    | _, _ => (d, "bad-op")
  -- filter <slice hex> <nodeCtx> <order> <to:type>…  →  indices kept
  | "filter" :: sl :: ctx :: ord :: items => match unhex sl, ctx.toNat?, ord.toNat? with
    | some sl, some ctx, some ord =>
      let parsed := items.mapM fun it => match it.splitOn ":" with
        | [a, t] => match unhex a, t.toNat? with | some a, some t => some (a, t) | _, _ => none
        | _ => none
      match parsed with
      | some l =>
        let kept := (l.zipIdx.filter fun (e, _) => keepForSub sl ctx ord e).map (·.2)
        (d, String.intercalate "," (kept.map toString))
      | none => (d, "bad-op")
    | _, _, _ => (d, "bad-op")
  | ["zone", b] => match unhex b with
    | some b => (d, hex (zoneOf b) ++ " " ++ (if isQi b then "qi" else "quai"))
    | _ => (d, "bad-op")
  | ["newstate", l] => match unhex l with
    | some l => ({ loc := l, accts := [] }, "ok")
    | _ => (d, "bad-op")
  | ["create", b] => match unhex b with
    | some b =>
      let ok := createObjectGuard b d.loc
      ({ d with accts := if ok then insertSorted b d.accts else d.accts }, b2s ok)
    | _ => (d, "bad-op")
  | ["accts"] => (d, toString d.accts.length ++ String.join (d.accts.map fun a => " " ++ hex a))
  | "grind" :: l :: cost :: maxA :: gas :: first :: cands => match unhex l, cost.toNat?, maxA.toNat?, gas.toNat?, unhex first, cands.mapM unhex with
    | some l, some cost, some maxA, some gas, some first, some cands =>
      (d, match (if first.isEmpty then grind l cost maxA gas cands else createAddr l first cost maxA gas cands) with
        | some (a, g) => "ok " ++ hex a ++ " " ++ toString g
        | none => "err")
    | _, _, _, _, _, _ => (d, "bad-op")
  | _ => (d, "bad-op")

end QuaiVerif.Addr
