import QuaiVerif.Model.Proto
import QuaiVerif.Gen.Schemas
/- Line-protocol front end of the wire codec model (area `codec`). -/
namespace QuaiVerif.Proto

def step (u : Unit) (ws : List String) : Unit × String :=
  match ws with
  | ["newcase"] => (u, "ok")
  | ["note"] => (u, "ok")
  | ["dec", name, b] => (u, match unhex b with
    | some bytes => match dump Gen.schemas name bytes with
      | some s => if s.isEmpty then "{}" else s
      | none => "err"
    | none => "bad-op")
  | ["reenc", b] => (u, match unhex b with
    | some bytes => match parse bytes with
      | some fs => hex (serialize fs)
      | none => "err"
    | none => "bad-op")
  | ["varint", n] => (u, match n.toNat? with
    | some n => hex (encodeVarint n)
    | none => "bad-op")
  | _ => (u, "bad-op")

end QuaiVerif.Proto
