import QuaiVerif.Model.State
/- Line-protocol front end of the journal model (area `state`). -/
namespace QuaiVerif.State

structure DState where
  vr : Variant := {}
  st : St := {}
  stack : List Nat := []

def addrs : List Nat := [1, 2, 3, 4]
def slots : List Nat := [0, 1, 2]

def b01 (b : Bool) : String := if b then "1" else "0"

def dump (s : St) : String :=
  let accts := addrs.map fun a =>
    let p := if (s.acct a).deleted then Acct.absent else s.acct a   -- reads do not see an object marked deleted
    s!"{a}:{b01 p.present},{p.bal},{p.nonce},{p.code},{p.size},{b01 p.suicided}," ++
      String.intercalate "," (slots.map fun k => toString (p.stor k))
  let acc := addrs.map fun a => b01 (s.accA a) ++ String.join (slots.map fun k => b01 (s.accS a k))
  let tr := addrs.map fun a => String.intercalate "," (slots.map fun k => toString (s.trans a k))
  String.intercalate " " accts ++ s!" refund={s.refund} logs=" ++
    String.intercalate "," (s.logs.reverse.map toString) ++ " acc=" ++ String.intercalate "," acc ++
    " tr=" ++ String.intercalate ";" tr

def nats (ws : List String) : Option (List Nat) := ws.mapM String.toNat?

def step (d : DState) (ws : List String) : DState × String :=
  match ws with
  | ["cfg", "suicideRestoresSize", v] => ({ d with vr := { suicideRestoresSize := v == "1" } }, "ok")
  | ["newcase"] => ({ vr := d.vr }, "ok")
  | "pre" :: "acct" :: rest => match nats rest with
    | some [a, bal, nonce, code, size] =>
      ({ d with st := d.st.setAcct a { d.st.acct a with present := true, bal := bal, nonce := nonce, code := code, size := size } }, "ok")
    | _ => (d, "bad-op")
  | "pre" :: "stor" :: rest => match nats rest with
    | some [a, k, v] =>
      ({ d with st := d.st.setAcct a { d.st.acct a with stor := upd (d.st.acct a).stor k v } }, "ok")
    | _ => (d, "bad-op")
  | "m" :: name :: rest => match nats rest with
    | some args =>
      let m : Option Mut := match name, args with
        | "createAccount", [a] => some (.createAccount a)
        | "setBalance", [a, v] => some (.setBalance a v)
        | "addBalance", [a, v] => some (.addBalance a v)
        | "subBalance", [a, v] => some (.subBalance a v)
        | "setNonce", [a, v] => some (.setNonce a v)
        | "setCode", [a, v] => some (.setCode a v)
        | "setState", [a, k, v] => some (.setState a k v)
        | "suicide", [a] => some (.suicide a)
        | "addRefund", [g] => some (.addRefund g)
        | "subRefund", [g] => some (.subRefund g)
        | "addLog", [i] => some (.addLog i)
        | "accessAddr", [a] => some (.accessAddr a)
        | "accessSlot", [a, k] => some (.accessSlot a k)
        | "setTransient", [a, k, v] => some (.setTransient a k v)
        | _, _ => none
      match m with
      | some m => ({ d with st := applyMut d.vr d.st m }, "ok")
      | none => (d, "bad-op")
    | none => (d, "bad-op")
  | ["snap"] => ({ d with stack := d.st.journal.length :: d.stack }, "ok")
  | ["commitframe"] => match d.stack with
    | _ :: t => ({ d with stack := t }, "ok")
    | [] => (d, "bad-op")
  | ["revert"] => match d.stack with
    | n :: t => ({ d with stack := t, st := revertTo n d.st }, "ok")
    | [] => (d, "bad-op")
  | ["endtx"] => match d.stack with
    | [] => ({ d with st := finalise d.st }, "ok")
    | _ => (d, "bad-op")
  | ["dump"] => (d, dump d.st)
  | _ => (d, "bad-op")

end QuaiVerif.State
