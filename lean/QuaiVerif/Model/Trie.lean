import QuaiVerif.Base.RLP
import QuaiVerif.Base.Keccak
/-
Model of the Merkle-Patricia trie (trie/trie.go insert / delete / get, trie/hasher.go,
trie/encoding.go, trie/proof.go).  Keys are nibble lists ending with the terminator 16, exactly as the
Go code holds them; a full node's children are a function (only indices 0..16 are used).
Core Lean only.
-/
namespace QuaiVerif.Trie

inductive Node where
  | nil
  | value (v : Bytes)
  | short (key : List Nat) (child : Node)
  | full (children : Nat → Node)

def upd (f : Nat → Node) (a : Nat) (v : Node) : Nat → Node := fun x => if x = a then v else f x

def prefixLen : List Nat → List Nat → Nat
  | a :: as, b :: bs => if a = b then prefixLen as bs + 1 else 0
  | _, _ => 0

/-- `keybytesToHex`: two nibbles per byte plus the terminator -/
def keyToHex (k : Bytes) : List Nat := (k.flatMap fun b => [b / 16, b % 16]) ++ [16]

/-- `insert(nil, key, value)` -/
def mk (k : List Nat) (v : Node) : Node := if k = [] then v else .short k v

/-- `Trie.insert(n, prefix, key, value)` -/
def insert : Node → List Nat → Node → Node
  | _, [], v => v
  | .short k c, x :: rest, v =>
    let key := x :: rest
    let m := prefixLen key k
    if m = k.length then .short k (insert c (key.drop m) v)
    else
      let br := Node.full (upd (upd (fun _ => .nil) (k.getD m 0) (mk (k.drop (m + 1)) c)) (key.getD m 0) (mk (key.drop (m + 1)) v))
      if m = 0 then br else .short (key.take m) br
  | .full cs, x :: rest, v => .full (upd cs x (insert (cs x) rest v))
  | .nil, x :: rest, v => .short (x :: rest) v
  | .value _, x :: rest, v => .short (x :: rest) v     -- unreachable for terminated keys (Go panics)

def isNil : Node → Bool
  | .nil => true
  | _ => false

/-- position of the single non-nil child of a full node among 0..16, if there is exactly one -/
def singleChild (cs : Nat → Node) : Option Nat :=
  match (List.range 17).filter (fun i => !isNil (cs i)) with
  | [p] => some p
  | _ => none

/-- `Trie.delete(n, prefix, key)`; returns the new node (unchanged when the key is absent) -/
def delete : Node → List Nat → Node
  | .short k c, key =>
    let m := prefixLen key k
    if m < k.length then .short k c
    else if m = key.length then .nil
    else
      match delete c (key.drop k.length) with
      | .short k2 c2 => .short (k ++ k2) c2
      | .nil => .nil      -- (Go: cannot happen below a short node of a canonical trie)
      | child => .short k child
  | .full cs, x :: rest =>
    let nn := delete (cs x) rest
    let cs' := upd cs x nn
    if !isNil nn then .full cs'
    else match singleChild cs' with
      | some pos =>
        if pos ≠ 16 then
          match cs' pos with
          | .short k2 c2 => .short (pos :: k2) c2
          | c => .short [pos] c
        else .short [pos] (cs' pos)
      | none => .full cs'
  | .full cs, [] => .full cs
  | .value _, _ => .nil
  | .nil, _ => .nil

/-- `Trie.tryGet` -/
def get : Node → List Nat → Option Bytes
  | .value v, [] => some v
  | .short k c, key => if k.isPrefixOf key then get c (key.drop k.length) else none
  | .full cs, x :: rest => get (cs x) rest
  | _, _ => none

/-! ### hashing (hasher.go) -/

def hexToCompact (hex : List Nat) : Bytes :=
  let term := hex.getLast? == some 16
  let hex := if term then hex.dropLast else hex
  let flag := (if term then 32 else 0)
  let rec pack : List Nat → Bytes
    | a :: b :: t => (a * 16 + b) :: pack t
    | _ => []
  if hex.length % 2 = 1 then (flag + 16 + hex.headD 0) :: pack hex.tail
  else flag :: pack hex

/-- how a parent refers to a child whose encoding is `e`: values and nil inline, other nodes inline
when shorter than 32 bytes, else by hash -/
def refWith (H : Bytes → Bytes) (c : Node) (e : Bytes) : Bytes :=
  match c with
  | .value _ => e
  | .nil => e
  | _ => if e.length < 32 then e else RLP.encodeBytes (H e)

/-- RLP encoding of a node (children collapsed to references), parametrised by the hash function -/
def encodeWith (H : Bytes → Bytes) : Node → Bytes
  | .nil => RLP.encodeBytes []
  | .value v => RLP.encodeBytes v
  | .short k c => RLP.encodeList [RLP.encodeBytes (hexToCompact k), refWith H c (encodeWith H c)]
  | .full cs => RLP.encodeList ((List.range 17).map fun i => refWith H (cs i) (encodeWith H (cs i)))

def emptyRoot (H : Bytes → Bytes) : Bytes := H (RLP.encodeBytes [])

/-- `Trie.Hash()`: the root is always hashed -/
def rootWith (H : Bytes → Bytes) (t : Node) : Bytes :=
  match t with
  | .nil => emptyRoot H
  | t => H (encodeWith H t)

def root (t : Node) : Bytes := rootWith Keccak.keccak256 t

/-- `Trie.Update(key, value)`: an empty value deletes -/
def update (t : Node) (key : Bytes) (v : Bytes) : Node :=
  if v.isEmpty then delete t (keyToHex key) else insert t (keyToHex key) (.value v)

end QuaiVerif.Trie

namespace QuaiVerif.Trie

/-- `Trie.Prove(key, 0, db)`: the encodings of the nodes on the path to `key` that are stored by hash
(encoding of 32 bytes or more) plus always the root node. -/
def provePath (H : Bytes → Bytes) : Node → List Nat → Bool → List Bytes
  | _, [], _ => []
  | .short k c, key, isRoot =>
    let e := encodeWith H (.short k c)
    let me := if isRoot || e.length ≥ 32 then [e] else []
    if k.isPrefixOf key then me ++ provePath H c (key.drop k.length) false else me
  | .full cs, x :: rest, isRoot =>
    let e := encodeWith H (.full cs)
    let me := if isRoot || e.length ≥ 32 then [e] else []
    me ++ provePath H (cs x) rest false
  | _, _, _ => []

def prove (t : Node) (key : Bytes) : List Bytes := provePath Keccak.keccak256 t (keyToHex key) true

end QuaiVerif.Trie
