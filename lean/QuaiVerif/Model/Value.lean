import QuaiVerif.Base.Util
/-
Value skeleton of EVM execution (C02): call frames (CALL / CALLCODE / DELEGATECALL / STATICCALL) that
move value, emit ETXs, self-destruct, and end in STOP or REVERT, over account balances.  Follows
core/vm/evm.go Call / CallCode / DelegateCall / StaticCall (snapshot, CanTransfer, Transfer, revert),
core/vm/instructions.go opETX (fee 0) / opSuicide, as exercised by the `evm` area's frame trees.
Gas is not modelled (callers give enough); only the value-relevant effects are.  Core Lean only.
-/
namespace QuaiVerif.Value

inductive CallKind where | call | delegate | callcode | static
  deriving DecidableEq, Repr

inductive Item where
  | emit (v : Nat)                                                     -- ETX opcode carrying value v
  | sub (kind : CallKind) (value : Nat) (addr : Nat) (body : List Item) (revert : Bool)
  | sd (beneficiary : Nat)                                              -- SELFDESTRUCT

structure St where
  bal : Nat → Nat
  etxs : List (Nat × Nat)          -- (sender, value), in emission order
  suicided : Nat → Bool
  minted : Nat                     -- state-rent refunds credited
  burned : Nat                     -- value destroyed (self-destruct to self)

structure Cfg where
  refund : Nat                     -- baseFee * CallNewAccountGas(stateSize)
  refundOnce : Bool                -- from SelfDestructRefundForkBlock on: at most once per account

def upd {β : Type} (f : Nat → β) (a : Nat) (v : β) : Nat → β := fun x => if x = a then v else f x

inductive Res where | ok | halt | fail
  deriving DecidableEq, Repr

mutual
/-- one instruction in the context (`self`, `static`); `halt` = the frame ends successfully here -/
def execItem (c : Cfg) (self : Nat) (static : Bool) (s : St) : Item → St × Res
  | .emit v =>
    if static then (s, .fail)
    else if v = 0 || s.bal self < v then (s, .ok)                       -- status 0, nothing happens
    else ({ s with bal := upd s.bal self (s.bal self - v), etxs := s.etxs ++ [(self, v)] }, .ok)
  | .sd ben =>
    if static then (s, .fail)
    else
      let b := s.bal self
      let s1 := { s with bal := upd s.bal ben (s.bal ben + b) }
      let gets := !c.refundOnce || !s.suicided self
      let s2 := if gets then { s1 with bal := upd s1.bal ben (s1.bal ben + c.refund), minted := s1.minted + c.refund } else s1
      -- Suicide(self): balance zeroed; whatever self holds now is destroyed beyond the b already moved
      let lost := s2.bal self
      ({ s2 with bal := upd s2.bal self 0, suicided := upd s2.suicided self true,
                 burned := s2.burned + (if ben = self then lost - b else 0) }, .halt)
  | .sub kind value addr body rv =>
    match kind with
    | .call =>
      if static && value ≠ 0 then (s, .fail)
      else if value ≠ 0 && s.bal self < value then (s, .ok)             -- ErrInsufficientBalance: status 0
      else
        let s1 := { s with bal := upd (upd s.bal self (s.bal self - value)) addr ((upd s.bal self (s.bal self - value)) addr + value) }
        let (s2, r) := execItems c addr static s1 body
        if r = .fail || (rv && r = .ok) then (s, .ok) else (s2, .ok)
    | .callcode =>
      if value ≠ 0 && s.bal self < value then (s, .ok)
      else
        let (s2, r) := execItems c self static s body
        if r = .fail || (rv && r = .ok) then (s, .ok) else (s2, .ok)
    | .delegate =>
      let (s2, r) := execItems c self static s body
      if r = .fail || (rv && r = .ok) then (s, .ok) else (s2, .ok)
    | .static =>
      let (s2, r) := execItems c addr true s body
      if r = .fail || (rv && r = .ok) then (s, .ok) else (s2, .ok)
def execItems (c : Cfg) (self : Nat) (static : Bool) (s : St) : List Item → St × Res
  | [] => (s, .ok)
  | it :: rest =>
    match execItem c self static s it with
    | (s1, .ok) => execItems c self static s1 rest
    | (s1, .halt) => (s1, .halt)
    | (s1, .fail) => (s1, .fail)
end

end QuaiVerif.Value
