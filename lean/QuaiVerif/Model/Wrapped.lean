/- Wrapped Qi held by an owner contract in the lockup contract's storage (core/vm/contracts.go: UnwrapQi,
   ClaimQiDeposit).  One transaction = a list of calls made by the owner contract; the state is the owner's wrapped
   balance slot, the unclaimed deposits made in its name (one slot per Quai beneficiary) and the unwrap ETXs emitted. -/
namespace QuaiVerif.Wrapped

def W : Nat := 2 ^ 256

structure St where
  bal  : Nat
  deps : List Nat
  out  : List Nat
deriving Repr, DecidableEq

inductive Op
  | unwrap (v : Nat)
  | claim (i : Nat)
deriving Repr, DecidableEq

/-- UnwrapQi: refused when the balance slot is empty or smaller than the value; otherwise the slot is debited by
    exactly the value and one ETX carrying exactly the value is emitted. -/
def unwrap (s : St) (v : Nat) : St × Bool :=
  if s.bal = 0 ∨ s.bal < v then (s, false)
  else ({ s with bal := s.bal - v, out := s.out ++ [v] }, true)

/-- ClaimQiDeposit: refused when the deposit slot is empty; otherwise the slot is cleared and its content added to the
    balance slot (stored as a 256-bit word). -/
def claim (s : St) (i : Nat) : St × Bool :=
  match s.deps[i]? with
  | none => (s, false)
  | some d => if d = 0 then (s, false) else ({ s with bal := (s.bal + d) % W, deps := s.deps.set i 0 }, true)

def step (s : St) : Op → St × Bool
  | .unwrap v => unwrap s v
  | .claim i => claim s i

/-- run a transaction's calls, collecting the status words -/
def run : St → List Op → St × List Bool
  | s, [] => (s, [])
  | s, op :: ops =>
    let r := step s op
    let rr := run r.1 ops
    (rr.1, r.2 :: rr.2)

def total (s : St) : Nat := s.bal + s.deps.sum + s.out.sum

end QuaiVerif.Wrapped
