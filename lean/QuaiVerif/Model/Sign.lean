import QuaiVerif.Base.Util
/-
Model of sender attribution for Quai transactions (core/types/transaction_signing.go Sender /
SignerV1.Sender / recoverPlain, crypto.ValidateSignatureValues).  ECDSA recovery and keccak are
parameters.  Core Lean only.
-/
namespace QuaiVerif.Sign

def secpN : Nat := 0xFFFFFFFFFFFFFFFFFFFFFFFFFFFFFFFEBAAEDCE6AF48A03BBFD25E8CD0364141
def halfN : Nat := secpN / 2

/-- `crypto.ValidateSignatureValues(v, r, s)` -/
def validSigValues (v r s : Nat) : Bool :=
  !(decide (r < 1) || decide (s < 1)) && !decide (s > halfN) && decide (r < secpN) && decide (s < secpN) && (v == 0 || v == 1)

inductive Verdict (α : Type) where
  | errChainId | errSig | errRecover | sender (a : α)
  deriving DecidableEq, Repr

structure Tx where
  chainId : Nat
  payload : Bytes        -- the proto encoding of the signing fields (incl. chain id)
  v : Nat
  r : Nat
  s : Nat
  deriving DecidableEq, Repr

/-- `SignerV1.Sender` → `recoverPlain`; `recover digest (r, s, v)` is ECDSA public-key recovery
followed by address derivation, `H` the keccak-256 of the signing payload. -/
def senderV1 {α D : Type} (H : Bytes → D) (recover : D → Nat × Nat × Nat → Option α) (signerChain : Nat) (tx : Tx) : Verdict α :=
  if tx.chainId ≠ signerChain then .errChainId
  else if tx.v + 27 ≥ 256 then .errSig
  else if !validSigValues tx.v tx.r tx.s then .errSig
  else match recover (H tx.payload) (tx.r, tx.s, tx.v) with
    | some a => .sender a
    | none => .errRecover

/-- `types.Sender` with its per-transaction cache `(signer chain id, address)`. -/
def senderCached {α D : Type} (H : Bytes → D) (recover : D → Nat × Nat × Nat → Option α)
    (cache : Option (Nat × α)) (signerChain : Nat) (tx : Tx) : Verdict α × Option (Nat × α) :=
  match cache with
  | some (c, a) => if c = signerChain then (.sender a, cache) else
      match senderV1 H recover signerChain tx with
      | .sender b => (.sender b, some (signerChain, b))
      | v => (v, cache)
  | none =>
      match senderV1 H recover signerChain tx with
      | .sender b => (.sender b, some (signerChain, b))
      | v => (v, cache)

end QuaiVerif.Sign
