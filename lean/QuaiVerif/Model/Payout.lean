import QuaiVerif.Base.Util
/-
Model of the time-locked payout of Quai coinbases and Qi->Quai conversions (core/state_processor.go
RedeemLockedQuai): a reward recorded in block `n` with lock depth `d` is credited while block `n + d` is processed -
the processor looks back from the current height by each of the protocol's depths and credits what it finds in
that block.  Nothing else credits it.
-/
namespace QuaiVerif.Payout

structure Reward where
  addr   : String
  amount : Nat
  block  : Nat      -- height of the block that carries the coinbase / conversion ETX
  depth  : Nat      -- lock depth selected by its lock byte (conversion: the conversion lock period)
  deriving Repr, DecidableEq

/-- What processing block `h` credits to `a`: the rewards of the blocks `h - d` for the protocol depths `d`. -/
def creditedAt (depths : List Nat) (rs : List Reward) (a : String) (h : Nat) : Nat :=
  ((rs.filter fun r => (r.addr == a && depths.contains r.depth) && decide (1 ≤ r.block ∧ r.block + r.depth = h)).map (·.amount)).sum

/-- Balance of a reward-only account after blocks 1..h. -/
def creditedUpTo (depths : List Nat) (rs : List Reward) (a : String) : Nat → Nat
  | 0 => 0
  | h + 1 => creditedUpTo depths rs a h + creditedAt depths rs a (h + 1)

/-- The matured rewards of `a` at height `h`. -/
def matured (depths : List Nat) (rs : List Reward) (a : String) (h : Nat) : Nat :=
  ((rs.filter fun r => (r.addr == a && depths.contains r.depth) && decide (1 ≤ r.block ∧ r.block + r.depth ≤ h)).map (·.amount)).sum

end QuaiVerif.Payout
