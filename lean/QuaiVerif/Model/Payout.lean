import QuaiVerif.Base.Util
/-
Model of the time-locked payout of Quai coinbases and Qi->Quai conversions (core/state_processor.go
RedeemLockedQuai): a reward recorded in block `n` with lock depth `d` is credited while block `n + d` is processed -
the processor looks back from the current height by each of the protocol's depths and credits what it finds in
that block.  Nothing else credits it.
-/
namespace QuaiVerif.Payout

structure Reward where
  addr   : String
  amount : Nat
  block  : Nat      -- height of the block that carries the coinbase / conversion ETX
  depth  : Nat      -- lock depth selected by its lock byte (conversion: the conversion lock period)
  deriving Repr, DecidableEq

/-- What processing block `h` credits to `a`: the rewards of the blocks `h - d` for the protocol depths `d`. -/
def creditedAt (depths : List Nat) (rs : List Reward) (a : String) (h : Nat) : Nat :=
  ((rs.filter fun r => (r.addr == a && depths.contains r.depth) && decide (1 ≤ r.block ∧ r.block + r.depth = h)).map (·.amount)).sum

/-- Balance of a reward-only account after blocks 1..h. -/
def creditedUpTo (depths : List Nat) (rs : List Reward) (a : String) : Nat → Nat
  | 0 => 0
  | h + 1 => creditedUpTo depths rs a h + creditedAt depths rs a (h + 1)

/-- The matured rewards of `a` at height `h`. -/
def matured (depths : List Nat) (rs : List Reward) (a : String) (h : Nat) : Nat :=
  ((rs.filter fun r => (r.addr == a && depths.contains r.depth) && decide (1 ≤ r.block ∧ r.block + r.depth ≤ h)).map (·.amount)).sum

end QuaiVerif.Payout

/-
Second part: the account a payout goes to may not exist yet.  RedeemLockedQuai then withholds the account-creation
fee from the first payout that can cover it (a payout that cannot is dropped and creates nothing); once the account
exists - also when an earlier payout of the same block created it - payouts are credited in full.
-/
namespace QuaiVerif.Payout

structure Acct where
  live : Bool
  bal  : Nat
  deriving Repr, DecidableEq

/-- One payout of `amt` while the creation fee is `fee`. -/
def credit (fee : Nat) (a : Acct) (amt : Nat) : Acct :=
  if a.live then { a with bal := a.bal + amt }
  else if fee ≤ amt then { live := true, bal := a.bal + (amt - fee) }
  else a

/-- The payouts of one block, in the order the processor meets them. -/
def creditAll (fee : Nat) (a : Acct) (amts : List Nat) : Acct := amts.foldl (credit fee) a

/-- End of block: an account left without balance (it was created by a payout equal to the fee) is removed again. -/
def settle (a : Acct) : Acct := if a.bal = 0 then { a with live := false } else a

/-- The payouts to `a` that processing block `h` meets: depth by depth, and within the block `h - d` in ETX order. -/
def unlocksAt (depths : List Nat) (rs : List Reward) (a : String) (h : Nat) : List Nat :=
  depths.flatMap fun d => (rs.filter fun r => (r.addr == a && r.depth == d) && decide (1 ≤ r.block ∧ r.block + r.depth = h)).map (·.amount)

/-- The account of `a` after blocks 1..h; `fee k` is the creation fee in force while block `k` is processed. -/
def acctUpTo (depths : List Nat) (fee : Nat → Nat) (rs : List Reward) (a : String) (init : Acct) : Nat → Acct
  | 0 => init
  | h + 1 => settle (creditAll (fee (h + 1)) (acctUpTo depths fee rs a init h) (unlocksAt depths rs a (h + 1)))

end QuaiVerif.Payout
