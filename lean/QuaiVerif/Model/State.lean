import QuaiVerif.Base.Util
/-
Model of core/state.StateDB's journalled mutators (statedb.go, state_object.go, journal.go,
access_list.go, transient_storage.go).  Core Lean only.

Maps are functions (`Nat → …`), so that "revert restores the state" is plain equality (funext) and
the driver can still evaluate the model at the addresses / slots the harness asks about.
`Variant.suicideRestoresSize` is the bug-switch for finding S2 (Suicide zeroes the per-contract
storage-size counter without journalling it).
-/
namespace QuaiVerif.State

structure Variant where
  suicideRestoresSize : Bool := false
  deriving Repr

structure Acct where
  present : Bool := false        -- a state object exists (live or loaded)
  bal : Nat := 0
  nonce : Nat := 0
  code : Nat := 0                -- 0 = empty code; otherwise an identifier of the code bytes
  size : Nat := 0                -- per-contract storage-size counter (data.Size)
  suicided : Bool := false
  deleted : Bool := false        -- marked deleted by the end of an earlier transaction of the block (object kept)
  stor : Nat → Nat := fun _ => 0

def Acct.absent : Acct := {}

inductive Entry where
  | createObject (a : Nat)
  | resetObject (a : Nat) (prev : Acct)
  | suicide (a : Nat) (prevFlag : Bool) (prevBal : Nat) (prevSize : Option Nat)
  | balance (a : Nat) (prev : Nat)
  | nonce (a : Nat) (prev : Nat)
  | storage (a : Nat) (k : Nat) (prev : Nat)
  | code (a : Nat) (prev : Nat)
  | refund (prev : Nat)
  | addLog
  | touch (a : Nat)
  | accessAddr (a : Nat)
  | accessSlot (a : Nat) (k : Nat)
  | transient (a : Nat) (k : Nat) (prev : Nat)

structure St where
  acct : Nat → Acct := fun _ => {}
  refund : Nat := 0
  logs : List Nat := []                 -- newest first
  accA : Nat → Bool := fun _ => false
  accS : Nat → Nat → Bool := fun _ _ => false
  trans : Nat → Nat → Nat := fun _ _ => 0
  journal : List Entry := []            -- newest first

def upd {β : Type} (f : Nat → β) (a : Nat) (v : β) : Nat → β := fun x => if x = a then v else f x
def upd2 {β : Type} (f : Nat → Nat → β) (a k : Nat) (v : β) : Nat → Nat → β :=
  fun x y => if x = a ∧ y = k then v else f x y

def St.setAcct (s : St) (a : Nat) (v : Acct) : St := { s with acct := upd s.acct a v }
def St.push (s : St) (e : Entry) : St := { s with journal := e :: s.journal }

/-- `createObject` (scope guard is C16): no previous object → `createObjectChange`; otherwise
`resetObjectChange{prev}`.  `CreateAccount` carries balance and size over from `prev`. -/
def createAccount (s : St) (a : Nat) : St :=
  let p := s.acct a
  if p.present then
    (s.push (.resetObject a p)).setAcct a
      (if p.deleted then { present := true } else { present := true, bal := p.bal, size := p.size })
  else
    (s.push (.createObject a)).setAcct a { present := true }

/-- what `getStateObject` finds: an object that was not deleted by an earlier transaction -/
def Acct.live (p : Acct) : Bool := p.present && !p.deleted

/-- `GetOrNewStateObject`: a deleted object is replaced like in `createObject` (`resetObjectChange{prev}`) -/
def ensure (s : St) (a : Nat) : St :=
  if (s.acct a).live then s
  else if (s.acct a).present then (s.push (.resetObject a (s.acct a))).setAcct a { present := true }
  else (s.push (.createObject a)).setAcct a { present := true }

def Acct.empty (p : Acct) : Bool := p.nonce == 0 && p.bal == 0 && p.code == 0 && p.size == 0

def setBalance (s : St) (a : Nat) (v : Nat) : St :=
  let s := ensure s a
  let p := s.acct a
  (s.push (.balance a p.bal)).setAcct a { p with bal := v }

def addBalance (s : St) (a : Nat) (amt : Nat) : St :=
  let s := ensure s a
  let p := s.acct a
  if amt = 0 then (if p.empty then s.push (.touch a) else s)
  else (s.push (.balance a p.bal)).setAcct a { p with bal := p.bal + amt }

/-- `SubBalance` (callers guarantee `amt ≤ bal`; the model clamps like `Nat`). -/
def subBalance (s : St) (a : Nat) (amt : Nat) : St :=
  let s := ensure s a
  let p := s.acct a
  if amt = 0 then s
  else (s.push (.balance a p.bal)).setAcct a { p with bal := p.bal - amt }

def setNonce (s : St) (a : Nat) (n : Nat) : St :=
  let s := ensure s a
  let p := s.acct a
  (s.push (.nonce a p.nonce)).setAcct a { p with nonce := n }

def setCode (s : St) (a : Nat) (c : Nat) : St :=
  let s := ensure s a
  let p := s.acct a
  (s.push (.code a p.code)).setAcct a { p with code := c }

def setState (s : St) (a k v : Nat) : St :=
  let s := ensure s a
  let p := s.acct a
  if p.stor k = v then s
  else (s.push (.storage a k (p.stor k))).setAcct a { p with stor := upd p.stor k v }

def suicide (vr : Variant) (s : St) (a : Nat) : St :=
  let p := s.acct a
  if !p.live then s
  else
    (s.push (.suicide a p.suicided p.bal (if vr.suicideRestoresSize then some p.size else none))).setAcct a
      { p with suicided := true, bal := 0, size := 0 }

def addRefund (s : St) (g : Nat) : St := { s.push (.refund s.refund) with refund := s.refund + g }
def subRefund (s : St) (g : Nat) : St := { s.push (.refund s.refund) with refund := s.refund - g }
def addLog (s : St) (id : Nat) : St := { s.push .addLog with logs := id :: s.logs }

def addAccessAddr (s : St) (a : Nat) : St :=
  if s.accA a then s else { s.push (.accessAddr a) with accA := upd s.accA a true }

def addAccessSlot (s : St) (a k : Nat) : St :=
  let s := addAccessAddr s a
  if s.accS a k then s else { s.push (.accessSlot a k) with accS := upd2 s.accS a k true }

def setTransient (s : St) (a k v : Nat) : St :=
  if s.trans a k = v then s
  else { s.push (.transient a k (s.trans a k)) with trans := upd2 s.trans a k v }

/-- `journalEntry.revert` for each kind (the journal itself is handled by `revertTo`). -/
def undo (s : St) : Entry → St
  | .createObject a => s.setAcct a Acct.absent
  | .resetObject a prev => s.setAcct a prev
  | .suicide a pf pb ps =>
      let p := s.acct a
      if p.present then
        s.setAcct a { p with suicided := pf, bal := pb, size := match ps with | some z => z | none => p.size }
      else s
  | .balance a prev => s.setAcct a { s.acct a with bal := prev }
  | .nonce a prev => s.setAcct a { s.acct a with nonce := prev }
  | .storage a k prev => s.setAcct a { s.acct a with stor := upd (s.acct a).stor k prev }
  | .code a prev => s.setAcct a { s.acct a with code := prev }
  | .refund prev => { s with refund := prev }
  | .addLog => { s with logs := s.logs.tail }
  | .touch _ => s
  | .accessAddr a => { s with accA := upd s.accA a false }
  | .accessSlot a k => { s with accS := upd2 s.accS a k false }
  | .transient a k prev => { s with trans := upd2 s.trans a k prev }

/-- `journal.revert(statedb, snapshot)`: undo newest-first until the journal has length `n`. -/
def revertTo (n : Nat) (s : St) : St :=
  match _h : s.journal with
  | [] => s
  | e :: rest =>
    if rest.length + 1 ≤ n then s
    else revertTo n (undo { s with journal := rest } e)
termination_by s.journal.length
decreasing_by
  have : ∀ (t : St) (e : Entry), (undo t e).journal = t.journal := by
    intro t e; cases e <;> simp [undo, St.setAcct] <;> (try split) <;> simp
  rw [this]; simp [_h]

/-- the address a journal entry marks dirty (`journalEntry.dirtied`; `resetObjectChange` marks none) -/
def Entry.dirtied : Entry → Option Nat
  | .createObject a => some a
  | .suicide a _ _ _ => some a
  | .balance a _ => some a
  | .nonce a _ => some a
  | .storage a _ _ => some a
  | .code a _ => some a
  | .touch a => some a
  | _ => none

/-- `StateDB.Finalize(true)` at the end of a transaction: every dirty object that self-destructed or is empty is
marked deleted (the object stays, with its data, until the block is committed; reads no longer see it); the journal
and the refund counter are cleared - unless the journal is empty, then nothing happens. -/
def dirty (s : St) (a : Nat) : Bool := s.journal.any (fun e => e.dirtied == some a)

def deletedNow (s : St) (a : Nat) : Bool :=
  dirty s a && (s.acct a).present && ((s.acct a).suicided || (s.acct a).empty)

def finaliseAcct (s : St) (a : Nat) : Acct :=
  if deletedNow s a then { s.acct a with deleted := true } else s.acct a

def finalise (s : St) : St :=
  if s.journal.isEmpty then s
  else { s with acct := finaliseAcct s, journal := [], refund := 0 }

inductive Mut where
  | createAccount (a : Nat) | setBalance (a v : Nat) | addBalance (a v : Nat) | subBalance (a v : Nat)
  | setNonce (a n : Nat) | setCode (a c : Nat) | setState (a k v : Nat) | suicide (a : Nat)
  | addRefund (g : Nat) | subRefund (g : Nat) | addLog (id : Nat)
  | accessAddr (a : Nat) | accessSlot (a k : Nat) | setTransient (a k v : Nat)

def applyMut (vr : Variant) (s : St) : Mut → St
  | .createAccount a => createAccount s a
  | .setBalance a v => setBalance s a v
  | .addBalance a v => addBalance s a v
  | .subBalance a v => subBalance s a v
  | .setNonce a n => setNonce s a n
  | .setCode a c => setCode s a c
  | .setState a k v => setState s a k v
  | .suicide a => suicide vr s a
  | .addRefund g => addRefund s g
  | .subRefund g => subRefund s g
  | .addLog id => addLog s id
  | .accessAddr a => addAccessAddr s a
  | .accessSlot a k => addAccessSlot s a k
  | .setTransient a k v => setTransient s a k v

/-- A program of a call frame: mutators and nested frames (snapshot … optional revert), as the
EVM uses `Snapshot`/`RevertToSnapshot` (well bracketed by the Go call stack). -/
inductive Prog where
  | mut (m : Mut)
  | frame (body : List Prog) (revert : Bool)

mutual
def run (vr : Variant) (s : St) : Prog → St
  | .mut m => applyMut vr s m
  | .frame body rv =>
    let s' := runList vr s body
    if rv then revertTo s.journal.length s' else s'
def runList (vr : Variant) (s : St) : List Prog → St
  | [] => s
  | p :: ps => runList vr (run vr s p) ps
end

/-- a block: transactions (each a list of frames / mutators), each followed by `finalise` -/
def runBlock (vr : Variant) (s : St) : List (List Prog) → St
  | [] => s
  | tx :: txs => runBlock vr (finalise (runList vr s tx)) txs

end QuaiVerif.State
