import QuaiVerif.Base.Util
/-
Model of the origin side of cross-chain sends: the ETX and CONVERT opcodes (core/vm/instructions.go
opETX / opConvert) and plain calls to out-of-scope addresses (core/vm/evm.go CreateETX), as decision
functions in code order.  Core Lean only.  uint256 arithmetic is explicit (`% 2^256`) where the
code wraps (pre-fork) and checked where the code checks (post-fork).
-/
namespace QuaiVerif.Etx

def U256 : Nat := 2 ^ 256
def maxU64 : Nat := 2 ^ 64 - 1
def maxU16 : Nat := 65535

structure Cfg where
  pt : Nat                       -- BlockContext.PrimeTerminusNumber
  selfDestructFork : Nat         -- params.SelfDestructRefundForkBlock
  controllerKickIn : Nat
  kawpowFork : Nat
  shaFork : Nat
  holdInterval : Nat
  txGas : Nat := 21000
  etxGas : Nat := 21000
  minConv : Nat

structure Out where
  status : Option Nat            -- word pushed on the stack (none = nothing pushed)
  debit : Nat                    -- amount subtracted from the sender's balance
  etx : Option (Nat × Nat × Nat) -- (value, index, gas) of the ETX appended to the cache
  deriving DecidableEq, Repr

def fail : Out := { status := some 0, debit := 0, etx := none }

structure EtxIn where
  toInScope : Bool               -- destination is in the node's own zone
  value : Nat
  gasLimit : Nat
  tip : Nat
  feeCap : Nat
  balance : Nat
  cacheLen : Nat
  accessListOk : Bool            -- the access-list blob RLP-decodes
  accessListSize : Nat
  eligible : Bool                -- CheckIfEtxEligible(destination slice)

def etxTotal (c : Cfg) (i : EtxIn) : Nat :=
  let post := c.pt ≥ c.selfDestructFork
  let feeSum := i.tip + i.feeCap
  let feeMul := (if post then feeSum else feeSum % U256) * i.gasLimit
  let total := i.value + (if post then feeMul else feeMul % U256)
  if post then total else total % U256

/-- the failure exits of `opETX`, in code order (every one pushes 0, none has debited) -/
def etxFails (c : Cfg) (i : EtxIn) : Bool :=
  let post := decide (c.pt ≥ c.selfDestructFork)
  i.toInScope ||
  (post && decide (i.gasLimit > maxU64)) ||
  (post && decide (i.gasLimit < c.txGas)) ||
  (post && decide (i.tip + i.feeCap ≥ U256)) ||
  (post && decide ((i.tip + i.feeCap) * i.gasLimit ≥ U256)) ||
  (post && decide (i.value + (i.tip + i.feeCap) * i.gasLimit ≥ U256)) ||
  decide (etxTotal c i = 0) || decide (i.balance < etxTotal c i) ||
  (!post && decide (i.gasLimit > maxU64)) ||
  (!post && decide (i.gasLimit % (2 ^ 64) < c.txGas)) ||
  (!i.accessListOk && decide (i.accessListSize ≠ 0)) ||
  decide (i.cacheLen > maxU16) ||
  !i.eligible

/-- `opETX` (current tree: the debit is the last step before the append, so all failure exits
have the same outcome). -/
def opETX (c : Cfg) (i : EtxIn) : Out :=
  if etxFails c i then fail
  else { status := some 1, debit := etxTotal c i, etx := some (i.value, i.cacheLen, i.gasLimit % (2 ^ 64)) }

structure ConvIn where
  toInScope : Bool
  toQi : Bool
  value : Nat
  gasLimit : Nat
  gasPrice : Nat
  balance : Nat
  cacheLen : Nat

def inHold (c : Cfg) : Bool :=
  (c.pt ≥ c.kawpowFork && c.pt < c.kawpowFork + c.holdInterval) ||
  (c.pt ≥ c.shaFork && c.pt < c.shaFork + c.holdInterval)

def convTotal (c : Cfg) (i : ConvIn) : Nat :=
  let post := c.pt ≥ c.selfDestructFork
  let fee := i.gasPrice * i.gasLimit
  let total := i.value + (if post then fee else fee % U256)
  if post then total else total % U256

def convFails (c : Cfg) (i : ConvIn) : Bool :=
  let post := decide (c.pt ≥ c.selfDestructFork)
  !i.toInScope || !i.toQi || decide (i.value < c.minConv) || decide (c.pt < c.controllerKickIn) || inHold c ||
  (post && decide (i.gasLimit > maxU64)) ||
  (post && decide (i.gasLimit < c.txGas)) ||
  (post && decide (i.gasPrice ≥ U256)) ||
  (post && decide (i.gasPrice * i.gasLimit ≥ U256)) ||
  (post && decide (i.value + i.gasPrice * i.gasLimit ≥ U256)) ||
  decide (convTotal c i = 0) || decide (i.balance < convTotal c i) ||
  (!post && decide (i.gasLimit % (2 ^ 64) < c.txGas)) ||
  decide (i.cacheLen > maxU16)

/-- `opConvert`. -/
def opConvert (c : Cfg) (i : ConvIn) : Out :=
  if convFails c i then fail
  else { status := some 1, debit := convTotal c i, etx := some (i.value, i.cacheLen, i.gasLimit % (2 ^ 64)) }

structure CallIn where
  toInScope : Bool               -- destination in own zone
  toQi : Bool
  value : Nat
  gas : Nat
  balance : Nat
  cacheLen : Nat
  eligible : Bool

/-- `CreateETX` reached from `Call` on a destination that is not an internal Quai address; an error
makes `Call` revert its snapshot, so an error outcome has no debit. `status 1` = call succeeded. -/
def callFails (c : Cfg) (i : CallIn) : Bool :=
  let conversion := i.toQi && i.toInScope
  (!i.toQi && i.toInScope) ||
  (conversion && decide (c.pt < c.controllerKickIn)) ||
  (conversion && inHold c) ||
  (i.toQi && !i.toInScope) ||
  (conversion && decide (i.value < c.minConv)) ||
  decide (i.gas < c.etxGas) ||
  decide (i.gas - c.etxGas < c.txGas) ||
  decide (i.balance < i.value) ||
  decide (i.cacheLen > maxU16) ||
  (!conversion && !i.eligible)

def createETX (c : Cfg) (i : CallIn) : Out :=
  if callFails c i then fail
  else { status := some 1, debit := i.value, etx := some (i.value, i.cacheLen, i.gas - c.etxGas) }

/-! ### EVM-level frames: the ETX cache is truncated when a frame reverts -/

inductive Act where
  | emit (v : Nat)                         -- a successful send inside the current frame
  | frame (body : List Act) (revert : Bool)

mutual
def runAct (cache : List Nat) : Act → List Nat
  | .emit v => cache ++ [v]
  | .frame body rv => if rv then cache else runActs cache body
def runActs (cache : List Nat) : List Act → List Nat
  | [] => cache
  | a :: as => runActs (runAct cache a) as
end

-- the sends of non-reverted frames, in execution order
mutual
def committed : Act → List Nat
  | .emit v => [v]
  | .frame body rv => if rv then [] else committedL body
def committedL : List Act → List Nat
  | [] => []
  | a :: as => committed a ++ committedL as
end

end QuaiVerif.Etx
