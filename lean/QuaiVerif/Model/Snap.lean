import QuaiVerif.Base.Util
/-
Model of the flat-state snapshot layers (core/state/snapshot: difflayer.go `flatten`, `AccountRLP`, `Storage`;
snapshot.go `Update`, `Cap`, `diffToDisk`).  A block's changes are a diff layer on top of its parent's layers; reads go
down the stack; capping merges the lowest layers into one (`flatten`) or into the disk layer.  What a node with
snapshots reads must be what a node reading the tries reads: the content obtained by applying the blocks' changes in
order.  Maps are functions; value 0 stands for "no account" / "empty slot".  Core Lean only.
-/
namespace QuaiVerif.Snap

/-- the content of the flat state: account data and storage slots -/
structure Flat where
  acct : Nat → Nat := fun _ => 0
  stor : Nat → Nat → Nat := fun _ _ => 0

/-- one diff layer: accounts destructed in the block, account data written (0 = deleted), slots written (0 = deleted) -/
structure Layer where
  destruct : Nat → Bool := fun _ => false
  acct : Nat → Option Nat := fun _ => none
  stor : Nat → Nat → Option Nat := fun _ _ => none

/-- `diffLayer.AccountRLP` down the stack (newest layer first), then the disk layer -/
def readAcct (disk : Flat) : List Layer → Nat → Nat
  | [], a => disk.acct a
  | l :: ls, a => (l.acct a).getD (if l.destruct a then 0 else readAcct disk ls a)

/-- `diffLayer.Storage` down the stack -/
def readStor (disk : Flat) : List Layer → Nat → Nat → Nat
  | [], a, k => disk.stor a k
  | l :: ls, a, k => (l.stor a k).getD (if l.destruct a then 0 else readStor disk ls a k)

/-- `diffLayer.flatten`: merge the child `c` into its parent `p` (the storage and data of an account the child
destructed are dropped from the parent first, then the child's writes go on top) -/
def flatten (p c : Layer) : Layer where
  destruct a := p.destruct a || c.destruct a
  acct a := (c.acct a).or (if c.destruct a then none else p.acct a)
  stor a k := (c.stor a k).or (if c.destruct a then none else p.stor a k)

/-- `diffToDisk`: the lowest diff layer written into the disk layer -/
def toDisk (disk : Flat) (l : Layer) : Flat where
  acct a := (l.acct a).getD (if l.destruct a then 0 else disk.acct a)
  stor a k := (l.stor a k).getD (if l.destruct a then 0 else disk.stor a k)

/-- what the block does to the content (the specification: the state a trie-reading node has after the block) -/
def applyBlock (f : Flat) (l : Layer) : Flat := toDisk f l

/-- the content after a chain of blocks, oldest first -/
def contentOf (disk : Flat) (blocks : List Layer) : Flat := blocks.foldl applyBlock disk

/-- flatten a whole stack (newest first) into one layer; `none` for the empty stack -/
def flattenAll : List Layer → Option Layer
  | [] => none
  | [l] => some l
  | c :: p :: ls => match flattenAll (p :: ls) with
    | some q => some (flatten q c)
    | none => some c

end QuaiVerif.Snap
