import QuaiVerif.Base.Util
/-
Protobuf wire format (what proto.Marshal / proto.Unmarshal of the go-quai message types produce and
accept) and schema-directed decoding into a canonical dump.  Core Lean only.
-/
namespace QuaiVerif.Proto

def encodeVarint (n : Nat) : Bytes :=
  if h : n < 128 then [n] else (n % 128 + 128) :: encodeVarint (n / 128)
termination_by n
decreasing_by omega

def decodeVarint : Bytes → Option (Nat × Bytes)
  | [] => none
  | b :: rest =>
    if b < 128 then some (b, rest)
    else match decodeVarint rest with
      | some (m, r) => some ((b - 128) + 128 * m, r)
      | none => none

inductive WVal where
  | varint (n : Nat)          -- wire type 0
  | i64 (b : Bytes)           -- wire type 1 (8 bytes)
  | len (b : Bytes)           -- wire type 2
  | i32 (b : Bytes)           -- wire type 5 (4 bytes)
  deriving DecidableEq, Repr

structure WField where
  num : Nat
  val : WVal
  deriving DecidableEq, Repr

def wireType : WVal → Nat
  | .varint _ => 0 | .i64 _ => 1 | .len _ => 2 | .i32 _ => 5

def WField.wf (f : WField) : Prop :=
  match f.val with
  | .i64 b => b.length = 8
  | .i32 b => b.length = 4
  | _ => True

def serializeField (f : WField) : Bytes :=
  encodeVarint (f.num * 8 + wireType f.val) ++
  match f.val with
  | .varint n => encodeVarint n
  | .i64 b => b
  | .len b => encodeVarint b.length ++ b
  | .i32 b => b

def serialize (fs : List WField) : Bytes := (fs.map serializeField).flatten

def parseOne (b : Bytes) : Option (WField × Bytes) :=
  match decodeVarint b with
  | none => none
  | some (tag, r) =>
    let num := tag / 8
    match tag % 8 with
    | 0 => match decodeVarint r with
      | some (n, r') => some ({ num := num, val := .varint n }, r')
      | none => none
    | 1 => if r.length < 8 then none else some ({ num := num, val := .i64 (r.take 8) }, r.drop 8)
    | 2 => match decodeVarint r with
      | some (l, r') => if r'.length < l then none else some ({ num := num, val := .len (r'.take l) }, r'.drop l)
      | none => none
    | 5 => if r.length < 4 then none else some ({ num := num, val := .i32 (r.take 4) }, r.drop 4)
    | _ => none

def parseFuel : Nat → Bytes → Option (List WField)
  | _, [] => some []
  | 0, _ :: _ => none
  | fuel + 1, b => match parseOne b with
    | none => none
    | some (f, r) => match parseFuel fuel r with
      | some fs => some (f :: fs)
      | none => none

/-- `proto.Unmarshal` at the wire level -/
def parse (b : Bytes) : Option (List WField) := parseFuel (b.length + 1) b

/-! ### schema-directed canonical dump (driver side) -/

inductive FType where
  | u64 | u32 | bytes | str | bool_ | msg (name : String)
  deriving Repr

structure FieldSpec where
  num : Nat
  repeated : Bool
  ty : FType
  deriving Repr

abbrev Schema := List (String × List FieldSpec)

def lookupMsg (σ : Schema) (name : String) : Option (List FieldSpec) := σ.lookup name

def unpackVarints : Nat → Bytes → List String → Option (List String)
  | _, [], acc => some acc.reverse
  | 0, _ :: _, _ => none
  | k + 1, v, acc => match decodeVarint v with
    | some (n, r) => unpackVarints k r (toString n :: acc)
    | none => none

/-- dump a message's bytes following the schema: fields in wire order as `num=value`; nested
messages in braces; unknown fields are an error (the generated messages have no unknown fields). -/
def dumpFuel (σ : Schema) : Nat → String → Bytes → Option String
  | 0, _, _ => none
  | fuel + 1, name, b => do
    let spec ← lookupMsg σ name
    let fs ← parse b
    let parts ← fs.mapM fun f => do
      let fsps ← spec.find? (·.num == f.num)
      match fsps.ty, f.val with
      | .u64, .varint n | .u32, .varint n => pure s!"{f.num}={n}"
      | .bool_, .varint n => pure s!"{f.num}={n}"
      | .bytes, .len v | .str, .len v => pure s!"{f.num}={hex v}"
      | .msg m, .len v => do
        let inner ← dumpFuel σ fuel m v
        pure (toString f.num ++ "={" ++ inner ++ "}")
      | .u64, .len v | .u32, .len v =>
        -- packed repeated scalars
        if fsps.repeated then
          do let xs ← unpackVarints (v.length + 1) v []
             pure (toString f.num ++ "=[" ++ String.intercalate "," xs ++ "]")
        else none
      | _, _ => none
    pure (String.intercalate " " parts)

def dump (σ : Schema) (name : String) (b : Bytes) : Option String := dumpFuel σ 12 name b

end QuaiVerif.Proto
