import QuaiVerif.Base.Util
/-
Model of seal acceptance (core/headerchain_validation.go verifySeal, consensus/consensus.go
CalcWorkShareThreshold, core/poem.go CheckWorkThreshold): a header is sealed iff its proof-of-work hash, read as a
256-bit number, is at most floor(2^256 / difficulty); a work share iff it is at most that target times 2^bits.
-/
namespace QuaiVerif.Seal

inductive Verdict where
  | ok | invalidDifficulty | invalidPoW
  deriving Repr, DecidableEq

def target (difficulty : Int) : Int := (2 : Int) ^ 256 / difficulty

def verifySeal (powHash : Nat) (difficulty : Int) : Verdict :=
  if difficulty ≤ 0 then .invalidDifficulty
  else if (powHash : Int) > target difficulty then .invalidPoW
  else .ok

/-- CheckWorkThreshold: `bits` below the block target. -/
def isWorkShare (powHash : Nat) (difficulty : Int) (bits : Nat) : Bool :=
  decide ((powHash : Int) ≤ target difficulty * (2 : Int) ^ bits)

def Verdict.str : Verdict → String
  | .ok => "ok" | .invalidDifficulty => "invalid-difficulty" | .invalidPoW => "invalid-pow"

end QuaiVerif.Seal
