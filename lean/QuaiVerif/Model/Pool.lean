import QuaiVerif.Base.Util
/-
Model of one account's slice of the transaction pool (core/tx_pool.go add / enqueueTx / promoteExecutables /
demoteUnexecutables / reset, core/tx_list.go txList.Add / Forward / Filter / Ready).  Accounts are independent in
the pool (per-account lists), so the pool is a map of these.  `pending` is the executable list, `queue` the future
one; both hold at most one transaction per nonce.
-/
namespace QuaiVerif.Pool

structure Tx where
  id    : String
  nonce : Nat
  price : Nat
  cost  : Nat     -- value + gas * price
  deriving Repr, DecidableEq

structure Acct where
  stateNonce : Nat := 0
  balance    : Nat := 0
  pending    : List Tx := []    -- ordered by nonce
  queue      : List Tx := []    -- unordered here; presented in nonce order
  deriving Repr

inductive AddResult where
  | ok | replaced | known | nonceTooLow | insufficientFunds | replaceUnderpriced
  deriving Repr, DecidableEq

def hasNonce (l : List Tx) (n : Nat) : Bool := l.any (·.nonce == n)
def getNonce (l : List Tx) (n : Nat) : Option Tx := l.find? (·.nonce == n)

/-- txList.Add's rule for a same-nonce replacement: strictly better fee and at least `bump` percent better. -/
def replaceOK (bump : Nat) (old new : Tx) : Bool := old.price < new.price && old.price * (100 + bump) / 100 ≤ new.price

def replaceIn (l : List Tx) (t : Tx) : List Tx := l.map fun x => if x.nonce = t.nonce then t else x

/-- Next nonce the pending list is waiting for. -/
def nextNonce (a : Acct) : Nat := a.stateNonce + a.pending.length

/-- Ready: move queue entries with consecutive nonces starting at `n` to the end of `p`. -/
def takeReady : Nat → List Tx → List Tx → Nat → List Tx × List Tx
  | 0, p, q, _ => (p, q)
  | fuel + 1, p, q, n =>
    match getNonce q n with
    | some t => takeReady fuel (p ++ [t]) (q.filter (·.nonce != n)) (n + 1)
    | none => (p, q)

/-- promoteExecutables for the account: drop stale and unaffordable queue entries, promote the ready run. -/
def promote (a : Acct) : Acct :=
  let q := (a.queue.filter (fun t => a.stateNonce ≤ t.nonce)).filter (fun t => t.cost ≤ a.balance)
  let r := takeReady q.length a.pending q (nextNonce a)
  { a with pending := r.1, queue := r.2 }

/-- TxPool.add without the promotion run: validation against the current state, replacement in the pending list
or in the queue under txList.Add's rule, otherwise a new queue entry. -/
def addNoPromote (bump : Nat) (a : Acct) (t : Tx) : Acct × AddResult :=
  if (a.pending ++ a.queue).any (·.id == t.id) then (a, .known)
  else if t.nonce < a.stateNonce then (a, .nonceTooLow)
  else if a.balance < t.cost then (a, .insufficientFunds)
  else match getNonce a.pending t.nonce with
    | some old =>
      if replaceOK bump old t then ({ a with pending := replaceIn a.pending t }, .replaced)
      else (a, .replaceUnderpriced)
    | none =>
      match getNonce a.queue t.nonce with
      | some old =>
        if replaceOK bump old t then ({ a with queue := replaceIn a.queue t }, .replaced)
        else (a, .replaceUnderpriced)
      | none => ({ a with queue := t :: a.queue }, .ok)

/-- A submission: add, then the promotion run it schedules for the account. -/
def add (bump : Nat) (a : Acct) (t : Tx) : Acct × AddResult :=
  let r := addNoPromote bump a t
  match r.2 with
  | .ok | .replaced => (promote r.1, r.2)
  | _ => r

/-- Strict filter of the pending list (txList.Filter with strict = true): unaffordable entries are dropped, every
entry above the lowest dropped nonce is handed back (to the queue). -/
def filterStrict (bal : Nat) : List Tx → List Tx × List Tx
  | [] => ([], [])
  | t :: rest => if t.cost ≤ bal then let r := filterStrict bal rest; (t :: r.1, r.2)
                 else ([], rest.filter (fun x => x.cost ≤ bal))

/-- The run of consecutive nonces starting at `n` at the head of a nonce-ordered list, and the rest. -/
def takeContig : Nat → List Tx → List Tx × List Tx
  | _, [] => ([], [])
  | n, t :: rest => if t.nonce = n then let r := takeContig (n + 1) rest; (t :: r.1, r.2) else ([], t :: rest)

def insertSorted (t : Tx) : List Tx → List Tx
  | [] => [t]
  | x :: rest => if t.nonce ≤ x.nonce then t :: x :: rest else x :: insertSorted t rest

def sortByNonce (l : List Tx) : List Tx := l.foldr insertSorted []

/-- A head change (pool.reset + the reorg run): new state nonce and balance; the transactions of abandoned blocks are
re-submitted (validated against the new state); promotion counting from the new state nonce (the noncer is fresh);
then demotion: stale and unaffordable pending entries go, entries above a dropped one and everything above the
first nonce gap counted from the state nonce are handed back to the queue. -/
def reset (bump : Nat) (a : Acct) (newNonce newBalance : Nat) (reinject : List Tx) : Acct :=
  let a0 : Acct := { a with stateNonce := newNonce, balance := newBalance }
  let a1 := reinject.foldl (fun acc t => (addNoPromote bump acc t).1) a0
  let q := (a1.queue.filter (fun t => newNonce ≤ t.nonce)).filter (fun t => t.cost ≤ newBalance)
  let r := takeReady q.length [] q newNonce
  let p2 := sortByNonce (a1.pending ++ r.1)
  let p3 := p2.filter (fun t => newNonce ≤ t.nonce)
  let f := filterStrict newBalance p3
  let c := takeContig newNonce f.1
  { a1 with pending := c.1, queue := r.2 ++ f.2 ++ c.2 }

/-- pending is nonce-contiguous starting at `n` -/
def Contig : Nat → List Tx → Prop
  | _, [] => True
  | n, t :: rest => t.nonce = n ∧ Contig (n + 1) rest

end QuaiVerif.Pool
