import QuaiVerif.Base.Util
/-
Model of the destination queue of inbound cross-chain transactions kept in the ETX trie
(core/state/statedb.go PushETX / PushETXs / PopETX / ReadETX; oldest / newest counters) and of the
acceptance rule of core/state_processor.go Process (pop-and-compare, min/max inclusion).  Core Lean only.
-/
namespace QuaiVerif.EtxQueue

structure Q (α : Type) where
  cells : Nat → Option α := fun _ => none      -- index ↦ stored ETX
  oldest : Nat := 0
  newest : Nat := 0

variable {α : Type}

def upd (f : Nat → Option α) (i : Nat) (v : Option α) : Nat → Option α := fun x => if x = i then v else f x

/-- `PushETX` -/
def push (q : Q α) (e : α) : Q α := { q with cells := upd q.cells q.newest (some e), newest := q.newest + 1 }

/-- `PushETXs`: same cells, the counter is written once at the end -/
def pushAll (q : Q α) (es : List α) : Q α := es.foldl push q

/-- `PopETX`: `none` on an empty queue (state unchanged) -/
def pop (q : Q α) : Option α × Q α :=
  match q.cells q.oldest with
  | none => (none, q)
  | some e => (some e, { q with cells := upd q.cells q.oldest none, oldest := q.oldest + 1 })

def read (q : Q α) (i : Nat) : Option α := q.cells i

/-- the queue content, oldest first -/
def toList (q : Q α) : List (Option α) := (List.range (q.newest - q.oldest)).map fun j => q.cells (q.oldest + j)

/-- acceptance of a block's inbound ETX list against the queue (`eq` = hash equality): every ETX
of the block must be the next popped item; afterwards the min/max inclusion rule is applied to the
count (early blocks) or the gas (later blocks) -/
structure Rule where
  early : Bool
  minCount : Nat
  maxCount : Nat
  minGas : Nat
  maxGas : Nat

def popAll [DecidableEq α] (q : Q α) : List α → Option (Q α)
  | [] => some q
  | e :: es => match pop q with
    | (some e', q') => if e' = e then popAll q' es else none
    | (none, _) => none

def accept [DecidableEq α] (r : Rule) (q : Q α) (blockEtxs : List α) (totalGas : Nat) : Option (Q α) :=
  match popAll q blockEtxs with
  | none => none
  | some q' =>
    let avail := (q'.cells q'.oldest).isSome
    let count := blockEtxs.length
    if r.early && ((avail && decide (count < r.minCount)) || decide (count > r.maxCount)) then none
    else if !r.early && ((avail && decide (totalGas < r.minGas)) || decide (totalGas > r.maxGas)) then none
    else some q'

end QuaiVerif.EtxQueue
