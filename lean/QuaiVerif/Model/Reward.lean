/-
Model of the split of a block's reward between the block itself and the work shares referencing its height
(core/state_processor.go Process, mirrored in core/worker.go; rule in force before the KawPow fork): the reward of the
target block - base reward plus its fee components - is divided in proportion to the log-entropy of each seal; a
share that would get nothing gets one unit.
-/
namespace QuaiVerif.Reward

/-- reward of the share with entropy `e` when the block reward is `r` and the entropies add up to `total` -/
def shareOf (r total e : Nat) : Nat :=
  let v := r * e / total
  if v = 0 then 1 else v

/-- one reward per share, in the order of the shares -/
def split (r : Nat) (es : List Nat) : List Nat := es.map (shareOf r es.sum)

end QuaiVerif.Reward

namespace QuaiVerif.Reward

/-- the delay that counts: at most the liveness time, at least the no-penalty threshold -/
def clampDelay (lt noPen since : Nat) : Nat :=
  let s1 := if since > lt then lt else since
  if s1 < noPen then noPen else s1

/-- Time discount of a work share's reward (core/headerchain.go CalculateTimeDiscountedShareReward, the rule after the
inclusion-depth fork): full reward up to `noPen` seconds between the signature time and the share's own timestamp,
then linearly down to `pen/div` of it at the liveness time of the share's algorithm (`liveSha` for the SHA chains,
`live` otherwise).  Times are 32-bit, the subtraction wraps. -/
def timeDiscount (liveSha live noPen pen div : Nat) (sha : Bool) (reward sigTime ts : Nat) : Nat :=
  let since := (ts + 2 ^ 32 - sigTime % 2 ^ 32) % 2 ^ 32
  let lt := if sha then liveSha else live
  let s2 := clampDelay lt noPen since
  reward * (pen * (lt - noPen) + (div - pen) * (lt - s2)) / (div * (lt - noPen))

end QuaiVerif.Reward
