/-
Model of the split of a block's reward between the block itself and the work shares referencing its height
(core/state_processor.go Process, mirrored in core/worker.go; rule in force before the KawPow fork): the reward of the
target block - base reward plus its fee components - is divided in proportion to the log-entropy of each seal; a
share that would get nothing gets one unit.
-/
namespace QuaiVerif.Reward

/-- reward of the share with entropy `e` when the block reward is `r` and the entropies add up to `total` -/
def shareOf (r total e : Nat) : Nat :=
  let v := r * e / total
  if v = 0 then 1 else v

/-- one reward per share, in the order of the shares -/
def split (r : Nat) (es : List Nat) : List Nat := es.map (shareOf r es.sum)

end QuaiVerif.Reward
