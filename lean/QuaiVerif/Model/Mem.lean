import QuaiVerif.Base.Util
/-
Model of interpreter memory metering (core/vm/interpreter.go Run: memorySize → dynamicGas → mem.Resize;
core/vm/gas_table.go memoryGasCost; core/vm/common.go toWordSize).  Core Lean only.
-/
namespace QuaiVerif.Mem

/-- total fee for a memory of `w` words: `w·MemoryGas + w²/QuadCoeffDiv` -/
def memCost (w : Nat) : Nat := w * 3 + w * w / 512

def toWords (size : Nat) : Nat := (size + 31) / 32

structure St where
  words : Nat          -- current memory length in 32-byte words
  gas : Nat            -- gas left in the frame
  paid : Nat           -- mem.lastGasCost
  deriving Repr

/-- one instruction that requests `size` bytes of memory; `charged` = its dynamic gas function reaches
`memoryGasCost`; `other` = all other gas it costs.  `none` = out of gas (frame aborts). -/
def step (s : St) (size : Nat) (charged : Bool) (other : Nat) : Option St :=
  if s.gas < other then none else
  let gas := s.gas - other
  let w := toWords size
  if size = 0 || w ≤ s.words then some { s with gas := gas }
  else if charged then
    let fee := memCost w - s.paid
    if gas < fee then none else some { words := w, gas := gas - fee, paid := memCost w }
  else some { s with words := w, gas := gas }       -- resized without any charge

def run (s : St) : List (Nat × Bool × Nat) → Option St
  | [] => some s
  | (size, ch, other) :: rest => match step s size ch other with
    | none => none
    | some s' => run s' rest

end QuaiVerif.Mem
