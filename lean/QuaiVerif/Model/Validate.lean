import QuaiVerif.Base.Util
/-
Model of block assembly vs. block validation (core/worker.go vs. core/state_processor.go Apply +
core/block_validator.go ValidateBody / ValidateState + core/bodydb.go Append).

`exec` stands for re-execution of a body on the parent state: it yields the post state and the *results* (gas and
state used, receipt root, EVM / UTXO / ETX-set roots, outbound ETX root, state size, fee totals) or fails (a
transaction of the body is itself invalid).  The worker runs `exec` and declares its results in the header; the
validator runs `exec` again and compares.  `S`, `B`, `R` are abstract: the theorems hold for whatever execution
function the code implements, as long as both sides run the same one - which is exactly what the correspondence
check establishes on real blocks (own blocks are accepted, mutants are rejected).
-/
namespace QuaiVerif.Validate

structure Block (B R : Type) where
  body     : B
  declared : R

variable {S B R : Type} [DecidableEq R]

/-- The worker: execute, declare what came out. -/
def assemble (exec : S → B → Option (S × R)) (s : S) (body : B) : Option (Block B R) :=
  (exec s body).map fun p => { body := body, declared := p.2 }

/-- The validator: re-execute, compare every declared result. -/
def validate (exec : S → B → Option (S × R)) (s : S) (b : Block B R) : Bool :=
  match exec s b.body with
  | some (_, r) => decide (r = b.declared)
  | none => false

/-- Appending: the block's write batch is committed only if validation passes. -/
def append (exec : S → B → Option (S × R)) (s : S) (b : Block B R) : S × Bool :=
  match exec s b.body with
  | some (s', r) => if r = b.declared then (s', true) else (s, false)
  | none => (s, false)

end QuaiVerif.Validate
