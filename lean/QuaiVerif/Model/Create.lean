/-
Model of a contract creation frame as far as value is concerned (core/vm/evm.go create): the endowment moves from
the creator to the new account, the constructor may send part of it off-chain through an ETX, and then the
constructor ends.  Only a constructor that returns acceptable code (or none) lets the frame stand; a REVERT, an
error, code starting with 0xEF or code above the size limit undo the whole frame.  One failure does not: when the gas
left cannot pay for storing the returned code (`ErrCodeStoreOutOfGas`) the creation reports failure but the frame is
kept as it is - the pre-Homestead rule of the code base this one descends from (`err != ErrCodeStoreOutOfGas` in
`EVM.create`).
-/
namespace QuaiVerif.Create

inductive Ending where
  | code | ef | oversize | revert | invalid | stop | storeoog
  deriving DecidableEq, Repr

def Ending.accepted : Ending → Bool
  | .code | .stop => true
  | _ => false

structure St where
  creator : Nat            -- balance of the creating account
  created : Nat            -- balance of the created account
  live    : Bool           -- the created account exists
  etxs    : List Nat       -- values of the outbound ETXs recorded so far
  deriving DecidableEq, Repr

/-- state at the end of the constructor, before the verdict on its result -/
def inner (s : St) (endow ev : Nat) (emit : Bool) : St :=
  { creator := s.creator - endow, created := s.created + endow - (if emit then ev else 0), live := true,
    etxs := if emit then s.etxs ++ [ev] else s.etxs }

/-- one creation: `(state after, success)` -/
def create (s : St) (endow ev : Nat) (emit : Bool) (e : Ending) : St × Bool :=
  if s.creator < endow then (s, false)
  else if e.accepted then (inner s endow ev emit, true)
  else if e = .storeoog then (inner s endow ev emit, false)      -- failure reported, nothing undone
  else (s, false)

def total (s : St) : Nat := s.creator + s.created + s.etxs.sum

end QuaiVerif.Create
