/-
Model of the route a cross-chain transaction (ETX) takes in a hierarchy with one zone under one region under
prime (core/slice.go Append / CollectNewlyConfirmedEtxs, core/headerchain.go CollectSubRollup, core/types
FilterToSub), as far as *which* ETXs the zone receives with *which* block and in what order.

A zone block has an order: 2 (zone only), 1 (also a region block) or 0 (also a region and a prime block).  The
manifest of a region-level block lists the zone blocks from the previous region-level block (inclusive) to its own
parent, so the ETXs a block emits are rolled up by the *next* region-level block.  ETXs are of two classes:
  * `std`  - confirmed by the region: delivered with the next block of order 1, together with the standard ETXs of
             the roll-ups made by order-0 blocks since the previous order-1 block (newest roll-up first);
  * `prm`  - coinbases and conversions, confirmed by prime: the roll-ups of the region-level blocks from the previous
             prime block (inclusive) to before this one are delivered with the next block of order 0, conversions
             with the larger slippage bound first (a stable sort on the bound).
-/
namespace QuaiVerif.Route

structure Etx where
  id   : String
  prm  : Bool      -- coinbase or conversion: must be confirmed by prime
  slip : Nat       -- sort key used by prime (0 for everything but conversions)
  deriving DecidableEq, Repr

structure St where
  zoneSince  : List Etx          -- emitted by the zone blocks since (and including) the last region-level block
  stdWait    : List Etx          -- standard ETXs rolled up by order-0 blocks since the last order-1 block (newest roll-up first)
  primeWait  : List Etx          -- prime-class ETXs rolled up by region-level blocks before the last one (since the last prime block)
  primeLast  : List Etx          -- prime-class ETXs of the roll-up made by the last region-level block
  delivered  : List Etx          -- everything the zone has received so far, in order
  deriving Repr

def init : St := ⟨[], [], [], [], []⟩

/-- insertion into a list sorted by decreasing slip, after all elements that are not smaller (stable) -/
def insertBySlip (e : Etx) : List Etx → List Etx
  | [] => [e]
  | x :: rest => if x.slip < e.slip then e :: x :: rest else x :: insertBySlip e rest

/-- stable sort by decreasing slip (what `sort.SliceStable` with "slip i > slip j" yields) -/
def sortBySlip (l : List Etx) : List Etx := l.foldl (fun acc e => insertBySlip e acc) []

/-- One zone block of the given order that emits `emits`: `(state after, what the zone receives with it)`.
`sorted`: prime sorts (and reprices) only once the exchange-rate controller has kicked in. -/
def step (s : St) (order : Nat) (sorted : Bool) (emits : List Etx) : St × List Etx :=
  match order with
  | 0 =>
    let rollup := s.zoneSince
    let inbound := if sorted then sortBySlip (s.primeWait ++ s.primeLast) else s.primeWait ++ s.primeLast
    ({ zoneSince := emits, stdWait := rollup.filter (fun e => !e.prm) ++ s.stdWait, primeWait := [],
       primeLast := rollup.filter (·.prm), delivered := s.delivered ++ inbound }, inbound)
  | 1 =>
    let rollup := s.zoneSince
    let inbound := rollup.filter (fun e => !e.prm) ++ s.stdWait
    ({ zoneSince := emits, stdWait := [], primeWait := s.primeWait ++ s.primeLast,
       primeLast := rollup.filter (·.prm), delivered := s.delivered ++ inbound }, inbound)
  | _ => ({ s with zoneSince := s.zoneSince ++ emits }, [])

/-- everything that is still on its way -/
def pending (s : St) : List Etx := s.zoneSince ++ s.stdWait ++ s.primeWait ++ s.primeLast

structure Blk where
  order  : Nat
  sorted : Bool
  emits  : List Etx

def run (s : St) : List Blk → St
  | [] => s
  | b :: rest => run (step s b.order b.sorted b.emits).1 rest

end QuaiVerif.Route
