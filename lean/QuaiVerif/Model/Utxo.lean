import QuaiVerif.Model.Addr
/-
Model of Qi (UTXO) transaction processing: core/state_processor.go ProcessQiTx, check by check, over the
UTXO set as seen through the block's write batch (all batch types track pending writes, C17).
Signature validity, the intrinsic gas (a float formula) and the exchange rate enter as inputs.
Core Lean only.
-/
namespace QuaiVerif.Utxo

abbrev OutPoint := Nat × Nat                  -- (tx hash as a number, output index)

structure Entry where
  denom : Nat
  addr : Bytes                                -- as stored (TxOut.Address, any length)
  lock : Nat                                  -- 0 = unlocked
  deriving DecidableEq, Repr

abbrev Utxos := OutPoint → Option Entry

def updU (u : Utxos) (k : OutPoint) (v : Option Entry) : Utxos := fun x => if x = k then v else u x

structure TxIn where
  op : OutPoint
  pkAddr : Bytes                              -- address derived from the input's public key (20 bytes)
  deriving Repr

structure TxOut where
  denom : Nat
  addr : Bytes
  lock : Nat
  deriving Repr

structure QiTx where
  hash : Nat
  chainId : Nat
  ins : List TxIn
  outs : List TxOut
  data : Bytes
  intrinsicGas : Nat                          -- types.CalculateIntrinsicQiTxGas(tx, scalingFactor)
  sigOK : Bool                                -- the Schnorr / MuSig2 aggregate signature verifies for exactly the input keys

structure Env where
  location : List Nat
  chainId : Nat
  height : Nat                                -- block number in zone context
  gasLimit : Nat
  ptn : Nat                                   -- prime terminus number
  baseFee : Nat
  quaiR : Nat                                 -- rate: Quai reward / Qi reward for the block
  qiR : Nat
  eligible : List Nat                         -- prefix bytes of the zones eligible to receive ETXs
  denoms : List Nat
  txGas : Nat := 21000
  etxGas : Nat := 21000
  convGas : Nat := 100000
  maxDataLen : Nat := 22
  maxOutputIndex : Nat := 65535
  wrapChangeBlock : Nat
  kawpowFork : Nat
  shaFork : Nat
  holdInterval : Nat
  checkSig : Bool
  isFirstQiTx : Bool

inductive EtxKind where | transfer | conversion | wrapping
  deriving DecidableEq, Repr

structure Etx where
  value : Nat
  to : Bytes
  kind : EtxKind
  index : Nat
  gas : Nat
  deriving Repr

structure Block where                         -- per-block accumulators threaded through the transactions
  utxos : Utxos
  gasPool : Nat
  usedGas : Nat
  etxRLimit : Nat
  etxPLimit : Nat

structure Result where
  block : Block
  fee : Nat                                   -- in qits
  etxs : List Etx
  created : List (OutPoint × Entry)
  deleted : List (OutPoint × Entry)
  totalIn : Nat
  totalOut : Nat
  converted : Nat

def maxDenom (e : Env) : Nat := e.denoms.length - 1
def denomValue (e : Env) (d : Nat) : Nat := e.denoms.getD d 0

def addr20 (b : Bytes) : Bytes := Addr.setBytes b
def isQi (b : Bytes) : Bool := Addr.isQi (addr20 b)
def zoneOf (b : Bytes) : List Nat := Addr.zoneOf (addr20 b)

/-- counts per denomination -/
abbrev Counts := Nat → Nat
def inc (c : Counts) (d : Nat) : Counts := fun x => if x = d then c x + 1 else c x
def dec (c : Counts) (d : Nat) : Counts := fun x => if x = d then c x - 1 else c x

structure InAcc where
  utxos : Utxos
  total : Nat
  counts : Counts
  addrs : List Bytes                          -- `addresses` set: first 20 bytes of the spent entries' addresses
  deleted : List (OutPoint × Entry)

/-- the input loop -/
def inputs (e : Env) : InAcc → List TxIn → Except String InAcc
  | a, [] => .ok a
  | a, i :: rest =>
    match a.utxos i.op with
    | none => .error "nonexistent"
    | some u =>
      if u.addr.length < 20 then .error "panic"        -- common.AddressBytes(utxo.Address) on a short slice
      else if u.lock > e.height then .error "locked"
      else if !Addr.isQi i.pkAddr then .error "quaiowner"
      else if addr20 u.addr ≠ i.pkAddr then .error "pubkey"
      else if u.denom > maxDenom e then .error "denom"
      else inputs e { utxos := updU a.utxos i.op none, total := a.total + denomValue e u.denom, counts := inc a.counts u.denom, addrs := u.addr.take 20 :: a.addrs, deleted := a.deleted ++ [(i.op, u)] } rest

structure OutAcc where
  utxos : Utxos
  gasPool : Nat
  usedGas : Nat
  total : Nat
  convTotal : Nat
  counts : Counts
  addrs : List Bytes
  conversion : Bool
  wrapping : Bool
  convAddr : Bytes
  etxRGas : Nat
  etxPGas : Nat
  etxs : List Etx
  created : List (OutPoint × Entry)

def commonDomCtx (a b : List Nat) : Nat :=       -- context of Location.CommonDom: 0 prime, 1 region, 2 zone
  if a.getD 0 0 ≠ b.getD 0 0 then 0 else if a.getD 1 0 ≠ b.getD 1 0 then 1 else 2

/-- what an output turns into -/
inductive OutKind where
  | conv                        -- aggregated Qi -> Quai conversion
  | wrapSkip                    -- wrapped Qi, no local UTXO (from the wrapping fork on)
  | wrapLocal                   -- wrapped Qi, plus a local UTXO (before the fork)
  | etx (rg pg : Nat)           -- cross-zone output: an ETX; new cross-region / cross-prime gas totals
  | local_                      -- local UTXO
  deriving DecidableEq, Repr

/-- rejection reasons of the output loop -/
inductive OutErr where
  | outindex | denom | lock | dup | multiconv | wrapowner | quaiout | rlimit | plimit | ineligible | gaspool
  deriving DecidableEq, Repr

def OutErr.name : OutErr → String
  | .outindex => "outindex" | .denom => "denom" | .lock => "lock" | .dup => "dup" | .multiconv => "multiconv"
  | .wrapowner => "wrapowner" | .quaiout => "quaiout" | .rlimit => "rlimit" | .plimit => "plimit"
  | .ineligible => "ineligible" | .gaspool => "gaspool"

/-- the checks of one iteration of the output loop, in code order -/
def classifyOut (e : Env) (tx : QiTx) (rLimit pLimit : Nat) (a : OutAcc) (idx : Nat) (o : TxOut) : Except OutErr OutKind :=
  if idx > e.maxOutputIndex then .error .outindex
  else if o.denom > maxDenom e then .error .denom
  else if o.lock ≠ 0 then .error .lock
  else if a.addrs.contains (addr20 o.addr) then .error .dup
  else if zoneOf o.addr = e.location && !isQi o.addr && tx.data.length = e.maxDataLen then
    if a.conversion && addr20 o.addr ≠ a.convAddr then .error .multiconv else .ok .conv
  else if zoneOf o.addr = e.location && !isQi o.addr && tx.data.length = 20 then
    if !(Addr.isInChainScope tx.data e.location && Addr.isQuai (addr20 tx.data)) then .error .wrapowner
    else if e.ptn ≥ e.wrapChangeBlock then .ok .wrapSkip else .ok .wrapLocal
  else if !isQi o.addr then .error .quaiout
  else if zoneOf o.addr ≠ e.location then
    let rg := if commonDomCtx (zoneOf o.addr) e.location = 1 then a.etxRGas + e.txGas else a.etxRGas
    let pg := if commonDomCtx (zoneOf o.addr) e.location = 0 then a.etxPGas + e.txGas else a.etxPGas
    if rg > rLimit then .error .rlimit
    else if pg > pLimit then .error .plimit
    else if !e.eligible.contains ((zoneOf o.addr).getD 0 0 * 16 + (zoneOf o.addr).getD 1 0) then .error .ineligible
    else if a.gasPool < e.etxGas then .error .gaspool
    else .ok (.etx rg pg)
  else .ok .local_

/-- the effect of one output on the accumulators -/
def applyOut (e : Env) (tx : QiTx) (a : OutAcc) (idx : Nat) (o : TxOut) : OutKind → OutAcc
  | .conv => { a with total := a.total + denomValue e o.denom, conversion := true, convAddr := addr20 o.addr, convTotal := a.convTotal + denomValue e o.denom, counts := dec (inc a.counts o.denom) o.denom, addrs := (addr20 o.addr :: a.addrs).erase (addr20 o.addr) }
  | .wrapSkip => { a with total := a.total + denomValue e o.denom, wrapping := true, convAddr := addr20 o.addr, convTotal := a.convTotal + denomValue e o.denom, counts := dec (inc a.counts o.denom) o.denom, addrs := (addr20 o.addr :: a.addrs).erase (addr20 o.addr) }
  | .wrapLocal => { a with total := a.total + denomValue e o.denom, wrapping := true, convAddr := addr20 o.addr, convTotal := a.convTotal + denomValue e o.denom, counts := dec (inc a.counts o.denom) o.denom, addrs := (addr20 o.addr :: a.addrs).erase (addr20 o.addr), utxos := updU a.utxos (tx.hash, idx) (some { denom := o.denom, addr := o.addr, lock := o.lock }), created := a.created ++ [((tx.hash, idx), { denom := o.denom, addr := o.addr, lock := o.lock })] }
  | .etx rg pg => { a with total := a.total + denomValue e o.denom, counts := inc a.counts o.denom, addrs := addr20 o.addr :: a.addrs, etxRGas := rg, etxPGas := pg, usedGas := a.usedGas + e.etxGas, gasPool := a.gasPool - e.etxGas, etxs := a.etxs ++ [{ value := o.denom, to := addr20 o.addr, kind := .transfer, index := idx, gas := e.txGas }] }
  | .local_ => { a with total := a.total + denomValue e o.denom, counts := inc a.counts o.denom, addrs := addr20 o.addr :: a.addrs, utxos := updU a.utxos (tx.hash, idx) (some { denom := o.denom, addr := o.addr, lock := o.lock }), created := a.created ++ [((tx.hash, idx), { denom := o.denom, addr := o.addr, lock := o.lock })] }

/-- one iteration of the output loop (`idx` = output index) -/
def stepOut (e : Env) (tx : QiTx) (rLimit pLimit : Nat) (a : OutAcc) (idx : Nat) (o : TxOut) : Except String OutAcc :=
  match classifyOut e tx rLimit pLimit a idx o with
  | .error m => .error m.name
  | .ok k => .ok (applyOut e tx a idx o k)

/-- the output loop -/
def outputs (e : Env) (tx : QiTx) (rLimit pLimit : Nat) : OutAcc → Nat → List TxOut → Except String OutAcc
  | a, _, [] => .ok a
  | a, idx, o :: rest =>
    match stepOut e tx rLimit pLimit a idx o with
    | .error m => .error m
    | .ok a1 => outputs e tx rLimit pLimit a1 (idx + 1) rest

/-- `CheckDenominations`: excess inputs carry down to the next smaller denomination; an output count may
not exceed inputs plus carry (no merging of smaller denominations into a larger one). uint64 arithmetic. -/
def checkDenoms (e : Env) (ins outs : Counts) : Bool :=
  let rec go : Nat → Nat → Bool          -- i (counting down from maxDenom to 1), carry into i
    | 0, _ => true
    | i + 1, carry =>
      let total := (ins (i + 1) + carry) % 2 ^ 64
      if outs (i + 1) ≤ total then
        let ratio := denomValue e (i + 1) / denomValue e i
        go i (((total - outs (i + 1)) * ratio) % 2 ^ 64)
      else false
  go (maxDenom e) 0

def qiToQuai (e : Env) (qi : Nat) : Nat := e.quaiR * qi / e.qiR

def inHold (e : Env) : Bool :=
  (decide (e.ptn ≥ e.kawpowFork) && decide (e.ptn < e.kawpowFork + e.holdInterval)) ||
  (decide (e.ptn ≥ e.shaFork) && decide (e.ptn < e.shaFork + e.holdInterval))

/-- sanity checks and intrinsic gas (the part of `ProcessQiTx` before the input loop); returns the gas used so far -/
def precheck (e : Env) (b : Block) (tx : QiTx) : Except String Nat :=
  -- wire decoding (Transaction.ProtoDecode / TxOut.ProtoDecode): at least one input; an output address is exactly 20 bytes
  if tx.ins.isEmpty || tx.outs.any (fun o => o.addr.length ≠ 20) then .error "decode"
  else if tx.chainId ≠ e.chainId then .error "chainid"
  else if tx.data.length ≠ 0 && (tx.data.length ≠ e.maxDataLen && tx.data.length ≠ 20) then .error "data"
  else if tx.data.length = 20 && isQi tx.data then .error "wrapdata"
  else if tx.data.length = e.maxDataLen && !isQi ((tx.data.drop 2).take 20) then .error "convdata"
  else if b.gasPool < tx.intrinsicGas then .error "gaspool"
  else if b.usedGas + tx.intrinsicGas > e.gasLimit then .error "gaslimit"
  else .ok (b.usedGas + tx.intrinsicGas)

/-- the conversion / wrapping ETX appended after the output loop -/
def withConvEtx (e : Env) (b : Block) (oa : OutAcc) (feeQuai requiredGas : Nat) : Except String OutAcc :=
  if !(oa.conversion || oa.wrapping) then .ok oa
  else if oa.conversion && oa.wrapping then .error "both"
  else
    let requiredGas := requiredGas + e.convGas
    let minFee := requiredGas * e.baseFee
    if feeQuai < minFee then .error "fee"
    else if oa.etxPGas + e.convGas > b.etxPLimit then .error "plimit"
    else if oa.gasPool < e.etxGas then .error "gaspool"
    else .ok { oa with etxPGas := oa.etxPGas + e.convGas, usedGas := oa.usedGas + e.etxGas, gasPool := oa.gasPool - e.etxGas, etxs := oa.etxs ++ [{ value := oa.convTotal, to := oa.convAddr, kind := if oa.wrapping then .wrapping else .conversion, index := 0, gas := ((feeQuai - minFee) / e.baseFee) % 2 ^ 64 }] }

/-- the part of `ProcessQiTx` after the output loop -/
def finish (e : Env) (b : Block) (tx : QiTx) (ia : InAcc) (oa : OutAcc) : Except String Result :=
  if oa.total > ia.total then .error "overspend"
  else
    let fee := ia.total - oa.total
    let requiredGas := tx.intrinsicGas + oa.etxs.length * (e.txGas + e.etxGas)
    let feeQuai := qiToQuai e fee
    if feeQuai < requiredGas * e.baseFee then .error "fee"
    else if oa.conversion && inHold e then .error "hold"
    else match withConvEtx e b oa feeQuai requiredGas with
      | .error m => .error m
      | .ok oa' =>
        if !e.isFirstQiTx && !checkDenoms e ia.counts oa'.counts then .error "merge"
        else if e.checkSig && !tx.sigOK then .error "sig"
        else .ok { block := { utxos := oa'.utxos, gasPool := oa'.gasPool, usedGas := oa'.usedGas, etxRLimit := b.etxRLimit - oa'.etxRGas, etxPLimit := b.etxPLimit - oa'.etxPGas }, fee := fee, etxs := oa'.etxs, created := oa'.created, deleted := ia.deleted, totalIn := ia.total, totalOut := oa'.total, converted := oa'.convTotal }

/-- `ProcessQiTx` -/
def processQiTx (e : Env) (b : Block) (tx : QiTx) : Except String Result :=
  match precheck e b tx with
  | .error m => .error m
  | .ok used =>
    match inputs e { utxos := b.utxos, total := 0, counts := fun _ => 0, addrs := [], deleted := [] } tx.ins with
    | .error m => .error m
    | .ok ia =>
      match outputs e tx b.etxRLimit b.etxPLimit { utxos := ia.utxos, gasPool := b.gasPool - tx.intrinsicGas, usedGas := used, total := 0, convTotal := 0, counts := fun _ => 0, addrs := ia.addrs, conversion := false, wrapping := false, convAddr := [], etxRGas := 0, etxPGas := 0, etxs := [], created := [] } 0 tx.outs with
      | .error m => .error m
      | .ok oa => finish e b tx ia oa

end QuaiVerif.Utxo
