import QuaiVerif.Base.Util
/-
Model of contract-held coinbase lockups (core/vm/contracts.go AddNewLock / ClaimCoinbaseLockup,
core/rawdb ReadCoinbaseLockup / WriteCoinbaseLockup / DeleteCoinbaseLockup through the block batch,
core/vm/evm.go snapshot / revertToSnapshot of the lockup side lists).  Core Lean only.
`Variant.undoUsesOldDelegate` / `revertRestoresBatch` are the bug switches of findings S7 / S3.
-/
namespace QuaiVerif.Lockup

structure Variant where
  undoUsesOldDelegate : Bool := true     -- S7: the undo record of AddNewLock carries the *old* delegate
  revertRestoresBatch : Bool := true     -- S3: reverting a frame puts claimed records back into the batch

/-- (owner contract, beneficiary miner, lockup byte, epoch) -/
abbrev Key := Nat × Nat × Nat × Nat

structure Rec where
  balance : Nat
  unlock : Nat          -- tranche unlock height (0 = "no record" for the code)
  elements : Nat
  delegate : Nat
  deriving DecidableEq, Repr

/-- the lockup ledger as seen through the block batch -/
abbrev Ledger := Key → Option Rec

def upd (l : Ledger) (k : Key) (v : Option Rec) : Ledger := fun x => if x = k then v else l x

/-- `ReadCoinbaseLockup`: an absent or deleted record reads as the zero record -/
def readRec (l : Ledger) (k : Key) : Rec := (l k).getD { balance := 0, unlock := 0, elements := 0, delegate := 0 }

structure AddResult where
  ledger : Ledger
  deleted : Bool               -- an old record was replaced
  undo : Option Rec            -- the undo record written for a reorg (old record as serialised)
  stored : Rec                 -- the record now stored

/-- `AddNewLock` (callers have checked owner / miner / sender). -/
def addNewLock (vr : Variant) (epochBlocks : Nat) (l : Ledger) (k : Key) (delegate unlockHeight value : Nat) : Except String AddResult :=
  if value = 0 then .error "value" else
  let old := readRec l k
  if old.unlock ≠ 0 && decide (unlockHeight < old.unlock) then .error "unlock-height" else
  if k.2.2.2 = 0 && old.unlock ≠ 0 then .error "epoch0" else
  if old.unlock = 0 then
    let r : Rec := { balance := value, unlock := unlockHeight - unlockHeight % epochBlocks, elements := 1, delegate := delegate }
    .ok { ledger := upd l k (some r), deleted := false, undo := none, stored := r }
  else
    let r : Rec := { balance := old.balance + value, unlock := old.unlock, elements := old.elements + 1, delegate := delegate }
    .ok { ledger := upd l k (some r), deleted := true,
          undo := some { old with delegate := if vr.undoUsesOldDelegate then old.delegate else delegate }, stored := r }

structure ClaimIn where
  caller : Nat                -- msg.sender of the call into the lockup contract
  miner : Nat
  lockupByte : Nat
  epoch : Nat
  blockNumber : Nat
  gas : Nat
  etxGasLimit : Nat
  sameLedger : Bool           -- beneficiary and `to` are in the same ledger
  cacheLen : Nat

/-- `ClaimCoinbaseLockup`: returns the new ledger, the remaining gas and the value of the ETX emitted -/
def claim (epochBlocks : Nat) (l : Ledger) (i : ClaimIn) : Except String (Ledger × Nat × Nat) :=
  if i.gas < i.etxGasLimit then .error "gas" else
  let latestEpoch := i.blockNumber / epochBlocks + 1
  if i.epoch ≥ latestEpoch then .error "epoch" else
  if !i.sameLedger then .error "ledger" else
  let k : Key := (i.caller, i.miner, i.lockupByte, i.epoch)
  let r := readRec l k
  if r.unlock = 0 then .error "none" else
  if r.unlock > i.blockNumber then .error "locked" else
  if r.elements = 0 then .error "none" else
  if i.cacheLen > 65535 then .error "overflow" else
  .ok (upd l k none, i.gas - i.etxGasLimit, r.balance)

end QuaiVerif.Lockup
