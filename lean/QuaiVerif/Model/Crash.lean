import QuaiVerif.Base.Util
/-
Model of the database write schedule while a zone node appends blocks or switches branches, and of what a
restart finds (core/headerchain.go SetCurrentHeader / loadLastState, core/bodydb.go Append, core/state_processor.go
Apply).  The ledger key spaces ('ut', 'cl') are flat and unversioned: at any time they hold the post-state of
exactly one block (`ledger`).  A restart trusts the stored head pointer (`head`).  State tries are content
addressed and only ever added (`tries`).  A write step is one put / delete, or one committed batch (atomic).
-/
namespace QuaiVerif.Crash

inductive Step where
  | other                                   -- block body, header, termini, pending header, ...: not chain state
  | canonical (n : Nat)                     -- number -> hash entry of block n
  | trie (n : Nat)                          -- state / ETX trie nodes of block n's post-state
  | ledger (n : Nat) (withHead : Bool)      -- the batch carrying block n's ledger state (apply or rollback to n), optionally with the head pointer
  | head (n : Nat)                          -- a separate write of the head pointer
  deriving Repr, DecidableEq

structure Db where
  ledger : Nat
  head   : Nat
  tries  : List Nat
  deriving Repr

def applyStep (d : Db) : Step → Db
  | .other => d
  | .canonical _ => d
  | .trie n => { d with tries := n :: d.tries }
  | .ledger n wh => { d with ledger := n, head := if wh then n else d.head }
  | .head n => { d with head := n }

def applySteps (d : Db) (l : List Step) : Db := l.foldl applyStep d

/-- What a restarted node needs: the ledger belongs to the recorded head and the head's state is present. -/
def Consistent (d : Db) : Prop := d.ledger = d.head ∧ d.head ∈ d.tries

/-- Appending block `n` on head `p`: canonical entry, trie nodes, then the block's batch, then (again) the head. -/
def appendSched (headInBatch : Bool) (n : Nat) : List Step :=
  [.other, .canonical n, .other, .trie n, .ledger n headInBatch, .head n]

/-- Rolling back the head block to its parent `p` (its state is already present): one batch. -/
def rollbackSched (headInBatch : Bool) (p : Nat) : List Step :=
  if headInBatch then [.ledger p true] else [.ledger p false, .head p]

/-- A reorganisation: roll back to each of `down` in turn (ending at the common ancestor), then append each of `up`. -/
def reorgSched (rbHead apHead : Bool) (down up : List Nat) : List Step :=
  (down.map (rollbackSched rbHead)).flatten ++ (up.map (appendSched apHead)).flatten

/-- A schedule is safe from state `d` if every ledger batch carries the head pointer and targets a block whose
state is present, and every separate head write points at the block the ledger already belongs to. -/
def SchedOK : Db → List Step → Prop
  | _, [] => True
  | d, s :: rest =>
    (match s with
     | .ledger n wh => wh = true ∧ n ∈ d.tries
     | .head n => d.ledger = n ∧ n ∈ d.tries
     | _ => True) ∧ SchedOK (applyStep d s) rest

/-- Continuing after a restart: the node can apply block `n` (parent `p`) only onto a ledger that is its parent's. -/
def canResumeAppend (d : Db) (p n : Nat) : Bool := d.head == n && d.ledger == n || d.head == p && d.ledger == p

end QuaiVerif.Crash
