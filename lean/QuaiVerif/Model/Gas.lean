import QuaiVerif.Base.Util
/-
Model of buying and refunding gas around a transaction (core/state_transition.go: buyGas, refundGas, TransitionDb for a
plain transfer).  Amounts are unbounded naturals: the point of the property is that no product or sum may be taken in a
machine width that wraps.  Core Lean only.
-/
namespace QuaiVerif.Gas

structure Tx where
  gasLimit : Nat
  gasPrice : Nat
  value : Nat
  balance : Nat        -- of the payer, before the transaction

/-- `buyGas`: the payer must cover gas limit × price + value; the gas is paid up front -/
def accepted (t : Tx) : Bool := decide (t.gasLimit * t.gasPrice + t.value ≤ t.balance)

/-- the payer's balance once the transaction is over: `used ≤ gasLimit` gas consumed, the rest refunded at the same
price; `moved`: the value transfer took place (the execution did not fail) -/
def payerAfter (t : Tx) (used : Nat) (moved : Bool) : Nat :=
  if accepted t then t.balance - t.gasLimit * t.gasPrice + (t.gasLimit - used) * t.gasPrice - (if moved then t.value else 0)
  else t.balance

def recipientGain (t : Tx) (moved : Bool) : Nat := if accepted t && moved then t.value else 0

end QuaiVerif.Gas
