import QuaiVerif.Base.Util
/-
Model of the UTXO-set commitment bookkeeping of a zone chain
(core/headerchain_validation.go Finalize / TrimBlock, core/state_processor.go Process, crypto/multiset).

The database side is a *set* of entries (unspent Qi outputs and versions of coinbase-lockup records): a put of
an existing key is idempotent (so the list never holds a key twice), a delete of an absent key is a no-op.  The commitment side is MuHash, an abelian
*group* accumulator: `Add` and `Remove` are exact inverses, nothing checks that a removed element was ever added.
So the commitment is modelled as an integer multiplicity per entry, and the stored set size as an integer counter
that every create increments and every delete decrements - which is what Finalize / TrimBlock do.
-/
namespace QuaiVerif.Ledger

abbrev Id := String

inductive Op where
  | create (x : Id)   -- output or lockup version written by the block
  | spend  (x : Id)   -- consumed by a transaction of the block / replaced lockup version
  | trim   (x : Id)   -- removed by the block's trimming of old small-denomination outputs
  deriving Repr, DecidableEq

structure Ledger where
  db   : List Id := []          -- entries in the database
  mult : Id → Int := fun _ => 0  -- multiplicity of each entry in the header commitment
  size : Int := 0               -- the stored UTXO set size

def bump (m : Id → Int) (x : Id) (d : Int) : Id → Int := fun y => if y = x then m y + d else m y

def applyOp (l : Ledger) : Op → Ledger
  | .create x => { db := if x ∈ l.db then l.db else x :: l.db, mult := bump l.mult x 1, size := l.size + 1 }
  | .spend x  => { db := l.db.erase x, mult := bump l.mult x (-1), size := l.size - 1 }
  | .trim x   => { db := l.db.erase x, mult := bump l.mult x (-1), size := l.size - 1 }

def applyOps (l : Ledger) (ops : List Op) : Ledger := ops.foldl applyOp l

/-- An op is well formed on a ledger if it creates a fresh entry or removes a present one. -/
def opWF (l : Ledger) : Op → Bool
  | .create x => !(l.db.contains x)
  | .spend x  => l.db.contains x
  | .trim x   => l.db.contains x

/-- All ops of a sequence are well formed at the moment they are applied. -/
def opsWF : Ledger → List Op → Bool
  | _, [] => true
  | l, o :: os => opWF l o && opsWF (applyOp l o) os

/-- Commitment = content: every entry has multiplicity 1 if it is in the database and 0 otherwise. -/
def Consistent (l : Ledger) : Prop := ∀ x, l.mult x = if x ∈ l.db then 1 else 0

/-- Executable version over the entries the driver has seen. -/
def consistentOn (l : Ledger) (seen : List Id) : Bool :=
  seen.all fun x => l.mult x == (if l.db.contains x then 1 else 0)

end QuaiVerif.Ledger
