import QuaiVerif.Base.Util
/-
Model of the flat, unversioned ledger key spaces of a zone chain ('ut' outputs and 'cl' coinbase-lockup records),
of what a block does to them together with the undo records it writes (core/state_processor.go Process,
core/headerchain_validation.go Finalize / TrimBlock, core/vm/contracts.go AddNewLock / claim), and of the rollback
that HeaderChain.SetCurrentHeader replays from those records when the canonical head moves to another branch.
-/
namespace QuaiVerif.Reorg

abbrev K := String
abbrev V := String
abbrev M := K → Option V

def put (m : M) (k : K) (v : V) : M := fun x => if x = k then some v else m x
def del (m : M) (k : K) : M := fun x => if x = k then none else m x

/-- What one block does, in block order. -/
inductive Act where
  | createU (k : K) (v : V)      -- a new Qi output (transaction output, coinbase, conversion, ...)
  | spendU (k : K)               -- an input of a Qi transaction of the block
  | trimU (k : K)                -- the trimming pass: reads the database as it was before the block
  | lockNew (k : K) (v : V)      -- AddNewLock on a key that holds no record
  | lockReplace (k : K) (v : V)  -- AddNewLock accumulating onto an existing record
  | lockDelete (k : K)           -- a claim through the lockup contract
  deriving Repr, DecidableEq

structure St where
  ut : M
  cl : M

/-- The undo records of one block (core/rawdb Write{SpentUTXOs,TrimmedUTXOs,CreatedUTXOKeys,
DeletedCoinbaseLockups,CreatedCoinbaseLockupKeys}). -/
structure Undo where
  spent    : List (K × V) := []
  trimmed  : List (K × V) := []
  created  : List K := []
  delLocks : List (K × V) := []
  newLocks : List K := []

/-- One action on the state as of now `s`, given the state at the start of the block `s0` (the trimming pass does
not see the block's own pending writes). Actions whose guard fails are no-ops: validity is a separate predicate. -/
def applyAct (s0 : St) (p : St × Undo) : Act → St × Undo
  | .createU k v => ({ p.1 with ut := put p.1.ut k v }, { p.2 with created := p.2.created ++ [k] })
  | .spendU k => match p.1.ut k with
    | some v => ({ p.1 with ut := del p.1.ut k }, { p.2 with spent := p.2.spent ++ [(k, v)] })
    | none => p
  | .trimU k => match s0.ut k with
    | some v => ({ p.1 with ut := del p.1.ut k }, { p.2 with trimmed := p.2.trimmed ++ [(k, v)] })
    | none => p
  | .lockNew k v => ({ p.1 with cl := put p.1.cl k v }, { p.2 with newLocks := p.2.newLocks ++ [k] })
  | .lockReplace k v => match p.1.cl k with
    | some old => ({ p.1 with cl := put p.1.cl k v }, { p.2 with delLocks := p.2.delLocks ++ [(k, old)] })
    | none => p
  | .lockDelete k => match p.1.cl k with
    | some old => ({ p.1 with cl := del p.1.cl k }, { p.2 with delLocks := p.2.delLocks ++ [(k, old)] })
    | none => p

def runFrom (s0 : St) (p : St × Undo) (acts : List Act) : St × Undo := acts.foldl (applyAct s0) p

/-- Processing one block on state `s0`. -/
def runBlock (s0 : St) (acts : List Act) : St × Undo := runFrom s0 (s0, {}) acts

def keys (l : List (K × V)) : List K := l.map Prod.fst

/-- What block processing guarantees about each action at the moment it is applied. -/
def actOK (s0 : St) (p : St × Undo) : Act → Prop
  | .createU k _ => s0.ut k = none ∧ p.1.ut k = none ∧ k ∉ keys p.2.spent ∧ k ∉ keys p.2.trimmed   -- outpoints are unique
  | .spendU k => p.1.ut k ≠ none
  | .trimU k => s0.ut k ≠ none ∧ k ∉ p.2.created
  | .lockNew k _ => p.1.cl k = none ∧ k ∉ keys p.2.delLocks   -- no record is re-created after a deletion in the same block
  | .lockReplace k _ => p.1.cl k ≠ none
  | .lockDelete k => p.1.cl k ≠ none

def actsOK (s0 : St) : St × Undo → List Act → Prop
  | _, [] => True
  | p, a :: as => actOK s0 p a ∧ actsOK s0 (applyAct s0 p a) as

/-- The rollback of one block in HeaderChain.SetCurrentHeader: re-create spent and trimmed outputs, delete created
keys, restore deleted lockup records in reverse order, delete created lockup keys - one write batch. -/
def rollback (s : St) (u : Undo) : St :=
  { ut := u.created.foldl del ((u.spent ++ u.trimmed).foldl (fun m kv => put m kv.1 kv.2) s.ut),
    cl := u.newLocks.foldl del (u.delLocks.reverse.foldl (fun m kv => put m kv.1 kv.2) s.cl) }

/-- A chain segment: process blocks in order, collecting the undo records. -/
def runBlocks (s0 : St) : List (List Act) → St × List Undo
  | [] => (s0, [])
  | b :: bs =>
    let r := runBlock s0 b
    let rest := runBlocks r.1 bs
    (rest.1, r.2 :: rest.2)

def blocksOK (s0 : St) : List (List Act) → Prop
  | [] => True
  | b :: bs => actsOK s0 (s0, {}) b ∧ blocksOK (runBlock s0 b).1 bs

/-- Roll back a segment: newest block first. -/
def rollbackAll (s : St) (undos : List Undo) : St := undos.reverse.foldl rollback s

/-- Switching branches: roll back the abandoned segment, then process the new one. -/
def reorg (s : St) (undosA : List Undo) (blocksB : List (List Act)) : St × List Undo :=
  runBlocks (rollbackAll s undosA) blocksB

end QuaiVerif.Reorg
