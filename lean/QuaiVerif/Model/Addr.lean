import QuaiVerif.Base.Util
/-
Model of go-quai addresses (common/address.go, common/types.go, crypto/crypto.go, core/vm/evm.go
GrindContract, core/state/statedb.go createObject guard).  Core Lean only.
-/
namespace QuaiVerif.Addr

abbrev Location := List Nat          -- [] prime, [r] region, [r, z] zone

def addressLength : Nat := 20
def hashLength : Nat := 32

/-- `Location.Context()`: 2 = zone iff the location has a zone component. -/
def context (l : Location) : Nat := if l.length ≥ 2 then 2 else if l.length ≥ 1 then 1 else 0

/-- `Location.BytePrefix()` = `loc[0]<<4 + loc[1]` (byte arithmetic). -/
def bytePrefix (l : Location) : Nat := (l.getD 0 0 * 16 + l.getD 1 0) % 256

/-- left-crop / left-pad to `n` bytes (`setBytes`, `Hash.SetBytes`). -/
def fit (n : Nat) (b : Bytes) : Bytes :=
  if b.length > n then b.drop (b.length - n) else List.replicate (n - b.length) 0 ++ b

def setBytes (b : Bytes) : Bytes := fit addressLength b

/-- `ZeroAddress(loc).Hash()`: prefix byte then 19 zeros, as a 32-byte hash. -/
def zeroAddrHash (l : Location) : Bytes := fit hashLength (bytePrefix l :: List.replicate 19 0)

/-- `common.IsInChainScope(b, nodeLocation)` exactly as written. -/
def isInChainScope (b : Bytes) (l : Location) : Bool :=
  if context l ≠ 2 then false
  else if fit hashLength b = zeroAddrHash l then true
  else match b with
    | [] => false
    | x :: _ => x == bytePrefix l

inductive Kind where | internal | external
  deriving DecidableEq, Repr

structure Address where
  kind : Kind
  bytes : Bytes          -- always 20 bytes
  deriving DecidableEq, Repr

/-- `common.BytesToAddress(b, loc)`: scope is tested on the *uncropped* input. -/
def bytesToAddress (b : Bytes) (l : Location) : Address :=
  { kind := if isInChainScope b l then .internal else .external, bytes := setBytes b }

/-- zone of a 20-byte address (`InternalAddress.Location()`): nibbles of byte 0. -/
def zoneOf (a : Bytes) : Location := [a.getD 0 0 / 16, a.getD 0 0 % 16]

def isQi (a : Bytes) : Bool := a.getD 1 0 > 127
def isQuai (a : Bytes) : Bool := a.getD 1 0 ≤ 127

/-- the classification every constructor should agree with, for a 20-byte address -/
def classify (a : Bytes) (l : Location) : Kind := if isInChainScope a l then .internal else .external

/-- decoders that take no location (RLP, JSON, text) use `Location{0,0}` -/
def decodeNoLoc (b : Bytes) : Address := bytesToAddress b [0, 0]

/-- `Address.InternalAndQuaiAddress()` -/
def internalAndQuai (a : Address) : Bool := isQuai a.bytes && a.kind == .internal
/-- `Address.InternalAndQiAddress()` -/
def internalAndQi (a : Address) : Bool := isQi a.bytes && a.kind == .internal

/-- `common.CheckIfBytesAreInternalAndQiAddress` -/
def checkBytesInternalAndQi (b : Bytes) (l : Location) : Bool :=
  b.length == addressLength && isInChainScope b l && !isQuai b

/-- `StateDB.createObject` guard: the account set only grows by in-scope Quai addresses. -/
def createObjectGuard (a : Bytes) (l : Location) : Bool := isInChainScope a l && isQuai a

def createObject (accts : List Bytes) (a : Bytes) (l : Location) : List Bytes :=
  if createObjectGuard a l then (if a ∈ accts then accts else a :: accts) else accts

/-- `GrindContract`: candidates are the CREATE2-style hashes for salt `i = 0,1,…` (supplied by
the caller, since the hash is opaque); each attempt costs `gasCost`. -/
def grind (l : Location) (gasCost : Nat) : Nat → Nat → List Bytes → Option (Bytes × Nat)
  | 0, _, _ => none                                        -- attempts exhausted
  | _ + 1, _, [] => none
  | n + 1, gas, c :: cs =>
    if gas < gasCost then none
    else
      let a := bytesToAddress c l
      if internalAndQuai a then some (a.bytes, gas - gasCost)
      else grind l gasCost n (gas - gasCost) cs

/-- `EVM.Create`: first the nonce-derived address, else grind. -/
def createAddr (l : Location) (first : Bytes) (gasCost maxAttempts gas : Nat) (cands : List Bytes) :
    Option (Bytes × Nat) :=
  let a := bytesToAddress first l
  if internalAndQuai a then some (a.bytes, gas) else grind l gasCost maxAttempts gas cands

/-- `Transactions.FilterToSub`: which outbound ETXs a dominant chain hands down to one of its subordinates.  Prime
(`nodeCtx = 0`) hands a region every ETX addressed into that region; a region (`nodeCtx = 1`) hands a zone the ETXs
addressed to exactly that zone - all of them at a prime-order block, only the standard ones (neither coinbase nor
conversion) otherwise.  An ETX is (destination bytes, ETX type). -/
def keepForSub (slice : Location) (nodeCtx order : Nat) (e : Bytes × Nat) : Bool :=
  let dest := zoneOf e.1
  let standard := e.2 != 1 && e.2 != 2
  if nodeCtx = 0 then dest.getD 0 0 == slice.getD 0 0
  else if nodeCtx = 1 then dest == slice && (order == 0 || standard)
  else false

def filterToSub (slice : Location) (nodeCtx order : Nat) (l : List (Bytes × Nat)) : List (Bytes × Nat) :=
  l.filter (keepForSub slice nodeCtx order)

end QuaiVerif.Addr
