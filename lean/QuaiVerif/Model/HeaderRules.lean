import QuaiVerif.Base.Util
/-
Model of the header derivation rules a zone enforces (core/headerchain_validation.go verifyHeader / CalcDifficulty,
core/block_validator.go CalcGasLimit, consensus/misc/statefee.go CalcStateLimit, core/poem.go CalcOrder /
TotalLogEntropy / DeltaLogEntropy).  Integers are unbounded (the code uses big.Int; big.Int.Div is Euclidean
division, which is `/` on `Int` in Lean).  Entropy values are fixed-point numbers (2^64 per bit), opaque here.
-/
namespace QuaiVerif.HeaderRules

structure DiffParams where
  durationLimit : Int
  minDifficulty : Int
  maxTimeDiff   : Int := 100
  adjFactor     : Int := 40
  adjPeriod     : Int := 720

/-- Block-time differences are clamped so that the difficulty has no huge discontinuity. -/
def clamp (p : DiffParams) (dt : Int) : Int := if dt > p.maxTimeDiff then p.maxTimeDiff else dt

/-- The adjustment term: (DurationLimit - t) * parentDiff * floor(log2 parentDiff) / DurationLimit / factor / period. -/
def adjust (p : DiffParams) (parentDiff : Nat) (t : Int) : Int :=
  (p.durationLimit - t) * parentDiff * ((parentDiff.log2 : Nat) : Int) / p.durationLimit / p.adjFactor / p.adjPeriod

/-- CalcDifficulty for a parent that is neither genesis nor a child of genesis: `dt` is parent.time - grandparent.time. -/
def calcDifficulty (p : DiffParams) (parentDiff : Nat) (dt : Int) : Int :=
  if adjust p parentDiff (clamp p dt) + parentDiff < p.minDifficulty then p.minDifficulty
  else adjust p parentDiff (clamp p dt) + parentDiff

/-- CalcGasLimit / CalcStateLimit share one shape: nothing before TimeToStartTx, the minimum right after, a ramp for
two months, then the ceiling. -/
def calcLimit (timeToStartTx minLimit blocksPerMonth ceil parentNum parentLimit : Nat) : Nat :=
  if parentNum < timeToStartTx then 0
  else if parentLimit = 0 then minLimit
  else if parentNum < 2 * blocksPerMonth then
    (if parentNum * ceil / (2 * blocksPerMonth) < minLimit then minLimit else parentNum * ceil / (2 * blocksPerMonth))
  else ceil

/-- TotalLogEntropy of a block of the given order (0 prime, 1 region, 2 zone) from its header fields and `s`, the
intrinsic (plus workshare) entropy of its own seal. -/
def total (order : Nat) (peP peR peZ pdeR pdeZ s : Int) : Int :=
  match order with
  | 0 => peP + pdeR + pdeZ + s
  | 1 => peR + pdeZ + s
  | _ => peZ + s

/-- DeltaLogEntropy: entropy accumulated since the last block of a dominant chain. -/
def delta (order : Nat) (pdeR pdeZ s : Int) : Int :=
  match order with
  | 0 => 0
  | 1 => pdeR + pdeZ + s
  | _ => pdeZ + s

/-- CalcOrder: thresholds on the intrinsic entropy `s` of the seal and on the accumulated deltas. -/
def calcOrder (s zoneThr pdeR pdeZ primeTarget regionTarget primeBits regionBits : Int) : Nat :=
  if s > zoneThr + primeBits ∧ pdeR + pdeZ + s > primeTarget * zoneThr / 2 then 0
  else if s > zoneThr + regionBits ∧ pdeZ + s > zoneThr * regionTarget / 2 then 1
  else 2

/-- The running totals a chain carries from block to block; the header of the next block records them as
(parentEntropy[prime], parentEntropy[region], parentEntropy[zone], parentDeltaEntropy[region], parentDeltaEntropy[zone])
- the zone ones checked by the zone's verifyHeader, the region / prime ones by the dominant chains. -/
structure Acc where
  T  : Int   -- accumulated entropy of the tip
  tR : Int   -- accumulated entropy of the last block that was a region or prime block
  tP : Int   -- accumulated entropy of the last prime block
  dR : Int   -- delta accumulated on the region level since the last prime block
  dZ : Int   -- delta accumulated on the zone level since the last region or prime block

def Acc.genesis : Acc := ⟨0, 0, 0, 0, 0⟩

/-- Append a block of order `o` with own entropy `s` on top of `a`: its header records `a`, its total is computed by
the formula of its order, and the running totals move on. -/
def next (a : Acc) (o : Nat) (s : Int) : Acc :=
  let t := total o a.tP a.tR a.T a.dR a.dZ s
  match o with
  | 0 => ⟨t, t, t, 0, 0⟩
  | 1 => ⟨t, t, a.tP, delta 1 a.dR a.dZ s, 0⟩
  | _ => ⟨t, a.tR, a.tP, a.dR, delta 2 a.dR a.dZ s⟩

def runChain (a : Acc) : List (Nat × Int) → Acc
  | [] => a
  | (o, s) :: rest => runChain (next a o s) rest

/-- Minimum base fee of a block (core/headerchain.go CalcBaseFee): the protocol's minimum fee in qits converted to Quai
at the prime terminus' rate (`quaiR` / `qiR` are the two reward values of that conversion), per unit of transaction gas. -/
def baseFee (quaiR qiR minQits txGas : Nat) : Nat := quaiR * minQits / qiR / txGas

/-- Moving average of the conversion flow (ComputeConversionFlowAmount): window `w`, never below `minFlow`, never
more than twice the previous amount. -/
def flowAmount (prev cur w minFlow : Nat) : Nat :=
  let n := (prev * (w - 1) + cur) / w
  if n < minFlow then minFlow else if n > 2 * prev then 2 * prev else n

end QuaiVerif.HeaderRules
