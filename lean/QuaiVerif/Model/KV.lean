import QuaiVerif.Base.Util
/-
Model of the key-value database interface (ethdb.KeyValueStore + ethdb.Batch) as implemented by
ethdb/leveldb, ethdb/pebble, ethdb/memorydb and rawdb.table.  Core Lean only.

The store is an association list kept strictly ascending by key; a batch is the list of its
operations in issue order plus the pending view (`SetPending`/`GetPending`).  Whether a backend's
batch type tracks pending writes is a parameter (`tracks`), regenerated from the source by the
extractor (Gen/Backends.lean).
-/
namespace QuaiVerif.KV

abbrev Key := Bytes
abbrev Val := Bytes
abbrev Store := List (Key × Val)

def insert (k : Key) (v : Val) : Store → Store
  | [] => [(k, v)]
  | (k', v') :: t =>
    if k < k' then (k, v) :: (k', v') :: t
    else if k = k' then (k, v) :: t
    else (k', v') :: insert k v t

def erase (k : Key) (s : Store) : Store := s.filter (fun p => p.1 != k)

def get (s : Store) (k : Key) : Option Val := s.lookup k

def has (s : Store) (k : Key) : Bool := (get s k).isSome

/-- `NewIterator(prefix, start)`: live keys having `prefix` and `≥ prefix ++ start`, ascending. -/
def inRange (p st : Key) (k : Key) : Bool := p.isPrefixOf k && decide (p ++ st ≤ k)

def iter (s : Store) (p st : Key) : Store := s.filter (fun kv => inRange p st kv.1)

inductive BOp where
  | put (k : Key) (v : Val)
  | del (k : Key)
  deriving Repr, DecidableEq

def applyOp (s : Store) : BOp → Store
  | .put k v => insert k v s
  | .del k => erase k s

structure Batch where
  ops : List BOp := []                       -- issue order
  tracking : Bool := false                   -- SetPending(true) in force
  pend : List (Key × Option Val) := []       -- newest first; none = pending delete
  deriving Repr

def Batch.put (tracks : Bool) (b : Batch) (k : Key) (v : Val) : Batch :=
  { b with ops := b.ops ++ [.put k v],
           pend := if tracks && b.tracking then (k, some v) :: b.pend else b.pend }

def Batch.del (tracks : Bool) (b : Batch) (k : Key) : Batch :=
  { b with ops := b.ops ++ [.del k],
           pend := if tracks && b.tracking then (k, none) :: b.pend else b.pend }

def Batch.setPending (tracks : Bool) (b : Batch) (val : Bool) : Batch :=
  if tracks then { b with tracking := val, pend := [] } else b

/-- `GetPending(key)` = `(deleted, value)`; `(false, none)` = nothing pending for the key. -/
def Batch.getPending (b : Batch) (k : Key) : Bool × Option Val :=
  match b.pend.lookup k with
  | some none => (true, none)
  | some (some v) => (false, some v)
  | none => (false, none)

/-- `Write()`: all operations, in issue order; the pending view is dropped. -/
def Batch.write (s : Store) (b : Batch) : Store × Batch :=
  (b.ops.foldl applyOp s, { b with tracking := false, pend := [] })

def Batch.reset (_b : Batch) : Batch := {}

/-- `Replay(w)`: the operations handed to the writer, in order. -/
def Batch.replay (b : Batch) : List BOp := b.ops

end QuaiVerif.KV
