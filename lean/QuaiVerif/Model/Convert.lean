import QuaiVerif.Base.Util
/-
Model of Quai<->Qi conversion arithmetic: unit conversion at a rate (consensus/misc/rewards.go
QiToQuai / QuaiToQi), splitting an amount into Qi denominations (FindMinDenominations), and the per-ETX
repricing of conversions confirmed in a prime block (core/slice.go, Slice.Append prime branch).
`big.Float` cubic discount and reward functions enter as parameters.  Core Lean only.
-/
namespace QuaiVerif.Convert

/-- the rate in force: block reward in Quai and in Qi for the same work (both clamped to ≥ 1 by
`CalculateQuaiReward` / `CalculateQiReward`) -/
structure Rate where
  quaiR : Nat
  qiR : Nat

/-- `misc.QiToQuai` -/
def qiToQuai (r : Rate) (qi : Nat) : Nat := r.quaiR * qi / r.qiR
/-- `misc.QuaiToQi` -/
def quaiToQi (r : Rate) (quai : Nat) : Nat := r.qiR * quai / r.quaiR

/-- `misc.FindMinDenominations`: greedy from the largest denomination; returns (denomination index,
count) for the denominations used. `denoms` ascending as in `types.Denominations`. -/
def findMinDenomsAux : List (Nat × Nat) → Nat → List (Nat × Nat)
  | [], _ => []
  | (i, d) :: rest, amount =>
    let count := amount / d
    if count = 0 then findMinDenomsAux rest amount
    else
      let newAmount := amount - count * d
      if newAmount > 0 then (i, count) :: findMinDenomsAux rest newAmount
      else [(i, count)]

def findMinDenoms (denoms : List Nat) (v : Nat) : List (Nat × Nat) :=
  findMinDenomsAux ((denoms.zipIdx.map fun (d, i) => (i, d)).reverse) v

def denomTotal (denoms : List Nat) (l : List (Nat × Nat)) : Nat :=
  (l.map fun (i, c) => c * denoms.getD i 0).sum

/-! ### prime repricing of one conversion ETX (second pass of Slice.Append) -/

structure Reprice where
  original : Nat          -- value carried by the ETX as emitted (origin units)
  discounted : Nat        -- D: cubic-discounted total conversion amount (int part)
  actual : Nat            -- A: actual total conversion amount in Quai
  afterKQuai : Nat        -- K: D after the k-quai discount
  kQuaiApplies : Bool     -- direction of this ETX vs. direction of the rate adjustment

/-- value after the conversion-flow discount, the optional k-quai discount and the 10 % floor, still
in origin units -/
def repriced (p : Reprice) : Nat :=
  let v1 := p.original * p.discounted / p.actual
  let v2 := if p.kQuaiApplies && p.discounted != 0 then v1 * p.afterKQuai / p.discounted else v1
  let floor := p.original * 10 / 100
  if v2 < floor then floor else v2

/-- first pass: does the sender's slippage bound make this ETX revert? `slip` and `range` as
`params.SlipAmountRange`; the ETX is kept iff the repriced value reaches `original·(range−slip)/range` -/
def slipReverts (p : Reprice) (slip range : Nat) : Bool :=
  repriced p < p.original * (range - slip) / range

inductive Outcome where
  | conversion (credit : Nat)      -- credited on the other ledger (destination units)
  | revert (refund : Nat)          -- ConversionRevert: refunded on the origin ledger
  deriving DecidableEq, Repr

/-- the final ETX leaving prime: reverted ETXs carry their original value back, the others the
repriced value converted at the new rate (`toQi`: destination ledger is Qi) -/
def finalize (p : Reprice) (reverted : Bool) (newRate : Rate) (toQi : Bool) : Outcome :=
  if reverted then .revert p.original
  else .conversion (if toQi then quaiToQi newRate (repriced p) else qiToQuai newRate (repriced p))

/-- One inbound ETX as `ComputeConversionAmountInQuai` sees it. -/
inductive VolItem where
  | toQi (quai : Nat)      -- Quai -> Qi conversion: carries Quai
  | toQuai (qi : Nat)      -- Qi -> Quai conversion: carries Qi, valued at the block's rate (miner difficulty)
  | other                  -- not a conversion
  deriving Repr

/-- `misc.ComputeConversionAmountInQuai`: the conversion volume of a prime block, in Quai; the quantity the cubic
discount of the block is read from.  `r` is the rate at the block's *miner* difficulty. -/
def volumeOf (r : Rate) : VolItem → Nat
  | .toQi q => q
  | .toQuai u => qiToQuai r u
  | .other => 0

def volume (r : Rate) (l : List VolItem) : Nat := (l.map (volumeOf r)).sum

end QuaiVerif.Convert
