import QuaiVerif.Model.Validate
import QuaiVerif.Gen.Validator
import QuaiVerif.Gen.Mirror
/-
C07: own blocks validate; any deviation from re-execution is rejected; a rejected block leaves no trace.
The decision logic is proved for every execution function; the tie to the code is (T1) the regenerated table of
header fields the validating functions compare, which must cover every declared result, and (T2/T3) area c07:
every block the node's worker assembles must be accepted by the node, every single-component mutant of such a
block (re-sealed, with body roots recomputed so that only re-execution can tell) must be rejected with the chain
state unchanged, and neutral re-sealings must be accepted.
-/
namespace QuaiVerif.Validate

variable {S B R : Type} [DecidableEq R]

/-- Every block the worker assembles passes the node's own validation. -/
theorem C07_own_block_validates (exec : S → B → Option (S × R)) (s : S) (body : B) (b : Block B R)
    (h : assemble exec s body = some b) : validate exec s b = true := by
  unfold assemble at h
  cases he : exec s body with
  | none => simp [he] at h
  | some p =>
    simp [he] at h
    subst h
    simp [validate, he]

/-- ... and appending it succeeds and yields exactly the state the worker computed. -/
theorem C07_own_block_appends (exec : S → B → Option (S × R)) (s s' : S) (r : R) (body : B)
    (he : exec s body = some (s', r)) : append exec s { body := body, declared := r } = (s', true) := by
  simp [append, he]

/-- A block whose declared results differ in any component from what re-execution yields is rejected. -/
theorem C07_wrong_declared_rejected (exec : S → B → Option (S × R)) (s s' : S) (r : R) (b : Block B R)
    (he : exec s b.body = some (s', r)) (hd : b.declared ≠ r) : validate exec s b = false := by
  simp [validate, he, Ne.symm hd]

/-- A block whose body was altered (transaction changed, dropped, reordered, added) while the declared results were
kept is rejected unless the altered body happens to re-execute to exactly the declared results. -/
theorem C07_altered_body_rejected (exec : S → B → Option (S × R)) (s : S) (body' : B) (declared : R)
    (h : ∀ s', exec s body' ≠ some (s', declared)) : validate exec s { body := body', declared := declared } = false := by
  unfold validate
  cases he : exec s body' with
  | none => rfl
  | some p =>
    obtain ⟨s', r⟩ := p
    have : r ≠ declared := fun e => h s' (by rw [he, e])
    simp [this]

/-- Acceptance is *exactly* agreement with re-execution. -/
theorem C07_accept_iff (exec : S → B → Option (S × R)) (s : S) (b : Block B R) :
    validate exec s b = true ↔ ∃ s', exec s b.body = some (s', b.declared) := by
  unfold validate
  cases he : exec s b.body with
  | none => simp
  | some p =>
    obtain ⟨s', r⟩ := p
    constructor
    · intro h; exact ⟨s', by simpa using h⟩
    · rintro ⟨s'', h⟩; simp at h; simp [h.2]

/-- A rejected block leaves the chain state untouched. -/
theorem C07_rejected_leaves_no_trace (exec : S → B → Option (S × R)) (s : S) (b : Block B R)
    (h : validate exec s b = false) : append exec s b = (s, false) := by
  unfold validate at h; unfold append
  cases he : exec s b.body with
  | none => rfl
  | some p =>
    obtain ⟨s', r⟩ := p
    simp [he] at h
    simp [h]

/-- append and validate agree. -/
theorem C07_append_iff_validate (exec : S → B → Option (S × R)) (s : S) (b : Block B R) :
    (append exec s b).2 = validate exec s b := by
  unfold append validate
  cases exec s b.body with
  | none => rfl
  | some p => obtain ⟨s', r⟩ := p; by_cases h : r = b.declared <;> simp [h]

-- T1: the comparisons that make `validate` compare *every* declared result ---------------------------------

/-- The results a zone block declares in its header (core/types/block.go Header, filled by the worker in
commitTransactions / FinalizeAssemble / Finalize). -/
def declaredResults : List String :=
  ["GasUsed", "StateUsed", "ReceiptHash", "EVMRoot", "QuaiStateSize", "UTXORoot", "EtxSetRoot", "OutboundEtxHash",
   "UncledEntropy", "TxHash", "UncleHash", "AvgTxFees", "TotalFees"]

/-- Every declared result is compared with a recomputed value by ValidateBody, ValidateState or Process, in an
`if` that rejects the block (regenerated from the current source on every run). -/
theorem C07_every_declared_result_is_compared :
    declaredResults.all (fun f =>
      Gen.validateStateCompares.contains f || Gen.validateBodyCompares.contains f || Gen.processCompares.contains f) = true := by
  decide

/-- Non-vacuity: a concrete execution function with an accepted own block and a rejected mutant. -/
example : validate (fun (s : Nat) (b : List Nat) => if b.all (· ≤ s) then some (s - b.sum, b.length) else none) 10
    { body := [1, 2], declared := 2 } = true ∧
  validate (fun (s : Nat) (b : List Nat) => if b.all (· ≤ s) then some (s - b.sum, b.length) else none) 10
    { body := [1, 2], declared := 3 } = false := by decide

/-- **C07 (T1: the assembler locks what the validator locks).** For coinbase ETXs paid into a lockup contract the block
assembler (worker.go commitTransaction) and the validator (state_processor.go Process) call `vm.AddNewLock` - and credit
balances - with the same arguments, computed from the same expressions (names that differ only through the surrounding
code normalised by the extractor): a different amount, unlock height, epoch or delegate on one side would make the node
reject its own block. -/
theorem C07_assembler_and_validator_lock_the_same : Gen.mirrorWorker = Gen.mirrorProcessor := by decide

theorem C07_mirror_nonempty : Gen.mirrorWorker.length ≥ 2 := by decide

end QuaiVerif.Validate
