import QuaiVerif.Model.HeaderRules
import QuaiVerif.Gen.Validator
/-
C09: accepted headers extend their parent by the protocol's rules.  Proved on the model: accumulated entropy grows
by exactly the block's own entropy whichever order the block has (so it strictly increases along every chain once
the own entropy is positive, which a valid seal at difficulty >= 2 guarantees); difficulty retargeting never drops
below the floor, stays put at the target block time and is monotone in the observed block time; the limit ramp.
T1: the regenerated list of header fields compared in verifyHeader covers every derived field.  T2 (area c09): the
formulas are run against CalcDifficulty / CalcGasLimit / CalcStateLimit / TotalLogEntropy / DeltaLogEntropy /
CalcOrder on the headers of real chains; T3: single-field deviations of valid children are rejected, CalcOrder and
the entropy functions are stable across repeated and cold calls.
-/
namespace QuaiVerif.HeaderRules

/-- The three formulas agree on a chain whose recorded fields are the running totals. -/
def AccInv (a : Acc) : Prop := a.T = a.tR + a.dZ ∧ a.tR = a.tP + a.dR

theorem accInv_genesis : AccInv Acc.genesis := by simp [AccInv, Acc.genesis]

theorem next_total (a : Acc) (h : AccInv a) (o : Nat) (s : Int) : (next a o s).T = a.T + s := by
  obtain ⟨h1, h2⟩ := h
  match o with
  | 0 => simp [next, total]; omega
  | 1 => simp [next, total]; omega
  | (n + 2) => simp [next, total]

theorem next_inv (a : Acc) (h : AccInv a) (o : Nat) (s : Int) : AccInv (next a o s) := by
  obtain ⟨h1, h2⟩ := h
  match o with
  | 0 => simp [next, AccInv]
  | 1 => simp [next, AccInv, total, delta]; omega
  | (n + 2) => simp [next, AccInv, total, delta]; omega

/-- Whatever its hierarchical order, a block's accumulated entropy is its parent's plus its own. -/
theorem C09_entropy_grows_by_own (a : Acc) (h : AccInv a) (o : Nat) (s : Int) :
    (next a o s).T = a.T + s ∧ AccInv (next a o s) := ⟨next_total a h o s, next_inv a h o s⟩

/-- Accumulated entropy strictly increases along every chain (any mix of zone / region / prime blocks). -/
theorem C09_entropy_strictly_increases (a : Acc) (h : AccInv a) (blocks : List (Nat × Int))
    (hpos : ∀ b ∈ blocks, 0 < b.2) (hne : blocks ≠ []) : a.T < (runChain a blocks).T ∧ AccInv (runChain a blocks) := by
  induction blocks generalizing a with
  | nil => exact absurd rfl hne
  | cons b rest ih =>
    obtain ⟨o, s⟩ := b
    have hs : 0 < s := hpos (o, s) (by simp)
    have h1 := next_total a h o s
    have h2 := next_inv a h o s
    cases rest with
    | nil => simp only [runChain]; exact ⟨by omega, h2⟩
    | cons c rest' =>
      have := ih (next a o s) h2 (fun b hb => hpos b (by simp [hb])) (by simp)
      simp only [runChain] at this ⊢
      exact ⟨by omega, this.2⟩

/-- The own entropy of a valid seal is positive: hash <= 2^256 / difficulty with difficulty >= 2 gives
floor(log2(2^256 / hash)) >= 1, i.e. at least one full bit (2^64 in fixed point), whatever the mantissa. -/
theorem C09_valid_seal_has_positive_entropy (hash diff mant : Nat) (hd : 2 ≤ diff) (hpos : 0 < hash)
    (hseal : hash ≤ 2 ^ 256 / diff) : 0 < (2 ^ 256 / hash).log2 * 2 ^ 64 + mant := by
  have h1 : hash * 2 ≤ 2 ^ 256 := by
    have : hash * diff ≤ 2 ^ 256 := by
      calc hash * diff ≤ (2 ^ 256 / diff) * diff := Nat.mul_le_mul_right _ hseal
        _ ≤ 2 ^ 256 := Nat.div_mul_le_self _ _
    calc hash * 2 ≤ hash * diff := Nat.mul_le_mul_left _ hd
      _ ≤ 2 ^ 256 := this
  have h2 : 2 ≤ 2 ^ 256 / hash := (Nat.le_div_iff_mul_le hpos).mpr (by omega)
  have h3 : 1 ≤ (2 ^ 256 / hash).log2 := (Nat.le_log2 (by omega)).mpr (by simpa using h2)
  have : 0 < (2 ^ 256 / hash).log2 * 2 ^ 64 := Nat.mul_pos (by omega) (Nat.two_pow_pos 64)
  exact Nat.lt_of_lt_of_le this (Nat.le_add_right _ _)

-- Difficulty retargeting ------------------------------------------------------------------------------------

theorem C09_difficulty_floor (p : DiffParams) (parentDiff : Nat) (dt : Int) :
    p.minDifficulty ≤ calcDifficulty p parentDiff dt := by
  simp only [calcDifficulty]
  split <;> omega

/-- At the target block time the difficulty stays what it was (or the floor). -/
theorem C09_difficulty_steady_at_target (p : DiffParams) (parentDiff : Nat) (h : p.durationLimit ≤ p.maxTimeDiff) :
    calcDifficulty p parentDiff p.durationLimit = if (parentDiff : Int) < p.minDifficulty then p.minDifficulty else parentDiff := by
  have hc : clamp p p.durationLimit = p.durationLimit := by simp only [clamp]; split <;> omega
  have ha : adjust p parentDiff p.durationLimit = 0 := by simp [adjust]
  simp [calcDifficulty, hc, ha]

/-- A slower parent block never yields a higher difficulty. -/
theorem C09_difficulty_monotone_in_time (p : DiffParams) (parentDiff : Nat) (dt1 dt2 : Int) (h : dt1 ≤ dt2)
    (hd : 0 < p.durationLimit) (hf : 0 < p.adjFactor) (hp : 0 < p.adjPeriod) :
    calcDifficulty p parentDiff dt2 ≤ calcDifficulty p parentDiff dt1 := by
  have hcl : clamp p dt1 ≤ clamp p dt2 := by simp only [clamp]; split <;> split <;> omega
  have key : adjust p parentDiff (clamp p dt2) ≤ adjust p parentDiff (clamp p dt1) := by
    simp only [adjust]
    apply Int.ediv_le_ediv hp
    apply Int.ediv_le_ediv hf
    apply Int.ediv_le_ediv hd
    apply Int.mul_le_mul_of_nonneg_right _ (Int.natCast_nonneg _)
    apply Int.mul_le_mul_of_nonneg_right _ (Int.natCast_nonneg _)
    omega
  simp only [calcDifficulty]
  split <;> split <;> omega

-- Gas / state limit --------------------------------------------------------------------------------------------

theorem C09_limit_zero_before_start (ttx minL bpm ceil pn pl : Nat) (h : pn < ttx) : calcLimit ttx minL bpm ceil pn pl = 0 := by
  simp [calcLimit, h]

theorem C09_limit_at_least_min_after_start (ttx minL bpm ceil pn pl : Nat) (h : ttx ≤ pn) (hc : minL ≤ ceil) :
    minL ≤ calcLimit ttx minL bpm ceil pn pl := by
  have : ¬ pn < ttx := by omega
  simp only [calcLimit, this, if_false]
  split
  · omega
  · split
    · split <;> omega
    · exact hc

-- T1: every derived header field is compared in verifyHeader ------------------------------------------------------

def derivedFields : List String :=
  ["Time", "Difficulty", "ParentEntropy", "ParentDeltaEntropy", "ParentUncledDeltaEntropy", "ExpansionNumber", "GasLimit", "GasUsed",
   "StateLimit", "StateUsed", "BaseFee", "PrimeTerminusHash", "PrimeTerminusNumber", "ShaDiffAndCount", "ScryptDiffAndCount",
   "ShaShareTarget", "ScryptShareTarget", "KawpowDifficulty", "Number", "HeaderHash", "Location"]

theorem C09_every_derived_field_is_compared :
    derivedFields.all (fun f => Gen.verifyHeaderCompares.contains f) = true := by decide

/-- Non-vacuity of the chain theorem: a chain with zone, region and prime blocks. -/
example : (runChain Acc.genesis [(2, 5), (2, 7), (1, 3), (2, 4), (0, 9), (2, 1)]).T = 29 := by decide

/-- the conversion flow amount stays within its two clamps -/
theorem C09_flow_amount_bounded (prev cur w minFlow : Nat) :
    flowAmount prev cur w minFlow ≤ max minFlow (2 * prev) ∧
    (minFlow ≤ 2 * prev → minFlow ≤ flowAmount prev cur w minFlow) := by
  unfold flowAmount
  simp only []
  refine ⟨?_, ?_⟩
  · split
    · exact Nat.le_max_left _ _
    · split
      · exact Nat.le_max_right _ _
      · next h1 h2 => exact Nat.le_trans (Nat.le_of_not_gt h2) (Nat.le_max_right _ _)
  · intro hm
    split
    · exact Nat.le_refl _
    · split
      · exact hm
      · next h1 _ => exact Nat.le_of_not_gt h1

/-- a steady flow keeps the average where it is -/
theorem C09_flow_amount_steady (prev w minFlow : Nat) (hw : 0 < w) (hm : minFlow ≤ prev) :
    flowAmount prev prev w minFlow = prev := by
  unfold flowAmount
  have : (prev * (w - 1) + prev) / w = prev := by
    have : prev * (w - 1) + prev = prev * w := by
      cases w with
      | zero => omega
      | succ n => simp [Nat.mul_succ]
    rw [this, Nat.mul_div_cancel _ hw]
  simp only [this]
  have h1 : ¬ prev < minFlow := by omega
  have h2 : ¬ prev > 2 * prev := by omega
  simp [h1, h2]

/-- the average moves with the block's own conversion amount (as long as the floor is not above the cap, which holds
whenever the previous amount is itself at least the floor) -/
theorem C09_flow_amount_monotone (prev c1 c2 w minFlow : Nat) (h : c1 ≤ c2) (hm : minFlow ≤ 2 * prev) :
    flowAmount prev c1 w minFlow ≤ flowAmount prev c2 w minFlow := by
  unfold flowAmount
  have hn : (prev * (w - 1) + c1) / w ≤ (prev * (w - 1) + c2) / w := Nat.div_le_div_right (by omega)
  simp only []
  split <;> split <;> (try split) <;> (try split) <;> omega

example : flowAmount 1000 4000 4 100 = 1750 ∧ flowAmount 1000 40000 4 100 = 2000 ∧ flowAmount 1000 0 4 900 = 900 ∧
          baseFee 2553 1 5 21000 = 0 ∧ baseFee 2553000000 1 5 21000 = 607857 := by decide

end QuaiVerif.HeaderRules
