import QuaiVerif.Model.Ledger
/-
C06 (commitment part): after every block the header's UTXO commitment describes exactly the database content
and the stored set size is the number of entries - for every history of blocks whose bookkeeping is well formed
(each created entry is new, each spent / trimmed entry is present when it is removed).  The accumulator itself is
insensitive to the order in which a block's entries are added and removed, which is what makes the concurrent
per-denomination trimming goroutines and any tx order-of-bookkeeping harmless.

The correspondence check (area c06) feeds the model the real blocks' own bookkeeping and compares the predicted
set size / consistency with the header and an independent scan of the database; it also reports `wf`, i.e.
whether the hypothesis of the theorem held for the real block.
-/
namespace QuaiVerif.Ledger

def Inv (l : Ledger) : Prop := l.db.Nodup ∧ Consistent l ∧ l.size = l.db.length

theorem inv_create {l : Ledger} {x : Id} (h : Inv l) (hx : x ∉ l.db) : Inv (applyOp l (.create x)) := by
  obtain ⟨hnd, hc, hs⟩ := h
  refine ⟨?_, ?_, ?_⟩
  · simp [applyOp, hx, hnd]
  · intro y
    simp only [applyOp, hx, if_false, bump]
    by_cases hy : y = x
    · subst hy; simp [hc y, hx]
    · have : (y ∈ x :: l.db) ↔ y ∈ l.db := by simp [hy]
      simp [hy, hc y, this]
  · simp [applyOp, hx, hs]

theorem inv_remove {l : Ledger} {x : Id} (h : Inv l) (hx : x ∈ l.db) :
    Inv { db := l.db.erase x, mult := bump l.mult x (-1), size := l.size - 1 } := by
  obtain ⟨hnd, hc, hs⟩ := h
  refine ⟨?_, ?_, ?_⟩
  · exact hnd.erase x
  · intro y
    simp only [bump]
    by_cases hy : y = x
    · subst hy; simp [hc y, hx, hnd.mem_erase_iff]
    · simp [hy, hc y, List.mem_erase_of_ne hy]
  · have hpos : 0 < l.db.length := List.length_pos_of_mem hx
    simp only [List.length_erase_of_mem hx, hs]; omega

theorem inv_step {l : Ledger} {o : Op} (h : Inv l) (hw : opWF l o = true) : Inv (applyOp l o) := by
  cases o with
  | create x => exact inv_create h (by simpa [opWF] using hw)
  | spend x => exact inv_remove h (by simpa [opWF] using hw)
  | trim x => exact inv_remove h (by simpa [opWF] using hw)

/-- Commitment = content and size = number of entries after every well-formed history. -/
theorem C06_commitment_is_content (l : Ledger) (ops : List Op) (h : Inv l) (hw : opsWF l ops = true) :
    Consistent (applyOps l ops) ∧ (applyOps l ops).size = (applyOps l ops).db.length := by
  suffices Inv (applyOps l ops) from ⟨this.2.1, this.2.2⟩
  induction ops generalizing l with
  | nil => simpa [applyOps] using h
  | cons o os ih =>
    simp only [opsWF, Bool.and_eq_true] at hw
    simpa [applyOps] using ih (applyOp l o) (inv_step h hw.1) hw.2

/-- The empty ledger (genesis) satisfies the invariant, so the theorem applies to whole chains. -/
theorem C06_genesis_inv : Inv ({} : Ledger) := by
  refine ⟨List.nodup_nil, ?_, rfl⟩
  intro x; simp

/-- Blocks compose: a chain of well-formed blocks is a well-formed history. -/
theorem opsWF_append (l : Ledger) (a b : List Op) :
    opsWF l (a ++ b) = (opsWF l a && opsWF (applyOps l a) b) := by
  induction a generalizing l with
  | nil => simp [opsWF, applyOps]
  | cons o os ih => simp [opsWF, applyOps, ih, Bool.and_assoc]

theorem C06_chain_of_blocks (blocks : List (List Op)) (hw : opsWF {} blocks.flatten = true) :
    Consistent (applyOps {} blocks.flatten) ∧
      (applyOps {} blocks.flatten).size = (applyOps {} blocks.flatten).db.length :=
  C06_commitment_is_content {} _ C06_genesis_inv hw

-- Order insensitivity of the accumulator -------------------------------------------------------------

/-- The commitment part of a ledger. -/
def com (l : Ledger) : (Id → Int) × Int := (l.mult, l.size)

def applyCom (c : (Id → Int) × Int) : Op → (Id → Int) × Int
  | .create x => (bump c.1 x 1, c.2 + 1)
  | .spend x  => (bump c.1 x (-1), c.2 - 1)
  | .trim x   => (bump c.1 x (-1), c.2 - 1)

theorem com_applyOp (l : Ledger) (o : Op) : com (applyOp l o) = applyCom (com l) o := by
  cases o <;> rfl

theorem com_applyOps (l : Ledger) (ops : List Op) : com (applyOps l ops) = ops.foldl applyCom (com l) := by
  induction ops generalizing l with
  | nil => rfl
  | cons o os ih => simp [applyOps, List.foldl] at *; rw [ih, com_applyOp]

theorem bump_comm (m : Id → Int) (x y : Id) (a b : Int) : bump (bump m x a) y b = bump (bump m y b) x a := by
  funext z; simp only [bump]; split <;> split <;> omega

theorem applyCom_comm (c : (Id → Int) × Int) (a b : Op) : applyCom (applyCom c a) b = applyCom (applyCom c b) a := by
  cases a <;> cases b <;> simp only [applyCom, bump_comm] <;> congr 1 <;> omega

theorem foldl_perm {α β : Type} (f : β → α → β) (hf : ∀ b x y, f (f b x) y = f (f b y) x)
    {l₁ l₂ : List α} (p : l₁.Perm l₂) : ∀ b, l₁.foldl f b = l₂.foldl f b := by
  induction p with
  | nil => intro b; rfl
  | cons x _ ih => intro b; simpa [List.foldl] using ih (f b x)
  | swap x y l => intro b; simp [List.foldl, hf]
  | trans _ _ ih₁ ih₂ => intro b; rw [ih₁, ih₂]

/-- However a block's creations, spends and trims are interleaved (transaction order of bookkeeping, scheduling
of the trimming goroutines), the resulting commitment and set size are the same. -/
theorem C06_commitment_order_independent (l : Ledger) (ops₁ ops₂ : List Op) (p : ops₁.Perm ops₂) :
    (applyOps l ops₁).mult = (applyOps l ops₂).mult ∧ (applyOps l ops₁).size = (applyOps l ops₂).size := by
  have h : com (applyOps l ops₁) = com (applyOps l ops₂) := by
    rw [com_applyOps, com_applyOps]; exact foldl_perm applyCom applyCom_comm p _
  exact ⟨congrArg Prod.fst h, congrArg Prod.snd h⟩

-- The hypothesis is necessary: the known finding ---------------------------------------------------------

def oneEntry : Ledger := applyOp {} (.create "a")

/-- A block that spends an output through a transaction *and* trims it (TrimBlock reads the database, not the
block's pending batch) removes it twice from the commitment: the header no longer describes the database, and
the set size is one too small.  This is exactly the history on which go-quai deviates (known finding). -/
theorem C06_counterexample_spent_and_trimmed :
    opsWF oneEntry [.spend "a", .trim "a"] = false ∧
    (applyOps oneEntry [.spend "a", .trim "a"]).db = [] ∧
    (applyOps oneEntry [.spend "a", .trim "a"]).mult "a" = -1 ∧
    (applyOps oneEntry [.spend "a", .trim "a"]).size = -1 := by
  refine ⟨by decide, by decide, ?_, ?_⟩ <;> simp [applyOps, applyOp, oneEntry, bump]

/-- Non-vacuity: a history with creation, same-block create-and-spend and trimming meets the hypotheses. -/
example : opsWF {} [.create "a", .create "b", .spend "b", .create "c", .trim "a"] = true := by decide

end QuaiVerif.Ledger
