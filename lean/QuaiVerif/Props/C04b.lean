import QuaiVerif.Model.Route
/-
C04 (routing part): on every history of zone / region / prime blocks every emitted ETX is delivered to the zone at
most once, none is lost on the way (it is either delivered or still held at a definite stage), the region-confirmed
ones arrive with the next region-order block and the prime-confirmed ones with the next prime-order block after
the block that rolled them up.
-/
namespace QuaiVerif.Route
open List

theorem insertBySlip_perm (e : Etx) (l : List Etx) : insertBySlip e l ~ e :: l := by
  induction l with
  | nil => exact Perm.refl _
  | cons x rest ih =>
    unfold insertBySlip
    split
    · exact Perm.refl _
    · exact (Perm.cons x ih).trans (Perm.swap e x rest)

theorem foldl_insert_perm (l acc : List Etx) : l.foldl (fun acc e => insertBySlip e acc) acc ~ acc ++ l := by
  induction l generalizing acc with
  | nil => simp
  | cons x rest ih =>
    simp only [foldl_cons]
    refine (ih _).trans ?_
    have h1 : insertBySlip x acc ++ rest ~ (x :: acc) ++ rest := Perm.append_right rest (insertBySlip_perm x acc)
    refine h1.trans ?_
    have : (x :: acc) ++ rest ~ acc ++ x :: rest := by
      simpa using (perm_middle (a := x) (l₁ := acc) (l₂ := rest)).symm
    exact this

theorem sortBySlip_perm (l : List Etx) : sortBySlip l ~ l := by
  simpa [sortBySlip] using foldl_insert_perm l []

/-- splitting a roll-up by class loses nothing -/
theorem split_perm (l : List Etx) : l.filter (fun e => !e.prm) ++ l.filter (·.prm) ~ l := by
  have := filter_append_perm (fun e : Etx => !e.prm) l
  simpa using this

theorem count_split (a : Etx) (l : List Etx) : count a (l.filter (fun e => !e.prm)) + count a (l.filter (·.prm)) = count a l := by
  have := (split_perm l).count_eq a
  simpa [count_append] using this

theorem count_sort (a : Etx) (l : List Etx) : count a (sortBySlip l) = count a l := (sortBySlip_perm l).count_eq a

/-- One block: what was delivered so far plus what is on its way, after the block, is what it was before plus what
the block emitted. -/
theorem step_conserves (s : St) (o : Nat) (sorted : Bool) (es : List Etx) :
    (step s o sorted es).1.delivered ++ pending (step s o sorted es).1 ~ s.delivered ++ pending s ++ es := by
  apply perm_iff_count.mpr
  intro a
  have hz := count_split a s.zoneSince
  match o with
  | 0 =>
    cases sorted <;> simp only [step, pending, count_append, count_nil, count_sort, Bool.false_eq_true, if_false, if_true] <;> omega
  | 1 =>
    simp only [step, pending, count_append, count_nil] <;> omega
  | n + 2 =>
    simp only [step, pending, count_append, count_nil] <;> omega

def emitted (h : List Blk) : List Etx := h.flatMap (·.emits)

/-- **C04 (nothing lost, nothing duplicated)** after any history, what the zone has received together with what is
still held at a definite stage of the route is exactly what the zone's blocks emitted. -/
theorem C04_route_conserves (h : List Blk) (s : St) :
    (run s h).delivered ++ pending (run s h) ~ s.delivered ++ pending s ++ emitted h := by
  induction h generalizing s with
  | nil => simp [run, emitted]
  | cons b rest ih =>
    simp only [run, emitted, flatMap_cons]
    refine (ih _).trans ?_
    have := step_conserves s b.order b.sorted b.emits
    have h2 : (step s b.order b.sorted b.emits).1.delivered ++ pending (step s b.order b.sorted b.emits).1 ++ emitted rest ~
        s.delivered ++ pending s ++ b.emits ++ emitted rest := Perm.append_right _ this
    simpa [emitted, append_assoc] using h2

/-- **C04 (exactly once)** if no ETX is emitted twice, none is delivered twice, and none is both delivered and
still on its way. -/
theorem C04_route_delivers_at_most_once (h : List Blk) (hnd : (emitted h).Nodup) :
    ((run init h).delivered ++ pending (run init h)).Nodup := by
  have := C04_route_conserves h init
  simp only [init, pending, append_nil, nil_append] at this
  exact this.nodup_iff.mpr hnd

/-- what waits at each stage is of the class that stage handles -/
def Inv (s : St) : Prop := (∀ e ∈ s.stdWait, e.prm = false) ∧ (∀ e ∈ s.primeWait ++ s.primeLast, e.prm = true)

theorem inv_init : Inv init := by simp [Inv, init]

theorem inv_step (s : St) (o : Nat) (b : Bool) (es : List Etx) (h : Inv s) : Inv (step s o b es).1 := by
  obtain ⟨h1, h2⟩ := h
  match o with
  | 0 =>
    refine ⟨?_, ?_⟩
    · intro e he
      simp only [step, mem_append, mem_filter] at he
      rcases he with he | he
      · simpa using he.2
      · exact h1 e he
    · intro e he
      simp only [step, nil_append, mem_filter] at he
      exact he.2
  | 1 =>
    refine ⟨by simp [step], ?_⟩
    intro e he
    simp only [step, mem_append, mem_filter] at he
    rcases he with he | he
    · exact h2 e (by simpa using he)
    · exact he.2
  | n + 2 => exact ⟨h1, h2⟩

/-- **C04 (region-confirmed ETXs arrive with the next region-order block)**: that block delivers every standard ETX
rolled up so far and nothing else, and leaves none waiting. -/
theorem C04_region_block_delivers_standard (s : St) (b : Bool) (es : List Etx) (h : Inv s) :
    (∀ e ∈ s.zoneSince ++ s.stdWait, e.prm = false → e ∈ (step s 1 b es).2) ∧
    (∀ e ∈ (step s 1 b es).2, e.prm = false) ∧ (step s 1 b es).1.stdWait = [] := by
  refine ⟨?_, ?_, rfl⟩
  · intro e he hp
    simp only [step, mem_append, mem_filter] at he ⊢
    rcases he with he | he
    · exact Or.inl ⟨he, by simp [hp]⟩
    · exact Or.inr he
  · intro e he
    simp only [step, mem_append, mem_filter] at he
    rcases he with he | he
    · simpa using he.2
    · exact h.1 e he

/-- **C04 (prime-confirmed ETXs arrive with the next prime-order block)**: that block delivers exactly the coinbases and
conversions rolled up by the region-level blocks before it, and leaves none of them waiting. -/
theorem C04_prime_block_delivers_prime (s : St) (b : Bool) (es : List Etx) (h : Inv s) :
    (step s 0 b es).2 ~ s.primeWait ++ s.primeLast ∧ (∀ e ∈ (step s 0 b es).2, e.prm = true) ∧
    (step s 0 b es).1.primeWait = [] := by
  have hp : (step s 0 b es).2 ~ s.primeWait ++ s.primeLast := by
    cases b
    · exact Perm.refl _
    · exact sortBySlip_perm _
  exact ⟨hp, fun e he => h.2 e (hp.mem_iff.mp he), rfl⟩

theorem insertBySlip_sorted (e : Etx) (l : List Etx) (h : l.Pairwise (fun a b => b.slip ≤ a.slip)) :
    (insertBySlip e l).Pairwise (fun a b => b.slip ≤ a.slip) := by
  induction l with
  | nil => simp [insertBySlip]
  | cons x rest ih =>
    unfold insertBySlip
    have hx := pairwise_cons.mp h
    split
    · next hlt =>
      refine pairwise_cons.mpr ⟨?_, h⟩
      intro y hy
      rcases mem_cons.mp hy with rfl | hy
      · omega
      · have := hx.1 y hy; omega
    · next hge =>
      refine pairwise_cons.mpr ⟨?_, ih hx.2⟩
      intro y hy
      rcases mem_cons.mp ((insertBySlip_perm e rest).mem_iff.mp hy) with rfl | hy
      · omega
      · exact hx.1 y hy

/-- **C04 (order fixed by prime)**: once the controller runs, the conversions delivered with a prime block come
largest slippage bound first. -/
theorem C04_prime_delivery_sorted (l : List Etx) : (sortBySlip l).Pairwise (fun a b => b.slip ≤ a.slip) := by
  unfold sortBySlip
  suffices ∀ acc : List Etx, acc.Pairwise (fun a b => b.slip ≤ a.slip) →
      (l.foldl (fun acc e => insertBySlip e acc) acc).Pairwise (fun a b => b.slip ≤ a.slip) from this [] Pairwise.nil
  induction l with
  | nil => intro acc h; simpa
  | cons x rest ih => intro acc h; exact ih _ (insertBySlip_sorted x acc h)

example : (step ⟨[⟨"a", true, 0⟩, ⟨"b", false, 0⟩], [], [⟨"c", true, 5⟩], [⟨"d", true, 9⟩], []⟩ 0 true [⟨"e", true, 0⟩]).2 =
    [⟨"d", true, 9⟩, ⟨"c", true, 5⟩] := by decide

end QuaiVerif.Route

namespace QuaiVerif.Route
open List

/-- inserting into a list sorted by decreasing slip puts the element behind every element of the same slip -/
theorem insertBySlip_filter (e : Etx) (l : List Etx) (hs : l.Pairwise (fun a b => b.slip ≤ a.slip)) (k : Nat) :
    (insertBySlip e l).filter (fun x => x.slip == k) =
      if e.slip = k then l.filter (fun x => x.slip == k) ++ [e] else l.filter (fun x => x.slip == k) := by
  induction l with
  | nil => by_cases h : e.slip = k <;> simp [insertBySlip, h]
  | cons x rest ih =>
    have hx := pairwise_cons.mp hs
    unfold insertBySlip
    by_cases hlt : x.slip < e.slip
    · simp only [hlt, if_true]
      by_cases h : e.slip = k
      · -- nothing in x :: rest has slip k (they are all smaller than e.slip)
        have hnone : (x :: rest).filter (fun y => y.slip == k) = [] := by
          apply filter_eq_nil_iff.mpr
          intro y hy
          have : y.slip ≤ x.slip := by
            rcases mem_cons.mp hy with rfl | hy
            · exact Nat.le_refl _
            · exact hx.1 y hy
          simp; omega
        simp [filter_cons, h, hnone]
      · simp [filter_cons, h]
    · simp only [hlt, if_false]
      rw [filter_cons, ih hx.2]
      by_cases h : e.slip = k <;> by_cases hxk : x.slip = k <;> simp [filter_cons, h, hxk]

/-- **C04 (prime's sort is stable)**: ETXs with the same slippage bound keep the order in which they were rolled up. -/
theorem C04_prime_sort_is_stable (l : List Etx) (k : Nat) :
    (sortBySlip l).filter (fun x => x.slip == k) = l.filter (fun x => x.slip == k) := by
  unfold sortBySlip
  suffices ∀ acc : List Etx, acc.Pairwise (fun a b => b.slip ≤ a.slip) →
      (l.foldl (fun acc e => insertBySlip e acc) acc).filter (fun x => x.slip == k) =
        acc.filter (fun x => x.slip == k) ++ l.filter (fun x => x.slip == k) by
    simpa using this [] Pairwise.nil
  induction l with
  | nil => intro acc _; simp
  | cons x rest ih =>
    intro acc hacc
    simp only [foldl_cons]
    rw [ih _ (insertBySlip_sorted x acc hacc), insertBySlip_filter x acc hacc k]
    by_cases h : x.slip = k <;> simp [filter_cons, h]

end QuaiVerif.Route
