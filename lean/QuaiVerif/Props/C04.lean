import QuaiVerif.Model.EtxQueue
/-
C04 — Cross-chain transactions are delivered and executed exactly once, in order.
This file: (a) the destination queue refines a FIFO list for every push/pop history; (b) a destination
block is accepted only if its inbound ETXs are exactly the next items of the queue, and a non-empty
queue may not be ignored below the minimum-inclusion bound.  Tie: T2 area `etxq` (real StateDB
PushETX(s) / PopETX / ReadETX / ETXRoot with commit + reload, every root recomputed by the trie model).
Part (c) — exactly-once routing through the three-level hierarchy — is not modelled yet (see DESIGN).
-/
namespace QuaiVerif.EtxQueue

variable {α : Type}

/-- invariant: the live cells are exactly the indices in `[oldest, newest)` -/
def Inv (q : Q α) : Prop :=
  q.oldest ≤ q.newest ∧ ∀ i, (q.cells i).isSome = true ↔ (q.oldest ≤ i ∧ i < q.newest)

/-- the abstract FIFO content -/
def content (q : Q α) : List α := (toList q).filterMap id

theorem inv_init : Inv ({} : Q α) := ⟨Nat.le_refl _, fun i => by simp⟩

theorem inv_push (q : Q α) (e : α) (h : Inv q) : Inv (push q e) := by
  obtain ⟨h1, h2⟩ := h
  refine ⟨by simp [push]; omega, ?_⟩
  intro i
  simp only [push, upd]
  by_cases e1 : i = q.newest
  · subst e1; simp; omega
  · simp only [e1, if_false, h2 i]; omega

theorem toList_push (q : Q α) (e : α) (h : Inv q) : toList (push q e) = toList q ++ [some e] := by
  obtain ⟨h1, h2⟩ := h
  unfold toList push upd
  simp only
  have hn : q.newest + 1 - q.oldest = (q.newest - q.oldest) + 1 := by omega
  rw [hn, List.range_succ, List.map_append]
  congr 1
  · apply List.map_congr_left
    intro j hj
    have : j < q.newest - q.oldest := by simpa using hj
    have : ¬ (q.oldest + j = q.newest) := by omega
    simp [this]
  · simp; omega

/-- **C04(a) push** appends at the tail -/
theorem C04_push_appends (q : Q α) (e : α) (h : Inv q) : content (push q e) = content q ++ [e] := by
  unfold content; rw [toList_push q e h]; simp

theorem toList_eq_cons (q : Q α) (h : Inv q) (hne : q.oldest < q.newest) :
    ∃ e, q.cells q.oldest = some e ∧
      toList q = some e :: (List.range (q.newest - q.oldest - 1)).map (fun j => q.cells (q.oldest + 1 + j)) := by
  obtain ⟨h1, h2⟩ := h
  have hs : (q.cells q.oldest).isSome = true := (h2 q.oldest).mpr ⟨Nat.le_refl _, hne⟩
  obtain ⟨e, he⟩ := Option.isSome_iff_exists.mp hs
  refine ⟨e, he, ?_⟩
  unfold toList
  have hn : q.newest - q.oldest = (q.newest - q.oldest - 1) + 1 := by omega
  rw [hn, List.range_succ_eq_map]
  simp only [List.map_cons, List.map_map, Nat.add_zero, he]
  congr 1
  apply List.map_congr_left
  intro j _
  simp only [Function.comp]
  congr 1
  omega

/-- **C04(a) pop** returns the head exactly once: on a non-empty queue the oldest item, which is then
gone; on an empty queue nothing, and the queue is unchanged. -/
theorem C04_pop_takes_head (q : Q α) (h : Inv q) :
    (content q = [] ∧ pop q = (none, q)) ∨
    (∃ e rest, content q = e :: rest ∧ (pop q).1 = some e ∧ content (pop q).2 = rest ∧ Inv (pop q).2) := by
  obtain ⟨h1, h2⟩ := h
  by_cases hne : q.oldest < q.newest
  · right
    obtain ⟨e, he, hl⟩ := toList_eq_cons q ⟨h1, h2⟩ hne
    refine ⟨e, ((List.range (q.newest - q.oldest - 1)).map (fun j => q.cells (q.oldest + 1 + j))).filterMap id, ?_, ?_, ?_, ?_⟩
    · unfold content; rw [hl]; simp
    · simp [pop, he]
    · unfold content toList
      simp only [pop, he, upd]
      congr 1
      have : q.newest - (q.oldest + 1) = q.newest - q.oldest - 1 := by omega
      rw [this]
      apply List.map_congr_left
      intro j _
      have : ¬ (q.oldest + 1 + j = q.oldest) := by omega
      simp [this]
    · simp only [pop, he]
      refine ⟨by simp; omega, ?_⟩
      intro i
      simp only [upd]
      by_cases e1 : i = q.oldest
      · subst e1; simp; omega
      · simp only [e1, if_false, h2 i]; omega
  · left
    have heq : q.oldest = q.newest := by omega
    have hnone : q.cells q.oldest = none := by
      cases hc : q.cells q.oldest with
      | none => rfl
      | some e =>
        have := (h2 q.oldest).mp (by simp [hc])
        omega
    refine ⟨?_, by simp [pop, hnone]⟩
    unfold content toList
    simp [heq]

/-- **C04(a) FIFO refinement, every history** -/
inductive Op (α : Type) where
  | push (e : α)
  | pop

def runQ (q : Q α) : List (Op α) → Q α × List (Option α)
  | [] => (q, [])
  | .push e :: t => runQ (push q e) t
  | .pop :: t => let (r, q') := pop q; let (qf, outs) := runQ q' t; (qf, r :: outs)

def runSpec (l : List α) : List (Op α) → List α × List (Option α)
  | [] => (l, [])
  | .push e :: t => runSpec (l ++ [e]) t
  | .pop :: t => match l with
    | [] => let (lf, outs) := runSpec [] t; (lf, none :: outs)
    | x :: r => let (lf, outs) := runSpec r t; (lf, some x :: outs)

theorem C04_queue_is_fifo (ops : List (Op α)) :
    ∀ (q : Q α), Inv q → (runQ q ops).2 = (runSpec (content q) ops).2 ∧ content (runQ q ops).1 = (runSpec (content q) ops).1 := by
  induction ops with
  | nil => intro q _; simp [runQ, runSpec]
  | cons op t ih =>
    intro q h
    cases op with
    | push e =>
      simp only [runQ, runSpec]
      rw [← C04_push_appends q e h]
      exact ih _ (inv_push q e h)
    | pop =>
      rcases C04_pop_takes_head q h with ⟨hc, hp⟩ | ⟨e, rest, hc, hp1, hp2, hinv⟩
      · simp only [runQ, runSpec, hp, hc]
        have := ih q h
        rw [hc] at this
        simp [this.1, this.2]
      · simp only [runQ, runSpec, hc]
        have := ih (pop q).2 hinv
        rw [hp2] at this
        have hpq : pop q = ((pop q).1, (pop q).2) := rfl
        rw [hpq, hp1]
        simp [this.1, this.2]

/-! ### (b) acceptance -/

theorem popAll_prefix [DecidableEq α] (es : List α) :
    ∀ (q q' : Q α), Inv q → popAll q es = some q' → content q = es ++ content q' ∧ Inv q' := by
  induction es with
  | nil => intro q q' h hp; simp [popAll] at hp; subst hp; exact ⟨by simp, h⟩
  | cons e t ih =>
    intro q q' h hp
    rcases C04_pop_takes_head q h with ⟨_, hpn⟩ | ⟨e0, rest, hc, hp1, hp2, hinv⟩
    · simp [popAll, hpn] at hp
    · unfold popAll at hp
      cases hpop : pop q with
      | mk r q2 =>
        rw [hpop] at hp hp1 hp2 hinv
        simp only at hp1 hp2 hinv
        subst hp1
        simp only at hp
        by_cases hee : e0 = e
        · subst hee
          simp only [if_true] at hp
          obtain ⟨h1, h2⟩ := ih _ _ hinv hp
          refine ⟨?_, h2⟩
          rw [hc, ← hp2, h1]; simp
        · simp [hee] at hp

/-- **C04(b)** a destination block is accepted only if its inbound ETXs are precisely the next items of
the queue (same items, same order, no duplicates, nothing unknown), and if the queue is still
non-empty afterwards the minimum-inclusion bound was met. -/
theorem C04_accept_exact_prefix [DecidableEq α] (r : Rule) (q q' : Q α) (es : List α) (gas : Nat) (h : Inv q)
    (ha : accept r q es gas = some q') :
    content q = es ++ content q' ∧
    (content q' ≠ [] → (r.early = true → r.minCount ≤ es.length) ∧ (r.early = false → r.minGas ≤ gas)) ∧
    (r.early = true → es.length ≤ r.maxCount) ∧ (r.early = false → gas ≤ r.maxGas) := by
  unfold accept at ha
  cases hp : popAll q es with
  | none => simp [hp] at ha
  | some q1 =>
    simp only [hp] at ha
    obtain ⟨hc, hinv⟩ := popAll_prefix es q q1 h hp
    have havail : (q1.cells q1.oldest).isSome = true ↔ content q1 ≠ [] := by
      rcases C04_pop_takes_head q1 hinv with ⟨hc1, hp1⟩ | ⟨e, rest, hc1, hp1, _, _⟩
      · have : q1.cells q1.oldest = none := by
          cases hh : q1.cells q1.oldest with
          | none => rfl
          | some x => simp [pop, hh] at hp1
        simp [this, hc1]
      · have : (q1.cells q1.oldest).isSome = true := by
          cases hh : q1.cells q1.oldest with
          | none => simp [pop, hh] at hp1
          | some x => rfl
        simp [this, hc1]
    cases he : r.early with
    | true =>
      simp only [he, Bool.true_and, Bool.not_true, Bool.false_and] at ha
      by_cases hbad : ((q1.cells q1.oldest).isSome && decide (es.length < r.minCount) || decide (es.length > r.maxCount)) = true
      · simp [hbad] at ha
      · simp only [hbad] at ha
        simp at ha; subst ha
        simp only [Bool.or_eq_true, Bool.and_eq_true, decide_eq_true_eq, not_or, not_and] at hbad
        refine ⟨hc, ?_, ?_, ?_⟩
        · intro hne
          exact ⟨fun _ => (by have := hbad.1 (havail.mpr hne); omega), fun h => (by cases h)⟩
        · intro _; omega
        · intro h; cases h
    | false =>
      simp only [he, Bool.false_and, Bool.not_false, Bool.true_and] at ha
      by_cases hbad : ((q1.cells q1.oldest).isSome && decide (gas < r.minGas) || decide (gas > r.maxGas)) = true
      · simp [hbad] at ha
      · simp only [hbad] at ha
        simp at ha; subst ha
        simp only [Bool.or_eq_true, Bool.and_eq_true, decide_eq_true_eq, not_or, not_and] at hbad
        refine ⟨hc, ?_, ?_, ?_⟩
        · intro hne
          exact ⟨fun h => (by cases h), fun _ => (by have := hbad.1 (havail.mpr hne); omega)⟩
        · intro h; cases h
        · intro _; omega

/-! ### Non-vacuity -/
example : (runQ ({} : Q Nat) [.push 5, .push 7, .pop, .push 9, .pop, .pop, .pop]).2 = [some 5, some 7, some 9, none] := by
  decide

end QuaiVerif.EtxQueue
