import QuaiVerif.Model.Lockup
import QuaiVerif.Gen.LockupFacts
/-
C13 — Mining rewards and lockups pay out exactly once, no earlier, no more.
This file: the contract-held lockup ledger (accumulate per (contract, miner, period, epoch); claim only
by the owning contract, only after the tranche unlock height, only once, for exactly the balance).
Tie: T2 area `lockup` (real AddNewLock, real lockup precompile through EVM.Call on a real batch,
claims before/at/after unlock, repeated, by non-owners, twice in one block, inside reverted frames).
Reward formula, share uniqueness and plain locked rewards (RedeemLockedQuai) need the zone chain
harness and are not covered yet (see level_note).
-/
namespace QuaiVerif.Lockup

/-- **C13 (claim conditions and amount)** a successful claim is by the owner named in the key (the
caller), for a past epoch, of an existing record whose tranche is unlocked; it deletes the record and
emits exactly the accumulated balance. -/
theorem C13_claim_ok_implies (eb : Nat) (l l' : Ledger) (i : ClaimIn) (g v : Nat)
    (h : claim eb l i = .ok (l', g, v)) :
    i.epoch < i.blockNumber / eb + 1 ∧
    (∃ r, l (i.caller, i.miner, i.lockupByte, i.epoch) = some r ∧ r.unlock ≠ 0 ∧ r.unlock ≤ i.blockNumber ∧ r.elements ≠ 0 ∧ v = r.balance) ∧
    l' (i.caller, i.miner, i.lockupByte, i.epoch) = none ∧
    (∀ k', k' ≠ (i.caller, i.miner, i.lockupByte, i.epoch) → l' k' = l k') ∧ g = i.gas - i.etxGasLimit := by
  unfold claim at h
  simp only at h
  split at h; · cases h
  split at h; · cases h
  split at h; · cases h
  split at h; · cases h
  split at h; · cases h
  split at h; · cases h
  split at h; · cases h
  rename_i h1 h2 h3 h4 h5 h6 h7
  simp only [Except.ok.injEq, Prod.mk.injEq] at h
  obtain ⟨hl, hg, hv⟩ := h
  refine ⟨by omega, ?_, ?_, ?_, hg.symm⟩
  · cases hr : l (i.caller, i.miner, i.lockupByte, i.epoch) with
    | none => simp [readRec, hr] at h4
    | some r =>
      simp only [readRec, hr, Option.getD_some] at h4 h5 h6 hv
      exact ⟨r, rfl, h4, by omega, h6, hv.symm⟩
  · rw [← hl]; simp [upd]
  · intro k' hk'; rw [← hl]; simp [upd, hk']

/-- **C13 (claim once)** after a successful claim a second claim of the same tranche fails. -/
theorem C13_second_claim_fails (eb : Nat) (l l' : Ledger) (i i2 : ClaimIn) (g v : Nat)
    (h : claim eb l i = .ok (l', g, v))
    (hsame : i2.caller = i.caller ∧ i2.miner = i.miner ∧ i2.lockupByte = i.lockupByte ∧ i2.epoch = i.epoch) :
    ∀ r, claim eb l' i2 ≠ .ok r := by
  have hk := (C13_claim_ok_implies eb l l' i g v h).2.2.1
  intro r hc
  obtain ⟨l2, g2, v2⟩ := r
  have := (C13_claim_ok_implies eb l' l2 i2 g2 v2 hc).2.1
  obtain ⟨r, hr, _⟩ := this
  rw [hsame.1, hsame.2.1, hsame.2.2.1, hsame.2.2.2, hk] at hr
  cases hr

/-- **C13 (only the owning contract)** a claim by caller `c` never touches a record owned by another contract. -/
theorem C13_claim_only_own (eb : Nat) (l l' : Ledger) (i : ClaimIn) (g v : Nat)
    (h : claim eb l i = .ok (l', g, v)) (k' : Key) (ho : k'.1 ≠ i.caller) : l' k' = l k' := by
  apply (C13_claim_ok_implies eb l l' i g v h).2.2.2.1
  intro e; apply ho; rw [e]

/-- **C13 (accumulation)** adding a reward to an existing tranche increases its balance by exactly the
value, counts the element and keeps the tranche unlock height; a fresh tranche starts at the value with
the epoch-aligned unlock height. -/
theorem C13_add_accumulates (vr : Variant) (eb : Nat) (l : Ledger) (k : Key) (d uh v : Nat) (res : AddResult)
    (h : addNewLock vr eb l k d uh v = .ok res) :
    0 < v ∧ res.ledger k = some res.stored ∧ (∀ k', k' ≠ k → res.ledger k' = l k') ∧
    (((readRec l k).unlock ≠ 0 ∧ res.stored.balance = (readRec l k).balance + v ∧ res.stored.elements = (readRec l k).elements + 1 ∧
        res.stored.unlock = (readRec l k).unlock ∧ (readRec l k).unlock ≤ uh) ∨
     ((readRec l k).unlock = 0 ∧ res.stored.balance = v ∧ res.stored.elements = 1 ∧ res.stored.unlock = uh - uh % eb)) := by
  unfold addNewLock at h
  simp only at h
  split at h; · cases h
  split at h; · cases h
  split at h; · cases h
  rename_i h1 h2 h3
  split at h
  · rename_i h4
    simp only [Except.ok.injEq] at h
    subst h
    refine ⟨by omega, by simp [upd], fun k' hk' => by simp [upd, hk'], Or.inr ⟨h4, rfl, rfl, rfl⟩⟩
  · rename_i h4
    simp only [Except.ok.injEq] at h
    subst h
    refine ⟨by omega, by simp [upd], fun k' hk' => by simp [upd, hk'], Or.inl ⟨h4, rfl, rfl, rfl, ?_⟩⟩
    simp only [Bool.and_eq_true, bne_iff_ne, ne_eq, decide_eq_true_eq, not_and, Nat.not_lt] at h2
    exact h2 (by simpa using h4)

/-- the balance of a tranche after a run of additions is the sum of the values added -/
theorem C13_balance_is_sum (vr : Variant) (eb : Nat) (k : Key) (adds : List (Nat × Nat × Nat)) :
    ∀ (l lf : Ledger), (readRec l k).unlock ≠ 0 →
      (adds.foldlM (fun l (a : Nat × Nat × Nat) => (addNewLock vr eb l k a.1 a.2.1 a.2.2).map (·.ledger)) l) = .ok lf →
      (readRec lf k).balance = (readRec l k).balance + (adds.map (·.2.2)).sum ∧
      (readRec lf k).elements = (readRec l k).elements + adds.length ∧ (readRec lf k).unlock = (readRec l k).unlock := by
  induction adds with
  | nil => intro l lf _ h; simp [List.foldlM, pure, Except.pure] at h; subst h; simp
  | cons a rest ih =>
    intro l lf hu h
    simp only [List.foldlM] at h
    cases hr : addNewLock vr eb l k a.1 a.2.1 a.2.2 with
    | error e => simp [hr, Except.map, bind, Except.bind] at h
    | ok res =>
      simp only [hr, Except.map, bind, Except.bind] at h
      obtain ⟨_, hk, _, hcase⟩ := C13_add_accumulates vr eb l k _ _ _ res hr
      rcases hcase with ⟨_, hb, he, hul, _⟩ | ⟨h0, _⟩
      · have hrr : readRec res.ledger k = res.stored := by simp [readRec, hk]
        have := ih res.ledger lf (by rw [hrr, hul]; exact hu) h
        rw [hrr, hb, he, hul] at this
        simp only [List.map_cons, List.sum_cons, List.length_cons]
        omega
      · exact absurd h0 hu

/-- **S7 (fixed variant)** the undo record written when a tranche is updated is the old record,
including its old delegate — so a reorg restores exactly what was there. -/
theorem C13_undo_record_is_old (vr : Variant) (hv : vr.undoUsesOldDelegate = true) (eb : Nat) (l : Ledger) (k : Key)
    (d uh v : Nat) (res : AddResult) (h : addNewLock vr eb l k d uh v = .ok res) (hd : res.deleted = true) :
    res.undo = l k := by
  unfold addNewLock at h
  simp only at h
  split at h; · cases h
  split at h; · cases h
  split at h; · cases h
  split at h
  · simp only [Except.ok.injEq] at h; subst h; simp at hd
  · rename_i h4
    simp only [Except.ok.injEq] at h
    subst h
    simp only [hv, if_true]
    cases hl : l k with
    | none => simp [readRec, hl] at h4
    | some r => simp [readRec, hl]

theorem C13_counterexample_undo_delegate :
    let l : Ledger := upd (fun _ => none) (1, 2, 1, 3) (some { balance := 10, unlock := 100000, elements := 1, delegate := 7 })
    (match addNewLock { undoUsesOldDelegate := false } 50000 l (1, 2, 1, 3) 9 100000 5 with
      | .ok res => res.undo.map (·.delegate)
      | .error _ => none) = some 9 := by decide

/-- **C13 (T1)** the current source writes the undo record with the old delegate and restores claimed
records when a frame reverts: the variant the theorems above are stated for. -/
theorem C13_current_tree_variant : Gen.lockupUndoUsesOldDelegate = true ∧ Gen.revertRestoresLockupBatch = true := by decide

/-! ### Non-vacuity -/
example : (match claim 50000 (upd (fun _ => none) (1, 2, 1, 0) (some { balance := 10, unlock := 50000, elements := 2, delegate := 0 }))
    { caller := 1, miner := 2, lockupByte := 1, epoch := 0, blockNumber := 60000, gas := 100000, etxGasLimit := 21000, sameLedger := true, cacheLen := 0 } with
    | .ok (_, g, v) => some (g, v) | .error _ => none) = some (79000, 10) := by decide

end QuaiVerif.Lockup
