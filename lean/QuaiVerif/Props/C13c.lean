import QuaiVerif.Props.C13b
/- C13 (payout to accounts that may not exist yet): the creation fee is withheld at most once, from the first payout
that can cover it; nothing else is withheld, nothing is credited twice. -/
namespace QuaiVerif.Payout

theorem creditAll_live (fee : Nat) (a : Acct) (amts : List Nat) (h : a.live = true) :
    creditAll fee a amts = { live := true, bal := a.bal + amts.sum } := by
  induction amts generalizing a with
  | nil => cases a; simp_all [creditAll]
  | cons x rest ih =>
    have hx : credit fee a x = { live := true, bal := a.bal + x } := by simp [credit, h]
    simp only [creditAll, List.foldl_cons] at ih ⊢
    rw [hx, ih _ rfl]
    simp [Nat.add_assoc]

/-- An account that exists is credited every payout in full. -/
theorem C13_existing_account_credited_in_full (fee : Nat) (a : Acct) (amts : List Nat) (h : a.live = true) :
    (creditAll fee a amts).bal = a.bal + amts.sum ∧ (creditAll fee a amts).live = true := by
  rw [creditAll_live fee a amts h]; exact ⟨rfl, rfl⟩

/-- An account that does not exist: payouts below the fee are dropped until one can cover the fee; that one is
credited less the fee - once - and every later payout of the block is credited in full. -/
theorem C13_new_account_pays_creation_fee_once (fee : Nat) (b : Nat) (amts : List Nat) :
    creditAll fee ⟨false, b⟩ amts =
      match amts.dropWhile (· < fee) with
      | [] => ⟨false, b⟩
      | x :: rest => ⟨true, b + (x - fee) + rest.sum⟩ := by
  induction amts with
  | nil => rfl
  | cons x rest ih =>
    by_cases hx : x < fee
    · have : credit fee ⟨false, b⟩ x = ⟨false, b⟩ := by
        have : ¬ fee ≤ x := by omega
        simp [credit, this]
      simp only [creditAll, List.foldl_cons, this] at ih ⊢
      rw [ih]; simp [List.dropWhile, hx]
    · have hc : credit fee ⟨false, b⟩ x = ⟨true, b + (x - fee)⟩ := by
        have : fee ≤ x := by omega
        simp [credit, this]
      have := creditAll_live fee ⟨true, b + (x - fee)⟩ rest rfl
      simp only [creditAll, List.foldl_cons, hc] at this ⊢
      rw [this]; simp [List.dropWhile, hx]

/-- Whatever the account and the payouts: never more than the payouts is credited, and what is missing is at most one
fee plus the payouts that were too small to create the account. -/
theorem C13_credited_never_exceeds_payouts (fee : Nat) (a : Acct) (amts : List Nat) :
    (creditAll fee a amts).bal ≤ a.bal + amts.sum := by
  cases a with
  | mk live b =>
    cases live
    · rw [C13_new_account_pays_creation_fee_once]
      have hs : ((amts.dropWhile (· < fee)).sum) ≤ amts.sum := by
        induction amts with
        | nil => simp
        | cons x rest ih =>
          by_cases hx : x < fee
          · simp [List.dropWhile, hx]; omega
          · simp [List.dropWhile, hx]
      cases hd : amts.dropWhile (· < fee) with
      | nil => simp
      | cons x rest => simp [hd] at hs ⊢; omega
    · rw [creditAll_live _ _ _ rfl]; simp

theorem C13_shortfall_at_most_one_fee (fee : Nat) (b : Nat) (amts : List Nat) (hall : ∀ x ∈ amts, fee ≤ x) :
    b + amts.sum ≤ (creditAll fee ⟨false, b⟩ amts).bal + fee := by
  rw [C13_new_account_pays_creation_fee_once]
  cases amts with
  | nil => simp
  | cons x rest =>
    have hx : ¬ x < fee := by have := hall x (by simp); omega
    simp [List.dropWhile, hx]; have := hall x (by simp); omega

/-- For an account that exists from the start with a balance, the sequential model is the schedule of the first part:
so every reward is credited exactly once, at its unlock height (C13_rewards_credited_exactly_when_matured). -/
theorem sum_flatMap_depths (depths : List Nat) (hnd : depths.Nodup) (rs : List Reward) (a : String) (h : Nat) :
    (unlocksAt depths rs a h).sum = creditedAt depths rs a h := by
  unfold unlocksAt creditedAt
  induction depths with
  | nil =>
    have : (rs.filter fun r => (r.addr == a && ([] : List Nat).contains r.depth) && decide (1 ≤ r.block ∧ r.block + r.depth = h)) = [] := by
      apply List.filter_eq_nil_iff.mpr
      intro r _; simp
    rw [this]; rfl
  | cons d ds ih =>
    have hd : d ∉ ds := (List.nodup_cons.mp hnd).1
    simp only [List.flatMap_cons, List.sum_append, ih (List.nodup_cons.mp hnd).2]
    rw [← sum_filter_split]
    · congr 2
      apply List.filter_congr
      intro r _
      simp only [List.contains_cons]
      generalize (r.addr == a) = A
      generalize (r.depth == d) = X
      generalize (ds.contains r.depth) = Y
      generalize decide (1 ≤ r.block ∧ r.block + r.depth = h) = D
      cases A <;> cases X <;> cases Y <;> cases D <;> rfl
    · intro r ⟨p1, p2⟩
      simp only [Bool.and_eq_true, beq_iff_eq, List.contains_eq_mem, decide_eq_true_eq] at p1 p2
      exact hd (p1.1.2 ▸ p2.1.2)

/-- An account that exists from the start with a balance: the sequential model pays exactly the schedule of the first
part, so every reward is credited exactly once, at its unlock height. -/
theorem C13_live_account_follows_schedule (depths : List Nat) (hnd : depths.Nodup) (fee : Nat → Nat) (rs : List Reward)
    (a : String) (b : Nat) (hb : 0 < b) (h : Nat) :
    acctUpTo depths fee rs a ⟨true, b⟩ h = ⟨true, b + matured depths rs a h⟩ := by
  rw [← C13_rewards_credited_exactly_when_matured]
  induction h with
  | zero => rfl
  | succ h ih =>
    simp only [acctUpTo, ih, creditedUpTo]
    rw [creditAll_live _ _ _ rfl, sum_flatMap_depths depths hnd]
    have : ¬ (b + (creditedUpTo depths rs a h + creditedAt depths rs a (h + 1)) = 0) := by omega
    simp only [settle, Nat.add_assoc]
    rw [if_neg this]

example : acctUpTo [3, 5] (fun _ => 4) [⟨"n", 3, 2, 3⟩, ⟨"n", 10, 2, 3⟩, ⟨"n", 7, 2, 3⟩, ⟨"n", 4, 4, 3⟩] "n" ⟨false, 0⟩ 5 = ⟨true, 13⟩ ∧
          acctUpTo [3, 5] (fun _ => 4) [⟨"n", 4, 2, 3⟩, ⟨"n", 9, 3, 3⟩] "n" ⟨false, 0⟩ 5 = ⟨false, 0⟩ ∧
          acctUpTo [3, 5] (fun _ => 4) [⟨"n", 4, 2, 3⟩, ⟨"n", 9, 3, 3⟩] "n" ⟨false, 0⟩ 6 = ⟨true, 5⟩ := by decide

end QuaiVerif.Payout
