import QuaiVerif.Model.Sign
import QuaiVerif.Gen.TxFields
/-
C03 — Only the key holder can authorise a transaction; no replay across chains.
Model: Model/Sign.lean.  Tie: T1 Gen/TxFields.lean (signing vs. full encoding field sets, regenerated
from transaction.go) and T2 area `sign` (real keys, real Sender on every single-field mutation,
every chain-id pair, boundary signature values; Qi aggregate signatures through ProcessQiTx in C01).
Cryptographic idealisation (`hSig`, `hH`) appears only as explicit hypotheses.
-/
namespace QuaiVerif.Sign

variable {α D : Type}

/-- **C03 (chain id)** a transaction whose chain id differs from the signer's is never attributed. -/
theorem C03_chain_mismatch_rejected (H : Bytes → D) (recover : D → Nat × Nat × Nat → Option α)
    (c : Nat) (tx : Tx) (h : tx.chainId ≠ c) : senderV1 H recover c tx = .errChainId := by
  simp [senderV1, h]

/-- **C03 (signature value ranges)** zero, out-of-range and high-S values and v ∉ {0,1} are rejected. -/
theorem C03_bad_signature_values_rejected (v r s : Nat)
    (h : r = 0 ∨ s = 0 ∨ r ≥ secpN ∨ s ≥ secpN ∨ s > halfN ∨ (v ≠ 0 ∧ v ≠ 1)) : validSigValues v r s = false := by
  unfold validSigValues
  rcases h with h | h | h | h | h | ⟨h1, h2⟩
  · simp [h]
  · simp [h]
  · have : ¬ r < secpN := by omega
    simp [this]
  · have : ¬ s < secpN := by omega
    simp [this]
  · simp [h]
  · simp [h1, h2]

theorem C03_sender_implies_valid (H : Bytes → D) (recover : D → Nat × Nat × Nat → Option α)
    (c : Nat) (tx : Tx) (a : α) (h : senderV1 H recover c tx = .sender a) :
    tx.chainId = c ∧ validSigValues tx.v tx.r tx.s = true ∧ recover (H tx.payload) (tx.r, tx.s, tx.v) = some a := by
  unfold senderV1 at h
  by_cases h1 : tx.chainId ≠ c
  · simp [h1] at h
  · by_cases h2 : tx.v + 27 ≥ 256
    · simp [h1, h2] at h
    · by_cases h3 : validSigValues tx.v tx.r tx.s = true
      · simp only [h1, h2, h3, if_false, Bool.not_true] at h
        refine ⟨by simpa using h1, h3, ?_⟩
        cases hr : recover (H tx.payload) (tx.r, tx.s, tx.v) with
        | none => simp [hr] at h
        | some b => simp [hr] at h; rw [h]
      · simp [h1, h2, h3] at h

/-- **C03 (only the key holder)** Under the idealisations — `hH`: the payload hash is injective;
`hSig`: one signature recovers the same signer for at most one digest (no one but the key holder can
make a signature that verifies for another digest) — two transactions attributed to the same sender
with the same signature have the same signed payload: changing any signed field (type, chain id,
nonce, gas, price, recipient, value, data, access list — see `C03_signing_covers_payload`) yields a
different sender or an error, never the original sender. -/
theorem C03_changed_payload_changes_sender (H : Bytes → D) (recover : D → Nat × Nat × Nat → Option α)
    (hH : Function.Injective H)
    (hSig : ∀ d d' sig a, recover d sig = some a → recover d' sig = some a → d = d')
    (c c' : Nat) (tx tx' : Tx) (a : α)
    (hs : tx.r = tx'.r ∧ tx.s = tx'.s ∧ tx.v = tx'.v)
    (h1 : senderV1 H recover c tx = .sender a) (h2 : senderV1 H recover c' tx' = .sender a) :
    tx.payload = tx'.payload := by
  obtain ⟨_, _, r1⟩ := C03_sender_implies_valid H recover c tx a h1
  obtain ⟨_, _, r2⟩ := C03_sender_implies_valid H recover c' tx' a h2
  rw [← hs.1, ← hs.2.1, ← hs.2.2] at r2
  exact hH (hSig _ _ _ _ r1 r2)

/-- **C03 (sender cache)** the cache never changes a verdict: whatever sequence of signers asks, each
answer equals the uncached one, so a sender cached for one chain id is never returned for another. -/
theorem C03_cache_transparent (H : Bytes → D) (recover : D → Nat × Nat × Nat → Option α) (tx : Tx)
    (signers : List Nat) :
    ∀ cache : Option (Nat × α),
      (∀ c a, cache = some (c, a) → senderV1 H recover c tx = .sender a) →
      (signers.foldl (fun (st : List (Verdict α) × Option (Nat × α)) c =>
          (st.1 ++ [(senderCached H recover st.2 c tx).1], (senderCached H recover st.2 c tx).2)) ([], cache)).1 = signers.map (fun c => senderV1 H recover c tx) := by
  suffices Hgen : ∀ (signers : List Nat) (acc : List (Verdict α)) (cache : Option (Nat × α)),
      (∀ c a, cache = some (c, a) → senderV1 H recover c tx = .sender a) →
      (signers.foldl (fun (st : List (Verdict α) × Option (Nat × α)) c =>
          (st.1 ++ [(senderCached H recover st.2 c tx).1], (senderCached H recover st.2 c tx).2)) (acc, cache)).1 = acc ++ signers.map (fun c => senderV1 H recover c tx) by
    intro cache hc; simpa using Hgen signers [] cache hc
  intro signers
  induction signers with
  | nil => intro acc cache _; simp
  | cons c t ih =>
    intro acc cache hc
    simp only [List.foldl_cons, List.map_cons]
    have key : (senderCached H recover cache c tx).1 = senderV1 H recover c tx ∧
        (∀ c' a, (senderCached H recover cache c tx).2 = some (c', a) → senderV1 H recover c' tx = .sender a) := by
      unfold senderCached
      cases cache with
      | none =>
        cases hv : senderV1 H recover c tx with
        | sender b => exact ⟨rfl, by intro c' a h; simp at h; rw [← h.1, ← h.2]; exact hv⟩
        | errChainId => exact ⟨rfl, by intro c' a h; simp at h⟩
        | errSig => exact ⟨rfl, by intro c' a h; simp at h⟩
        | errRecover => exact ⟨rfl, by intro c' a h; simp at h⟩
      | some p =>
        obtain ⟨c0, a0⟩ := p
        by_cases e : c0 = c
        · simp only [e, if_true]
          exact ⟨(hc c a0 (by rw [e])).symm, by intro c' a h; exact hc c' a (by rw [← h, e])⟩
        · simp only [e, if_false]
          cases hv : senderV1 H recover c tx with
          | sender b => exact ⟨rfl, by intro c' a h; simp at h; rw [← h.1, ← h.2]; exact hv⟩
          | errChainId => exact ⟨rfl, fun c' a h => hc c' a h⟩
          | errSig => exact ⟨rfl, fun c' a h => hc c' a h⟩
          | errRecover => exact ⟨rfl, fun c' a h => hc c' a h⟩
    rw [ih _ _ key.2, key.1]
    simp

/-! ### T1: what the signature covers in the current source -/

def unsignedByDesign : List String := ["V", "R", "S", "Signature", "ParentHash", "MixHash", "WorkNonce"]

/-- **C03 (T1)** every field of the full encoding of a Quai / Qi transaction, other than the
signature itself and the work fields, is in the signing encoding; and the signing encoding of a Quai
transaction contains exactly the payload the property names. -/
theorem C03_signing_covers_payload :
    (["QuaiTxType", "QiTxType"].all fun ty =>
      ((Gen.txEncodeFields.lookup ty).getD []).all fun f =>
        unsignedByDesign.contains f || ((Gen.txSigningFields.lookup ty).getD []).contains f) = true ∧
    (["Type", "ChainId", "Nonce", "Gas", "GasPrice", "To", "Value", "Data", "AccessList"].all fun f =>
      ((Gen.txSigningFields.lookup "QuaiTxType").getD []).contains f) = true ∧
    (["Type", "ChainId", "TxIns", "TxOuts", "Data"].all fun f =>
      ((Gen.txSigningFields.lookup "QiTxType").getD []).contains f) = true := by
  decide

/-! ### Non-vacuity -/
example : validSigValues 1 5 7 = true := by decide
example : validSigValues 0 secpN 7 = false := by decide
example : senderV1 (fun b => b) (fun _ _ => some 7) 9000 { chainId := 9000, payload := [1], v := 0, r := 5, s := 7 } = .sender 7 := by
  decide

end QuaiVerif.Sign
