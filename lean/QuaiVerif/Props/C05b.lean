import QuaiVerif.Model.Wrapped
/- C05 for the lockup contract's wrapped-Qi calls: an unwrap either succeeds with exactly one ETX of exactly the
   requested value and exactly that debit of the live balance, or fails with no effect; over a whole transaction the
   emitted ETXs carry exactly what left the balance. -/
namespace QuaiVerif.Wrapped

theorem C05_unwrap_all_or_nothing (s : St) (v : Nat) :
    ((unwrap s v).2 = true ∧ v ≤ s.bal ∧ (unwrap s v).1.bal = s.bal - v ∧ (unwrap s v).1.out = s.out ++ [v] ∧
        (unwrap s v).1.deps = s.deps) ∨
    ((unwrap s v).2 = false ∧ (unwrap s v).1 = s) := by
  unfold unwrap
  by_cases h : s.bal = 0 ∨ s.bal < v
  · right; simp [h]
  · left
    have hv : v ≤ s.bal := by omega
    simp [h, hv]

theorem unwrap_total (s : St) (v : Nat) : total (unwrap s v).1 = total s := by
  unfold unwrap
  by_cases h : s.bal = 0 ∨ s.bal < v
  · simp [h]
  · simp only [h, ↓reduceIte, total, List.sum_append, List.sum_cons, List.sum_nil]
    omega

theorem sum_set_zero : ∀ (l : List Nat) (i d : Nat), l[i]? = some d → (l.set i 0).sum + d = l.sum
  | [], i, d, h => by simp at h
  | x :: xs, 0, d, h => by
    simp at h
    simp [h, Nat.add_comm]
  | x :: xs, i + 1, d, h => by
    simp at h
    have := sum_set_zero xs i d h
    simp only [List.set_cons_succ, List.sum_cons]
    omega

theorem claim_total (s : St) (i : Nat) (hfit : total s < W) : total (claim s i).1 = total s := by
  unfold claim
  cases hd : s.deps[i]? with
  | none => simp
  | some d =>
    by_cases h0 : d = 0
    · simp [h0]
    · have hs := sum_set_zero s.deps i d hd
      have hlt : s.bal + d < W := by
        unfold total at hfit
        omega
      simp only [h0, ↓reduceIte, total, Nat.mod_eq_of_lt hlt]
      omega

theorem step_total (s : St) (op : Op) (hfit : total s < W) : total (step s op).1 = total s := by
  cases op with
  | unwrap v => exact unwrap_total s v
  | claim i => exact claim_total s i hfit

/-- over every transaction (any sequence of unwraps and claims by the owner contract): balance + unclaimed deposits +
    value carried by the emitted ETXs is unchanged, so the ETXs carry exactly what was debited. -/
theorem C05_wrapped_transaction_conserves (s : St) (ops : List Op) (hfit : total s < W) :
    total (run s ops).1 = total s := by
  induction ops generalizing s with
  | nil => rfl
  | cons op ops ih =>
    have h1 := step_total s op hfit
    simp only [run]
    rw [ih (step s op).1 (by omega), h1]

/-- unwraps alone: the emitted values sum to exactly the decrease of the balance slot -/
theorem C05_unwraps_carry_exactly_the_debit (s : St) (vs : List Nat) :
    (run s (vs.map Op.unwrap)).1.out.sum + (run s (vs.map Op.unwrap)).1.bal = s.out.sum + s.bal ∧
    (run s (vs.map Op.unwrap)).1.deps = s.deps := by
  induction vs generalizing s with
  | nil => simp [run]
  | cons v vs ih =>
    simp only [List.map_cons, run, step]
    have h := ih (unwrap s v).1
    rcases C05_unwrap_all_or_nothing s v with ⟨_, hv, hb, ho, hd⟩ | ⟨_, hs⟩
    · rw [hb, ho, hd] at h
      simp only [List.sum_append, List.sum_cons, List.sum_nil] at h
      constructor
      · omega
      · exact h.2
    · simp only [hs] at h ⊢; exact h

/-- an overdraw is refused whatever was unwrapped before it in the same transaction -/
theorem C05_overdraw_refused (s : St) (v : Nat) (h : s.bal < v) : unwrap s v = (s, false) := by
  simp [unwrap, h]

-- non-vacuity: balance 100, two unwraps of 60 in one transaction: the second is refused
example : run { bal := 100, deps := [7], out := [] } [.unwrap 60, .unwrap 60, .claim 0, .unwrap 47] =
    ({ bal := 0, deps := [0], out := [60, 47] }, [true, false, true, true]) := by decide

end QuaiVerif.Wrapped
