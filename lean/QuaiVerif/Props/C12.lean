import QuaiVerif.Lemmas.State
import QuaiVerif.Gen.Journal
/-
C12 — A failed or reverted call frame leaves no trace.
Model: Model/State.lean (journalled StateDB mutators, nested snapshot/revert frames).
Tie: T1 Gen/Journal.lean (journal entry kinds and what each `revert` restores, regenerated from
journal.go / statedb.go) and T2 area `state` (random nested programs on the real StateDB; dump and
IntermediateRoot compared at every revert).
-/
namespace QuaiVerif.State

/-- `t` extends `s`'s journal and reverting `t` to `s`'s journal length gives back exactly `s`
(every component: accounts incl. storage, size counters, suicide marks, refund, logs, access list,
transient storage). -/
def Good (s t : St) : Prop :=
  (∃ ext, t.journal = ext ++ s.journal) ∧ revertTo s.journal.length t = s

theorem good_refl (s : St) : Good s s := ⟨⟨[], rfl⟩, revertTo_stop _ _ (Nat.le_refl _)⟩

theorem good_trans {s t u : St} (h1 : Good s t) (h2 : Good t u) : Good s u := by
  obtain ⟨⟨e1, j1⟩, r1⟩ := h1
  obtain ⟨⟨e2, j2⟩, r2⟩ := h2
  refine ⟨⟨e2 ++ e1, by rw [j2, j1, List.append_assoc]⟩, ?_⟩
  have hle : s.journal.length ≤ t.journal.length := by rw [j1]; simp
  rw [← revertTo_trans s.journal.length t.journal.length u hle, r2, r1]

/-- one pushed entry whose undo restores the pre-state -/
theorem good_push1 (s t : St) (e : Entry) (hj : t.journal = e :: s.journal)
    (hu : undo { t with journal := s.journal } e = s) : Good s t := by
  refine ⟨⟨[e], by simp [hj]⟩, ?_⟩
  rw [revertTo_cons _ t e s.journal hj (Nat.le_refl _), hu]
  exact revertTo_stop _ _ (Nat.le_refl _)

theorem ensure_good (s : St) (a : Nat) (hp : ∀ a, (s.acct a).present = false → s.acct a = Acct.absent) :
    Good s (ensure s a) := by
  unfold ensure
  by_cases hl : (s.acct a).live = true
  · simp [hl]; exact good_refl s
  · by_cases h : (s.acct a).present = true
    · simp only [hl, h, if_true]
      apply good_push1 _ _ (.resetObject a (s.acct a)) (by simp [St.push, St.setAcct])
      apply st_ext <;> simp [undo, St.setAcct, St.push, upd_upd, upd_self]
    · simp only [hl, h]
      apply good_push1 _ _ (.createObject a) (by simp [St.push, St.setAcct])
      simp only [undo, St.setAcct, St.push]
      apply st_ext <;> simp
      rw [upd_upd, ← hp a (by simpa using h), upd_self]

/-- Well-formedness of a state: an account without a state object reads as the absent account
(what `getStateObject` returns for an address that is neither loaded nor in the trie). -/
def WF (s : St) : Prop := ∀ a, (s.acct a).present = false → s.acct a = Acct.absent

theorem wf_setAcct (s : St) (a : Nat) (v : Acct) (h : WF s) (hv : v.present = true) : WF (s.setAcct a v) := by
  intro x hx
  simp only [St.setAcct, upd] at *
  by_cases e : x = a
  · simp [e, hv] at hx
  · simp only [e, if_false] at *; exact h x hx

theorem wf_push (s : St) (e : Entry) (h : WF s) : WF (s.push e) := h

theorem wf_ensure (s : St) (a : Nat) (h : WF s) : WF (ensure s a) ∧ ((ensure s a).acct a).present = true := by
  unfold ensure
  by_cases hl : (s.acct a).live = true
  · simp only [hl, if_true]
    refine ⟨h, ?_⟩
    simp [Acct.live] at hl; exact hl.1
  · by_cases hp : (s.acct a).present = true
    · simp only [hl, hp, if_true]
      exact ⟨wf_setAcct _ _ _ (wf_push _ _ h) rfl, by simp [St.setAcct, St.push]⟩
    · simp only [hl, hp]
      exact ⟨wf_setAcct _ _ _ (wf_push _ _ h) rfl, by simp [St.setAcct, St.push]⟩

/-- after `ensure`, pushing one entry that records the previous field and writing the field -/
theorem good_field (s : St) (a : Nat) (h : WF s) (e : Entry) (v : Acct)
    (hu : ∀ t : St, t.acct a = v → undo t e = t.setAcct a ((ensure s a).acct a)) :
    Good s (((ensure s a).push e).setAcct a v) := by
  apply good_trans (ensure_good s a h)
  apply good_push1 _ _ e (by simp [St.push, St.setAcct])
  rw [hu _ (by simp [St.setAcct])]
  apply st_ext <;> simp [St.setAcct, St.push, upd_upd, upd_self]

def Mut.isSuicide : Mut → Bool
  | .suicide _ => true
  | _ => false

theorem mut_good (vr : Variant) (s : St) (h : WF s) (m : Mut)
    (hv' : vr.suicideRestoresSize = true ∨ m.isSuicide = false) :
    Good s (applyMut vr s m) ∧ WF (applyMut vr s m) := by
  cases m with
  | createAccount a =>
    simp only [applyMut, createAccount]
    by_cases hp : (s.acct a).present = true
    · simp only [hp, if_true]
      refine ⟨?_, wf_setAcct _ _ _ (wf_push _ _ h) (by split <;> rfl)⟩
      apply good_push1 _ _ (.resetObject a (s.acct a)) (by simp [St.push, St.setAcct])
      apply st_ext <;> simp [undo, St.setAcct, St.push, upd_upd, upd_self]
    · simp only [hp]
      refine ⟨?_, wf_setAcct _ _ _ (wf_push _ _ h) rfl⟩
      apply good_push1 _ _ (.createObject a) (by simp [St.push, St.setAcct])
      apply st_ext <;> simp [undo, St.setAcct, St.push, upd_upd]
      rw [← h a (by simpa using hp), upd_self]
  | setBalance a v =>
    simp only [applyMut, setBalance]
    refine ⟨good_field s a h _ _ (fun t ht => by simp [undo, ht]), wf_setAcct _ _ _ (wf_push _ _ (wf_ensure s a h).1) (wf_ensure s a h).2⟩
  | addBalance a v =>
    simp only [applyMut, addBalance]
    by_cases hz : v = 0
    · simp only [hz, if_true]
      by_cases he : ((ensure s a).acct a).empty = true
      · simp only [he, if_true]
        refine ⟨good_trans (ensure_good s a h) (good_push1 _ _ (.touch a) (by simp [St.push]) (by simp [undo, St.push])), wf_push _ _ (wf_ensure s a h).1⟩
      · simp only [he]
        exact ⟨ensure_good s a h, (wf_ensure s a h).1⟩
    · simp only [hz, if_false]
      refine ⟨good_field s a h _ _ (fun t ht => by simp [undo, ht]), wf_setAcct _ _ _ (wf_push _ _ (wf_ensure s a h).1) (wf_ensure s a h).2⟩
  | subBalance a v =>
    simp only [applyMut, subBalance]
    by_cases hz : v = 0
    · simp only [hz, if_true]; exact ⟨ensure_good s a h, (wf_ensure s a h).1⟩
    · simp only [hz, if_false]
      refine ⟨good_field s a h _ _ (fun t ht => by simp [undo, ht]), wf_setAcct _ _ _ (wf_push _ _ (wf_ensure s a h).1) (wf_ensure s a h).2⟩
  | setNonce a n =>
    simp only [applyMut, setNonce]
    refine ⟨good_field s a h _ _ (fun t ht => by simp [undo, ht]), wf_setAcct _ _ _ (wf_push _ _ (wf_ensure s a h).1) (wf_ensure s a h).2⟩
  | setCode a c =>
    simp only [applyMut, setCode]
    refine ⟨good_field s a h _ _ (fun t ht => by simp [undo, ht]), wf_setAcct _ _ _ (wf_push _ _ (wf_ensure s a h).1) (wf_ensure s a h).2⟩
  | setState a k v =>
    simp only [applyMut, setState]
    by_cases he : ((ensure s a).acct a).stor k = v
    · simp only [he, if_true]; exact ⟨ensure_good s a h, (wf_ensure s a h).1⟩
    · simp only [he, if_false]
      refine ⟨good_field s a h _ _ (fun t ht => by simp [undo, ht, upd_upd, upd_self]), wf_setAcct _ _ _ (wf_push _ _ (wf_ensure s a h).1) (wf_ensure s a h).2⟩
  | suicide a =>
    have hv : vr.suicideRestoresSize = true := by
      rcases hv' with h1 | h1
      · exact h1
      · simp [Mut.isSuicide] at h1
    simp only [applyMut, suicide]
    by_cases hp : (s.acct a).live = true
    · have hpres : (s.acct a).present = true := by simp [Acct.live] at hp; exact hp.1
      simp only [hp, Bool.not_true, Bool.false_eq_true, if_false, hv, if_true]
      refine ⟨?_, wf_setAcct _ _ _ (wf_push _ _ h) hpres⟩
      apply good_push1 _ _ (.suicide a (s.acct a).suicided (s.acct a).bal (some (s.acct a).size)) (by simp [St.push, St.setAcct])
      apply st_ext <;> simp [undo, St.setAcct, St.push, upd_upd, hpres]
      funext x
      simp only [upd]
      split
      · next hx =>
        subst hx
        cases hq : s.acct x
        simp_all
      · rfl
    · have hp' : (s.acct a).live = false := by simpa using hp
      simp only [hp', Bool.not_false, if_true]; exact ⟨good_refl s, h⟩
  | addRefund g =>
    simp only [applyMut, addRefund]
    exact ⟨good_push1 _ _ (.refund s.refund) (by simp [St.push]) (by simp [undo, St.push]), h⟩
  | subRefund g =>
    simp only [applyMut, subRefund]
    exact ⟨good_push1 _ _ (.refund s.refund) (by simp [St.push]) (by simp [undo, St.push]), h⟩
  | addLog id =>
    simp only [applyMut, addLog]
    exact ⟨good_push1 _ _ .addLog (by simp [St.push]) (by simp [undo, St.push]), h⟩
  | accessAddr a =>
    simp only [applyMut, addAccessAddr]
    by_cases hp : s.accA a = true
    · simp [hp]; exact ⟨good_refl s, h⟩
    · simp only [hp]
      refine ⟨good_push1 _ _ (.accessAddr a) (by simp [St.push]) ?_, h⟩
      apply st_ext <;> simp [undo, St.push, upd_upd]
      have : s.accA a = false := by simpa using hp
      rw [← this, upd_self]
  | accessSlot a k =>
    simp only [applyMut, addAccessSlot]
    have h1 : Good s (addAccessAddr s a) ∧ WF (addAccessAddr s a) := by
      simp only [addAccessAddr]
      by_cases hp : s.accA a = true
      · simp [hp]; exact ⟨good_refl s, h⟩
      · simp only [hp]
        refine ⟨good_push1 _ _ (.accessAddr a) (by simp [St.push]) ?_, h⟩
        apply st_ext <;> simp [undo, St.push, upd_upd]
        have : s.accA a = false := by simpa using hp
        rw [← this, upd_self]
    by_cases hq : (addAccessAddr s a).accS a k = true
    · simp [hq]; exact h1
    · simp only [hq]
      refine ⟨good_trans h1.1 (good_push1 _ _ (.accessSlot a k) (by simp [St.push]) ?_), h1.2⟩
      apply st_ext <;> simp [undo, St.push]
      have : (addAccessAddr s a).accS a k = false := by simpa using hq
      rw [← this, upd2_upd2_self]
  | setTransient a k v =>
    simp only [applyMut, setTransient]
    by_cases he : s.trans a k = v
    · simp [he]; exact ⟨good_refl s, h⟩
    · simp only [he, if_false]
      refine ⟨good_push1 _ _ (.transient a k (s.trans a k)) (by simp [St.push]) ?_, h⟩
      apply st_ext <;> simp [undo, St.push, upd2_upd2_self]

mutual
def noSuicide : Prog → Bool
  | .mut m => !m.isSuicide
  | .frame body _ => noSuicideList body
def noSuicideList : List Prog → Bool
  | [] => true
  | p :: ps => noSuicide p && noSuicideList ps
end

mutual
theorem run_good (vr : Variant) :
    ∀ (p : Prog) (s : St), WF s → (vr.suicideRestoresSize = true ∨ noSuicide p = true) →
      Good s (run vr s p) ∧ WF (run vr s p)
  | .mut m, s, h, hv => by
    have hv' : vr.suicideRestoresSize = true ∨ m.isSuicide = false := by
      rcases hv with h1 | h1
      · exact Or.inl h1
      · right; simpa [noSuicide] using h1
    simpa [run] using mut_good vr s h m hv'
  | .frame body rv, s, h, hv => by
    have hb := runList_good vr body s h (by simpa [noSuicide] using hv)
    simp only [run]
    by_cases r : rv = true
    · simp only [r, if_true, hb.1.2]; exact ⟨good_refl s, h⟩
    · simp only [r]; exact hb
theorem runList_good (vr : Variant) :
    ∀ (ps : List Prog) (s : St), WF s → (vr.suicideRestoresSize = true ∨ noSuicideList ps = true) →
      Good s (runList vr s ps) ∧ WF (runList vr s ps)
  | [], s, h, _ => by simp only [runList]; exact ⟨good_refl s, h⟩
  | p :: ps, s, h, hv => by
    have hv1 : vr.suicideRestoresSize = true ∨ noSuicide p = true := by
      rcases hv with h1 | h1
      · exact Or.inl h1
      · right; simp [noSuicideList] at h1; exact h1.1
    have hv2 : vr.suicideRestoresSize = true ∨ noSuicideList ps = true := by
      rcases hv with h1 | h1
      · exact Or.inl h1
      · right; simp [noSuicideList] at h1; exact h1.2
    have h1 := run_good vr p s h hv1
    have h2 := runList_good vr ps (run vr s p) h1.2 hv2
    simp only [runList]
    exact ⟨good_trans h1.1 h2.1, h2.2⟩
end

/-- **C12 (full strength, repaired variant).** For every well-formed state and every frame body —
any sequence of state mutations with nested frames that themselves commit or revert at arbitrary
depth — a frame that reverts leaves the state *equal* to the state at entry: balances, nonces, code,
storage, per-contract size counters, self-destruct marks, logs, refund counter, access list,
transient storage (and the journal). -/
theorem C12_reverted_frame_leaves_no_trace (vr : Variant) (hv : vr.suicideRestoresSize = true)
    (s : St) (h : WF s) (body : List Prog) : run vr s (.frame body true) = s := by
  have hb := (runList_good vr body s h (Or.inl hv)).1.2
  simp [run, hb]

/-- **C12 (sibling frames).** Effects of a sibling frame that completed successfully earlier are
untouched: running `first`, then a reverting frame, equals running `first` alone. -/
theorem C12_sibling_frames_untouched (vr : Variant) (hv : vr.suicideRestoresSize = true)
    (s : St) (h : WF s) (first body : List Prog) :
    runList vr s (first ++ [.frame body true]) = runList vr s first := by
  have hw := (runList_good vr first s h (Or.inl hv)).2
  have : ∀ (ps qs : List Prog) (s : St), runList vr s (ps ++ qs) = runList vr (runList vr s ps) qs := by
    intro ps
    induction ps with
    | nil => intro qs s; simp [runList]
    | cons p ps ih => intro qs s; simp [runList, ih]
  rw [this]
  simp only [runList]
  exact C12_reverted_frame_leaves_no_trace vr hv _ hw body

/-- the initial state is well formed, and non-trivial programs exist (non-vacuity) -/
theorem C12_init_wf : WF {} := fun _ _ => rfl

/-- **Finding S2 (unchanged tree).** With `Suicide` zeroing the size counter without journalling it,
the property fails: concrete witness (contract 1 with size 2 self-destructs inside a reverted frame). -/
theorem C12_counterexample_suicide_size :
    let s0 : St := { acct := upd (fun _ => {}) 1 { present := true, bal := 5, size := 2 } }
    ((run { suicideRestoresSize := false } s0 (.frame [.mut (.suicide 1)] true)).acct 1).size = 0
    ∧ (s0.acct 1).size = 2 := by
  simp [run, runList, applyMut, suicide, St.push, St.setAcct, upd, Acct.live]
  rw [revertTo_cons (e := .suicide 1 false 5 none) (rest := []) (hj := by simp) (h := by simp)]
  rw [revertTo_stop _ _ (by simp [undo_journal])]
  simp [undo, St.setAcct, upd]

/-- **C12 (partial, holds for the unchanged tree's variant too).** For *any* variant — in
particular the current code, where `Suicide` does not journal the size counter (finding S2) — a
reverting frame whose body performs no SELFDESTRUCT leaves no trace. What is missing for the full
statement on the current tree is exactly the `suicide` mutator (see the counterexample above). -/
theorem C12_reverted_frame_leaves_no_trace_partial (vr : Variant) (s : St) (h : WF s) (body : List Prog)
    (hn : noSuicideList body = true) : run vr s (.frame body true) = s := by
  have hb := (runList_good vr body s h (Or.inr hn)).1.2
  simp [run, hb]

/-! ### Across the transactions of a block -/

/-- the end of a transaction keeps states well formed (objects marked deleted stay objects) -/
theorem finalise_wf (s : St) (h : WF s) : WF (finalise s) := by
  unfold finalise
  by_cases hj : s.journal.isEmpty = true
  · simp [hj]; exact h
  · simp only [hj]
    intro a ha
    change (finaliseAcct s a).present = false at ha
    change finaliseAcct s a = Acct.absent
    unfold finaliseAcct at ha ⊢
    by_cases hc : deletedNow s a = true
    · have hp : (s.acct a).present = true := by
        simp only [deletedNow, Bool.and_eq_true] at hc; exact hc.1.2
      simp [hc, hp] at ha
    · simp only [hc] at ha ⊢
      exact h a (by simpa using ha)

theorem runBlock_wf (vr : Variant) (hv : vr.suicideRestoresSize = true) :
    ∀ (txs : List (List Prog)) (s : St), WF s → WF (runBlock vr s txs)
  | [], s, h => by simpa [runBlock] using h
  | tx :: txs, s, h => by
    simp only [runBlock]
    exact runBlock_wf vr hv txs _ (finalise_wf _ (runList_good vr tx s h (Or.inl hv)).2)

/-- **C12 (every transaction of a block).** After any number of earlier transactions of the same block - including
ones that self-destructed or emptied accounts, whose objects are then only *marked* deleted until the block is
committed - a frame that reverts leaves the state equal to the state at its entry.  In particular an account deleted by
an earlier transaction and re-created inside the reverted frame is deleted again afterwards, not resurrected with its
old balance. -/
theorem C12_reverted_frame_leaves_no_trace_in_any_transaction (vr : Variant) (hv : vr.suicideRestoresSize = true)
    (s : St) (h : WF s) (earlier : List (List Prog)) (before body : List Prog) :
    let s1 := runList vr (runBlock vr s earlier) before
    run vr s1 (.frame body true) = s1 := by
  intro s1
  have hw : WF s1 := (runList_good vr before _ (runBlock_wf vr hv earlier s h) (Or.inl hv)).2
  exact C12_reverted_frame_leaves_no_trace vr hv s1 hw body

/-- the end of a transaction changes no account the transaction left clean -/
theorem C12_finalise_keeps_clean_accounts (s : St) (a : Nat)
    (hc : dirty s a = false) : (finalise s).acct a = s.acct a := by
  unfold finalise
  by_cases hj : s.journal.isEmpty = true
  · simp [hj]
  · simp [hj, finaliseAcct, deletedNow, hc]

/-- non-vacuity, the history behind the statement above: account 1 (balance 5) self-destructs in the first
transaction; the second re-creates it and pays it 7 inside a frame that reverts; it is still deleted afterwards. -/
example :
    let s0 : St := { acct := upd (fun _ => {}) 1 { present := true, bal := 5 } }
    let s1 := runBlock { suicideRestoresSize := true } s0 [[.mut (.suicide 1)]]
    (s1.acct 1).live = false ∧
      ((runList { suicideRestoresSize := true } s1 [.mut (.createAccount 1), .mut (.addBalance 1 7)]).acct 1).live = true := by
  simp [runBlock, runList, run, applyMut, suicide, finalise, finaliseAcct, deletedNow, dirty, createAccount, addBalance,
    ensure, St.push, St.setAcct, upd, Acct.live, Entry.dirtied, Acct.empty]

/-! ### Tie to the current source tree (T1: regenerated facts) -/

/-- what each journal entry kind must restore (setter / field names of journal.go) -/
def expectedRestores : List (String × List String) := [
  ("balanceChange", ["setBalance"]), ("nonceChange", ["setNonce"]), ("codeChange", ["setCode"]),
  ("storageChange", ["setState"]), ("suicideChange", ["=suicided", "setBalance", "setSize"]),
  ("refundChange", ["=refund"]), ("addLogChange", ["=logs", "=logSize"]),
  ("accessListAddAccountChange", ["DeleteAddress"]), ("accessListAddSlotChange", ["DeleteSlot"]),
  ("transientStorageChange", ["setTransientState"]), ("createObjectChange", ["delete"]),
  ("resetObjectChange", ["setStateObject"])]

/-- **C12 (T1)** every journal entry kind of the current `journal.go` restores (at least) the
fields the model's `undo` restores for it — `decide` over the regenerated table. -/
theorem C12_journal_kinds_restore_expected_fields :
    expectedRestores.all (fun e => Gen.journalReverts.any (fun r => r.1 == e.1 && e.2.all (fun x => r.2.contains x))) = true := by
  decide

/-- **C12 (T1)** in the current tree a reverted SELFDESTRUCT restores the size counter, so the
full-strength theorem applies to the variant the code exhibits. -/
theorem C12_current_tree_variant : Gen.suicideRestoresSize = true := by decide

theorem C12_current_tree (s : St) (h : WF s) (body : List Prog) :
    run { suicideRestoresSize := Gen.suicideRestoresSize } s (.frame body true) = s :=
  C12_reverted_frame_leaves_no_trace _ C12_current_tree_variant s h body

/-! ### Non-vacuity: a concrete nested program whose revert is computed -/
example : let s0 : St := {}
    ((run { suicideRestoresSize := true } s0
      (.frame [.mut (.addBalance 1 7), .frame [.mut (.setState 1 2 3)] false, .mut (.addLog 4)] true)).acct 1).bal = 0 := by
  intro s0
  rw [C12_reverted_frame_leaves_no_trace _ rfl s0 C12_init_wf]

end QuaiVerif.State
