import QuaiVerif.Model.Payout
/- C13 (payout schedule part): every reward is credited exactly once, at its unlock height, never earlier, never more. -/
namespace QuaiVerif.Payout

theorem sum_filter_split (l : List Reward) (p q : Reward → Bool) (hpq : ∀ r, ¬ (p r = true ∧ q r = true)) :
    ((l.filter fun r => p r || q r).map (·.amount)).sum =
      ((l.filter p).map (·.amount)).sum + ((l.filter q).map (·.amount)).sum := by
  induction l with
  | nil => rfl
  | cons x rest ih =>
    have := hpq x
    by_cases h1 : p x = true <;> by_cases h2 : q x = true
    · exact absurd ⟨h1, h2⟩ this
    · simp [List.filter, h1, h2, ih]; omega
    · simp [List.filter, h1, h2, ih]; omega
    · simp [List.filter, h1, h2, ih]

theorem step_pred (c : Bool) (b d h : Nat) :
    (c && decide (1 ≤ b ∧ b + d ≤ h) || c && decide (1 ≤ b ∧ b + d = h + 1)) = (c && decide (1 ≤ b ∧ b + d ≤ h + 1)) := by
  cases c
  · simp
  · simp only [Bool.true_and, ← Bool.decide_or]
    apply decide_eq_decide.mpr
    omega

/-- After processing blocks 1..h a reward-only account holds exactly the rewards whose unlock height has been reached:
each one once, none before `block + depth`. -/
theorem C13_rewards_credited_exactly_when_matured (depths : List Nat) (rs : List Reward) (a : String) (h : Nat) :
    creditedUpTo depths rs a h = matured depths rs a h := by
  induction h with
  | zero =>
    simp only [creditedUpTo, matured]
    have : (rs.filter fun r => (r.addr == a && depths.contains r.depth) && decide (1 ≤ r.block ∧ r.block + r.depth ≤ 0)) = [] := by
      apply List.filter_eq_nil_iff.mpr
      intro r _
      have hn : decide (1 ≤ r.block ∧ r.block + r.depth ≤ 0) = false := decide_eq_false (by omega)
      rw [hn]; simp
    rw [this]; rfl
  | succ h ih =>
    simp only [creditedUpTo, ih, matured, creditedAt]
    rw [← sum_filter_split]
    · congr 2
      apply List.filter_congr
      intro r _
      exact step_pred _ _ _ _
    · intro r ⟨h1, h2⟩
      simp only [Bool.and_eq_true, decide_eq_true_eq] at h1 h2
      omega

/-- A reward is not credited at any height other than `block + depth`. -/
theorem C13_reward_only_at_unlock_height (depths : List Nat) (r : Reward) (a : String) (h : Nat) (hne : r.block + r.depth ≠ h) :
    creditedAt depths [r] a h = 0 := by
  have : ¬ (1 ≤ r.block ∧ r.block + r.depth = h) := by omega
  simp [creditedAt, List.filter, this]

example : creditedUpTo [3, 5] [⟨"m", 10, 2, 3⟩, ⟨"m", 7, 2, 5⟩, ⟨"x", 1, 1, 3⟩] "m" 4 = 0 ∧
          creditedUpTo [3, 5] [⟨"m", 10, 2, 3⟩, ⟨"m", 7, 2, 5⟩, ⟨"x", 1, 1, 3⟩] "m" 5 = 10 ∧
          creditedUpTo [3, 5] [⟨"m", 10, 2, 3⟩, ⟨"m", 7, 2, 5⟩, ⟨"x", 1, 1, 3⟩] "m" 9 = 17 := by decide

end QuaiVerif.Payout
