import QuaiVerif.Model.Snap
/-
C06 (cache warmth / flat state): a node that reads accounts and storage through the snapshot layers reads exactly the
content the blocks produced, however the layers have been merged since.
-/
namespace QuaiVerif.Snap

/-- **C06 (flatten preserves reads, storage).** Merging a layer into its parent changes no storage read, for any
stack below. -/
theorem C06_flatten_preserves_storage (disk : Flat) (p c : Layer) (ls : List Layer) (a k : Nat) :
    readStor disk (flatten p c :: ls) a k = readStor disk (c :: p :: ls) a k := by
  simp only [readStor, flatten]
  cases c.stor a k <;> by_cases hd : c.destruct a = true <;> cases p.stor a k <;> simp [hd]

/-- **C06 (flatten preserves reads, accounts).** -/
theorem C06_flatten_preserves_accounts (disk : Flat) (p c : Layer) (ls : List Layer) (a : Nat) :
    readAcct disk (flatten p c :: ls) a = readAcct disk (c :: p :: ls) a := by
  simp only [readAcct, flatten]
  cases c.acct a <;> by_cases hd : c.destruct a = true <;> cases p.acct a <;> simp [hd]

/-- **C06 (writing the lowest layer to disk preserves reads).** -/
theorem C06_to_disk_preserves_reads (disk : Flat) (l : Layer) (upper : List Layer) (a k : Nat) :
    readStor (toDisk disk l) upper a k = readStor disk (upper ++ [l]) a k ∧
    readAcct (toDisk disk l) upper a = readAcct disk (upper ++ [l]) a := by
  induction upper with
  | nil => simp [readStor, readAcct, toDisk]
  | cons u us ih =>
    simp only [List.cons_append, readStor, readAcct]
    constructor
    · cases u.stor a k <;> simp [ih.1]
    · cases u.acct a <;> simp [ih.2]

/-- **C06 (layers = content).** Reading through any stack of diff layers gives the content obtained by applying the
blocks in order to the disk content - what a node without snapshots computes. -/
theorem C06_layers_read_the_content (disk : Flat) (blocks : List Layer) (a k : Nat) :
    readStor disk blocks.reverse a k = (contentOf disk blocks).stor a k ∧
    readAcct disk blocks.reverse a = (contentOf disk blocks).acct a := by
  induction blocks generalizing disk with
  | nil => simp [readStor, readAcct, contentOf]
  | cons b bs ih =>
    simp only [List.reverse_cons, contentOf, List.foldl_cons]
    have h := C06_to_disk_preserves_reads disk b bs.reverse a k
    have h2 := ih (applyBlock disk b)
    simp only [contentOf] at h2
    exact ⟨by rw [← h.1]; exact h2.1, by rw [← h.2]; exact h2.2⟩

/-- **C06 (any merge of the lowest layers).** Flattening the whole stack into one layer and reading through it
equals reading through the stack. -/
theorem C06_flatten_all_preserves_reads (disk : Flat) :
    ∀ (ls : List Layer) (q : Layer), flattenAll ls = some q →
      ∀ a k, readStor disk [q] a k = readStor disk ls a k ∧ readAcct disk [q] a = readAcct disk ls a
  | [], q, h => by simp [flattenAll] at h
  | [l], q, h => by simp [flattenAll] at h; subst h; intro a k; exact ⟨rfl, rfl⟩
  | c :: p :: ls, q, h => by
    intro a k
    simp only [flattenAll] at h
    cases hq : flattenAll (p :: ls) with
    | none => cases ls <;> simp [flattenAll] at hq
              all_goals (split at hq <;> simp at hq)
    | some q' =>
      rw [hq] at h
      simp at h; subst h
      have ih := C06_flatten_all_preserves_reads disk (p :: ls) q' hq a k
      have f1 := C06_flatten_preserves_storage disk q' c [] a k
      have f2 := C06_flatten_preserves_accounts disk q' c [] a
      constructor
      · rw [f1]; simp only [readStor] at ih ⊢
        cases c.stor a k <;> simp
        split <;> simp [ih.1]
      · rw [f2]; simp only [readAcct] at ih ⊢
        cases c.acct a <;> simp
        split <;> simp [ih.2]

/-- the seeded shape (non-vacuity): an account with a slot is destructed and re-created with another slot in the next
block; after the merge the old slot reads empty, as it does through the unmerged layers. -/
example :
    let p : Layer := { acct := fun a => if a = 1 then some 7 else none, stor := fun a k => if a = 1 ∧ k = 0 then some 5 else none }
    let c : Layer := { destruct := fun a => a == 1, acct := fun a => if a = 1 then some 8 else none, stor := fun a k => if a = 1 ∧ k = 1 then some 6 else none }
    readStor {} [flatten p c] 1 0 = 0 ∧ readStor {} [flatten p c] 1 1 = 6 ∧ readStor {} [c, p] 1 0 = 0 := by
  simp [readStor, flatten]

end QuaiVerif.Snap
