import QuaiVerif.Model.Utxo
/-
C01 — Qi ledger: each output spent at most once; no Qi created from nothing.
Model: Model/Utxo.lean (ProcessQiTx check by check over the batch view of the UTXO set).
Tie: T2 area `utxo` — blocks of really signed Qi transactions through the real core.ProcessQiTx on
leveldb / pebble / memorydb batches; verdict class, fee, ETXs, gas and the final UTXO scan compared.
-/
namespace QuaiVerif.Utxo

/-- what a successful input loop guarantees -/
theorem inputs_spec (e : Env) (ins : List TxIn) :
    ∀ (a a' : InAcc), inputs e a ins = .ok a' →
      (ins.map (·.op)).Nodup ∧
      (∀ i ∈ ins, ∃ u, a.utxos i.op = some u ∧ u.lock ≤ e.height ∧ addr20 u.addr = i.pkAddr ∧ Addr.isQi i.pkAddr = true ∧ u.denom ≤ maxDenom e) ∧
      (∀ k, a'.utxos k = if k ∈ ins.map (·.op) then none else a.utxos k) ∧
      a'.total = a.total + (ins.map fun i => match a.utxos i.op with | some u => denomValue e u.denom | none => 0).sum := by
  induction ins with
  | nil => intro a a' h; simp [inputs] at h; subst h; simp
  | cons i rest ih =>
    intro a a' h
    simp only [inputs] at h
    cases hu : a.utxos i.op with
    | none => simp [hu] at h
    | some u =>
      simp only [hu] at h
      split at h; · cases h
      split at h; · cases h
      split at h; · cases h
      split at h; · cases h
      split at h; · cases h
      rename_i h0 h1 h2 h3 h4
      obtain ⟨hnd, hall, hk, ht⟩ := ih _ _ h
      simp only at hall hk ht
      -- the head outpoint is gone from the store the tail runs on, so it cannot recur
      have hnotin : i.op ∉ rest.map (·.op) := by
        intro hin
        obtain ⟨j, hj, hjo⟩ := List.mem_map.mp hin
        obtain ⟨u', hu', _⟩ := hall j hj
        rw [hjo] at hu'
        simp [updU] at hu'
      refine ⟨?_, ?_, ?_, ?_⟩
      · simp only [List.map_cons, List.nodup_cons]; exact ⟨hnotin, hnd⟩
      · intro j hj
        rcases List.mem_cons.mp hj with rfl | hj'
        · exact ⟨u, hu, by omega, by simpa using h3, by simpa using h2, by omega⟩
        · obtain ⟨u', hu', r⟩ := hall j hj'
          have hne : j.op ≠ i.op := by
            intro e1; apply hnotin; rw [← e1]; exact List.mem_map_of_mem hj'
          simp only [updU, hne, if_false] at hu'
          exact ⟨u', hu', r⟩
      · intro k
        rw [hk k]
        simp only [List.map_cons, List.mem_cons, updU]
        by_cases e1 : k = i.op
        · subst e1; simp
        · simp [e1]
      · rw [ht]
        simp only [List.map_cons, List.sum_cons, hu]
        have : (rest.map fun j => match updU a.utxos i.op none j.op with | some u => denomValue e u.denom | none => 0) =
               (rest.map fun j => match a.utxos j.op with | some u => denomValue e u.denom | none => 0) := by
          apply List.map_congr_left
          intro j hj
          have hne : j.op ≠ i.op := by
            intro e1; apply hnotin; rw [← e1]; exact List.mem_map_of_mem hj
          simp [updU, hne]
        rw [this]; omega

theorem withConvEtx_keeps (e : Env) (b : Block) (oa oa' : OutAcc) (fq rg : Nat) (h : withConvEtx e b oa fq rg = .ok oa') :
    oa'.utxos = oa.utxos ∧ oa'.total = oa.total ∧ oa'.created = oa.created ∧ oa'.convTotal = oa.convTotal ∧
    (oa'.etxs = oa.etxs ∨ ∃ x, x.kind ≠ .transfer ∧ oa'.etxs = oa.etxs ++ [x]) := by
  unfold withConvEtx at h
  split at h
  · simp at h; subst h; exact ⟨rfl, rfl, rfl, rfl, Or.inl rfl⟩
  · split at h; · cases h
    simp only at h
    split at h; · cases h
    split at h; · cases h
    split at h; · cases h
    simp at h; subst h
    refine ⟨rfl, rfl, rfl, rfl, Or.inr ⟨_, ?_, rfl⟩⟩
    simp only
    split <;> simp

theorem finish_spec (e : Env) (b : Block) (tx : QiTx) (ia : InAcc) (oa : OutAcc) (r : Result)
    (h : finish e b tx ia oa = .ok r) :
    oa.total ≤ ia.total ∧ r.fee = ia.total - oa.total ∧ r.totalIn = ia.total ∧ r.totalOut = oa.total ∧
    (e.checkSig = true → tx.sigOK = true) ∧ r.block.utxos = oa.utxos ∧ r.deleted = ia.deleted ∧ r.created = oa.created ∧
    r.converted = oa.convTotal ∧
    qiToQuai e (ia.total - oa.total) ≥ (tx.intrinsicGas + oa.etxs.length * (e.txGas + e.etxGas)) * e.baseFee := by
  unfold finish at h
  split at h; · cases h
  rename_i h1
  simp only at h
  split at h; · cases h
  rename_i h2
  split at h; · cases h
  cases hw : withConvEtx e b oa (qiToQuai e (ia.total - oa.total)) (tx.intrinsicGas + oa.etxs.length * (e.txGas + e.etxGas)) with
  | error m => simp [hw] at h
  | ok oa' =>
    simp only [hw] at h
    split at h; · cases h
    split at h; · cases h
    rename_i h5
    obtain ⟨k1, k2, k3, k4, _⟩ := withConvEtx_keeps e b oa oa' _ _ hw
    simp only [Except.ok.injEq] at h
    subst h
    refine ⟨by omega, rfl, rfl, k2, ?_, k1, rfl, k3, k4, by omega⟩
    intro hc
    simp only [hc, Bool.true_and, Bool.not_eq_true', Bool.not_eq_false'] at h5
    simpa using h5

/-- **C01 (inside one transaction)** an accepted Qi transaction names pairwise distinct outpoints, each
of which was unspent in the view it was processed on, unlocked at this height, and owned by the key the
input presents (a Qi-ledger key); with signature checking on, the aggregate signature verified for
exactly those keys; the outputs never exceed the inputs and the fee is the difference. -/
theorem C01_accepted_tx_spends_owned_unspent_once (e : Env) (b : Block) (tx : QiTx) (r : Result)
    (h : processQiTx e b tx = .ok r) :
    (tx.ins.map (·.op)).Nodup ∧
    (∀ i ∈ tx.ins, ∃ u, b.utxos i.op = some u ∧ u.lock ≤ e.height ∧ addr20 u.addr = i.pkAddr ∧ Addr.isQi i.pkAddr = true) ∧
    (e.checkSig = true → tx.sigOK = true) ∧
    r.totalOut ≤ r.totalIn ∧ r.fee = r.totalIn - r.totalOut ∧
    r.totalIn = (tx.ins.map fun i => match b.utxos i.op with | some u => denomValue e u.denom | none => 0).sum := by
  unfold processQiTx at h
  cases hp : precheck e b tx with
  | error m => simp [hp] at h
  | ok used =>
    simp only [hp] at h
    cases hi : inputs e { utxos := b.utxos, total := 0, counts := fun _ => 0, addrs := [], deleted := [] } tx.ins with
    | error m => simp [hi] at h
    | ok ia =>
      simp only [hi] at h
      split at h; · cases h
      rename_i oa ho
      obtain ⟨hnd, hall, _, ht⟩ := inputs_spec e tx.ins _ _ hi
      obtain ⟨f1, f2, f3, f4, f5, _⟩ := finish_spec e b tx ia oa r h
      refine ⟨hnd, ?_, f5, by omega, by omega, by rw [f3, ht]; simp⟩
      intro i hi'
      obtain ⟨u, hu, a1, a2, a3, _⟩ := hall i hi'
      exact ⟨u, hu, a1, a2, a3⟩

def createdVal (e : Env) (a : OutAcc) : Nat := (a.created.map fun c => denomValue e c.2.denom).sum
def etxVal (e : Env) (a : OutAcc) : Nat := (a.etxs.map fun x => denomValue e x.value).sum

/-- one output: entries are only added under the transaction's own hash, and (after the wrapping fork)
its value goes to exactly one of: a local UTXO, a transfer ETX, the aggregated conversion/wrapping amount -/
theorem classify_wrapLocal_prefork (e : Env) (tx : QiTx) (rl pl : Nat) (a : OutAcc) (idx : Nat) (o : TxOut)
    (h : classifyOut e tx rl pl a idx o = .ok .wrapLocal) : ¬ e.ptn ≥ e.wrapChangeBlock := by
  unfold classifyOut at h
  by_cases c1 : idx > e.maxOutputIndex
  · rw [if_pos c1] at h; cases h
  rw [if_neg c1] at h
  by_cases c2 : o.denom > maxDenom e
  · rw [if_pos c2] at h; cases h
  rw [if_neg c2] at h
  by_cases c3 : o.lock ≠ 0
  · rw [if_pos c3] at h; cases h
  rw [if_neg c3] at h
  by_cases c4 : a.addrs.contains (addr20 o.addr) = true
  · rw [if_pos c4] at h; cases h
  rw [if_neg c4] at h
  by_cases c5 : (decide (zoneOf o.addr = e.location) && !isQi o.addr && decide (tx.data.length = e.maxDataLen)) = true
  · rw [if_pos c5] at h
    by_cases c5a : (a.conversion && decide (addr20 o.addr ≠ a.convAddr)) = true
    · rw [if_pos c5a] at h; cases h
    · rw [if_neg c5a] at h; cases h
  rw [if_neg c5] at h
  by_cases c6 : (decide (zoneOf o.addr = e.location) && !isQi o.addr && decide (tx.data.length = 20)) = true
  · rw [if_pos c6] at h
    by_cases c6a : (!(Addr.isInChainScope tx.data e.location && Addr.isQuai (addr20 tx.data))) = true
    · rw [if_pos c6a] at h; cases h
    rw [if_neg c6a] at h
    by_cases hp : e.ptn ≥ e.wrapChangeBlock
    · rw [if_pos hp] at h; cases h
    · exact hp
  rw [if_neg c6] at h
  by_cases c7 : (!isQi o.addr) = true
  · rw [if_pos c7] at h; cases h
  rw [if_neg c7] at h
  by_cases c8 : zoneOf o.addr ≠ e.location
  · rw [if_pos c8] at h
    simp only at h
    by_cases d1 : (if commonDomCtx (zoneOf o.addr) e.location = 1 then a.etxRGas + e.txGas else a.etxRGas) > rl
    · rw [if_pos d1] at h; cases h
    rw [if_neg d1] at h
    by_cases d2 : (if commonDomCtx (zoneOf o.addr) e.location = 0 then a.etxPGas + e.txGas else a.etxPGas) > pl
    · rw [if_pos d2] at h; cases h
    rw [if_neg d2] at h
    by_cases d3 : (!e.eligible.contains ((zoneOf o.addr).getD 0 0 * 16 + (zoneOf o.addr).getD 1 0)) = true
    · rw [if_pos d3] at h; cases h
    rw [if_neg d3] at h
    by_cases d4 : a.gasPool < e.etxGas
    · rw [if_pos d4] at h; cases h
    · rw [if_neg d4] at h; cases h
  · rw [if_neg c8] at h; cases h

theorem stepOut_spec (e : Env) (tx : QiTx) (rl pl : Nat) (a a1 : OutAcc) (idx : Nat) (o : TxOut)
    (h : stepOut e tx rl pl a idx o = .ok a1) :
    (∀ k, k.1 ≠ tx.hash → a1.utxos k = a.utxos k) ∧
    a1.total = a.total + denomValue e o.denom ∧
    (e.ptn ≥ e.wrapChangeBlock →
      createdVal e a1 + etxVal e a1 + a1.convTotal = createdVal e a + etxVal e a + a.convTotal + denomValue e o.denom) ∧
    ((∀ x ∈ a.etxs, x.kind = .transfer) → ∀ x ∈ a1.etxs, x.kind = .transfer) := by
  unfold stepOut at h
  cases hc : classifyOut e tx rl pl a idx o with
  | error m => simp [hc] at h
  | ok kind =>
    simp only [hc, Except.ok.injEq] at h
    subst h
    cases kind with
    | conv => exact ⟨fun _ _ => rfl, rfl, fun _ => by simp [applyOut, createdVal, etxVal]; omega, fun hx => hx⟩
    | wrapSkip => exact ⟨fun _ _ => rfl, rfl, fun _ => by simp [applyOut, createdVal, etxVal]; omega, fun hx => hx⟩
    | wrapLocal =>
      refine ⟨?_, rfl, fun hp => absurd hp (classify_wrapLocal_prefork e tx rl pl a idx o hc), fun hx => hx⟩
      intro k hk
      simp only [applyOut, updU]
      have : ¬ k = (tx.hash, idx) := fun hh => hk (congrArg Prod.fst hh)
      simp [this]
    | etx rg pg =>
      refine ⟨fun _ _ => rfl, rfl, fun _ => by simp [applyOut, createdVal, etxVal]; omega, ?_⟩
      intro hx x hxm
      simp only [applyOut, List.mem_append, List.mem_singleton] at hxm
      rcases hxm with hxm | rfl
      · exact hx x hxm
      · rfl
    | local_ =>
      refine ⟨?_, rfl, fun _ => by simp [applyOut, createdVal, etxVal]; omega, fun hx => hx⟩
      intro k hk
      simp only [applyOut, updU]
      have : ¬ k = (tx.hash, idx) := fun hh => hk (congrArg Prod.fst hh)
      simp [this]

/-- the outputs loop only ever adds entries under the transaction's own hash, and accounts for every output's value -/
theorem outputs_spec (e : Env) (tx : QiTx) (rl pl : Nat) (outs : List TxOut) :
    ∀ (a a' : OutAcc) (idx : Nat), outputs e tx rl pl a idx outs = .ok a' →
      (∀ k, k.1 ≠ tx.hash → a'.utxos k = a.utxos k) ∧
      a'.total = a.total + (outs.map fun o => denomValue e o.denom).sum ∧
      (e.ptn ≥ e.wrapChangeBlock →
        createdVal e a' + etxVal e a' + a'.convTotal = createdVal e a + etxVal e a + a.convTotal + (outs.map fun o => denomValue e o.denom).sum) ∧
      ((∀ x ∈ a.etxs, x.kind = .transfer) → ∀ x ∈ a'.etxs, x.kind = .transfer) := by
  induction outs with
  | nil => intro a a' idx h; simp [outputs] at h; subst h; simp
  | cons o rest ih =>
    intro a a' idx h
    simp only [outputs] at h
    cases hs : stepOut e tx rl pl a idx o with
    | error m => simp [hs] at h
    | ok a1 =>
      simp only [hs] at h
      obtain ⟨s1, s2, s3, s4⟩ := stepOut_spec e tx rl pl a a1 idx o hs
      obtain ⟨r1, r2, r3, r4⟩ := ih a1 a' (idx + 1) h
      refine ⟨fun k hk => by rw [r1 k hk, s1 k hk], by rw [r2, s2]; simp; omega, ?_, fun hx => r4 (s4 hx)⟩
      intro hp
      rw [r3 hp, s3 hp]; simp; omega

theorem outputs_utxos (e : Env) (tx : QiTx) (rl pl : Nat) (outs : List TxOut) (a a' : OutAcc) (idx : Nat)
    (h : outputs e tx rl pl a idx outs = .ok a') : ∀ k, k.1 ≠ tx.hash → a'.utxos k = a.utxos k :=
  (outputs_spec e tx rl pl outs a a' idx h).1

/-- **C01 (a consumed outpoint stays consumed)** after an accepted transaction every outpoint it
consumed is absent from the view later transactions of the block (and, once the batch is written, later
blocks) read — so it cannot be consumed a second time; outpoints of other transactions are untouched. -/
theorem C01_consumed_outpoints_are_gone (e : Env) (b : Block) (tx : QiTx) (r : Result)
    (h : processQiTx e b tx = .ok r) (hfresh : ∀ i ∈ tx.ins, i.op.1 ≠ tx.hash) :
    (∀ i ∈ tx.ins, r.block.utxos i.op = none) ∧
    (∀ k, k.1 ≠ tx.hash → k ∉ tx.ins.map (·.op) → r.block.utxos k = b.utxos k) := by
  unfold processQiTx at h
  cases hp : precheck e b tx with
  | error m => simp [hp] at h
  | ok used =>
    simp only [hp] at h
    cases hi : inputs e { utxos := b.utxos, total := 0, counts := fun _ => 0, addrs := [], deleted := [] } tx.ins with
    | error m => simp [hi] at h
    | ok ia =>
      simp only [hi] at h
      split at h; · cases h
      rename_i oa ho
      obtain ⟨_, _, hk, _⟩ := inputs_spec e tx.ins _ _ hi
      obtain ⟨_, _, _, _, _, f6, _⟩ := finish_spec e b tx ia oa r h
      have hout := outputs_utxos e tx _ _ tx.outs _ _ _ ho
      simp only at hout hk
      constructor
      · intro i hi'
        rw [f6, hout i.op (hfresh i hi'), hk i.op]
        simp [List.mem_map_of_mem hi']
      · intro k hk1 hk2
        rw [f6, hout k hk1, hk k]
        simp [hk2]

/-- **C01 (across the transactions of a block)** if two transactions are accepted one after the other
on the same batch view, they consume disjoint outpoints: no output is spent twice in a block. -/
theorem C01_no_double_spend_in_block (e1 e2 : Env) (b : Block) (tx1 tx2 : QiTx) (r1 r2 : Result)
    (h1 : processQiTx e1 b tx1 = .ok r1) (h2 : processQiTx e2 r1.block tx2 = .ok r2)
    (hfresh : ∀ i ∈ tx1.ins, i.op.1 ≠ tx1.hash) :
    ∀ i ∈ tx1.ins, ∀ j ∈ tx2.ins, i.op ≠ j.op := by
  intro i hi j hj heq
  have gone := (C01_consumed_outpoints_are_gone e1 b tx1 r1 h1 hfresh).1 i hi
  obtain ⟨u, hu, _⟩ := (C01_accepted_tx_spends_owned_unspent_once e2 r1.block tx2 r2 h2).2.1 j hj
  rw [← heq, gone] at hu
  cases hu

/-- **C01 (no Qi from nothing)** for every accepted Qi transaction (after the wrapping fork) the value
consumed equals the value of the outputs created locally plus the value sent to other zones plus the
amount converted / wrapped plus the fee. -/
theorem C01_value_conservation (e : Env) (b : Block) (tx : QiTx) (r : Result)
    (h : processQiTx e b tx = .ok r) (hp : e.ptn ≥ e.wrapChangeBlock) :
    r.totalIn = (r.created.map fun c => denomValue e c.2.denom).sum +
      ((r.etxs.filter fun x => x.kind = .transfer).map fun x => denomValue e x.value).sum + r.converted + r.fee := by
  unfold processQiTx at h
  cases hpc : precheck e b tx with
  | error m => simp [hpc] at h
  | ok used =>
    simp only [hpc] at h
    cases hi : inputs e { utxos := b.utxos, total := 0, counts := fun _ => 0, addrs := [], deleted := [] } tx.ins with
    | error m => simp [hi] at h
    | ok ia =>
      simp only [hi] at h
      split at h; · cases h
      rename_i oa ho
      obtain ⟨_, o2, o3, o4⟩ := outputs_spec e tx _ _ tx.outs _ _ _ ho
      have o3' := o3 hp
      have hall : ∀ x ∈ oa.etxs, x.kind = .transfer := o4 (by simp)
      simp only [createdVal, etxVal, List.map_nil, List.sum_nil, Nat.zero_add, Nat.add_zero] at o2 o3'
      obtain ⟨f1, f2, f3, f4, _, _, _, f8, f9, _⟩ := finish_spec e b tx ia oa r h
      -- the conversion ETX appended afterwards is not a transfer; everything else is unchanged
      have hetx : (r.etxs.filter fun x => x.kind = .transfer) = oa.etxs := by
        unfold finish at h
        split at h; · cases h
        simp only at h
        split at h; · cases h
        split at h; · cases h
        cases hw : withConvEtx e b oa (qiToQuai e (ia.total - oa.total)) (tx.intrinsicGas + oa.etxs.length * (e.txGas + e.etxGas)) with
        | error m => simp [hw] at h
        | ok oa' =>
          simp only [hw] at h
          split at h; · cases h
          split at h; · cases h
          simp only [Except.ok.injEq] at h
          subst h
          simp only
          obtain ⟨_, _, _, _, hk⟩ := withConvEtx_keeps e b oa oa' _ _ hw
          have hfilt : (oa.etxs.filter fun x => decide (x.kind = .transfer)) = oa.etxs := by
            rw [List.filter_eq_self]; intro x hx; simp [hall x hx]
          rcases hk with hk | ⟨x, hx, hk⟩
          · rw [hk]; exact hfilt
          · rw [hk, List.filter_append, hfilt]; simp [hx]
      rw [hetx, f8, f9, f2, f3]
      omega

/-! ### Non-vacuity: a concrete accepted spend, and the same outpoint named twice rejected -/
def exEnv : Env where
  location := [0, 0]
  chainId := 1337
  height := 100
  gasLimit := 5000000
  ptn := 2000000
  baseFee := 1
  quaiR := 1000000
  qiR := 1
  eligible := [1]
  denoms := [1, 5, 10, 50, 100, 500, 1000, 5000, 10000, 20000, 100000, 1000000, 10000000, 100000000, 1000000000]
  wrapChangeBlock := 1570000
  kawpowFork := 1171500
  shaFork := 1755000
  holdInterval := 20000
  checkSig := true
  isFirstQiTx := false

def exOwner : Bytes := 0 :: 200 :: List.replicate 18 7
def exBlock : Block where
  utxos := updU (fun _ => none) (11, 0) (some { denom := 8, addr := exOwner, lock := 0 })
  gasPool := 5000000
  usedGas := 0
  etxRLimit := 1050000
  etxPLimit := 1050000

def exTx (ins : List TxIn) : QiTx where
  hash := 99
  chainId := 1337
  ins := ins
  outs := [{ denom := 7, addr := 0 :: 201 :: List.replicate 18 1, lock := 0 }, { denom := 6, addr := 0 :: 202 :: List.replicate 18 2, lock := 0 }]
  data := []
  intrinsicGas := 21800
  sigOK := true

example : (match processQiTx exEnv exBlock (exTx [{ op := (11, 0), pkAddr := exOwner }]) with
    | .ok r => r.fee == 4000 && r.created.length == 2 | .error _ => false) = true := by decide
example : (match processQiTx exEnv exBlock (exTx [{ op := (11, 0), pkAddr := exOwner }, { op := (11, 0), pkAddr := exOwner }]) with
    | .ok _ => "accepted" | .error m => m) = "nonexistent" := by decide

end QuaiVerif.Utxo
