import QuaiVerif.Lemmas.Pool
/-
C19 (sequential core): after every submission and every head change the pool's per-account lists satisfy the
property's invariants.  Proved on the model for all histories: the pending list is nonce-contiguous from the state
nonce, every held transaction is affordable and not stale, the replacement rule.  Area c19 runs the model in
lock-step with the real core.TxPool at quiescent points and checks the invariants (plus hash index, stats,
limits) on the real pool's own snapshot, including under concurrent submissions and head changes.
-/
namespace QuaiVerif.Pool

theorem getNonce_some {l : List Tx} {n : Nat} {t : Tx} (h : getNonce l n = some t) : t.nonce = n ∧ t ∈ l := by
  unfold getNonce at h
  have h1 := List.find?_some h
  have h2 := List.mem_of_find?_eq_some h
  exact ⟨by simpa using h1, h2⟩

theorem contig_append {s : Nat} {p : List Tx} {t : Tx} (h : Contig s p) (ht : t.nonce = s + p.length) : Contig s (p ++ [t]) := by
  induction p generalizing s with
  | nil => simpa [Contig] using ht
  | cons x rest ih =>
    obtain ⟨h1, h2⟩ := h
    refine ⟨h1, ih h2 ?_⟩
    simp at ht; omega

theorem contig_replaceIn {s : Nat} {p : List Tx} (t : Tx) (h : Contig s p) : Contig s (replaceIn p t) := by
  induction p generalizing s with
  | nil => trivial
  | cons x rest ih =>
    obtain ⟨h1, h2⟩ := h
    simp only [replaceIn, List.map_cons]
    refine ⟨?_, ih h2⟩
    split
    · rename_i e; omega
    · exact h1

theorem contig_takeReady (fuel : Nat) {s : Nat} {p q : List Tx} (h : Contig s p) :
    Contig s (takeReady fuel p q (s + p.length)).1 := by
  induction fuel generalizing p q with
  | zero => simpa [takeReady] using h
  | succ f ih =>
    simp only [takeReady]
    cases hg : getNonce q (s + p.length) with
    | none => simpa using h
    | some t =>
      have hc := contig_append h (getNonce_some hg).1
      have := ih (p := p ++ [t]) (q := q.filter (·.nonce != s + p.length)) hc
      simpa [Nat.add_assoc] using this

/-- promotion keeps the pending list contiguous from the state nonce -/
theorem contig_promote {a : Acct} (h : Contig a.stateNonce a.pending) : Contig (promote a).stateNonce (promote a).pending := by
  simp only [promote, nextNonce]
  exact contig_takeReady _ h

theorem contig_takeContig (n : Nat) (l : List Tx) : Contig n (takeContig n l).1 := by
  induction l generalizing n with
  | nil => trivial
  | cons t rest ih =>
    simp only [takeContig]
    split
    · rename_i e; exact ⟨e, ih (n + 1)⟩
    · trivial

theorem mem_filterStrict {bal : Nat} {l : List Tx} {t : Tx} (h : t ∈ (filterStrict bal l).1) : t.cost ≤ bal ∧ t ∈ l := by
  induction l with
  | nil => simp [filterStrict] at h
  | cons x rest ih =>
    simp only [filterStrict] at h
    split at h
    · rename_i hx
      rcases List.mem_cons.mp h with e | e
      · subst e; exact ⟨hx, by simp⟩
      · exact ⟨(ih e).1, List.mem_cons_of_mem _ (ih e).2⟩
    · simp at h

theorem mem_takeContig {n : Nat} {l : List Tx} {t : Tx} (h : t ∈ (takeContig n l).1) : t ∈ l := by
  induction l generalizing n with
  | nil => simp [takeContig] at h
  | cons x rest ih =>
    simp only [takeContig] at h
    split at h
    · rcases List.mem_cons.mp h with e | e
      · subst e; simp
      · exact List.mem_cons_of_mem _ (ih e)
    · simp at h

theorem addNoPromote_stateNonce (bump : Nat) (a : Acct) (t : Tx) : (addNoPromote bump a t).1.stateNonce = a.stateNonce := by
  unfold addNoPromote
  repeat' split
  all_goals rfl

theorem addNoPromote_rejected (bump : Nat) (a : Acct) (t : Tx)
    (h : (addNoPromote bump a t).2 ≠ .ok ∧ (addNoPromote bump a t).2 ≠ .replaced) : (addNoPromote bump a t).1 = a := by
  unfold addNoPromote at *
  repeat' split
  all_goals (first | rfl | (exfalso; simp_all))

/-- A submission (with the promotion it triggers) keeps the pending list nonce-contiguous from the state nonce. -/
theorem C19_add_keeps_pending_contiguous (bump : Nat) (a : Acct) (t : Tx) (h : Contig a.stateNonce a.pending) :
    Contig (add bump a t).1.stateNonce (add bump a t).1.pending := by
  unfold add addNoPromote
  split
  · exact h
  · split
    · exact h
    · split
      · exact h
      · split
        · split
          · exact contig_promote (a := { a with pending := replaceIn a.pending t }) (contig_replaceIn t h)
          · exact h
        · split
          · split
            · exact contig_promote (a := { a with queue := replaceIn a.queue t }) h
            · exact h
          · exact contig_promote (a := { a with queue := t :: a.queue }) h

/-- After any head change - whatever the pool held, whatever was re-injected - the pending list is nonce-contiguous
from the new state nonce. -/
theorem C19_reset_pending_contiguous (bump : Nat) (a : Acct) (n b : Nat) (re : List Tx) :
    Contig (reset bump a n b re).stateNonce (reset bump a n b re).pending := by
  have hs : ∀ (l : List Tx) (acc : Acct), acc.stateNonce = n →
      (l.foldl (fun acc t => (addNoPromote bump acc t).1) acc).stateNonce = n := by
    intro l
    induction l with
    | nil => intro acc h; exact h
    | cons x rest ih =>
      intro acc h
      apply ih
      rw [addNoPromote_stateNonce]; exact h
  simp only [reset]
  rw [hs re _ rfl]
  exact contig_takeContig _ _

/-- ... and every pending transaction is affordable from the new balance and not stale. -/
theorem C19_reset_pending_affordable (bump : Nat) (a : Acct) (n b : Nat) (re : List Tx) :
    ∀ t ∈ (reset bump a n b re).pending, t.cost ≤ b ∧ n ≤ t.nonce := by
  intro t ht
  simp only [reset] at ht
  have h1 := mem_takeContig ht
  have h2 := mem_filterStrict h1
  refine ⟨h2.1, ?_⟩
  have := (List.mem_filter.mp h2.2).2
  simpa using this

/-- The replacement rule: a same-nonce transaction displaces the one the pool holds only with a strictly higher
price that also meets the configured percentage bump; a result of `ok` means the nonce was free. -/
theorem C19_replacement_rule (bump : Nat) (a : Acct) (t : Tx) :
    ((add bump a t).2 = .replaced → ∃ old ∈ a.pending ++ a.queue, old.nonce = t.nonce ∧ old.price < t.price ∧
        old.price * (100 + bump) / 100 ≤ t.price) ∧
    ((add bump a t).2 = .ok → getNonce a.pending t.nonce = none ∧ getNonce a.queue t.nonce = none) := by
  unfold add addNoPromote
  split
  · simp
  · split
    · simp
    · split
      · simp
      · split
        · rename_i old hold
          split
          · rename_i hr
            simp only [replaceOK, Bool.and_eq_true, decide_eq_true_eq] at hr
            refine ⟨fun _ => ⟨old, List.mem_append_left _ (getNonce_some hold).2, (getNonce_some hold).1, hr.1, hr.2⟩, by simp⟩
          · simp
        · rename_i hp
          split
          · rename_i old hold
            split
            · rename_i hr
              simp only [replaceOK, Bool.and_eq_true, decide_eq_true_eq] at hr
              refine ⟨fun _ => ⟨old, List.mem_append_right _ (getNonce_some hold).2, (getNonce_some hold).1, hr.1, hr.2⟩, by simp⟩
            · simp
          · rename_i hq
            exact ⟨by simp, fun _ => ⟨hp, hq⟩⟩

/-- A rejected submission changes nothing. -/
theorem C19_rejected_add_is_noop (bump : Nat) (a : Acct) (t : Tx)
    (h : (add bump a t).2 ≠ .ok ∧ (add bump a t).2 ≠ .replaced) : (add bump a t).1 = a := by
  have key := addNoPromote_rejected bump a t
  unfold add at *
  cases hr : (addNoPromote bump a t).2 <;> simp only [hr] at h ⊢ <;> first | (exact key (by simp [hr])) | (simp at h)

/-- Whole histories: every reachable pool state has a contiguous pending list. -/
inductive Ev where
  | submit (t : Tx)
  | head (n b : Nat) (re : List Tx)

def apply (bump : Nat) (a : Acct) : Ev → Acct
  | .submit t => (add bump a t).1
  | .head n b re => reset bump a n b re

theorem C19_every_reachable_state_contiguous (bump : Nat) (a : Acct) (evs : List Ev) (h : Contig a.stateNonce a.pending) :
    Contig (evs.foldl (apply bump) a).stateNonce (evs.foldl (apply bump) a).pending := by
  induction evs generalizing a with
  | nil => exact h
  | cons e rest ih =>
    apply ih
    cases e with
    | submit t => exact C19_add_keeps_pending_contiguous bump a t h
    | head n b re => exact C19_reset_pending_contiguous bump a n b re

-- No nonce is held twice: in particular no transaction is both pending and queued --------------------------------

/-- A submission keeps every nonce held at most once across pending and queue. -/
theorem C19_add_keeps_nonces_unique (bump : Nat) (a : Acct) (t : Tx) (h : Uniq a) : Uniq (add bump a t).1 := by
  have h1 := uniq_addNoPromote bump t h
  unfold add
  cases hr : (addNoPromote bump a t).2 <;> simp only [hr] <;> first | exact uniq_promote h1 | exact h1

theorem uniq_fold_addNoPromote (bump : Nat) (l : List Tx) (a : Acct) (h : Uniq a) :
    Uniq (l.foldl (fun acc t => (addNoPromote bump acc t).1) a) := by
  induction l generalizing a with
  | nil => exact h
  | cons x rest ih => exact ih _ (uniq_addNoPromote bump x h)

/-- A head change (with re-injection, promotion from the new state nonce and demotion) keeps every nonce held at most
once: nothing is both pending and queued afterwards. -/
theorem C19_reset_keeps_nonces_unique (bump : Nat) (a : Acct) (n b : Nat) (re : List Tx) (h : Uniq a) :
    Uniq (reset bump a n b re) := by
  have h0 : Uniq ({ a with stateNonce := n, balance := b } : Acct) := h
  have h1 := uniq_fold_addNoPromote bump re _ h0
  intro m
  simp only [reset]
  generalize hA : (re.foldl (fun acc t => (addNoPromote bump acc t).1) { a with stateNonce := n, balance := b }) = a1 at h1 ⊢
  have hu := h1 m
  rw [cnt_append] at hu
  -- abbreviations
  generalize hq : ((a1.queue.filter (fun t => decide (n ≤ t.nonce))).filter (fun t => decide (t.cost ≤ b))) = q
  have hq1 : cnt m q ≤ cnt m a1.queue := by
    rw [← hq]
    exact Nat.le_trans (cnt_filter_le _ _ _) (cnt_filter_le _ _ _)
  have hr := cnt_takeReady q.length [] q n m
  rw [cnt_append] at hr
  simp only [List.nil_append] at hr
  generalize hR : takeReady q.length [] q n = r at hr ⊢
  have hp3 : cnt m ((sortByNonce (a1.pending ++ r.1)).filter (fun t => decide (n ≤ t.nonce))) ≤ cnt m a1.pending + cnt m r.1 := by
    refine Nat.le_trans (cnt_filter_le _ _ _) ?_
    rw [cnt_sortByNonce, cnt_append]; exact Nat.le_refl _
  have hf := cnt_filterStrict m b ((sortByNonce (a1.pending ++ r.1)).filter (fun t => decide (n ≤ t.nonce)))
  generalize hF : filterStrict b ((sortByNonce (a1.pending ++ r.1)).filter (fun t => decide (n ≤ t.nonce))) = f at hf ⊢
  have hc := congrArg (cnt m) (takeContig_append n f.1)
  rw [cnt_append] at hc
  simp only [cnt_append]
  omega

/-- Whole histories: in every reachable state no nonce is held twice (hence no transaction is both pending and
queued) and the pending list is contiguous from the state nonce. -/
theorem C19_every_reachable_state_consistent (bump : Nat) (a : Acct) (evs : List Ev)
    (h : Contig a.stateNonce a.pending) (hu : Uniq a) :
    Contig (evs.foldl (apply bump) a).stateNonce (evs.foldl (apply bump) a).pending ∧ Uniq (evs.foldl (apply bump) a) := by
  induction evs generalizing a with
  | nil => exact ⟨h, hu⟩
  | cons e rest ih =>
    apply ih
    · cases e with
      | submit t => exact C19_add_keeps_pending_contiguous bump a t h
      | head n b re => exact C19_reset_pending_contiguous bump a n b re
    · cases e with
      | submit t => exact C19_add_keeps_nonces_unique bump a t hu
      | head n b re => exact C19_reset_keeps_nonces_unique bump a n b re hu

/-- The empty pool satisfies both. -/
example : Contig ({} : Acct).stateNonce ({} : Acct).pending ∧ Uniq ({} : Acct) := ⟨trivial, fun _ => by simp [cnt]⟩

/-- Non-vacuity and the shape of the defect fixed in demoteUnexecutables: state nonce 5, pending 7, 8; a reorg
re-injects 5 (6 is no longer affordable): only 5 stays pending, 7 and 8 wait in the queue. -/
example :
    let a : Acct := { stateNonce := 7, balance := 9, pending := [⟨"t7", 7, 1, 2⟩, ⟨"t8", 8, 1, 2⟩], queue := [] }
    let r := reset 5 a 5 3 [⟨"t5", 5, 1, 2⟩, ⟨"t6", 6, 1, 4⟩]
    r.pending.map (·.id) = ["t5"] ∧ (sortByNonce r.queue).map (·.id) = ["t7", "t8"] := by decide

end QuaiVerif.Pool
