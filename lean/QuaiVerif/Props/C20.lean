import QuaiVerif.Model.Convert
import QuaiVerif.Gen.Params
/-
C20 — Quai<->Qi conversions never credit more than the rate allows; refusals refund.
Model: Model/Convert.lean.  Tie: T1 Gen/Params.lean (denomination table; fingerprint of the prime
repricing block that Model/Convert.repriced transcribes) and T2 area `conv` (real misc.QiToQuai /
QuaiToQi / FindMinDenominations / ApplyCubicDiscount on generated amounts and rates).
-/
namespace QuaiVerif.Convert

/-- **C20 (round trip at a fixed rate)** converting back and forth never yields more than was started with. -/
theorem C20_roundtrip_qi (r : Rate) (hq : 0 < r.quaiR) (x : Nat) :
    quaiToQi r (qiToQuai r x) ≤ x := by
  unfold quaiToQi qiToQuai
  by_cases hz : r.qiR = 0
  · simp [hz]
  · have h1 : r.quaiR * x / r.qiR * r.qiR ≤ r.quaiR * x := Nat.div_mul_le_self _ _
    calc r.qiR * (r.quaiR * x / r.qiR) / r.quaiR
        = (r.quaiR * x / r.qiR * r.qiR) / r.quaiR := by rw [Nat.mul_comm]
      _ ≤ (r.quaiR * x) / r.quaiR := Nat.div_le_div_right h1
      _ = x := Nat.mul_div_cancel_left x hq

theorem C20_roundtrip_quai (r : Rate) (hq : 0 < r.qiR) (y : Nat) :
    qiToQuai r (quaiToQi r y) ≤ y := by
  unfold quaiToQi qiToQuai
  by_cases hz : r.quaiR = 0
  · simp [hz]
  · have h1 : r.qiR * y / r.quaiR * r.quaiR ≤ r.qiR * y := Nat.div_mul_le_self _ _
    calc r.quaiR * (r.qiR * y / r.quaiR) / r.qiR
        = (r.qiR * y / r.quaiR * r.quaiR) / r.qiR := by rw [Nat.mul_comm]
      _ ≤ (r.qiR * y) / r.qiR := Nat.div_le_div_right h1
      _ = y := Nat.mul_div_cancel_left y hq

/-- unit conversion is monotone: a smaller repriced amount never converts to more -/
theorem C20_conversion_monotone (r : Rate) (a b : Nat) (h : a ≤ b) :
    quaiToQi r a ≤ quaiToQi r b ∧ qiToQuai r a ≤ qiToQuai r b := by
  unfold quaiToQi qiToQuai
  exact ⟨Nat.div_le_div_right (Nat.mul_le_mul_left _ h), Nat.div_le_div_right (Nat.mul_le_mul_left _ h)⟩

/-- **C20 (discounts only reduce, never below the floor)** provided the cubic discount returns at most
its argument (`D ≤ A`, the property of `ApplyCubicDiscount` checked on the real function) and the
k-quai discount only reduces (`K ≤ D`), the repriced amount lies between 10 % of the original and the
original. -/
theorem C20_repriced_bounds (p : Reprice) (hDA : p.discounted ≤ p.actual) (hKD : p.afterKQuai ≤ p.discounted) :
    p.original * 10 / 100 ≤ repriced p ∧ repriced p ≤ p.original := by
  unfold repriced
  have hfloor : p.original * 10 / 100 ≤ p.original := by omega
  have hv1 : p.original * p.discounted / p.actual ≤ p.original := by
    by_cases ha : p.actual = 0
    · simp [ha]
    · calc p.original * p.discounted / p.actual ≤ p.original * p.actual / p.actual :=
            Nat.div_le_div_right (Nat.mul_le_mul_left _ hDA)
        _ = p.original := Nat.mul_div_cancel _ (Nat.pos_of_ne_zero ha)
  have hv2 : (if (p.kQuaiApplies && p.discounted != 0) = true then
      p.original * p.discounted / p.actual * p.afterKQuai / p.discounted else p.original * p.discounted / p.actual) ≤ p.original := by
    split
    · next hc =>
      have hd : p.discounted ≠ 0 := by simp at hc; exact hc.2
      calc p.original * p.discounted / p.actual * p.afterKQuai / p.discounted
          ≤ p.original * p.discounted / p.actual * p.discounted / p.discounted :=
            Nat.div_le_div_right (Nat.mul_le_mul_left _ hKD)
        _ = p.original * p.discounted / p.actual := Nat.mul_div_cancel _ (Nat.pos_of_ne_zero hd)
        _ ≤ p.original := hv1
    · exact hv1
  simp only []
  generalize (if (p.kQuaiApplies && p.discounted != 0) = true then
      p.original * p.discounted / p.actual * p.afterKQuai / p.discounted else p.original * p.discounted / p.actual) = v2 at hv2 ⊢
  generalize p.original * 10 / 100 = fl at hfloor ⊢
  by_cases h : v2 < fl
  · simp only [h, if_true]; omega
  · simp only [h, if_false]; omega

/-- **C20 (exactly one outcome)** every conversion ETX leaves prime either as a conversion whose credit
is at most the rate value of the original amount, or as a revert carrying exactly the original; never both. -/
theorem C20_one_outcome (p : Reprice) (rev : Bool) (r : Rate) (toQi : Bool)
    (hDA : p.discounted ≤ p.actual) (hKD : p.afterKQuai ≤ p.discounted) :
    (rev = true ∧ finalize p rev r toQi = .revert p.original) ∨
    (rev = false ∧ ∃ c, finalize p rev r toQi = .conversion c ∧
        c ≤ (if toQi then quaiToQi r p.original else qiToQuai r p.original) ∧
        (if toQi then quaiToQi r (p.original * 10 / 100) else qiToQuai r (p.original * 10 / 100)) ≤ c) := by
  have hb := C20_repriced_bounds p hDA hKD
  cases rev with
  | true => left; simp [finalize]
  | false =>
    right
    refine ⟨rfl, (if toQi then quaiToQi r (repriced p) else qiToQuai r (repriced p)), by simp [finalize], ?_, ?_⟩
    · cases toQi
      · simp; exact (C20_conversion_monotone r _ _ hb.2).2
      · simp; exact (C20_conversion_monotone r _ _ hb.2).1
    · cases toQi
      · simp; exact (C20_conversion_monotone r _ _ hb.1).2
      · simp; exact (C20_conversion_monotone r _ _ hb.1).1

/-- The hypothesis `D ≤ A` of `C20_repriced_bounds` is what the current protocol (after the ConversionSlipChangeBlock
fork) provides: there D is the cubic discount *of* the block's conversion amount A.  Before that fork the discount was
taken of the running flow amount, so D could exceed A - and then a conversion is repriced above its original amount.
The real prime chain does this in that regime (known finding, area c04h). -/
theorem C20_counterexample_legacy_discount :
    ∃ p : Reprice, p.actual < p.discounted ∧ p.afterKQuai ≤ p.discounted ∧ p.original < repriced p :=
  ⟨{ original := 1000, discounted := 10000, actual := 2000, afterKQuai := 10000, kQuaiApplies := false }, by decide⟩

/-- a slippage revert happens exactly when the repriced value is below the sender's bound -/
theorem C20_slip_revert_iff (p : Reprice) (slip range : Nat) :
    slipReverts p slip range = true ↔ repriced p < p.original * (range - slip) / range := by
  simp [slipReverts]

/-! ### denominations -/

theorem findMinDenomsAux_sum (l : List (Nat × Nat)) (f : Nat → Nat) (hf : ∀ p ∈ l, f p.1 = p.2)
    (h1 : ∃ p ∈ l, p.2 = 1) (hpos : ∀ p ∈ l, 0 < p.2) :
    ∀ v, ((findMinDenomsAux l v).map fun (i, c) => c * f i).sum = v ∨ v = 0 := by
  induction l with
  | nil => obtain ⟨p, hp, _⟩ := h1; cases hp
  | cons hd rest ih =>
    obtain ⟨i, d⟩ := hd
    intro v
    have hd : f i = d := hf (i, d) (by simp)
    have hdpos : 0 < d := hpos (i, d) (by simp)
    by_cases hv : v = 0
    · right; exact hv
    · left
      simp only [findMinDenomsAux]
      by_cases hc : v / d = 0
      · simp only [hc, if_true]
        -- d > v ≥ 1 so d ≠ 1; the unit denomination is in the rest
        have hdv : v < d := by
          rcases Nat.div_eq_zero_iff.mp hc with h | h
          · omega
          · exact h
        have h1' : ∃ p ∈ rest, p.2 = 1 := by
          obtain ⟨p, hp, hp1⟩ := h1
          rcases List.mem_cons.mp hp with rfl | hp'
          · simp at hp1; omega
          · exact ⟨p, hp', hp1⟩
        rcases ih (fun p hp => hf p (by simp [hp])) h1' (fun p hp => hpos p (by simp [hp])) v with h | h
        · exact h
        · exact absurd h hv
      · simp only [hc, if_false]
        have hle : v / d * d ≤ v := Nat.div_mul_le_self v d
        by_cases hn : v - v / d * d > 0
        · simp only [hn, if_true, List.map_cons, List.sum_cons, hd]
          have hrem : v - v / d * d < d := by
            have := Nat.mod_lt v hdpos
            have hm : v % d = v - v / d * d := by
              have := Nat.div_add_mod v d
              rw [Nat.mul_comm] at this; omega
            omega
          have h1' : ∃ p ∈ rest, p.2 = 1 := by
            obtain ⟨p, hp, hp1⟩ := h1
            rcases List.mem_cons.mp hp with rfl | hp'
            · simp at hp1; subst hp1; omega
            · exact ⟨p, hp', hp1⟩
          rcases ih (fun p hp => hf p (by simp [hp])) h1' (fun p hp => hpos p (by simp [hp])) (v - v / d * d) with h | h
          · rw [h]; omega
          · omega
        · simp only [hn, if_false, List.map_cons, List.sum_cons, hd, List.map_nil, List.sum_nil]
          omega

/-- the denomination table of the current source tree contains the unit and only positive values -/
theorem C20_denominations_table_ok :
    Gen.denominations.head? = some 1 ∧ Gen.denominations.all (fun d => decide (0 < d)) = true := by decide

/-- **C20 (denominations exact)** for the denomination table of the current source, splitting any
positive amount into Qi denominations loses nothing: Σ countᵢ·denomᵢ = v. (What a destination actually
mints can be less only through the gas / output-index / trim rules, which are C13 / C01 territory.) -/
theorem C20_denominations_exact (v : Nat) (hv : 0 < v) :
    denomTotal Gen.denominations (findMinDenoms Gen.denominations v) = v := by
  have := findMinDenomsAux_sum ((Gen.denominations.zipIdx.map fun (d, i) => (i, d)).reverse)
    (fun i => Gen.denominations.getD i 0) (by decide) (by decide) (by decide) v
  rcases this with h | h
  · simpa [denomTotal, findMinDenoms] using h
  · omega

/-! ### T1: the hand-modelled prime repricing block is the code it was transcribed from -/
theorem C20_conv_pipeline_unchanged :
    Gen.convPipelineFingerprint = "a6c2cf54fadb41919fec079755f44cc72cbb77a136a727ec580cd4e4ad0b7240" := by decide

/-! ### The conversion volume of a prime block (the quantity its cubic discount is read from) -/

/-- **C20 (volume additive)** the volume of a block is the sum over its inbound ETXs: no ETX changes what another
contributes. -/
theorem C20_volume_append (r : Rate) (a b : List VolItem) : volume r (a ++ b) = volume r a + volume r b := by
  simp [volume, List.map_append, List.sum_append]

/-- **C20 (volume order independent)** it does not depend on the order in which the ETXs are listed. -/
theorem C20_volume_perm (r : Rate) (a b : List VolItem) (h : a.Perm b) : volume r a = volume r b := by
  unfold volume
  exact (h.map (volumeOf r)).sum_nat

/-- **C20 (volume counts conversions only, each at the one rate)** every Quai->Qi conversion counts with the Quai it
carries, every Qi->Quai conversion with its Qi valued at the block's rate, everything else with nothing. -/
theorem C20_volume_cons (r : Rate) (x : VolItem) (l : List VolItem) :
    volume r (x :: l) = (match x with | .toQi q => q | .toQuai u => r.quaiR * u / r.qiR | .other => 0) + volume r l := by
  cases x <;> simp [volume, volumeOf, qiToQuai]

/-! ### Non-vacuity -/
example : volume { quaiR := 7, qiR := 2 } [.toQi 100, .other, .toQuai 9, .toQi 5] = 136 := by decide

example : repriced { original := 1000, discounted := 900, actual := 1000, afterKQuai := 810, kQuaiApplies := true } = 810 := by decide
example : findMinDenoms Gen.denominations 1234567 = [(11, 1), (10, 2), (9, 1), (8, 1), (6, 4), (5, 1), (3, 1), (2, 1), (1, 1), (0, 2)] := by decide
example : denomTotal Gen.denominations (findMinDenoms Gen.denominations 1234567) = 1234567 := by decide

end QuaiVerif.Convert
