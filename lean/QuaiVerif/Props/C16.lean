import QuaiVerif.Model.Addr
/-
C16 — Every address has one zone and one ledger, respected by all state.
Model: Model/Addr.lean; tie: T2 area `addr` (all constructors / decoders / createObject / Create on
the real code).
-/
namespace QuaiVerif.Addr

/-! ### (1) zone and ledger are total functions of the 20 bytes: a partition -/

theorem C16_ledger_partition (a : Bytes) : (isQi a = true ∧ isQuai a = false) ∨ (isQi a = false ∧ isQuai a = true) := by
  unfold isQi isQuai
  generalize a.getD 1 0 = x
  by_cases h : x > 127
  · left; exact ⟨by simpa using h, by simp; omega⟩
  · right; exact ⟨by simp; omega, by simp; omega⟩

theorem C16_zone_unique (a : Bytes) (l₁ l₂ : Location) (h₁ : zoneOf a = l₁) (h₂ : zoneOf a = l₂) : l₁ = l₂ :=
  h₁ ▸ h₂ ▸ rfl

theorem fit_id (n : Nat) (b : Bytes) (h : b.length = n) : fit n b = b := by
  unfold fit; simp [h]

/-- A zone location `[r, z]` with `r, z < 16` is recovered from the prefix byte: an address whose
first byte is the node's prefix lies in exactly that zone. -/
theorem C16_zone_of_prefix (r z : Nat) (hr : r < 16) (hz : z < 16) (a : Bytes) (h : a.getD 0 0 = bytePrefix [r, z]) :
    zoneOf a = [r, z] := by
  unfold zoneOf
  rw [h]
  unfold bytePrefix
  simp only [List.getD_cons_zero, List.getD_cons_succ]
  have : (r * 16 + z) % 256 = r * 16 + z := by omega
  rw [this]
  congr 1
  · omega
  · congr 1; omega

/-! ### (2) every location-taking constructor classifies a 20-byte address identically -/

/-- `BytesToAddress`, `Bytes20ToAddress`, `HexToAddress`, `ProtoDecode`, `Scan`, `PubkeyToAddress`,
`CreateAddress(2)` all reduce to `bytesToAddress` of the 20 decoded bytes. -/
theorem C16_constructors_agree (b : Bytes) (l : Location) (h : b.length = 20) :
    (bytesToAddress b l).kind = classify b l ∧ (bytesToAddress b l).bytes = b := by
  unfold bytesToAddress classify setBytes
  exact ⟨rfl, fit_id _ _ h⟩

/-- For a zone node, an in-scope 20-byte address starts with the node's prefix byte. -/
theorem C16_internal_iff_prefix (b : Bytes) (l : Location) (h : b.length = 20) (hl : l.length = 2) :
    isInChainScope b l = true ↔ b.getD 0 0 = bytePrefix l := by
  unfold isInChainScope context
  have hctx : ¬ (if l.length ≥ 2 then 2 else if l.length ≥ 1 then 1 else 0) ≠ 2 := by simp [hl]
  simp only [hctx, if_false]
  match b, h with
  | x :: t, h =>
    have ht : t.length = 19 := by simpa using h
    simp only [List.getD_cons_zero]
    by_cases hz : fit hashLength (x :: t) = zeroAddrHash l
    · simp only [hz, if_true, true_iff]
      -- both sides are 12 zeros ++ 20 bytes; compare position 12
      unfold zeroAddrHash fit hashLength at hz
      simp [ht] at hz
      exact hz.1
    · simp only [hz, if_false]
      simp

/-- no region or prime node ever treats an address as internal -/
theorem C16_only_zones_have_internal (b : Bytes) (l : Location) (h : l.length < 2) :
    (bytesToAddress b l).kind = .external := by
  unfold bytesToAddress isInChainScope context
  have : (if l.length ≥ 2 then 2 else if l.length ≥ 1 then 1 else 0) ≠ 2 := by
    by_cases h1 : l.length ≥ 1 <;> simp [h1] <;> omega
  simp [this]

/-- The location-free decoders (RLP / JSON / text) classify for node `[0,0]`; for any other zone
they disagree with the node's own classification on that zone's addresses (recorded finding F-C16-1):
concrete witness. -/
theorem C16_counterexample_decoders_fixed_location :
    let a : Bytes := 1 :: 2 :: List.replicate 18 7
    (bytesToAddress a [0, 1]).kind = .internal ∧ (decodeNoLoc a).kind = .external := by decide

/-- and a non-20-byte input is tested on its *uncropped* first byte (finding F-C16-2): witness -/
theorem C16_counterexample_uncropped_scope_test :
    let b : Bytes := 1 :: 0 :: 5 :: List.replicate 18 0      -- 21 bytes
    (bytesToAddress b [0, 1]).kind = .internal ∧ zoneOf (bytesToAddress b [0, 1]).bytes = [0, 0] := by decide

/-! ### (3) account-state invariant -/

def AcctInv (accts : List Bytes) (l : Location) : Prop :=
  ∀ a ∈ accts, isInChainScope a l = true ∧ isQuai a = true

theorem createObject_inv (accts : List Bytes) (a : Bytes) (l : Location) (h : AcctInv accts l) :
    AcctInv (createObject accts a l) l := by
  unfold createObject
  by_cases g : createObjectGuard a l = true
  · simp only [g, if_true]
    by_cases m : a ∈ accts
    · simpa [m] using h
    · simp only [m, if_false]
      intro x hx
      rcases List.mem_cons.mp hx with hx | hx
      · subst hx
        unfold createObjectGuard at g
        simpa using g
      · exact h x hx
  · simpa [g] using h

/-- **C16(3)** starting from the empty account set, after any sequence of account creations with
arbitrary (adversarial) addresses the state holds only in-zone Quai-ledger accounts. -/
theorem C16_state_scope_invariant (l : Location) (ops : List Bytes) :
    AcctInv (ops.foldl (fun s a => createObject s a l) []) l := by
  suffices H : ∀ s, AcctInv s l → AcctInv (ops.foldl (fun s a => createObject s a l) s) l from
    H [] (fun _ h => nomatch h)
  induction ops with
  | nil => intro s h; exact h
  | cons a t ih => intro s h; exact ih _ (createObject_inv s a l h)

/-! ### (4) Qi outputs only for in-zone Qi-ledger 20-byte addresses (the guard) -/

theorem C16_utxo_guard (b : Bytes) (l : Location) (h : checkBytesInternalAndQi b l = true) :
    b.length = 20 ∧ isInChainScope b l = true ∧ isQi b = true := by
  unfold checkBytesInternalAndQi addressLength at h
  simp at h
  refine ⟨h.1.1, h.1.2, ?_⟩
  rcases C16_ledger_partition b with ⟨hq, _⟩ | ⟨_, hq⟩
  · exact hq
  · rw [hq] at h; exact absurd h.2 (by simp)

/-! ### (5) contract creation yields an in-zone Quai address or fails -/

theorem grind_sound (l : Location) (gasCost n gas : Nat) (cs : List Bytes) (a : Bytes) (g : Nat)
    (h : grind l gasCost n gas cs = some (a, g)) :
    ∃ c ∈ cs, a = setBytes c ∧ isInChainScope c l = true ∧ isQuai a = true ∧ g ≤ gas := by
  induction n generalizing gas cs with
  | zero => simp [grind] at h
  | succ n ih =>
    match cs with
    | [] => simp [grind] at h
    | c :: t =>
      unfold grind at h
      by_cases hg : gas < gasCost
      · simp [hg] at h
      · simp only [hg, if_false] at h
        by_cases hq : internalAndQuai (bytesToAddress c l) = true
        · simp only [hq, if_true, Option.some.injEq, Prod.mk.injEq] at h
          obtain ⟨ha, hg'⟩ := h
          refine ⟨c, by simp, ?_, ?_, ?_, by omega⟩
          · rw [← ha]; rfl
          · unfold internalAndQuai bytesToAddress at hq
            simp only [Bool.and_eq_true, beq_iff_eq] at hq
            by_cases hs : isInChainScope c l = true
            · exact hs
            · simp [hs] at hq
          · unfold internalAndQuai at hq
            simp only [Bool.and_eq_true] at hq
            rw [← ha]; exact hq.1
        · simp only [hq] at h
          obtain ⟨c', hc', h1, h2, h3, h4⟩ := ih (gas - gasCost) t h
          exact ⟨c', by simp [hc'], h1, h2, h3, by omega⟩

/-- **C16(5)** `Create` returns an address only if it is a Quai-ledger address derived from a
candidate that is in the node's scope; otherwise it fails (`none`). -/
theorem C16_create_in_zone_quai (l : Location) (first : Bytes) (gasCost maxA gas : Nat) (cs : List Bytes)
    (a : Bytes) (g : Nat) (h : createAddr l first gasCost maxA gas cs = some (a, g)) :
    isQuai a = true ∧ g ≤ gas ∧ ∃ c ∈ first :: cs, a = setBytes c ∧ isInChainScope c l = true := by
  unfold createAddr at h
  by_cases hq : internalAndQuai (bytesToAddress first l) = true
  · simp only [hq, if_true, Option.some.injEq, Prod.mk.injEq] at h
    obtain ⟨ha, hg⟩ := h
    unfold internalAndQuai bytesToAddress at hq
    simp only [Bool.and_eq_true, beq_iff_eq] at hq
    refine ⟨by rw [← ha]; exact hq.1, by omega, first, by simp, by rw [← ha]; rfl, ?_⟩
    by_cases hs : isInChainScope first l = true
    · exact hs
    · simp [hs] at hq
  · simp only [hq] at h
    obtain ⟨c, hc, h1, h2, h3, h4⟩ := grind_sound l gasCost maxA gas cs a g h
    exact ⟨h3, h4, c, by simp [hc], h1, h2⟩

/-! ### Non-vacuity -/
example : (bytesToAddress (1 :: 2 :: List.replicate 18 7) [0, 1]).kind = .internal := by decide
example : createObjectGuard (0 :: 5 :: List.replicate 18 1) [0, 0] = true := by decide
example : grind [0, 0] 10 3 100 [1 :: List.replicate 19 0, 0 :: 200 :: List.replicate 18 0, 0 :: 5 :: List.replicate 18 9]
    = some (0 :: 5 :: List.replicate 18 9, 70) := by decide

/-! ### Routing down the hierarchy keeps ETXs inside the addressed chain -/

/-- **C16 (a region hands a zone only what is addressed to that zone).** Every ETX a region passes down to a zone has
that zone's prefix - region and zone nibble - so nothing addressed to another region's zone of the same number gets in. -/
theorem C16_region_hands_down_only_own_zone (slice : Location) (order : Nat) (l : List (Bytes × Nat)) :
    ∀ e ∈ filterToSub slice 1 order l, zoneOf e.1 = slice := by
  intro e he
  simp only [filterToSub, List.mem_filter, keepForSub] at he
  have := he.2
  simp at this
  exact this.1

/-- **C16 (prime hands a region only what is addressed into that region).** -/
theorem C16_prime_hands_down_only_own_region (slice : Location) (order : Nat) (l : List (Bytes × Nat)) :
    ∀ e ∈ filterToSub slice 0 order l, (zoneOf e.1).getD 0 0 = slice.getD 0 0 := by
  intro e he
  simp only [filterToSub, List.mem_filter, keepForSub] at he
  simpa using he.2

/-- **C16 (no ETX is handed to two zones).** -/
theorem C16_no_etx_to_two_zones (s₁ s₂ : Location) (order : Nat) (l : List (Bytes × Nat)) (hne : s₁ ≠ s₂) :
    ∀ e ∈ filterToSub s₁ 1 order l, e ∉ filterToSub s₂ 1 order l := by
  intro e h1 h2
  have a := C16_region_hands_down_only_own_zone s₁ order l e h1
  have b := C16_region_hands_down_only_own_zone s₂ order l e h2
  exact hne (a.symm.trans b)

/-- at a prime-order block a region hands a zone everything addressed to it; otherwise exactly the standard ETXs -/
theorem C16_region_hands_down_everything_addressed (slice : Location) (l : List (Bytes × Nat)) (e : Bytes × Nat)
    (he : e ∈ l) (hz : zoneOf e.1 = slice) : e ∈ filterToSub slice 1 0 l := by
  simp [filterToSub, keepForSub, he, hz]

example : filterToSub [0, 2] 1 1 [([0x02, 1], 0), ([0x12, 1], 0), ([0x02, 1], 2)] = [([0x02, 1], 0)] := by decide

end QuaiVerif.Addr
