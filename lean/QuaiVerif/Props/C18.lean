import QuaiVerif.Lemmas.TrieInsert
import QuaiVerif.Lemmas.TrieDelete
import QuaiVerif.Lemmas.TrieCanonOps
/-
C18 — A trie's root depends only on its contents, and proofs prove exactly them.

Model: Model/Trie.lean (the Go insert / delete / get / hasher / Prove transcribed; concrete keccak and
RLP so that roots are byte-identical to the implementation's).  Tie: T2 area `trie` — every root,
lookup and proof of random histories on the real trie.Trie / SecureTrie / DeriveSha(StackTrie).
-/
namespace QuaiVerif.Trie

/-- **C18 (lookup after update)** in every well-formed trie, for all keys: after inserting `key ↦ v`
a lookup of `key` yields `v` and every other key is unaffected. -/
theorem C18_get_after_insert {t : Node} (hwf : WF t) (key : List Nat) (hk : HexKey key) (v : Bytes)
    (key' : List Nat) (hk' : HexKey key') :
    get (insert t key (.value v)) key' = if key' = key then some v else get t key' :=
  get_insert hwf key hk v key' hk'

/-- **C18 (invariant)** well-formedness is preserved by every insert (so the refinement applies to
every trie reachable from the empty one). -/
theorem C18_insert_preserves_wf {t : Node} (hwf : WF t) (key : List Nat) (hk : HexKey key) (v : Bytes) :
    WF (insert t key (.value v)) := wf_insert hwf key hk v

/-- a history of insertions -/
def runInserts (t : Node) (h : List (List Nat × Bytes)) : Node :=
  h.foldl (fun t kv => insert t kv.1 (.value kv.2)) t

/-- the abstract content after a history: last write wins -/
def content (base : List Nat → Option Bytes) (h : List (List Nat × Bytes)) : List Nat → Option Bytes :=
  h.foldl (fun f kv => fun k => if k = kv.1 then some kv.2 else f k) base

theorem runInserts_refines (h : List (List Nat × Bytes)) (hh : ∀ kv ∈ h, HexKey kv.1) :
    ∀ (t : Node), WF t → WF (runInserts t h) ∧
      ∀ key', HexKey key' → get (runInserts t h) key' = content (fun k => get t k) h key' := by
  induction h with
  | nil => intro t hwf; exact ⟨hwf, fun _ _ => rfl⟩
  | cons kv rest ih =>
    intro t hwf
    have hk : HexKey kv.1 := hh kv (by simp)
    have hwf' := wf_insert hwf kv.1 hk kv.2
    obtain ⟨h1, h2⟩ := ih (fun x hx => hh x (by simp [hx])) _ hwf'
    refine ⟨h1, ?_⟩
    intro key' hk'
    simp only [runInserts, List.foldl_cons] at h2 ⊢
    rw [h2 key' hk']
    simp only [content, List.foldl_cons]
    -- both folds start from extensionally equal functions on hex keys; generalise
    suffices H : ∀ (l : List (List Nat × Bytes)) (f g : List Nat → Option Bytes), (∀ k, HexKey k → f k = g k) →
        ∀ k, HexKey k →
          l.foldl (fun f kv => fun k => if k = kv.1 then some kv.2 else f k) f k =
          l.foldl (fun f kv => fun k => if k = kv.1 then some kv.2 else f k) g k from
      H rest _ _ (fun k hk2 => get_insert hwf kv.1 hk kv.2 k hk2) key' hk'
    intro l
    induction l with
    | nil => intro f g hfg k hk2; exact hfg k hk2
    | cons a l ihl =>
      intro f g hfg k hk2
      simp only [List.foldl_cons]
      refine ihl _ _ ?_ k hk2
      intro k' hk3
      by_cases e : k' = a.1 <;> simp [e, hfg k' hk3]

/-- **C18 (refinement to a map, every insertion history)** from the empty trie, after any sequence
of insertions with arbitrary keys (shared prefixes, one key a prefix of another before the
terminator, any lengths), every lookup returns the last value written for that key. -/
theorem C18_history_refines_map (h : List (List Nat × Bytes)) (hh : ∀ kv ∈ h, HexKey kv.1)
    (key' : List Nat) (hk' : HexKey key') :
    get (runInserts .nil h) key' = content (fun _ => none) h key' := by
  have := (runInserts_refines h hh .nil WF.nil).2 key' hk'
  simpa [get_nil] using this

/-- **C18 (content is history independent) — partial.** Two insertion histories that leave the same
last-written values give tries that agree on every lookup. What is *not* yet a Lean theorem is the
step from "same content" to "same root" (uniqueness of the canonical node structure); that step is
enforced on the implementation by the rebuild-from-content oracle of the `trie` area, and the model's
roots are compared with the implementation's byte for byte. -/
theorem C18_content_history_independent_partial (h1 h2 : List (List Nat × Bytes))
    (hh1 : ∀ kv ∈ h1, HexKey kv.1) (hh2 : ∀ kv ∈ h2, HexKey kv.1)
    (hc : ∀ k, HexKey k → content (fun _ => none) h1 k = content (fun _ => none) h2 k)
    (key' : List Nat) (hk' : HexKey key') :
    get (runInserts .nil h1) key' = get (runInserts .nil h2) key' := by
  rw [C18_history_refines_map h1 hh1 key' hk', C18_history_refines_map h2 hh2 key' hk', hc key' hk']

/-- every byte-string key in hex form is a `HexKey` (so the theorems apply to all real keys) -/
theorem C18_keyToHex_is_hexKey (k : Bytes) (hb : ∀ x ∈ k, x < 256) : HexKey (keyToHex k) := by
  refine ⟨k.flatMap fun b => [b / 16, b % 16], rfl, ?_⟩
  intro x hx
  simp only [List.mem_flatMap] at hx
  obtain ⟨b, hbk, hxb⟩ := hx
  have := hb b hbk
  simp at hxb
  rcases hxb with rfl | rfl <;> omega

/-! ### deletions -/

/-- **C18 (lookup after delete)** in every well-formed trie, for all keys: after deleting `key` a lookup of `key`
finds nothing and every other key is unaffected - through every collapse of a branch with one remaining child and
every merge of a short node with its short child. -/
theorem C18_get_after_delete {t : Node} (hwf : WF t) (key : List Nat) (hk : HexKey key) (key' : List Nat) (hk' : HexKey key') :
    get (delete t key) key' = if key' = key then none else get t key' :=
  get_delete hwf key hk key' hk'

/-- **C18 (invariant)** well-formedness is preserved by every delete. -/
theorem C18_delete_preserves_wf {t : Node} (hwf : WF t) (key : List Nat) (hk : HexKey key) : WF (delete t key) :=
  wf_delete hwf key hk

/-- a history of updates: `some v` writes, `none` deletes (Trie.Update with an empty value) -/
def runOps (t : Node) (h : List (List Nat × Option Bytes)) : Node :=
  h.foldl (fun t kv => match kv.2 with | some v => insert t kv.1 (.value v) | none => delete t kv.1) t

def contentOps (base : List Nat → Option Bytes) (h : List (List Nat × Option Bytes)) : List Nat → Option Bytes :=
  h.foldl (fun f kv => fun k => if k = kv.1 then kv.2 else f k) base

theorem runOps_refines (h : List (List Nat × Option Bytes)) (hh : ∀ kv ∈ h, HexKey kv.1) :
    ∀ (t : Node), WF t → WF (runOps t h) ∧
      ∀ key', HexKey key' → get (runOps t h) key' = contentOps (fun k => get t k) h key' := by
  induction h with
  | nil => intro t hwf; exact ⟨hwf, fun _ _ => rfl⟩
  | cons kv rest ih =>
    intro t hwf
    have hk : HexKey kv.1 := hh kv (by simp)
    -- one step
    have hstep : WF (runOps t [kv]) ∧ ∀ k, HexKey k → get (runOps t [kv]) k = if k = kv.1 then kv.2 else get t k := by
      cases hv : kv.2 with
      | some v =>
        simp only [runOps, List.foldl_cons, List.foldl_nil, hv]
        exact ⟨wf_insert hwf kv.1 hk v, fun k hk2 => get_insert hwf kv.1 hk v k hk2⟩
      | none =>
        simp only [runOps, List.foldl_cons, List.foldl_nil, hv]
        exact ⟨wf_delete hwf kv.1 hk, fun k hk2 => get_delete hwf kv.1 hk k hk2⟩
    obtain ⟨h1, h2⟩ := ih (fun x hx => hh x (by simp [hx])) _ hstep.1
    have hunf : runOps t (kv :: rest) = runOps (runOps t [kv]) rest := by simp [runOps]
    rw [hunf]
    refine ⟨h1, ?_⟩
    intro key' hk'
    rw [h2 key' hk']
    simp only [contentOps, List.foldl_cons]
    suffices H : ∀ (l : List (List Nat × Option Bytes)) (f g : List Nat → Option Bytes), (∀ k, HexKey k → f k = g k) →
        ∀ k, HexKey k →
          l.foldl (fun f kv => fun k => if k = kv.1 then kv.2 else f k) f k =
          l.foldl (fun f kv => fun k => if k = kv.1 then kv.2 else f k) g k from
      H rest _ _ (fun k hk2 => hstep.2 k hk2) key' hk'
    intro l
    induction l with
    | nil => intro f g hfg k hk2; exact hfg k hk2
    | cons a l ihl =>
      intro f g hfg k hk2
      simp only [List.foldl_cons]
      refine ihl _ _ ?_ k hk2
      intro k' hk3
      by_cases e : k' = a.1 <;> simp [e, hfg k' hk3]

/-- **C18 (refinement to a map, every history of writes and deletes)** from the empty trie, after any sequence of
insertions and deletions, every lookup returns the last value written for that key, or nothing if it was deleted
last or never written. -/
theorem C18_update_history_refines_map (h : List (List Nat × Option Bytes)) (hh : ∀ kv ∈ h, HexKey kv.1)
    (key' : List Nat) (hk' : HexKey key') :
    get (runOps .nil h) key' = contentOps (fun _ => none) h key' := by
  have := (runOps_refines h hh .nil WF.nil).2 key' hk'
  simpa [get_nil] using this

example : get (runOps .nil [(keyToHex [1, 2], some [7]), (keyToHex [1], some [8]), (keyToHex [1, 2], none)]) (keyToHex [1]) = some [8] ∧
          get (runOps .nil [(keyToHex [1, 2], some [7]), (keyToHex [1], some [8]), (keyToHex [1, 2], none)]) (keyToHex [1, 2]) = none := by
  decide

/-! ### the root depends only on the content -/

/-- every trie reachable from the empty one by writes and deletes is in canonical form -/
theorem C18_reachable_tries_canonical (h : List (List Nat × Option Bytes)) (hh : ∀ kv ∈ h, HexKey kv.1) :
    ∀ t, Canon t → Canon (runOps t h) := by
  induction h with
  | nil => intro t ht; exact ht
  | cons kv rest ih =>
    intro t ht
    have hk : HexKey kv.1 := hh kv (by simp)
    have hunf : runOps t (kv :: rest) = runOps (runOps t [kv]) rest := by simp [runOps]
    rw [hunf]
    apply ih (fun x hx => hh x (by simp [hx]))
    cases hv : kv.2 with
    | some v => simp only [runOps, List.foldl_cons, List.foldl_nil, hv]; exact canon_insert ht kv.1 hk v
    | none => simp only [runOps, List.foldl_cons, List.foldl_nil, hv]; exact canon_delete ht kv.1 hk

/-- **C18 (the tree is a function of the content)** two histories of writes and deletes that leave the same content
produce the same tree, node for node. -/
theorem C18_same_content_same_tree (h1 h2 : List (List Nat × Option Bytes))
    (hh1 : ∀ kv ∈ h1, HexKey kv.1) (hh2 : ∀ kv ∈ h2, HexKey kv.1)
    (hc : ∀ k, HexKey k → contentOps (fun _ => none) h1 k = contentOps (fun _ => none) h2 k) :
    runOps .nil h1 = runOps .nil h2 := by
  apply canon_unique (C18_reachable_tries_canonical h1 hh1 .nil Canon.nil) _ (C18_reachable_tries_canonical h2 hh2 .nil Canon.nil)
  intro k hk
  rw [C18_update_history_refines_map h1 hh1 k hk, C18_update_history_refines_map h2 hh2 k hk, hc k hk]

/-- **C18 (the root depends only on the content)** hence the same root - under the real hash function (`root`) and under
any other. -/
theorem C18_root_depends_only_on_content (h1 h2 : List (List Nat × Option Bytes))
    (hh1 : ∀ kv ∈ h1, HexKey kv.1) (hh2 : ∀ kv ∈ h2, HexKey kv.1)
    (hc : ∀ k, HexKey k → contentOps (fun _ => none) h1 k = contentOps (fun _ => none) h2 k) :
    root (runOps .nil h1) = root (runOps .nil h2) ∧ ∀ H, rootWith H (runOps .nil h1) = rootWith H (runOps .nil h2) := by
  rw [C18_same_content_same_tree h1 h2 hh1 hh2 hc]
  exact ⟨rfl, fun _ => rfl⟩

example : runOps .nil [(keyToHex [1, 2], some [7]), (keyToHex [1], some [8]), (keyToHex [3], some [9]), (keyToHex [1, 2], none)] =
          runOps .nil [(keyToHex [3], some [9]), (keyToHex [1], some [8])] := by
  have hk : ∀ b : Bytes, (∀ x ∈ b, x < 256) → HexKey (keyToHex b) := C18_keyToHex_is_hexKey
  have d1 : keyToHex [1] ≠ keyToHex [1, 2] := by decide
  have d2 : keyToHex [3] ≠ keyToHex [1, 2] := by decide
  have d3 : keyToHex [1] ≠ keyToHex [3] := by decide
  apply C18_same_content_same_tree
  · intro kv hkv
    simp only [List.mem_cons, List.mem_nil_iff, or_false] at hkv
    rcases hkv with rfl | rfl | rfl | rfl <;> exact hk _ (by decide)
  · intro kv hkv
    simp only [List.mem_cons, List.mem_nil_iff, or_false] at hkv
    rcases hkv with rfl | rfl <;> exact hk _ (by decide)
  · intro k _
    simp only [contentOps, List.foldl_cons, List.foldl_nil]
    by_cases e1 : k = keyToHex [1, 2]
    · subst e1; simp [d1.symm, d2.symm]
    · by_cases e2 : k = keyToHex [3]
      · subst e2; simp [e1, d3.symm]
      · by_cases e3 : k = keyToHex [1]
        · subst e3; simp [e1, e2]
        · simp [e1, e2, e3]

/-! ### Non-vacuity: a concrete history with a shared prefix and a key that is a prefix of another -/
example : get (runInserts .nil [(keyToHex [1, 2], [7]), (keyToHex [1], [8]), (keyToHex [1, 2], [9])]) (keyToHex [1, 2]) = some [9] := by
  decide
example : get (runInserts .nil [(keyToHex [1, 2], [7]), (keyToHex [1], [8])]) (keyToHex [1]) = some [8] := by decide

end QuaiVerif.Trie
