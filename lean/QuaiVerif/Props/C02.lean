import QuaiVerif.Model.Value
/-
C02 — Quai ledger: executing a transaction never creates value.
Model: Model/Value.lean (value skeleton of nested call frames).  Tie: T2 area `evm` (`vtree` ops: the same
frame trees run by the real interpreter; every account balance and the ETX cache compared) and T3 (sum of
balances before/after real executions incl. core.ApplyMessage gas charge bounds).
-/
namespace QuaiVerif.Value

/-- total balance over a finite universe of accounts -/
def tot (U : List Nat) (bal : Nat → Nat) : Nat := (U.map bal).sum

theorem tot_upd_notin (U : List Nat) (bal : Nat → Nat) (a v : Nat) (h : a ∉ U) : tot U (upd bal a v) = tot U bal := by
  unfold tot
  congr 1
  apply List.map_congr_left
  intro x hx
  have : x ≠ a := fun e => h (e ▸ hx)
  simp [upd, this]

theorem tot_upd (U : List Nat) (hU : U.Nodup) (bal : Nat → Nat) (a v : Nat) (h : a ∈ U) :
    tot U (upd bal a v) + bal a = tot U bal + v := by
  induction U with
  | nil => cases h
  | cons x t ih =>
    rw [List.nodup_cons] at hU
    simp only [tot, List.map_cons, List.sum_cons]
    by_cases e : x = a
    · subst e
      have := tot_upd_notin t bal x v hU.1
      simp only [tot] at this
      rw [this]; simp [upd]; omega
    · have hin : a ∈ t := by
        rcases List.mem_cons.mp h with h1 | h1
        · exact absurd h1.symm e
        · exact h1
      have := ih hU.2 hin
      simp only [tot] at this
      simp only [upd, e, if_false]
      omega

def etxSum (s : St) : Nat := (s.etxs.map (·.2)).sum

/-- the accounting equation relative to a starting state -/
def Acct (U : List Nat) (s0 s : St) : Prop :=
  tot U s.bal + etxSum s + s.burned + s0.minted = tot U s0.bal + etxSum s0 + s0.burned + s.minted ∧
  s0.minted ≤ s.minted

-- all addresses an item mentions are in the universe
mutual
def inU (U : List Nat) : Item → Bool
  | .emit _ => true
  | .sd b => U.contains b
  | .sub _ _ a body _ => U.contains a && inUs U body
def inUs (U : List Nat) : List Item → Bool
  | [] => true
  | it :: rest => inU U it && inUs U rest
end

theorem acct_refl (U : List Nat) (s : St) : Acct U s s := ⟨rfl, Nat.le_refl _⟩

theorem acct_trans {U : List Nat} {a b c : St} (h1 : Acct U a b) (h2 : Acct U b c) : Acct U a c := by
  obtain ⟨e1, m1⟩ := h1
  obtain ⟨e2, m2⟩ := h2
  exact ⟨by omega, by omega⟩

mutual
theorem execItem_acct (c : Cfg) (U : List Nat) (hU : U.Nodup) :
    ∀ (it : Item) (self : Nat) (static : Bool) (s : St), self ∈ U → inU U it = true →
      Acct U s (execItem c self static s it).1
  | .emit v, self, static, s, hs, _ => by
    simp only [execItem]
    split; · exact acct_refl U s
    split; · exact acct_refl U s
    rename_i h1 h2
    have hb : v ≤ s.bal self := by
      simp only [Bool.or_eq_true, decide_eq_true_eq, not_or, Nat.not_lt] at h2; exact h2.2
    have := tot_upd U hU s.bal self (s.bal self - v) hs
    refine ⟨?_, Nat.le_refl _⟩
    simp only [etxSum, List.map_append, List.sum_append, List.map_cons, List.map_nil, List.sum_cons, List.sum_nil]
    omega
  | .sd ben, self, static, s, hs, hin => by
    have hben : ben ∈ U := by simpa [inU] using hin
    simp only [execItem]
    split; · exact acct_refl U s
    by_cases hg : (!c.refundOnce || !s.suicided self) = true
    · simp only [hg, if_true]
      by_cases e : ben = self
      · subst e
        refine ⟨?_, by simp⟩
        simp only [etxSum, if_true]
        have t1 := tot_upd U hU s.bal ben (s.bal ben + s.bal ben) hs
        have t2 := tot_upd U hU (upd s.bal ben (s.bal ben + s.bal ben)) ben (upd s.bal ben (s.bal ben + s.bal ben) ben + c.refund) hs
        have t3 := tot_upd U hU (upd (upd s.bal ben (s.bal ben + s.bal ben)) ben (upd s.bal ben (s.bal ben + s.bal ben) ben + c.refund)) ben 0 hs
        simp only [upd, if_true] at t1 t2 t3 ⊢
        omega
      · refine ⟨?_, by simp⟩
        simp only [etxSum, e, if_false]
        have t1 := tot_upd U hU s.bal ben (s.bal ben + s.bal self) hben
        have t2 := tot_upd U hU (upd s.bal ben (s.bal ben + s.bal self)) ben (upd s.bal ben (s.bal ben + s.bal self) ben + c.refund) hben
        have t3 := tot_upd U hU (upd (upd s.bal ben (s.bal ben + s.bal self)) ben (upd s.bal ben (s.bal ben + s.bal self) ben + c.refund)) self 0 hs
        have hne : ¬ self = ben := fun h => e h.symm
        simp only [upd, if_true, hne, if_false] at t1 t2 t3 ⊢
        omega
    · have hg' : (!c.refundOnce || !s.suicided self) = false := by
        cases h : (!c.refundOnce || !s.suicided self) with
        | true => exact absurd h hg
        | false => rfl
      simp only [hg', Bool.false_eq_true, if_false]
      by_cases e : ben = self
      · subst e
        refine ⟨?_, by simp⟩
        simp only [etxSum, if_true]
        have t1 := tot_upd U hU s.bal ben (s.bal ben + s.bal ben) hs
        have t3 := tot_upd U hU (upd s.bal ben (s.bal ben + s.bal ben)) ben 0 hs
        simp only [upd, if_true] at t1 t3 ⊢
        omega
      · refine ⟨?_, by simp⟩
        simp only [etxSum, e, if_false]
        have t1 := tot_upd U hU s.bal ben (s.bal ben + s.bal self) hben
        have t3 := tot_upd U hU (upd s.bal ben (s.bal ben + s.bal self)) self 0 hs
        have hne : ¬ self = ben := fun h => e h.symm
        simp only [upd, if_true, hne, if_false] at t1 t3 ⊢
        omega
  | .sub kind value addr body rv, self, static, s, hs, hin => by
    have ha : addr ∈ U := by
      have : (U.contains addr && inUs U body) = true := by simpa [inU] using hin
      simp only [Bool.and_eq_true, List.contains_iff_mem] at this; exact this.1
    have hb : inUs U body = true := by
      have : (U.contains addr && inUs U body) = true := by simpa [inU] using hin
      simp only [Bool.and_eq_true] at this; exact this.2
    cases kind with
    | call =>
      simp only [execItem]
      split; · exact acct_refl U s
      split; · exact acct_refl U s
      rename_i h1 h2
      split
      · exact acct_refl U s
      · -- the transfer preserves the total; then the body
        have hv : value ≤ s.bal self := by
          by_cases hz : value = 0
          · omega
          · simp only [Bool.and_eq_true, bne_iff_ne, ne_eq, decide_eq_true_eq, not_and, Nat.not_lt] at h2
            exact h2 (by simpa using hz)
        have t1 := tot_upd U hU s.bal self (s.bal self - value) hs
        have t2 := tot_upd U hU (upd s.bal self (s.bal self - value)) addr ((upd s.bal self (s.bal self - value)) addr + value) ha
        have hstep : Acct U s { s with bal := upd (upd s.bal self (s.bal self - value)) addr ((upd s.bal self (s.bal self - value)) addr + value) } := by
          refine ⟨?_, Nat.le_refl _⟩
          simp only [etxSum]
          omega
        exact acct_trans hstep (execItems_acct c U hU body addr static _ ha hb)
    | callcode =>
      simp only [execItem]
      split; · exact acct_refl U s
      split
      · exact acct_refl U s
      · exact execItems_acct c U hU body self static s hs hb
    | delegate =>
      simp only [execItem]
      split
      · exact acct_refl U s
      · exact execItems_acct c U hU body self static s hs hb
    | static =>
      simp only [execItem]
      split
      · exact acct_refl U s
      · exact execItems_acct c U hU body addr true s ha hb
theorem execItems_acct (c : Cfg) (U : List Nat) (hU : U.Nodup) :
    ∀ (its : List Item) (self : Nat) (static : Bool) (s : St), self ∈ U → inUs U its = true →
      Acct U s (execItems c self static s its).1
  | [], _, _, s, _, _ => by simp only [execItems]; exact acct_refl U s
  | it :: rest, self, static, s, hs, hin => by
    have h1 : inU U it = true := by simp only [inUs, Bool.and_eq_true] at hin; exact hin.1
    have h2 : inUs U rest = true := by simp only [inUs, Bool.and_eq_true] at hin; exact hin.2
    have a1 := execItem_acct c U hU it self static s hs h1
    simp only [execItems]
    split
    · rename_i s1 heq
      rw [heq] at a1
      exact acct_trans a1 (execItems_acct c U hU rest self static s1 hs h2)
    · rename_i s1 heq; rw [heq] at a1; exact a1
    · rename_i s1 heq; rw [heq] at a1; exact a1
end

/-- **C02 (no value from nothing)** for every tree of call frames — CALL / CALLCODE / DELEGATECALL /
STATICCALL with any values, ETX emissions, SELFDESTRUCTs, inner frames that revert or fail — executed
from any balances: the sum of all balances afterwards plus the value carried away by the emitted ETXs
plus the value destroyed equals the sum before plus only the state-rent refunds credited. -/
theorem C02_value_accounting (c : Cfg) (U : List Nat) (hU : U.Nodup) (self : Nat) (hs : self ∈ U)
    (bal : Nat → Nat) (prog : List Item) (hin : inUs U prog = true) :
    let s0 : St := { bal := bal, etxs := [], suicided := fun _ => false, minted := 0, burned := 0 }
    let s := (execItems c self false s0 prog).1
    tot U s.bal + etxSum s + s.burned = tot U bal + s.minted := by
  intro s0 s
  have := (execItems_acct c U hU prog self false s0 hs hin).1
  simp only [etxSum, s0, List.map_nil, List.sum_nil] at this ⊢
  omega

/-- in particular the balances never sum to more than before plus the refunds -/
theorem C02_never_creates_value (c : Cfg) (U : List Nat) (hU : U.Nodup) (self : Nat) (hs : self ∈ U)
    (bal : Nat → Nat) (prog : List Item) (hin : inUs U prog = true) :
    tot U (execItems c self false { bal := bal, etxs := [], suicided := fun _ => false, minted := 0, burned := 0 } prog).1.bal +
      etxSum (execItems c self false { bal := bal, etxs := [], suicided := fun _ => false, minted := 0, burned := 0 } prog).1 ≤
    tot U bal + (execItems c self false { bal := bal, etxs := [], suicided := fun _ => false, minted := 0, burned := 0 } prog).1.minted := by
  have := C02_value_accounting c U hU self hs bal prog hin
  simp only at this
  omega

/-- **C02 (a failed frame leaves every balance unchanged)** a sub-call that fails, or that reaches its
REVERT, restores the state at its entry exactly (balances, ETXs, self-destruct marks, counters). -/
theorem C02_failed_frame_restores (c : Cfg) (self : Nat) (static : Bool) (s : St) (kind : CallKind) (value addr : Nat)
    (body : List Item) (rv : Bool)
    (hfail : ∀ ctxSelf ctxStatic s1, (execItems c ctxSelf ctxStatic s1 body).2 = .fail ∨ (rv = true ∧ (execItems c ctxSelf ctxStatic s1 body).2 = .ok)) :
    (execItem c self static s (.sub kind value addr body rv)).1 = s := by
  have key : ∀ ctxSelf ctxStatic s1,
      (decide ((execItems c ctxSelf ctxStatic s1 body).2 = .fail) || (rv && decide ((execItems c ctxSelf ctxStatic s1 body).2 = .ok))) = true := by
    intro a b s1
    rcases hfail a b s1 with h | ⟨h1, h2⟩
    · simp [h]
    · simp [h1, h2]
  cases kind with
  | call =>
    simp only [execItem]
    split; · rfl
    split; · rfl
    simp only [key, if_true]
  | callcode =>
    simp only [execItem]
    split; · rfl
    simp only [key, if_true]
  | delegate => simp only [execItem, key, if_true]
  | static => simp only [execItem, key, if_true]

/-! ### Non-vacuity -/
example : let s := (execItems { refund := 5, refundOnce := true } 1 false
      { bal := fun a => if a = 1 then 100 else 0, etxs := [], suicided := fun _ => false, minted := 0, burned := 0 }
      [.emit 10, .sub .call 20 2 [.emit 3] true]).1
    (s.bal 1, s.etxs) = (90, [(1, 10)]) := by decide

end QuaiVerif.Value
