import QuaiVerif.Model.Seal
import QuaiVerif.Gen.Seal
import QuaiVerif.Gen.Validator
/-
C08: a block is sealed only by work on exactly its contents.  Acceptance arithmetic (target = floor(2^256 /
difficulty), accept iff hash <= target) with its boundaries and monotonicity is proved on the model; that the seal
pre-image covers every consensus field of the sealed header - and, through the header hash it contains, every
field of the body header, whose roots ValidateBody ties to the body - is a theorem over tables regenerated from
SealEncode / the struct definitions.  Area c08 runs the arithmetic against the real VerifySeal / work-share
threshold on real hashes, probes every setter of both headers for an unchanged seal hash, and checks that the
KAWPOW light evaluation is a function of the full 64-bit nonce.
-/
namespace QuaiVerif.Seal

/-- An accepted seal represents at least `difficulty` expected hashes: hash * difficulty <= 2^256. -/
theorem C08_accepted_seal_is_work (h : Nat) (d : Int) (acc : verifySeal h d = .ok) : 0 < d ∧ (h : Int) * d ≤ (2 : Int) ^ 256 := by
  unfold verifySeal at acc
  split at acc
  · cases acc
  · rename_i hd
    split at acc
    · cases acc
    · rename_i hh
      have hd' : 0 < d := by omega
      refine ⟨hd', ?_⟩
      have h1 : (h : Int) ≤ (2 : Int) ^ 256 / d := by unfold target at hh; omega
      calc (h : Int) * d ≤ ((2 : Int) ^ 256 / d) * d := Int.mul_le_mul_of_nonneg_right h1 (by omega)
        _ ≤ (2 : Int) ^ 256 := Int.ediv_mul_le _ (by omega)

/-- Conversely enough work is always accepted: acceptance is exactly `hash * difficulty <= 2^256` up to rounding. -/
theorem C08_accept_iff (h : Nat) (d : Int) (hd : 0 < d) : verifySeal h d = .ok ↔ (h : Int) ≤ (2 : Int) ^ 256 / d := by
  unfold verifySeal target
  have : ¬ d ≤ 0 := by omega
  simp only [this, if_false]
  split <;> constructor <;> intro hh <;> first | rfl | omega | cases hh

/-- A seal good for a difficulty is good for every lower (positive) difficulty. -/
theorem C08_monotone_in_difficulty (h : Nat) (d d' : Int) (hd' : 0 < d') (hle : d' ≤ d) (acc : verifySeal h d = .ok) :
    verifySeal h d' = .ok := by
  have hd : 0 < d := (C08_accepted_seal_is_work h d acc).1
  rw [C08_accept_iff h d hd] at acc
  rw [C08_accept_iff h d' hd']
  rw [Int.le_ediv_iff_mul_le hd] at acc
  rw [Int.le_ediv_iff_mul_le hd']
  have h0 : (0 : Int) ≤ (h : Int) := Int.natCast_nonneg _
  calc (h : Int) * d' ≤ (h : Int) * d := Int.mul_le_mul_of_nonneg_left hle h0
    _ ≤ (2 : Int) ^ 256 := acc

/-- Boundaries: non-positive difficulty is never sealed; difficulty 1 accepts every 256-bit hash; difficulty 2^256
accepts only hashes 0 and 1; above 2^256 only the zero hash. -/
theorem C08_boundaries (h : Nat) :
    verifySeal h 0 = .invalidDifficulty ∧ verifySeal h (-1) = .invalidDifficulty ∧
    (h < 2 ^ 256 → verifySeal h 1 = .ok) ∧
    (verifySeal h ((2 : Int) ^ 256) = .ok ↔ h ≤ 1) ∧
    (verifySeal h ((2 : Int) ^ 256 + 1) = .ok ↔ h = 0) := by
  refine ⟨by simp [verifySeal], by simp [verifySeal], ?_, ?_, ?_⟩
  · intro hh
    have : (h : Int) < (2 : Int) ^ 256 := by exact_mod_cast hh
    simp [verifySeal, target]; omega
  · have e : target ((2 : Int) ^ 256) = 1 := by unfold target; exact Int.ediv_self (by decide)
    simp only [verifySeal, e]
    have : ¬ (2 : Int) ^ 256 ≤ 0 := by decide
    simp only [this, if_false]
    split <;> constructor <;> intro hh <;> first | rfl | omega | cases hh
  · have e : target ((2 : Int) ^ 256 + 1) = 0 := by
      unfold target; exact Int.ediv_eq_zero_of_lt (by decide) (by decide)
    simp only [verifySeal, e]
    have : ¬ (2 : Int) ^ 256 + 1 ≤ 0 := by decide
    simp only [this, if_false]
    split <;> constructor <;> intro hh <;> first | rfl | omega | cases hh

/-- Every sealed block is also a work share at any threshold. -/
theorem C08_seal_is_share (h : Nat) (d : Int) (bits : Nat) (acc : verifySeal h d = .ok) : isWorkShare h d bits = true := by
  have hd := (C08_accepted_seal_is_work h d acc).1
  rw [C08_accept_iff h d hd] at acc
  simp only [isWorkShare, target]
  apply decide_eq_true
  have h0 : 0 ≤ (2 : Int) ^ 256 / d := Int.ediv_nonneg (by decide) (by omega)
  have hp : (0 : Int) < (2 : Int) ^ bits := Int.pow_pos (by decide)
  have h1 : (1 : Int) ≤ (2 : Int) ^ bits := by omega
  calc (h : Int) ≤ (2 : Int) ^ 256 / d := acc
    _ = (2 : Int) ^ 256 / d * 1 := by omega
    _ ≤ (2 : Int) ^ 256 / d * (2 : Int) ^ bits := Int.mul_le_mul_of_nonneg_left h1 h0

-- T1: what the seal covers ---------------------------------------------------------------------------------------

/-- Fields of the sealed header that are deliberately not part of the seal pre-image: the nonce and mix hash are
the proof itself, the AuxPoW donor data commits to the seal hash (it cannot be inside it); the last two are caches. -/
def woNotSealed : List String := ["nonce", "mixhash", "auxpow", "powhash", "powdigest"]

/-- Every other field of WorkObjectHeader is in the seal pre-image (the share-difficulty fields from the KawPow
fork on, before which they do not exist). -/
theorem C08_seal_covers_every_consensus_field :
    Gen.woHeaderFields.all (fun f => woNotSealed.contains f || Gen.woSealKeys.contains f || Gen.woSealKeysAfterKawpow.contains f) = true := by
  decide

/-- The fields that enter the seal only after the fork are exactly the five share-difficulty fields. -/
theorem C08_only_share_fields_are_fork_gated :
    Gen.woSealKeysAfterKawpow = ["kawpowdifficulty", "scryptdiffandcount", "scryptsharetarget", "shadiffandcount", "shasharetarget"] := by
  decide

/-- The seal contains the body header's hash, and that hash covers every field of the body header (`hash` and
`sealhash` are its caches). -/
theorem C08_header_hash_covers_every_field :
    Gen.woSealKeys.contains "headerhash" = true ∧
    Gen.headerFields.all (fun f => f == "hash" || f == "sealhash" || Gen.headerSealKeys.contains f) = true := by
  decide

/-- Every slot of the seal pre-image and of the header-hash pre-image is filled from the field of the same name (a
slot filled from another field would leave its own field out of the hash while the coverage tables still look complete),
and every seal slot of the work-object header has such a source. -/
theorem C08_seal_slots_filled_from_their_own_fields :
    Gen.woSealSources.all (fun p => p.1 == p.2) = true ∧ Gen.headerSealSources.all (fun p => p.1 == p.2) = true ∧
    (Gen.woSealKeys ++ Gen.woSealKeysAfterKawpow).all (fun k => (Gen.woSealSources.map (·.1)).contains k) = true := by
  decide

/-- The body header's roots are compared with the body by ValidateBody (transactions, outbound ETXs, uncles). -/
theorem C08_roots_bind_body :
    ["TxHash", "OutboundEtxHash", "UncleHash"].all (fun f => Gen.validateBodyCompares.contains f) = true := by
  decide

example : verifySeal 5 3 = .ok ∧ verifySeal (2 ^ 255) 3 = .invalidPoW := by decide

end QuaiVerif.Seal
