import QuaiVerif.Model.Reward
/- C13 (issuance): every share gets exactly one reward, none more than the block reward, and all of them together
no more than the block reward (plus the one-unit floor per share). -/
namespace QuaiVerif.Reward

/-- one reward per share -/
theorem C13_one_reward_per_share (r : Nat) (es : List Nat) : (split r es).length = es.length := by
  simp [split]

theorem shareOf_eq (r total e : Nat) : shareOf r total e = if r * e / total = 0 then 1 else r * e / total := rfl

theorem mem_le_sum (e : Nat) (l : List Nat) (h : e ∈ l) : e ≤ l.sum := by
  induction l with
  | nil => cases h
  | cons x rest ih =>
    rcases List.mem_cons.mp h with rfl | h
    · simp
    · have := ih h; simp; omega

theorem add_div_le (a b c : Nat) : a / c + b / c ≤ (a + b) / c := by
  by_cases hc : c = 0
  · simp [hc]
  · apply (Nat.le_div_iff_mul_le (Nat.pos_of_ne_zero hc)).mpr
    have h1 := Nat.div_mul_le_self a c
    have h2 := Nat.div_mul_le_self b c
    rw [Nat.add_mul]; omega

theorem shareOf_le (r total e : Nat) (he : e ≤ total) (hr : 0 < r) : shareOf r total e ≤ r := by
  rw [shareOf_eq]
  by_cases ht : total = 0
  · simp [ht]; omega
  · have : r * e / total ≤ r := by
      calc r * e / total ≤ r * total / total := Nat.div_le_div_right (Nat.mul_le_mul_left _ he)
        _ = r := Nat.mul_div_cancel _ (Nat.pos_of_ne_zero ht)
    split <;> omega

/-- no share is paid more than the whole block reward -/
theorem C13_share_at_most_block_reward (r : Nat) (es : List Nat) (hr : 0 < r) : ∀ v ∈ split r es, v ≤ r := by
  intro v hv
  simp only [split, List.mem_map] at hv
  obtain ⟨e, he, rfl⟩ := hv
  exact shareOf_le r es.sum e (mem_le_sum e es he) hr

theorem sum_floor_le (r t : Nat) (es : List Nat) : (es.map (fun e => r * e / t)).sum ≤ r * es.sum / t := by
  induction es with
  | nil => simp
  | cons e rest ih =>
    simp only [List.map_cons, List.sum_cons, Nat.mul_add]
    calc r * e / t + (rest.map (fun e => r * e / t)).sum ≤ r * e / t + r * rest.sum / t := Nat.add_le_add_left ih _
      _ ≤ (r * e + r * rest.sum) / t := add_div_le _ _ _

/-- **C13 (no more than the block reward is issued)**: the rewards of a height add up to at most the block reward, apart
from the one-unit floor (at most one extra unit per share). -/
theorem C13_rewards_sum_at_most_block_reward (r : Nat) (es : List Nat) : (split r es).sum ≤ r + es.length := by
  have h1 : (split r es).sum ≤ (es.map (fun e => r * e / es.sum)).sum + es.length := by
    unfold split
    generalize es.sum = t
    induction es with
    | nil => simp
    | cons e rest ih =>
      simp only [List.map_cons, List.sum_cons, List.length_cons]
      have : shareOf r t e ≤ r * e / t + 1 := by rw [shareOf_eq]; split <;> omega
      omega
  have h2 := sum_floor_le r es.sum es
  have h3 : r * es.sum / es.sum ≤ r := by
    by_cases h : es.sum = 0
    · simp [h]
    · exact Nat.le_of_eq (Nat.mul_div_cancel _ (Nat.pos_of_ne_zero h))
  omega

example : split 1000 [30, 10, 10] = [600, 200, 200] ∧ split 5 [1000, 1] = [4, 1] := by decide

end QuaiVerif.Reward

namespace QuaiVerif.Reward

theorem clampDelay_ge (lt noPen since : Nat) : noPen ≤ clampDelay lt noPen since := by
  unfold clampDelay
  by_cases h1 : since > lt
  · simp only [h1, if_true]; split <;> omega
  · simp only [h1, if_false]; split <;> omega

theorem clampDelay_le (lt noPen since : Nat) (h : noPen ≤ lt) : clampDelay lt noPen since ≤ lt := by
  unfold clampDelay
  by_cases h1 : since > lt
  · simp only [h1, if_true]; split <;> omega
  · simp only [h1, if_false]; split <;> omega

/-- the discounted reward never exceeds the undiscounted one -/
theorem C13_time_discount_at_most_reward (liveSha live noPen pen div : Nat) (sha : Bool) (reward sigTime ts : Nat)
    (hp : pen ≤ div) : timeDiscount liveSha live noPen pen div sha reward sigTime ts ≤ reward := by
  unfold timeDiscount
  simp only []
  generalize (if sha = true then liveSha else live) = lt
  have hs := clampDelay_ge lt noPen ((ts + 2 ^ 32 - sigTime % 2 ^ 32) % 2 ^ 32)
  generalize clampDelay lt noPen ((ts + 2 ^ 32 - sigTime % 2 ^ 32) % 2 ^ 32) = s2 at hs
  by_cases hz : div * (lt - noPen) = 0
  · simp [hz]
  · apply Nat.div_le_of_le_mul
    have h : lt - s2 ≤ lt - noPen := by omega
    have h1 : pen * (lt - noPen) + (div - pen) * (lt - s2) ≤ div * (lt - noPen) :=
      calc pen * (lt - noPen) + (div - pen) * (lt - s2) ≤ pen * (lt - noPen) + (div - pen) * (lt - noPen) :=
            Nat.add_le_add_left (Nat.mul_le_mul_left _ h) _
        _ = (pen + (div - pen)) * (lt - noPen) := (Nat.add_mul _ _ _).symm
        _ = div * (lt - noPen) := by rw [Nat.add_sub_cancel' hp]
    calc reward * (pen * (lt - noPen) + (div - pen) * (lt - s2)) ≤ reward * (div * (lt - noPen)) := Nat.mul_le_mul_left _ h1
      _ = div * (lt - noPen) * reward := Nat.mul_comm _ _

/-- and never falls below the unlively share: `pen/div` of the reward -/
theorem C13_time_discount_at_least_floor (liveSha live noPen pen div : Nat) (sha : Bool) (reward sigTime ts : Nat)
    (hd : 0 < div) (hlt : noPen < (if sha then liveSha else live)) :
    reward * pen / div ≤ timeDiscount liveSha live noPen pen div sha reward sigTime ts := by
  unfold timeDiscount
  simp only []
  generalize (if sha = true then liveSha else live) = lt at hlt
  generalize clampDelay lt noPen ((ts + 2 ^ 32 - sigTime % 2 ^ 32) % 2 ^ 32) = s2
  have hr : 0 < lt - noPen := by omega
  have : reward * pen / div = reward * pen * (lt - noPen) / (div * (lt - noPen)) := by
    rw [Nat.mul_div_mul_right _ _ hr]
  rw [this]
  apply Nat.div_le_div_right
  calc reward * pen * (lt - noPen) = reward * (pen * (lt - noPen)) := Nat.mul_assoc _ _ _
    _ ≤ reward * (pen * (lt - noPen) + (div - pen) * (lt - s2)) := Nat.mul_le_mul_left _ (Nat.le_add_right _ _)

/-- a share that is no later than the no-penalty threshold is paid in full -/
theorem C13_time_discount_none_when_prompt (liveSha live noPen pen div : Nat) (sha : Bool) (reward sigTime ts : Nat)
    (hp : pen ≤ div) (hd : 0 < div) (hlt : noPen < (if sha then liveSha else live))
    (hprompt : (ts + 2 ^ 32 - sigTime % 2 ^ 32) % 2 ^ 32 ≤ noPen) :
    timeDiscount liveSha live noPen pen div sha reward sigTime ts = reward := by
  unfold timeDiscount
  simp only []
  generalize (if sha = true then liveSha else live) = lt at hlt
  have hc : clampDelay lt noPen ((ts + 2 ^ 32 - sigTime % 2 ^ 32) % 2 ^ 32) = noPen := by
    generalize (ts + 2 ^ 32 - sigTime % 2 ^ 32) % 2 ^ 32 = since at hprompt
    unfold clampDelay
    have h1 : ¬ since > lt := by omega
    simp only [h1, if_false]
    split <;> omega
  rw [hc]
  have : pen * (lt - noPen) + (div - pen) * (lt - noPen) = div * (lt - noPen) := by
    rw [← Nat.add_mul, Nat.add_sub_cancel' hp]
  rw [this, Nat.mul_comm]
  exact Nat.mul_div_cancel_left _ (Nat.mul_pos hd (by omega))

example : timeDiscount 30 18 3 70 100 true 1000000000 1000 1016 = 855555555 ∧
          timeDiscount 30 18 3 70 100 false 1000000000 1000 1016 = 740000000 ∧
          timeDiscount 30 18 3 70 100 true 1000000000 1000 1002 = 1000000000 := by decide

end QuaiVerif.Reward
