import QuaiVerif.Model.Reward
/- C13 (issuance): every share gets exactly one reward, none more than the block reward, and all of them together
no more than the block reward (plus the one-unit floor per share). -/
namespace QuaiVerif.Reward

/-- one reward per share -/
theorem C13_one_reward_per_share (r : Nat) (es : List Nat) : (split r es).length = es.length := by
  simp [split]

theorem shareOf_eq (r total e : Nat) : shareOf r total e = if r * e / total = 0 then 1 else r * e / total := rfl

theorem mem_le_sum (e : Nat) (l : List Nat) (h : e ∈ l) : e ≤ l.sum := by
  induction l with
  | nil => cases h
  | cons x rest ih =>
    rcases List.mem_cons.mp h with rfl | h
    · simp
    · have := ih h; simp; omega

theorem add_div_le (a b c : Nat) : a / c + b / c ≤ (a + b) / c := by
  by_cases hc : c = 0
  · simp [hc]
  · apply (Nat.le_div_iff_mul_le (Nat.pos_of_ne_zero hc)).mpr
    have h1 := Nat.div_mul_le_self a c
    have h2 := Nat.div_mul_le_self b c
    rw [Nat.add_mul]; omega

theorem shareOf_le (r total e : Nat) (he : e ≤ total) (hr : 0 < r) : shareOf r total e ≤ r := by
  rw [shareOf_eq]
  by_cases ht : total = 0
  · simp [ht]; omega
  · have : r * e / total ≤ r := by
      calc r * e / total ≤ r * total / total := Nat.div_le_div_right (Nat.mul_le_mul_left _ he)
        _ = r := Nat.mul_div_cancel _ (Nat.pos_of_ne_zero ht)
    split <;> omega

/-- no share is paid more than the whole block reward -/
theorem C13_share_at_most_block_reward (r : Nat) (es : List Nat) (hr : 0 < r) : ∀ v ∈ split r es, v ≤ r := by
  intro v hv
  simp only [split, List.mem_map] at hv
  obtain ⟨e, he, rfl⟩ := hv
  exact shareOf_le r es.sum e (mem_le_sum e es he) hr

theorem sum_floor_le (r t : Nat) (es : List Nat) : (es.map (fun e => r * e / t)).sum ≤ r * es.sum / t := by
  induction es with
  | nil => simp
  | cons e rest ih =>
    simp only [List.map_cons, List.sum_cons, Nat.mul_add]
    calc r * e / t + (rest.map (fun e => r * e / t)).sum ≤ r * e / t + r * rest.sum / t := Nat.add_le_add_left ih _
      _ ≤ (r * e + r * rest.sum) / t := add_div_le _ _ _

/-- **C13 (no more than the block reward is issued)**: the rewards of a height add up to at most the block reward, apart
from the one-unit floor (at most one extra unit per share). -/
theorem C13_rewards_sum_at_most_block_reward (r : Nat) (es : List Nat) : (split r es).sum ≤ r + es.length := by
  have h1 : (split r es).sum ≤ (es.map (fun e => r * e / es.sum)).sum + es.length := by
    unfold split
    generalize es.sum = t
    induction es with
    | nil => simp
    | cons e rest ih =>
      simp only [List.map_cons, List.sum_cons, List.length_cons]
      have : shareOf r t e ≤ r * e / t + 1 := by rw [shareOf_eq]; split <;> omega
      omega
  have h2 := sum_floor_le r es.sum es
  have h3 : r * es.sum / es.sum ≤ r := by
    by_cases h : es.sum = 0
    · simp [h]
    · exact Nat.le_of_eq (Nat.mul_div_cancel _ (Nat.pos_of_ne_zero h))
  omega

example : split 1000 [30, 10, 10] = [600, 200, 200] ∧ split 5 [1000, 1] = [4, 1] := by decide

end QuaiVerif.Reward
