import QuaiVerif.Model.Mem
import QuaiVerif.Gen.JumpTable
/-
C15 — No input can crash the node or make it use resources it did not pay for.
This file: interpreter memory is bounded by the gas paid (every opcode that can grow memory is charged the
expansion cost).  Tie: T1 Gen/JumpTable.lean (memorySize / dynamicGas per opcode, regenerated) and T2/T3
area `mem` (real interpreter runs per opcode with sizes up to 2^64; peak Memory.Len() vs. gas used; and
structure-aware fuzzing of the wire decoders under recover()).
-/
namespace QuaiVerif.Mem

theorem memCost_mono {a b : Nat} (h : a ≤ b) : memCost a ≤ memCost b := by
  unfold memCost
  have h1 : a * a ≤ b * b := Nat.mul_le_mul h h
  have h2 : a * a / 512 ≤ b * b / 512 := Nat.div_le_div_right h1
  omega

/-- invariant: what was paid for memory is the cost of the current size, and paid + left ≤ budget -/
def Inv (budget : Nat) (s : St) : Prop := s.paid = memCost s.words ∧ s.paid + s.gas ≤ budget

theorem step_inv (budget : Nat) (s s' : St) (size other : Nat) (h : Inv budget s)
    (hs : step s size true other = some s') : Inv budget s' ∧ s.words ≤ s'.words := by
  obtain ⟨hp, hb⟩ := h
  unfold step at hs
  split at hs; · cases hs
  simp only at hs
  split at hs
  · simp at hs; subst hs; exact ⟨⟨hp, by simp; omega⟩, Nat.le_refl _⟩
  · rename_i h1 h2
    simp only [if_true] at hs
    split at hs; · cases hs
    rename_i h3
    simp at hs; subst hs
    have hw : s.words ≤ toWords size := by
      simp only [Bool.or_eq_true, decide_eq_true_eq, not_or, Nat.not_le] at h2; omega
    have := memCost_mono hw
    refine ⟨⟨rfl, ?_⟩, hw⟩
    simp only
    omega

/-- **C15 (memory is paid for)** if every memory-growing instruction of a program is charged the
expansion cost, then after any prefix of its execution with gas budget `g` the memory size `w` (words)
satisfies `3w + w²/512 ≤ g`: peak memory is bounded by the gas purchased. -/
theorem C15_memory_bounded_by_gas (prog : List (Nat × Bool × Nat)) (hall : ∀ i ∈ prog, i.2.1 = true) :
    ∀ (s s' : St) (budget : Nat), Inv budget s → run s prog = some s' → memCost s'.words ≤ budget := by
  induction prog with
  | nil => intro s s' b hi hr; simp [run] at hr; subst hr; obtain ⟨h1, h2⟩ := hi; omega
  | cons i rest ih =>
    intro s s' b hi hr
    obtain ⟨size, ch, other⟩ := i
    have hch : ch = true := hall (size, ch, other) (by simp)
    subst hch
    simp only [run] at hr
    cases hst : step s size true other with
    | none => simp [hst] at hr
    | some s1 =>
      simp only [hst] at hr
      exact ih (fun j hj => hall j (by simp [hj])) s1 s' b (step_inv b s s1 size other hi hst).1 hr

/-- an uncharged memory-growing instruction breaks the bound: 2^23 words (256 MiB) for 100 gas -/
theorem C15_counterexample_uncharged :
    (run { words := 0, gas := 100, paid := 0 } [(2 ^ 28, false, 50)]).map (·.words) = some (2 ^ 23) := by
  decide

/-- **C15 (T1)** in the current jump table every opcode that declares a `memorySize` has a dynamic gas
function that charges memory expansion — except the ETX opcode (recorded finding S5, still open). -/
theorem C15_memory_ops_charged :
    (Gen.opTable.filter fun e => e.2.1 && !e.2.2).map (·.1) = ["ETX"] := by decide

/-- the opcodes that *are* charged include every classic memory opcode (the table is not vacuous) -/
theorem C15_table_nonvacuous :
    (["MLOAD", "MSTORE", "MSTORE8", "SHA3", "CALLDATACOPY", "CODECOPY", "RETURNDATACOPY", "EXTCODECOPY", "MCOPY", "LOG0", "LOG4",
      "CREATE", "CREATE2", "CALL", "CALLCODE", "DELEGATECALL", "STATICCALL", "RETURN", "REVERT"].all fun n =>
        Gen.opTable.any fun e => e.1 == n && e.2.1 && e.2.2) = true := by decide

/-- `toWordSize` never under-reports: the words cover the requested bytes (no wrap-around in the model;
the Go function must guard `size > MaxUint64-31`, checked by T3 at sizes up to 2^64-1) -/
theorem C15_words_cover_size (size : Nat) : size ≤ toWords size * 32 := by
  unfold toWords; omega

example : Inv 1000 { words := 0, gas := 1000, paid := 0 } := by simp [Inv, memCost]
example : (run { words := 0, gas := 1000, paid := 0 } [(64, true, 3), (4096, true, 3)]).map (·.words) = some 128 := by decide

end QuaiVerif.Mem
