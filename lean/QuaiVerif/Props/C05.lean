import QuaiVerif.Model.Etx
import QuaiVerif.Model.Create
import QuaiVerif.Gen.EtxExits
/-
C05 — Sending value off-chain is all-or-nothing at the origin.
Model: Model/Etx.lean. Tie: T1 Gen/EtxExits.lean (exit discipline of opETX / opConvert / CreateETX
regenerated from the source) and T2 area `evm` (real interpreter on generated contracts).
-/
namespace QuaiVerif.Etx

/-- all-or-nothing for one outcome: a status word is always produced; success ⇒ exactly one ETX
under the fresh index `cacheLen` carrying `value`, and a debit; failure ⇒ no debit, no ETX. -/
def AllOrNothing (o : Out) (value cacheLen : Nat) : Prop :=
  (o.status = some 1 ∧ (∃ g, o.etx = some (value, cacheLen, g)) ∧ o.debit ≥ value ∧ o.debit > 0) ∨
  (o.status = some 0 ∧ o.etx = none ∧ o.debit = 0)

theorem fail_aon (v n : Nat) : AllOrNothing fail v n := Or.inr ⟨rfl, rfl, rfl⟩

/-- **C05 (ETX opcode, post-fork regime).** Every execution of the ETX opcode is all-or-nothing,
and on success the debit is exactly value + (tip + feeCap)·gasLimit, covered by the balance. -/
theorem C05_opETX_all_or_nothing (c : Cfg) (i : EtxIn) (hp : c.pt ≥ c.selfDestructFork) :
    AllOrNothing (opETX c i) i.value i.cacheLen ∧
    ((opETX c i).status = some 1 → (opETX c i).debit = i.value + (i.tip + i.feeCap) * i.gasLimit ∧ (opETX c i).debit ≤ i.balance) := by
  unfold opETX
  by_cases hf : etxFails c i = true
  · simp only [hf, if_true]; exact ⟨fail_aon _ _, by simp [fail]⟩
  · simp only [hf]
    have ht : etxTotal c i = i.value + (i.tip + i.feeCap) * i.gasLimit := by simp [etxTotal, hp]
    simp only [etxFails, hp, decide_true, Bool.true_and, Bool.not_true, Bool.false_and, Bool.or_false,
      Bool.or_eq_true, decide_eq_true_eq, not_or, Bool.not_eq_true'] at hf
    obtain ⟨⟨⟨⟨⟨⟨⟨⟨⟨⟨_, _⟩, _⟩, _⟩, _⟩, _⟩, h0⟩, hb⟩, _⟩, _⟩, _⟩ := hf
    refine ⟨Or.inl ⟨rfl, ⟨_, rfl⟩, ?_, ?_⟩, fun _ => ⟨ht, ?_⟩⟩
    · show etxTotal c i ≥ i.value; rw [ht]; omega
    · show etxTotal c i > 0; omega
    · show etxTotal c i ≤ i.balance; omega

/-- **C05 (ETX opcode, any regime) — partial:** before the fork the code's uint256 arithmetic wraps,
so "debit = value + fee" needs a no-overflow hypothesis; that a status word is always pushed and that
failure means neither debit nor ETX holds in every regime. -/
theorem C05_opETX_all_or_nothing_partial (c : Cfg) (i : EtxIn) :
    ((opETX c i).status = some 1 ∧ (∃ g, (opETX c i).etx = some (i.value, i.cacheLen, g)) ∧ (opETX c i).debit ≤ i.balance) ∨
    ((opETX c i).status = some 0 ∧ (opETX c i).etx = none ∧ (opETX c i).debit = 0) := by
  unfold opETX
  by_cases hf : etxFails c i = true
  · simp only [hf, if_true]; exact Or.inr ⟨rfl, rfl, rfl⟩
  · simp only [hf]
    refine Or.inl ⟨rfl, ⟨_, rfl⟩, ?_⟩
    simp only [etxFails, Bool.or_eq_true, decide_eq_true_eq, not_or] at hf
    show etxTotal c i ≤ i.balance
    omega

/-- **C05 (CONVERT opcode).** -/
theorem C05_opConvert_all_or_nothing (c : Cfg) (i : ConvIn) (hp : c.pt ≥ c.selfDestructFork) :
    AllOrNothing (opConvert c i) i.value i.cacheLen ∧
    ((opConvert c i).status = some 1 → (opConvert c i).debit = i.value + i.gasPrice * i.gasLimit ∧ i.value ≥ c.minConv) := by
  unfold opConvert
  by_cases hf : convFails c i = true
  · simp only [hf, if_true]; exact ⟨fail_aon _ _, by simp [fail]⟩
  · simp only [hf]
    have ht : convTotal c i = i.value + i.gasPrice * i.gasLimit := by simp [convTotal, hp]
    simp only [convFails, Bool.or_eq_true, decide_eq_true_eq, not_or] at hf
    refine ⟨Or.inl ⟨rfl, ⟨_, rfl⟩, ?_, ?_⟩, fun _ => ⟨ht, ?_⟩⟩
    · show convTotal c i ≥ i.value; rw [ht]; omega
    · show convTotal c i > 0; omega
    · omega

/-- **C05 (the ETX carries the gas that was paid for).** In the post-fork regime a successful ETX / CONVERT records an
outbound transaction whose gas limit is exactly the gas-limit word the sender named and prepaid - the word fits 64 bits,
nothing is truncated.  For the ETX opcode this holds in every regime. -/
theorem C05_etx_gas_is_the_paid_gas (c : Cfg) (i : EtxIn) (h : (opETX c i).status = some 1) :
    (opETX c i).etx = some (i.value, i.cacheLen, i.gasLimit) := by
  unfold opETX at h ⊢
  by_cases hf : etxFails c i = true
  · simp [hf, fail] at h
  · simp only [hf]
    have hle : i.gasLimit ≤ maxU64 := by
      simp only [etxFails, Bool.or_eq_true, decide_eq_true_eq, not_or, Bool.and_eq_true, Bool.not_eq_true'] at hf
      by_cases hp : c.pt ≥ c.selfDestructFork
      · have := hf.1.1.1.1.1.1.1.1.1.1.1.2; simp [hp] at this; omega
      · have := hf.1.1.1.1.2; simp [hp] at this; omega
    have : i.gasLimit % 2 ^ 64 = i.gasLimit := Nat.mod_eq_of_lt (by unfold maxU64 at hle; omega)
    simp [this]

theorem C05_convert_gas_is_the_paid_gas (c : Cfg) (i : ConvIn) (hp : c.pt ≥ c.selfDestructFork)
    (h : (opConvert c i).status = some 1) : (opConvert c i).etx = some (i.value, i.cacheLen, i.gasLimit) := by
  unfold opConvert at h ⊢
  by_cases hf : convFails c i = true
  · simp [hf, fail] at h
  · simp only [hf]
    have hle : i.gasLimit ≤ maxU64 := by
      simp only [convFails, Bool.or_eq_true, decide_eq_true_eq, not_or, Bool.and_eq_true, Bool.not_eq_true'] at hf
      have := hf.1.1.1.1.1.1.1.1.2; simp [hp] at this; omega
    have : i.gasLimit % 2 ^ 64 = i.gasLimit := Nat.mod_eq_of_lt (by unfold maxU64 at hle; omega)
    simp [this]

/-- **Finding (legacy regime, CONVERT).** Before the fork the CONVERT opcode has no upper bound on the gas-limit word:
a word of 2^64 + 21000 succeeds, the sender is charged for all of it and the outbound transaction carries 21000. -/
theorem C05_counterexample_legacy_convert_gas_word :
    let c : Cfg := { pt := 10, selfDestructFork := 100, controllerKickIn := 5, kawpowFork := 1000, shaFork := 2000, holdInterval := 10,
                     txGas := 21000, etxGas := 21000, minConv := 50 }
    let i : ConvIn := { toInScope := true, toQi := true, value := 60, gasLimit := 2 ^ 64 + 21000, gasPrice := 1,
                        balance := 2 ^ 65, cacheLen := 0 }
    (opConvert c i).status = some 1 ∧ (opConvert c i).debit = 60 + (2 ^ 64 + 21000) ∧ (opConvert c i).etx = some (60, 0, 21000) := by
  decide

/-- **C05 (plain call to an out-of-scope address).** debit = value exactly. -/
theorem C05_createETX_all_or_nothing (c : Cfg) (i : CallIn) :
    ((createETX c i).status = some 1 ∧ (∃ g, (createETX c i).etx = some (i.value, i.cacheLen, g)) ∧ (createETX c i).debit = i.value ∧ i.value ≤ i.balance) ∨
    ((createETX c i).status = some 0 ∧ (createETX c i).etx = none ∧ (createETX c i).debit = 0) := by
  unfold createETX
  by_cases hf : callFails c i = true
  · simp only [hf, if_true]; exact Or.inr ⟨rfl, rfl, rfl⟩
  · simp only [hf]
    simp only [callFails, Bool.or_eq_true, decide_eq_true_eq, not_or] at hf
    exact Or.inl ⟨rfl, ⟨_, rfl⟩, rfl, by omega⟩

/-! ### The outbound set of a transaction = sends of its non-reverted frames, in order -/

mutual
theorem runAct_eq (cache : List Nat) : ∀ a : Act, runAct cache a = cache ++ committed a
  | .emit v => by simp [runAct, committed]
  | .frame body rv => by
    simp only [runAct, committed]
    by_cases h : rv = true
    · simp [h]
    · simp only [h]; exact runActs_eq cache body
theorem runActs_eq (cache : List Nat) : ∀ as : List Act, runActs cache as = cache ++ committedL as
  | [] => by simp [runActs, committedL]
  | a :: as => by
    simp only [runActs, committedL]
    rw [runAct_eq cache a, runActs_eq _ as, List.append_assoc]
end

/-- **C05 (block level).** The ETX cache handed to the receipt after executing any tree of call
frames is exactly the list of sends recorded by successful, non-reverted frames, in execution order. -/
theorem C05_outbound_is_committed_sends (as : List Act) : runActs [] as = committedL as := by
  simpa using runActs_eq [] as

/-! ### T1: exit discipline of the current source -/

/-- every exit of `opETX`/`opConvert` after the stack pops pushes a status word, and no failure exit
lies after the debit — regenerated from instructions.go. (The one exit that pushes nothing, the
`InternalAndQuaiAddress` error on the executing contract's own address, is unreachable and listed
separately.) -/
theorem C05_exit_discipline :
    Gen.opETXExits.all (fun e => (e.pushes || e.unreachableSenderErr) && (!e.afterDebit || e.success)) = true ∧
    Gen.opConvertExits.all (fun e => (e.pushes || e.unreachableSenderErr) && (!e.afterDebit || e.success)) = true ∧
    Gen.createETXExits.all (fun e => !e.afterDebit || e.success || e.isError) = true := by
  decide

/-! ### Non-vacuity -/
def exCfg : Cfg where
  pt := 2000000
  selfDestructFork := 1919500
  controllerKickIn := 262000
  kawpowFork := 1171500
  shaFork := 1755000
  holdInterval := 20000
  minConv := 10

def exIn : EtxIn where
  toInScope := false
  value := 1000
  gasLimit := 21000
  tip := 1
  feeCap := 1
  balance := 100000
  cacheLen := 0
  accessListOk := true
  accessListSize := 0
  eligible := true

example : opETX exCfg exIn = { status := some 1, debit := 43000, etx := some (1000, 0, 21000) } := by decide

end QuaiVerif.Etx

/-! ### contract creation frames -/
namespace QuaiVerif.Create

/-- **C05 (creation is all-or-nothing)** a creation either reports failure and leaves the state exactly as it was -
no debit, no outbound ETX, no account - or reports success, and then the creator was debited exactly the endowment
and exactly the constructor's ETX (if any) was recorded. -/
theorem C05_create_all_or_nothing_partial (s : St) (endow ev : Nat) (emit : Bool) (e : Ending) (he : e ≠ .storeoog) :
    (create s endow ev emit e = (s, false)) ∨
    ((create s endow ev emit e).2 = true ∧ endow ≤ s.creator ∧ e.accepted = true ∧
      (create s endow ev emit e).1.creator = s.creator - endow ∧
      (create s endow ev emit e).1.etxs = (if emit then s.etxs ++ [ev] else s.etxs)) := by
  unfold create
  by_cases h1 : s.creator < endow
  · left; simp [h1]
  · by_cases h2 : e.accepted = true
    · right; simp [h1, h2, inner]; omega
    · left; simp [h1, h2, he]

/-- a creation whose constructor result is not acceptable (REVERT, error, 0xEF prefix, oversized code) never succeeds
and leaves nothing behind -/
theorem C05_create_rejected_endings_fail (s : St) (endow ev : Nat) (emit : Bool) (e : Ending) (h : e.accepted = false)
    (he : e ≠ .storeoog) : create s endow ev emit e = (s, false) := by
  unfold create; split <;> simp [h, he]

/-- **Finding (code-store out of gas).** The full statement - every failed creation leaves nothing behind - is false of
the code: a constructor that returns code it cannot pay the deposit for makes the creation report failure while the
endowment stays moved, the account stays created and the constructor's ETX stays recorded. -/
theorem C05_counterexample_code_store_out_of_gas :
    create ⟨500, 0, false, []⟩ 300 120 true .storeoog = (⟨200, 180, true, [120]⟩, false) := by decide

theorem inner_total (s : St) (endow ev : Nat) (emit : Bool) (hev : ev ≤ s.created + endow) (he : endow ≤ s.creator) :
    total (inner s endow ev emit) = total s := by
  cases emit
  · simp [total, inner]; omega
  · simp [total, inner, List.sum_append]; omega

/-- **C02 (creation creates no value)** what the creator, the created account and the recorded ETXs hold together is
unchanged by a creation - also by the one that fails without being undone - provided the constructor sends no more than
the account holds. -/
theorem C02_create_conserves_value (s : St) (endow ev : Nat) (emit : Bool) (e : Ending) (hev : ev ≤ s.created + endow) :
    total (create s endow ev emit e).1 = total s := by
  unfold create
  by_cases h1 : s.creator < endow
  · simp [h1]
  · have he : endow ≤ s.creator := by omega
    by_cases h2 : e.accepted = true
    · simp only [h1, h2, if_true, if_false]; exact inner_total s endow ev emit hev he
    · by_cases h3 : e = .storeoog
      · simp only [h1, h2, h3, if_true, if_false]; exact inner_total s endow ev emit hev he
      · simp [h1, h2, h3]

example : create ⟨500, 0, false, []⟩ 300 120 true .code = (⟨200, 180, true, [120]⟩, true) ∧
          create ⟨500, 0, false, []⟩ 300 120 true .ef = (⟨500, 0, false, []⟩, false) ∧
          create ⟨100, 0, false, []⟩ 300 120 true .stop = (⟨100, 0, false, []⟩, false) := by decide

end QuaiVerif.Create
