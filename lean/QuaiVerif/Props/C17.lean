import QuaiVerif.Lemmas.KV
import QuaiVerif.Gen.Backends
/-
C17 — All storage backends are interchangeable.

Property theorems only (helper lemmas live in Lemmas/KV.lean).  The model (Model/KV.lean) is tied to
the code by (T1) Gen/Backends.lean, regenerated from the batch types' `SetPending`/`GetPending`
bodies on every run, and (T2) the lock-step correspondence run of `qvh kv` against `qvdriver kv`.
-/
namespace QuaiVerif.KV

/-! ### (1) Refinement to a map: reads see the latest committed write, for every history -/

abbrev Spec := Key → Option Val

def specOp (f : Spec) : BOp → Spec
  | .put k v => fun x => if x = k then some v else f x
  | .del k => fun x => if x = k then none else f x

/-- A committed-history event: a direct put/delete or the commit of a batch. -/
inductive DbOp where
  | put (k : Key) (v : Val)
  | del (k : Key)
  | commit (ops : List BOp)

def runDb (s : Store) : DbOp → Store
  | .put k v => insert k v s
  | .del k => erase k s
  | .commit ops => ops.foldl applyOp s

def specDb (f : Spec) : DbOp → Spec
  | .put k v => specOp f (.put k v)
  | .del k => specOp f (.del k)
  | .commit ops => ops.foldl specOp f

theorem get_applyOp (s : Store) (op : BOp) (k : Key) : get (applyOp s op) k = specOp (get s) op k := by
  cases op with
  | put k' v => simp [applyOp, specOp, get_insert]
  | del k' => simp [applyOp, specOp, get_erase]

theorem get_foldl_applyOp (ops : List BOp) (s : Store) (f : Spec) (h : ∀ k, get s k = f k) :
    ∀ k, get (ops.foldl applyOp s) k = ops.foldl specOp f k := by
  induction ops generalizing s f with
  | nil => exact h
  | cons op t ih =>
    apply ih
    intro k
    rw [get_applyOp]
    cases op <;> simp [specOp, h]

/-- **C17(1)** For every history of direct writes and batch commits, every read of the store is the
read of the abstract map (so reads see the latest committed write), and the store stays strictly
ascending (which is what makes iteration order a function of content). -/
theorem C17_refines_map (h : List DbOp) (s : Store) (hs : Sorted s) :
    Sorted (h.foldl runDb s) ∧ ∀ k, get (h.foldl runDb s) k = h.foldl specDb (get s) k := by
  suffices H : ∀ (h : List DbOp) (s : Store) (f : Spec), Sorted s → (∀ k, get s k = f k) →
      Sorted (h.foldl runDb s) ∧ ∀ k, get (h.foldl runDb s) k = h.foldl specDb f k from
    H h s (get s) hs (fun _ => rfl)
  intro h
  induction h with
  | nil => intro s f hs hf; exact ⟨hs, hf⟩
  | cons op t ih =>
    intro s f hs hf
    apply ih
    · cases op with
      | put k v => exact sorted_insert hs k v
      | del k => exact sorted_erase hs k
      | commit ops => exact sorted_foldl hs ops
    · intro k
      cases op with
      | put k' v => simp [runDb, specDb, specOp, get_insert, hf]
      | del k' => simp [runDb, specDb, specOp, get_erase, hf]
      | commit ops => exact get_foldl_applyOp ops s f hf k

/-- `Has` agrees with `Get`. -/
theorem C17_has_iff_get (s : Store) (k : Key) : has s k = true ↔ ∃ v, get s k = some v := by
  unfold has; cases get s k <;> simp

/-! ### (2) Iteration: ascending, exactly the live keys with the prefix and ≥ prefix++start -/

theorem C17_iter_exact (s : Store) (hs : Sorted s) (p st : Key) :
    Sorted (iter s p st) ∧
    ∀ k v, (k, v) ∈ iter s p st ↔ (get s k = some v ∧ p <+: k ∧ p ++ st ≤ k) := by
  refine ⟨List.Pairwise.filter _ hs, ?_⟩
  intro k v
  unfold iter inRange
  rw [List.mem_filter, mem_iff_get hs]
  simp [List.isPrefixOf_iff_prefix]

/-- each live key at most once (strictly ascending ⇒ no duplicates). -/
theorem C17_iter_nodup (s : Store) (hs : Sorted s) (p st : Key) :
    ((iter s p st).map (·.1)).Nodup := by
  have h := (C17_iter_exact s hs p st).1
  unfold Sorted at h
  rw [List.Nodup, List.pairwise_map]
  exact h.imp (fun {a b} hlt (heq : a.1 = b.1) => key_lt_irrefl b.1 (by rw [heq] at hlt; exact hlt))

/-! ### (3) A batch applies all its operations in issue order -/

/-- the calls issued on a batch -/
def issue (tracks : Bool) (b : Batch) : List BOp → Batch
  | [] => b
  | .put k v :: t => issue tracks (b.put tracks k v) t
  | .del k :: t => issue tracks (b.del tracks k) t

theorem issue_ops (tracks : Bool) (b : Batch) (calls : List BOp) :
    (issue tracks b calls).ops = b.ops ++ calls := by
  induction calls generalizing b with
  | nil => simp [issue]
  | cons c t ih => cases c <;> simp [issue, ih, Batch.put, Batch.del]

theorem C17_write_in_issue_order (tracks : Bool) (s : Store) (calls : List BOp) :
    ((issue tracks {} calls).write s).1 = calls.foldl applyOp s := by
  simp [Batch.write, issue_ops]

/-! ### (4) Read-your-writes in a tracking batch -/

/-- pending view after issuing `calls`, newest first -/
def pendOf : List BOp → List (Key × Option Val)
  | [] => []
  | .put k v :: t => pendOf t ++ [(k, some v)]
  | .del k :: t => pendOf t ++ [(k, none)]

theorem issue_pend (b : Batch) (hb : b.tracking = true) (calls : List BOp) :
    (issue true b calls).pend = pendOf calls ++ b.pend ∧ (issue true b calls).tracking = true := by
  induction calls generalizing b with
  | nil => simp [issue, pendOf, hb]
  | cons c t ih =>
    cases c with
    | put k v =>
      have hb' : (b.put true k v).tracking = true := by simp [Batch.put, hb]
      have h := ih (b.put true k v) hb'
      simp only [issue, pendOf]
      refine ⟨?_, h.2⟩
      rw [h.1]; simp [Batch.put, hb]
    | del k =>
      have hb' : (b.del true k).tracking = true := by simp [Batch.del, hb]
      have h := ih (b.del true k) hb'
      simp only [issue, pendOf]
      refine ⟨?_, h.2⟩
      rw [h.1]; simp [Batch.del, hb]

/-- what `GetPending` must answer: the newest operation on `k` since `SetPending(true)` -/
def newestOn (k : Key) (calls : List BOp) : Option BOp :=
  calls.reverse.find? (fun op => match op with | .put k' _ => k = k' | .del k' => k = k')

theorem lookup_pendOf (k : Key) (calls : List BOp) :
    (pendOf calls).lookup k =
      (newestOn k calls).map (fun op => match op with | .put _ v => some v | .del _ => none) := by
  induction calls with
  | nil => simp [pendOf, newestOn]
  | cons c t ih =>
    unfold newestOn at *
    cases c with
    | put k' v =>
      simp only [pendOf, List.reverse_cons, List.find?_append, List.lookup_append, ih]
      cases h : List.find? _ t.reverse with
      | some op => simp
      | none =>
        by_cases hk : k = k'
        · subst hk; simp [List.lookup]
        · have : (k == k') = false := by simpa using hk
          simp [List.lookup, this, hk]
    | del k' =>
      simp only [pendOf, List.reverse_cons, List.find?_append, List.lookup_append, ih]
      cases h : List.find? _ t.reverse with
      | some op => simp
      | none =>
        by_cases hk : k = k'
        · subst hk; simp [List.lookup]
        · have : (k == k') = false := by simpa using hk
          simp [List.lookup, this, hk]

/-- **C17(4)** A batch with pending tracking enabled reports its own uncommitted puts and deletes:
after `SetPending(true)` and any sequence of calls, `GetPending k` is the newest call on `k`
(`(false, v)` for a put of `v`, `(true, nil)` for a delete, `(false, nil)` when there is none). -/
theorem C17_read_your_writes (b : Batch) (calls : List BOp) (k : Key) :
    (issue true (b.setPending true true) calls).getPending k =
      match newestOn k calls with
      | some (.put _ v) => (false, some v)
      | some (.del _) => (true, none)
      | none => (false, none) := by
  have h := (issue_pend (b.setPending true true) (by simp [Batch.setPending]) calls).1
  unfold Batch.getPending
  rw [h]
  simp only [Batch.setPending, if_true, List.append_nil, lookup_pendOf]
  cases newestOn k calls with
  | none => rfl
  | some op => cases op <;> rfl

/-- For a batch type that does *not* track (the defect recorded as S1 / fixed), the same sequence
answers "nothing pending": the concrete counterexample replayed on the implementation. -/
theorem C17_counterexample_untracked :
    (issue false (({} : Batch).setPending false true) [.put [1] [2]]).getPending [1] = (false, none)
    ∧ (issue true (({} : Batch).setPending true true) [.put [1] [2]]).getPending [1] = (false, some [2]) := by
  decide

/-- **C17(4′)** every backend's batch type in the current source tree tracks pending writes
(regenerated fact; `decide` over the generated table). -/
theorem C17_all_backends_track : ∀ b ∈ Gen.backends, b.2 = true := by decide

/-! ### (5) Reset and replay -/

theorem C17_replay_is_issue_order (tracks : Bool) (calls : List BOp) :
    (issue tracks {} calls).replay = calls := by
  simp [Batch.replay, issue_ops]

theorem C17_reset_empties (b : Batch) (s : Store) :
    (b.reset.write s).1 = s ∧ b.reset.replay = [] := by
  simp [Batch.reset, Batch.write, Batch.replay]

/-- writing the pending view away does not change what is replayed or written -/
theorem C17_write_keeps_ops (s : Store) (b : Batch) : (b.write s).2.ops = b.ops := rfl

/-! ### (6) Backend independence: the committed store is a function of the history alone -/

theorem C17_backend_independent (t1 t2 : Bool) (s : Store) (calls : List BOp) :
    ((issue t1 {} calls).write s).1 = ((issue t2 {} calls).write s).1 := by
  simp [C17_write_in_issue_order]

/-! ### Non-vacuity -/
example : Sorted [([1], [9]), ([1, 2], []), ([2], [7])] := by
  simp [Sorted]; decide
example : iter [([1], [9]), ([1, 2], []), ([2], [7])] [1] [2] = [([1, 2], [])] := by decide
example : newestOn [1] [.put [1] [2], .del [1], .put [3] []] = some (.del [1]) := by decide

end QuaiVerif.KV
