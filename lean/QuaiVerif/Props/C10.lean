import QuaiVerif.Lemmas.Reorg
import QuaiVerif.Gen.Rollback
/-
C10: switching the canonical head from one branch to another leaves exactly the state of the winning branch.
Over the ledger model (outputs + lockup records, undo records written by block processing, rollback as replayed
by HeaderChain.SetCurrentHeader) for every pair of branches of any length and any block content that block
processing can produce:  rollback inverts a block, a segment, and therefore a reorg equals following the new
branch from the common ancestor; switching back restores the original state.
-/
namespace QuaiVerif.Reorg

theorem St.ext' {a b : St} (h1 : a.ut = b.ut) (h2 : a.cl = b.cl) : a = b := by
  cases a; cases b; simp_all

/-- Rolling back a block restores exactly the state before it. -/
theorem C10_rollback_inverts_block (s0 : St) (acts : List Act) (ok : actsOK s0 (s0, {}) acts) :
    rollback (runBlock s0 acts).1 (runBlock s0 acts).2 = s0 := by
  have hinv := inv_run acts (s0, {}) (inv_init s0).1 (inv_init s0).2 ok
  obtain ⟨hU, hL⟩ := hinv
  apply St.ext'
  · funext k
    obtain ⟨a, b, c, _⟩ := hU k
    simp only [rollback, runBlock, foldl_del, foldl_put]
    by_cases hc : k ∈ (runFrom s0 (s0, {}) acts).2.created
    · simp [hc, a hc]
    · simp only [hc, if_false]
      cases hl : lastFor k ((runFrom s0 (s0, {}) acts).2.spent ++ (runFrom s0 (s0, {}) acts).2.trimmed) with
      | some w => exact (b hc w (lastFor_mem hl)).symm
      | none => exact c hc (lastFor_none hl)
  · funext k
    obtain ⟨a, b, c⟩ := hL k
    simp only [rollback, runBlock, foldl_del, foldl_put, lastFor_reverse]
    by_cases hc : k ∈ (runFrom s0 (s0, {}) acts).2.newLocks
    · simp [hc, a hc]
    · simp only [hc, if_false]
      cases hl : firstFor k (runFrom s0 (s0, {}) acts).2.delLocks with
      | some w => exact (b hc w hl).symm
      | none => exact c hc (firstFor_none hl)

/-- Rolling back a whole segment, newest block first, restores the state at the common ancestor. -/
theorem C10_rollback_inverts_segment (s0 : St) (bs : List (List Act)) (ok : blocksOK s0 bs) :
    rollbackAll (runBlocks s0 bs).1 (runBlocks s0 bs).2 = s0 := by
  induction bs generalizing s0 with
  | nil => rfl
  | cons b bs ih =>
    obtain ⟨ok1, ok2⟩ := ok
    have h := ih (runBlock s0 b).1 ok2
    simp only [runBlocks, rollbackAll, List.reverse_cons, List.foldl_append, List.foldl_cons, List.foldl_nil]
    simp only [rollbackAll] at h
    rw [h]
    exact C10_rollback_inverts_block s0 b ok1

/-- A reorganisation from branch A to branch B leaves exactly the state (and undo records) reached by following B
from the common ancestor directly. -/
theorem C10_reorg_equals_direct (s0 : St) (A B : List (List Act)) (okA : blocksOK s0 A) :
    reorg (runBlocks s0 A).1 (runBlocks s0 A).2 B = runBlocks s0 B := by
  simp only [reorg, C10_rollback_inverts_segment s0 A okA]

/-- Switching back restores the original branch's state: any number of back-and-forth switches. -/
theorem C10_switch_back (s0 : St) (A B : List (List Act)) (okA : blocksOK s0 A) (okB : blocksOK s0 B) :
    reorg (reorg (runBlocks s0 A).1 (runBlocks s0 A).2 B).1 (reorg (runBlocks s0 A).1 (runBlocks s0 A).2 B).2 A
      = runBlocks s0 A := by
  rw [C10_reorg_equals_direct s0 A B okA, C10_reorg_equals_direct s0 B A okB]

/-- Nothing created on the abandoned branch remains, nothing it spent stays missing: pointwise form. -/
theorem C10_no_residue (s0 : St) (A B : List (List Act)) (okA : blocksOK s0 A) (k : K) :
    (reorg (runBlocks s0 A).1 (runBlocks s0 A).2 B).1.ut k = (runBlocks s0 B).1.ut k ∧
    (reorg (runBlocks s0 A).1 (runBlocks s0 A).2 B).1.cl k = (runBlocks s0 B).1.cl k := by
  rw [C10_reorg_equals_direct s0 A B okA]; exact ⟨rfl, rfl⟩

-- The hypotheses are the ones block processing provides; one of them is load-bearing -------------------------

def emptySt : St := { ut := fun _ => none, cl := fun _ => none }
def withLock : St := { ut := fun _ => none, cl := fun k => if k = "L" then some "v0" else none }

/-- If a block could delete a lockup record (a claim) and afterwards create a record under the same key (a coinbase
onto the now empty key), the undo records would restore the old record and then delete the key: the rollback
would lose the pre-block record.  `actOK` excludes this order (`k ∉ keys delLocks` for `lockNew`); in the code it
is excluded because a block's inbound ETXs - the only source of AddNewLock - precede its transactions. -/
theorem C10_counterexample_recreate_after_delete :
    (rollback (runBlock withLock [.lockDelete "L", .lockNew "L" "v1"]).1
              (runBlock withLock [.lockDelete "L", .lockNew "L" "v1"]).2).cl "L" = none ∧ withLock.cl "L" = some "v0" := by
  constructor <;> simp [rollback, runBlock, runFrom, applyAct, withLock, del]

/-- Non-vacuity: a block with an output created and spent in the block, a pre-block output spent and another one
trimmed, a lockup created and accumulated, another one accumulated twice and claimed satisfies the hypotheses. -/
def sample0 : St :=
  { ut := fun k => if k = "a" then some "1" else if k = "b" then some "2" else none,
    cl := fun k => if k = "M" then some "m0" else none }
example : actsOK sample0 (sample0, {})
    [.createU "c" "3", .spendU "c", .spendU "a", .trimU "b", .lockNew "N" "n0", .lockReplace "N" "n1",
     .lockReplace "M" "m1", .lockReplace "M" "m2", .lockDelete "M"] := by
  simp [actsOK, actOK, applyAct, sample0, put, del, keys]

-- T1: the order of the rollback writes in the current source is the order modelled by `rollback` -----------------

/-- core/headerchain.go SetCurrentHeader, rollback loop: re-create spent and trimmed outputs, then delete created
keys, then restore deleted lockup records in reverse order, then delete created lockup keys; head pointer and
canonical hash are written in the same batch. -/
theorem C10_rollback_order_matches_model :
    Gen.rollbackWrites = ["CreateUTXO(spent++trimmed)", "Delete(createdUTXOKeys)", "Put(deletedLockups,reverse)",
      "Delete(createdLockupKeys)", "WriteHeadBlockHash(batch)", "WriteCanonicalHash(batch)", "batch.Write"] := by
  decide

end QuaiVerif.Reorg
