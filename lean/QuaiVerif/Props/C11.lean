import QuaiVerif.Model.Crash
import QuaiVerif.Gen.Rollback
import QuaiVerif.Gen.AppendWrites
/-
C11: a crash at any point leaves a database the node can restart and continue from.  Over the write-schedule
model: if every batch that moves the flat ledger also moves the head pointer, then after *every prefix* of the
schedule of appending any number of blocks and of any reorganisation the database is consistent (ledger belongs to
the recorded head, head state present) and the interrupted append can be completed.  T1 regenerates, from
BodyDb.Append and the rollback loop of SetCurrentHeader, whether the head pointer is written inside those batches;
area c11 records the real write steps of real appends / reorgs, classifies them in the model's terms and restarts a
real node on every prefix.
-/
namespace QuaiVerif.Crash

theorem consistent_step {d : Db} {s : Step} (h : Consistent d)
    (ok : match s with
      | .ledger n wh => wh = true ∧ n ∈ d.tries
      | .head n => d.ledger = n ∧ n ∈ d.tries
      | _ => True) : Consistent (applyStep d s) := by
  obtain ⟨h1, h2⟩ := h
  cases s with
  | other => exact ⟨h1, h2⟩
  | canonical n => exact ⟨h1, h2⟩
  | trie n => exact ⟨h1, List.mem_cons_of_mem _ h2⟩
  | ledger n wh =>
    obtain ⟨rfl, hn⟩ := ok
    exact ⟨by simp [applyStep], by simpa [applyStep] using hn⟩
  | head n =>
    obtain ⟨hl, hn⟩ := ok
    exact ⟨by simp [applyStep, hl], by simpa [applyStep] using hn⟩

/-- Every prefix of a safe schedule leaves a consistent database: every crash point. -/
theorem C11_every_crash_point_consistent (d : Db) (sched : List Step) (h : Consistent d) (ok : SchedOK d sched)
    (i : Nat) : Consistent (applySteps d (sched.take i)) := by
  induction sched generalizing d i with
  | nil => simpa [applySteps] using h
  | cons s rest ih =>
    cases i with
    | zero => simpa [applySteps] using h
    | succ i =>
      obtain ⟨ok1, ok2⟩ := ok
      simpa [applySteps, List.take] using ih (applyStep d s) (consistent_step h ok1) ok2 i

/-- ... and the end state of a safe schedule is consistent too. -/
theorem consistent_applySteps (d : Db) (sched : List Step) (h : Consistent d) (ok : SchedOK d sched) :
    Consistent (applySteps d sched) := by
  have := C11_every_crash_point_consistent d sched h ok sched.length
  simpa using this

theorem schedOK_append (d : Db) (a b : List Step) (ha : SchedOK d a) (hb : SchedOK (applySteps d a) b) :
    SchedOK d (a ++ b) := by
  induction a generalizing d with
  | nil => simpa [applySteps] using hb
  | cons s rest ih =>
    obtain ⟨h1, h2⟩ := ha
    exact ⟨h1, ih (applyStep d s) h2 (by simpa [applySteps] using hb)⟩

/-- Appending a block with the head pointer inside the block's batch is a safe schedule from any state. -/
theorem appendSched_ok (d : Db) (n : Nat) : SchedOK d (appendSched true n) := by
  simp [appendSched, SchedOK, applyStep]

theorem appendSched_end (d : Db) (n : Nat) :
    (applySteps d (appendSched true n)).ledger = n ∧ (applySteps d (appendSched true n)).head = n := by
  simp [appendSched, applySteps, applyStep]

/-- Appending any number of blocks one after the other: every crash point is consistent. -/
theorem appendMany_ok (d : Db) (ns : List Nat) : SchedOK d (ns.map (appendSched true)).flatten := by
  induction ns generalizing d with
  | nil => simp [SchedOK]
  | cons n rest ih =>
    simp only [List.map_cons, List.flatten_cons]
    exact schedOK_append d _ _ (appendSched_ok d n) (ih _)

theorem C11_append_chain_crash_safe (d : Db) (ns : List Nat) (h : Consistent d) (i : Nat) :
    Consistent (applySteps d ((ns.map (appendSched true)).flatten.take i)) :=
  C11_every_crash_point_consistent d _ h (appendMany_ok d ns) i

theorem tries_mono (d : Db) (l : List Step) {n : Nat} (h : n ∈ d.tries) : n ∈ (applySteps d l).tries := by
  induction l generalizing d with
  | nil => simpa [applySteps] using h
  | cons s rest ih =>
    have : n ∈ (applyStep d s).tries := by
      cases s <;> simp [applyStep, h]
    simpa [applySteps] using ih _ this

/-- Rolling back through blocks whose states are present, with the head pointer in each rollback batch. -/
theorem rollbackMany_ok (d : Db) (down : List Nat) (h : ∀ p ∈ down, p ∈ d.tries) :
    SchedOK d (down.map (rollbackSched true)).flatten := by
  induction down generalizing d with
  | nil => simp [SchedOK]
  | cons p rest ih =>
    simp only [List.map_cons, List.flatten_cons, rollbackSched, if_true, List.singleton_append]
    refine ⟨⟨rfl, h p (by simp)⟩, ih _ ?_⟩
    intro q hq
    have := h q (by simp [hq])
    simpa [applyStep] using this

/-- A crash at any point of any reorganisation (roll back through `down`, append `up`) leaves a consistent database. -/
theorem C11_reorg_crash_safe (d : Db) (down up : List Nat) (h : Consistent d) (hd : ∀ p ∈ down, p ∈ d.tries) (i : Nat) :
    Consistent (applySteps d ((reorgSched true true down up).take i)) := by
  apply C11_every_crash_point_consistent d _ h
  exact schedOK_append d _ _ (rollbackMany_ok d down hd) (appendMany_ok _ up)

/-- The interrupted append can always be completed: at every crash point of appending block `n` onto `p`, the ledger
is either still the parent's (apply the block) or already the block's (nothing to do). -/
theorem C11_interrupted_append_resumes (p n : Nat) (tries : List Nat) (i : Nat) :
    canResumeAppend (applySteps { ledger := p, head := p, tries := tries } ((appendSched true n).take i)) p n = true := by
  have hi : i = 0 ∨ i = 1 ∨ i = 2 ∨ i = 3 ∨ i = 4 ∨ i = 5 ∨ 6 ≤ i := by omega
  rcases hi with h | h | h | h | h | h | h
  all_goals (first | subst h | skip)
  all_goals simp [appendSched, applySteps, applyStep, canResumeAppend, List.take]
  · rw [List.take_of_length_le (by simpa using h)]; simp [applyStep]

/-- Without the head pointer in the block's batch there is a crash point at which the ledger has moved and the
head has not: the restarted node reports the parent as head over the child's ledger and cannot re-apply the block.
(This was the behaviour of the tree before the fix recorded in known_findings.json.) -/
theorem C11_counterexample_head_outside_batch :
    let d := applySteps { ledger := 7, head := 7, tries := [7] } ((appendSched false 8).take 5)
    d.ledger = 8 ∧ d.head = 7 ∧ ¬ Consistent d ∧ canResumeAppend d 7 8 = false := by
  simp [appendSched, applySteps, applyStep, Consistent, canResumeAppend, List.take]

/-- ... and likewise for a rollback batch without the head pointer. -/
theorem C11_counterexample_rollback_head_outside_batch :
    let d := applySteps { ledger := 8, head := 8, tries := [7, 8] } ((rollbackSched false 7).take 1)
    d.ledger = 7 ∧ d.head = 8 ∧ ¬ Consistent d := by
  simp [rollbackSched, applySteps, applyStep, Consistent, List.take]

-- T1: the current source writes the head pointer inside both batches --------------------------------------------

/-- BodyDb.Append puts the head block hash into the block's batch before committing it, and the rollback loop of
SetCurrentHeader puts it into the per-block rollback batch (regenerated from source on every run). -/
theorem C11_current_tree_head_in_batches :
    Gen.appendBatchWritesHead = true ∧ Gen.rollbackWrites.contains "WriteHeadBlockHash(batch)" = true := by
  decide

/-- Non-vacuity: the schedules of the theorems are the ones with these flags. -/
example : SchedOK { ledger := 3, head := 3, tries := [3, 2] } (reorgSched true true [2] [5, 6]) := by
  simp [reorgSched, rollbackSched, appendSched, SchedOK, applyStep]

end QuaiVerif.Crash
