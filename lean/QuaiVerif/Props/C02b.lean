import QuaiVerif.Model.Gas
/-
C02 (gas purchase): buying gas up front and refunding what was not used never creates value, whatever the sizes of the
gas limit, the price, the value and the balance.
-/
namespace QuaiVerif.Gas

/-- **C02 (gas purchase is exact).** An accepted transaction leaves the payer with exactly balance − used × price − value
moved; nothing is gained. -/
theorem C02_gas_purchase_exact (t : Tx) (used : Nat) (moved : Bool) (hu : used ≤ t.gasLimit) (ha : accepted t = true) :
    payerAfter t used moved + used * t.gasPrice + (if moved then t.value else 0) = t.balance := by
  unfold payerAfter
  simp only [ha, if_true]
  unfold accepted at ha
  have hle : t.gasLimit * t.gasPrice + t.value ≤ t.balance := by simpa using ha
  have h1 : (t.gasLimit - used) * t.gasPrice + used * t.gasPrice = t.gasLimit * t.gasPrice := by
    rw [← Nat.add_mul, Nat.sub_add_cancel hu]
  cases moved <;> simp <;> omega

/-- **C02 (gas purchase never creates value).** Payer and recipient together never hold more than before. -/
theorem C02_gas_purchase_never_creates_value (t : Tx) (used : Nat) (moved : Bool) (hu : used ≤ t.gasLimit) :
    payerAfter t used moved + recipientGain t moved ≤ t.balance := by
  by_cases ha : accepted t = true
  · have h := C02_gas_purchase_exact t used moved hu ha
    unfold recipientGain
    simp only [ha, Bool.true_and]
    cases moved <;> simp at h ⊢ <;> omega
  · have hf : accepted t = false := by simpa using ha
    simp [payerAfter, recipientGain, hf]

/-- **C02 (a refused transaction moves nothing).** -/
theorem C02_refused_moves_nothing (t : Tx) (used : Nat) (moved : Bool) (h : accepted t = false) :
    payerAfter t used moved = t.balance ∧ recipientGain t moved = 0 := by
  simp [payerAfter, recipientGain, h]

/-- the witness of the wrapped product: gas limit 100000 at a price just above 2^256 / 100000 costs more than 2^256 -
a payer holding a million is refused (in a 256-bit product the cost would wrap to about 100000 and pass). -/
example : accepted { gasLimit := 100000, gasPrice := 2 ^ 256 / 100000 + 1, value := 0, balance := 1000000 } = false := by decide
example : (100000 * (2 ^ 256 / 100000 + 1)) % 2 ^ 256 < 1000000 := by decide

end QuaiVerif.Gas
