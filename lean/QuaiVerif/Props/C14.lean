import QuaiVerif.Model.Proto
/-
C14 — Encode/decode round trips preserve objects, bytes and identity.
Wire-level theorems for the protobuf encoding used by every go-quai wire / database object; the
per-type glue (ProtoEncode / ProtoDecode, hashes, JSON, rawdb) is tied by the `codec` area.
-/
namespace QuaiVerif.Proto

theorem encodeVarint_ne_nil (n : Nat) : encodeVarint n ≠ [] := by
  rw [encodeVarint]; split <;> simp

/-- **C14 (varint)** decoding the encoding of any natural number yields it and the untouched rest. -/
theorem C14_varint_roundtrip (n : Nat) (rest : Bytes) :
    decodeVarint (encodeVarint n ++ rest) = some (n, rest) := by
  induction n using Nat.strongRecOn with
  | _ n ih =>
    rw [encodeVarint]
    by_cases h : n < 128
    · simp [h, decodeVarint]
    · simp only [h, dite_false, List.cons_append, decodeVarint]
      have h2 : ¬ (n % 128 + 128 < 128) := by omega
      simp only [h2, if_false, ih (n / 128) (by omega)]
      congr 2
      omega

theorem parseOne_serializeField (f : WField) (hf : f.wf) (rest : Bytes) :
    parseOne (serializeField f ++ rest) = some (f, rest) := by
  obtain ⟨num, val⟩ := f
  unfold parseOne serializeField
  simp only [List.append_assoc, C14_varint_roundtrip]
  cases val with
  | varint n =>
    have h1 : (num * 8 + wireType (.varint n)) / 8 = num := by simp [wireType] <;> omega
    have h2 : (num * 8 + wireType (.varint n)) % 8 = 0 := by simp [wireType]
    simp only [h1, h2, C14_varint_roundtrip]
  | i64 b =>
    have hb : b.length = 8 := hf
    have h1 : (num * 8 + wireType (.i64 b)) / 8 = num := by simp [wireType] <;> omega
    have h2 : (num * 8 + wireType (.i64 b)) % 8 = 1 := by simp [wireType] <;> omega
    simp only [h1, h2]
    have : ¬ ((b ++ rest).length < 8) := by simp [hb]
    simp only [this, if_false]
    rw [← hb]; simp
  | len b =>
    have h1 : (num * 8 + wireType (.len b)) / 8 = num := by simp [wireType] <;> omega
    have h2 : (num * 8 + wireType (.len b)) % 8 = 2 := by simp [wireType] <;> omega
    simp only [h1, h2, List.append_assoc, C14_varint_roundtrip]
    have : ¬ ((b ++ rest).length < b.length) := by simp
    simp [this]
  | i32 b =>
    have hb : b.length = 4 := hf
    have h1 : (num * 8 + wireType (.i32 b)) / 8 = num := by simp [wireType] <;> omega
    have h2 : (num * 8 + wireType (.i32 b)) % 8 = 5 := by simp [wireType] <;> omega
    simp only [h1, h2]
    have : ¬ ((b ++ rest).length < 4) := by simp [hb]
    simp only [this, if_false]
    rw [← hb]; simp

theorem serializeField_length_pos (f : WField) : 0 < (serializeField f).length := by
  unfold serializeField
  have := encodeVarint_ne_nil (f.num * 8 + wireType f.val)
  cases h : encodeVarint (f.num * 8 + wireType f.val) with
  | nil => exact absurd h this
  | cons x xs => simp

theorem parseFuel_succ (k : Nat) (b : Bytes) (hb : b ≠ []) :
    parseFuel (k + 1) b = match parseOne b with
      | none => none
      | some (f, r) => match parseFuel k r with
        | some fs => some (f :: fs)
        | none => none := by
  cases b with
  | nil => exact absurd rfl hb
  | cons x xs => rfl

theorem parseFuel_serialize (fs : List WField) (hf : ∀ f ∈ fs, f.wf) (fuel : Nat) (hfuel : fs.length ≤ fuel) :
    parseFuel fuel (serialize fs) = some fs := by
  induction fs generalizing fuel with
  | nil => cases fuel <;> simp [serialize, parseFuel]
  | cons f fs ih =>
    have hs : serialize (f :: fs) = serializeField f ++ serialize fs := by simp [serialize]
    rw [hs]
    cases fuel with
    | zero => simp at hfuel
    | succ k =>
      have hne : serializeField f ++ serialize fs ≠ [] := by
        intro h
        have := serializeField_length_pos f
        have h' := congrArg List.length h
        rw [List.length_append, List.length_nil] at h'
        omega
      have hk : fs.length ≤ k := by simpa using hfuel
      rw [parseFuel_succ k _ hne, parseOne_serializeField f (hf f (by simp)) (serialize fs)]
      simp only [ih (fun g hg => hf g (by simp [hg])) k hk]

theorem serialize_length_ge (fs : List WField) : fs.length ≤ (serialize fs).length := by
  induction fs with
  | nil => simp [serialize]
  | cons f fs ih =>
    have hs : serialize (f :: fs) = serializeField f ++ serialize fs := by simp [serialize]
    rw [hs, List.length_append, List.length_cons]
    have := serializeField_length_pos f
    omega

/-- **C14 (wire round trip)** for every list of well-formed wire fields (any field numbers, any
varint values, any byte strings — nested messages are byte strings that round-trip by this same
theorem), `parse (serialize fs) = fs`. -/
theorem C14_wire_roundtrip (fs : List WField) (hf : ∀ f ∈ fs, f.wf) : parse (serialize fs) = some fs := by
  unfold parse
  exact parseFuel_serialize fs hf _ (by have := serialize_length_ge fs; omega)

/-- **C14 (canonical bytes)** re-encoding what was decoded from produced bytes yields identical bytes. -/
theorem C14_reencode_identical (fs : List WField) (hf : ∀ f ∈ fs, f.wf) :
    (parse (serialize fs)).map serialize = some (serialize fs) := by
  rw [C14_wire_roundtrip fs hf]; rfl

/-- **C14 (injectivity)** two well-formed field lists with the same encoding are equal — so, for an
injective hash `H`, objects that differ in any encoded field never share `H ∘ serialize`. -/
theorem C14_serialize_injective (fs gs : List WField) (hf : ∀ f ∈ fs, f.wf) (hg : ∀ g ∈ gs, g.wf)
    (h : serialize fs = serialize gs) : fs = gs := by
  have h1 := C14_wire_roundtrip fs hf
  have h2 := C14_wire_roundtrip gs hg
  rw [h] at h1
  rw [h1] at h2
  exact Option.some.inj h2

theorem C14_hash_binds_fields {Hash : Type} (H : Bytes → Hash) (hH : Function.Injective H)
    (fs gs : List WField) (hf : ∀ f ∈ fs, f.wf) (hg : ∀ g ∈ gs, g.wf)
    (h : H (serialize fs) = H (serialize gs)) : fs = gs :=
  C14_serialize_injective fs gs hf hg (hH h)

/-! ### Non-vacuity -/
example : serialize [{ num := 1, val := .varint 300 }, { num := 2, val := .len [1, 2, 3] }] = [8, 172, 2, 18, 3, 1, 2, 3] := by
  simp [serialize, serializeField, wireType, encodeVarint]
example : parse [8, 172, 2, 18, 3, 1, 2, 3] = some [{ num := 1, val := .varint 300 }, { num := 2, val := .len [1, 2, 3] }] := by
  decide

end QuaiVerif.Proto
