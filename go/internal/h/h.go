// Package h: shared helpers of the correspondence harness (PRNG, line protocol, statistics).
package h

import (
	"bufio"
	"encoding/hex"
	"encoding/json"
	"fmt"
	"os"
	"path/filepath"
	"sort"
	"strings"
)

// Rng is splitmix64; every random choice of a run derives from one state.
type Rng struct{ s uint64 }

func NewRng(seed uint64) *Rng { return &Rng{s: seed*0x9E3779B97F4A7C15 + 0x1234567} }
func (r *Rng) U64() uint64 {
	r.s += 0x9E3779B97F4A7C15
	z := r.s
	z = (z ^ (z >> 30)) * 0xBF58476D1CE4E5B9
	z = (z ^ (z >> 27)) * 0x94D049BB133111EB
	return z ^ (z >> 31)
}
func (r *Rng) Intn(n int) int {
	if n <= 0 {
		return 0
	}
	return int(r.U64() % uint64(n))
}
func (r *Rng) Bool() bool         { return r.U64()&1 == 1 }
func (r *Rng) Chance(p int) bool  { return r.Intn(100) < p } // p percent
func (r *Rng) Bytes(n int) []byte {
	b := make([]byte, n)
	for i := range b {
		b[i] = byte(r.U64())
	}
	return b
}
func (r *Rng) Fork() *Rng { return NewRng(r.U64()) }

// Hex renders bytes in protocol form ("-" for empty).
func Hex(b []byte) string {
	if len(b) == 0 {
		return "-"
	}
	return hex.EncodeToString(b)
}

// Out collects the op stream, the implementation's answers (one stream per variant), statistics.
type Out struct {
	dir     string
	area    string
	ops     *bufio.Writer
	opsF    *os.File
	impl    map[string]*bufio.Writer
	implF   map[string]*os.File
	Hist    map[string]int
	Samples []string
	Viol    []Violation
	Cases   int
	Ops     int
	distinct map[string]struct{}
	answers  map[string]int
	curCase []string
	keepOps bool
}

type Violation struct {
	Desc string   `json:"desc"`
	Case int      `json:"case"`
	Ops  []string `json:"ops"`
	Sig  string   `json:"sig"` // stable signature for the known-findings file
}

func NewOut(dir, area string, impls ...string) *Out {
	os.MkdirAll(dir, 0o755)
	o := &Out{dir: dir, area: area, impl: map[string]*bufio.Writer{}, implF: map[string]*os.File{},
		Hist: map[string]int{}, distinct: map[string]struct{}{}, answers: map[string]int{}}
	f, err := os.Create(filepath.Join(dir, area+".ops"))
	if err != nil {
		panic(err)
	}
	o.opsF, o.ops = f, bufio.NewWriterSize(f, 1<<20)
	if len(impls) == 0 {
		impls = []string{"impl"}
	}
	for _, n := range impls {
		f, err := os.Create(filepath.Join(dir, area+"."+n+".out"))
		if err != nil {
			panic(err)
		}
		o.implF[n], o.impl[n] = f, bufio.NewWriterSize(f, 1<<20)
	}
	return o
}

// Op writes one op line for the model.
func (o *Out) Op(format string, a ...any) {
	line := fmt.Sprintf(format, a...)
	o.ops.WriteString(line)
	o.ops.WriteByte('\n')
	o.Ops++
	o.curCase = append(o.curCase, line)
	w := strings.SplitN(line, " ", 2)[0]
	o.Hist["op:"+w]++
}

// Ans writes the implementation's answer of variant name to the last op.
func (o *Out) Ans(name, format string, a ...any) {
	line := fmt.Sprintf(format, a...)
	if strings.ContainsAny(line, "\n") {
		line = strings.ReplaceAll(line, "\n", "\\n")
	}
	o.impl[name].WriteString(line)
	o.impl[name].WriteByte('\n')
	o.answers[name]++
}

// Pad answers every op that has no answer yet (used by recover handlers, so that a panic in the middle of a
// case never shifts the streams against each other).
func (o *Out) Pad(format string, a ...any) {
	for n := range o.impl {
		for o.answers[n] < o.Ops {
			o.Ans(n, format, a...)
		}
	}
}

// AnsAll writes the same answer on every variant stream.
func (o *Out) AnsAll(format string, a ...any) {
	for n := range o.impl {
		o.Ans(n, format, a...)
	}
}

// NewCase starts a new case; nontrivialKey (if non-empty) is used to count distinct non-trivial cases
// of the *previous* case via EndCase.
func (o *Out) NewCase() {
	o.curCase = o.curCase[:0]
	o.Cases++
}

// EndCase records the finished case: key identifies it for distinctness (empty = trivial).
func (o *Out) EndCase(key string, nontrivial bool) {
	if nontrivial {
		o.distinct[key] = struct{}{}
	}
	if len(o.Samples) < 3 && nontrivial {
		s := strings.Join(o.curCase, " ; ")
		if len(s) > 1500 {
			s = s[:1500] + " …"
		}
		o.Samples = append(o.Samples, s)
	}
}

func (o *Out) CaseOps() []string { return append([]string(nil), o.curCase...) }

func (o *Out) Violate(sig, desc string) {
	if len(o.Viol) < 50 {
		o.Viol = append(o.Viol, Violation{Desc: desc, Case: o.Cases, Ops: o.CaseOps(), Sig: sig})
	}
	o.Hist["viol:"+sig]++
}

func (o *Out) Count(k string) { o.Hist[k]++ }

type Stats struct {
	Area     string         `json:"area"`
	Cases    int            `json:"cases"`
	Ops      int            `json:"ops"`
	Distinct int            `json:"distinct_nontrivial"`
	Hist     map[string]int `json:"hist"`
	Samples  []string       `json:"samples"`
	Viol     []Violation    `json:"violations"`
	Impls    []string       `json:"impls"`
	Extra    map[string]any `json:"extra,omitempty"`
}

func (o *Out) Close(extra map[string]any) {
	o.ops.Flush()
	o.opsF.Close()
	var impls []string
	for n, w := range o.impl {
		w.Flush()
		o.implF[n].Close()
		impls = append(impls, n)
	}
	sort.Strings(impls)
	st := Stats{Area: o.area, Cases: o.Cases, Ops: o.Ops, Distinct: len(o.distinct), Hist: o.Hist,
		Samples: o.Samples, Viol: o.Viol, Impls: impls, Extra: extra}
	b, _ := json.MarshalIndent(st, "", " ")
	os.WriteFile(filepath.Join(o.dir, o.area+".stats.json"), b, 0o644)
}
