package main

// Hierarchy harness: real prime, region and zone cores (core.Core over their own databases) wired to each other
// through the dom / sub interfaces the way cmd/utils/hierarchical_coordinator.go wires a full node's three
// contexts.  The harness is the miner and the coordinator: it asks the zone for the pending header, seals it with
// real work choosing the order (zone / region / prime), hands the block to the chain of its order (which appends
// it down through its subordinates, confirming ETXs on the way), and then has each level generate its pending
// header on its tip and the zone combine them.

import (
	"fmt"
	"github.com/dominant-strategies/go-quai/consensus/kawpow"
	"math/big"
	"os"
	"time"
	h2 "verifharness/internal/h"

	"github.com/dominant-strategies/go-quai/common"
	"github.com/dominant-strategies/go-quai/consensus"
	"github.com/dominant-strategies/go-quai/consensus/blake3pow"
	"github.com/dominant-strategies/go-quai/core"
	"github.com/dominant-strategies/go-quai/core/types"
	"github.com/dominant-strategies/go-quai/core/vm"
	"github.com/dominant-strategies/go-quai/ethdb"
	"github.com/dominant-strategies/go-quai/log"
	"github.com/dominant-strategies/go-quai/params"
)

// hBackend makes a core.Core usable as the CoreBackend of its neighbours
type hBackend struct {
	*core.Core
	lvl *hLevel
}

func (b hBackend) NewGenesisPendingHeader(ph *types.WorkObject, domTerminus common.Hash, genesisHash common.Hash) error {
	return b.Core.Slice().NewGenesisPendingHeader(ph, domTerminus, genesisHash)
}

// ReceiveMinedHeader: a subordinate reports a mined block that is also a block of this chain.  The chain builds its
// own view of it (body = manifest of the subordinate blocks since its last block), stores it, and - as the API
// backend of a real node does through its own broadcast - keeps it ready for insertion.
func (b hBackend) ReceiveMinedHeader(wo *types.WorkObject) error {
	blk, err := b.Core.ReceiveMinedHeader(wo)
	if err != nil {
		b.lvl.minedErr = err
		return err
	}
	b.Core.Slice().WriteBlock(blk)
	b.lvl.mined = blk
	return nil
}

// errHierStuck: the coordinator (this harness) could not get a block appended; a limitation of the harness's
// scheduling of the asynchronous parts of the node, not a verdict about the node
var errHierStuck = fmt.Errorf("hierarchy coordinator stuck")

type hLevel struct {
	loc      common.Location
	db       ethdb.Database
	cr       *core.Core
	sl       *core.Slice
	hc       *core.HeaderChain
	tip      *types.WorkObject // the last block of this chain (a block of this order or a dominant one)
	mined    *types.WorkObject // this chain's view of the block just mined (set through ReceiveMinedHeader)
	minedErr error
}

type hier struct {
	prime, region, zone *hLevel           // zone: the first zone (the one chainworld drives)
	zones               []*hLevel         // every zone of the region (one, or two when the network starts at expansion 1)
	retries             int               // how often an insert had to be repeated
	primePH             *types.WorkObject // prime's pending header on its tip (carries the exchange rate derived from the tip)
	eng                 consensus.Engine
	ghash               common.Hash
	nextDt              uint64
	nextCoinbase        common.Address
	nextData            []byte
}

// hierRealKawpow: the next level is built with the real KAWPOW engine in the merge-mining slot (the mining harness uses
// blake3pow there as well, so that it can seal)
var hierRealKawpow bool

func newHLevel(db ethdb.Database, loc common.Location, allocs []params.GenesisAccount, nzones int) (*hLevel, common.Hash, consensus.Engine, error) {
	logger := log.Global
	gen := core.DefaultLocalGenesisBlock("blake3", 0, nil)
	gen.Difficulty = big.NewInt(3000)
	gen.Timestamp = chainGenesisTime
	expansion := uint64(nzones - 1) // expansion 0: one region with one zone; expansion 1: one region with two zones
	var slices []common.Location
	for z := 0; z < nzones; z++ {
		slices = append(slices, common.Location{0, byte(z)})
	}
	cfg0, ghash, err := core.SetupGenesisBlockWithOverride(db, gen, 0, nil, loc, expansion, logger)
	if err != nil {
		return nil, common.Hash{}, nil, fmt.Errorf("genesis %v: %w", loc, err)
	}
	chainCfg := params.ChainConfig{ChainID: cfg0.ChainID, ConsensusEngine: cfg0.ConsensusEngine, Blake3Pow: cfg0.Blake3Pow, Progpow: cfg0.Progpow, Location: loc}
	chainCfg.DefaultGenesisHash = ghash
	pow := params.PowConfig{PowMode: params.ModeNormal, DurationLimit: params.LocalDurationLimit, GasCeil: params.LocalGasCeil, MinDifficulty: big.NewInt(1000), NodeLocation: loc, WorkShareThreshold: 3, NumThreads: 1, GenAllocs: allocs}
	eng := make([]consensus.Engine, params.TotalPowEngines)
	eng[0] = blake3pow.New(pow, nil, false, logger)
	eng[types.Kawpow] = eng[0]
	if hierRealKawpow {
		eng[types.Kawpow] = kawpow.New(params.PowConfig{PowMode: params.ModeNormal, CachesInMem: 1, NodeLocation: loc}, nil, false, logger)
	}
	mcfg := &core.Config{QuaiCoinbase: chainCoinbase, QiCoinbase: chainCoinbase, GasCeil: params.LocalGasCeil, GasPrice: big.NewInt(1), Recommit: time.Hour, ExtraData: []byte("verif")}
	tcfg := core.DefaultTxPoolConfig
	tcfg.Journal = ""
	tcfg.ReorgFrequency = 2 * time.Millisecond
	var lim uint64
	cr, err := core.NewCore(db, mcfg, pow, &tcfg, &lim, &chainCfg, slices, uint8(expansion), nil, eng, &core.CacheConfig{TrieCleanLimit: 16, TrieDirtyLimit: 16, TrieTimeLimit: time.Minute}, vm.Config{}, gen, logger)
	if err != nil {
		return nil, common.Hash{}, nil, fmt.Errorf("core %v: %w", loc, err)
	}
	l := &hLevel{loc: loc, db: db, cr: cr, sl: cr.Slice(), hc: cr.Slice().HeaderChain()}
	return l, ghash, eng[0], nil
}

func newHier(allocs []params.GenesisAccount) (*hier, error) { return newHierN(allocs, 1) }

func newHierN(allocs []params.GenesisAccount, nzones int) (*hier, error) {
	mk := func(loc common.Location) ethdb.Database {
		return rawdbWithLoc(loc)
	}
	p, gp, _, err := newHLevel(mk(common.Location{}), common.Location{}, allocs, nzones)
	if err != nil {
		return nil, err
	}
	r, gr, _, err := newHLevel(mk(common.Location{0}), common.Location{0}, allocs, nzones)
	if err != nil {
		return nil, err
	}
	if gp != gr {
		return nil, fmt.Errorf("genesis hashes differ: %x %x", gp[:4], gr[:4])
	}
	h := &hier{prime: p, region: r, ghash: gp, nextDt: 1, nextCoinbase: chainCoinbase}
	for zi := 0; zi < nzones; zi++ {
		loc := common.Location{0, byte(zi)}
		z, gz, eng, err := newHLevel(mk(loc), loc, allocs, nzones)
		if err != nil {
			return nil, err
		}
		if gz != gp {
			return nil, fmt.Errorf("genesis hashes differ: %x %x", gp[:4], gz[:4])
		}
		h.zones = append(h.zones, z)
		h.eng = eng
	}
	// wire the levels only once all of them exist (a chain starts handing its genesis pending header down as soon as
	// it has a subordinate)
	p.cr.SetSubInterface(hBackend{r.cr, r}, common.Location{0})
	r.cr.SetDomInterface(hBackend{p.cr, p})
	for _, z := range h.zones {
		r.cr.SetSubInterface(hBackend{z.cr, z}, z.loc)
		z.cr.SetDomInterface(hBackend{r.cr, r})
	}
	h.zone = h.zones[0]
	g := h.zone.hc.GetBlockByHash(gp)
	p.tip, r.tip = g, g
	for _, z := range h.zones {
		z.tip = g
	}
	// the coordinator's start: prime's own start-up goroutine (Slice.init) generates the genesis pending header as soon
	// as prime has a subordinate and hands it down.  It must not be called a second time concurrently: two concurrent
	// GeneratePendingHeader calls on one worker can deadlock (prepareWork holds worker.mu.RLock and calls
	// GetLockupByte, which takes it again; a pickCoinbases writer arriving in between blocks both).
	arrived := func() bool {
		for _, z := range h.zones {
			if z.sl.ReadBestPh() == nil {
				return false
			}
		}
		return true
	}
	for i := 0; i < 600 && !arrived(); i++ {
		time.Sleep(5 * time.Millisecond)
	}
	if !arrived() {
		if err := p.sl.NewGenesisPendingHeader(nil, gp, gp); err != nil {
			return nil, fmt.Errorf("genesis pending header: %w", err)
		}
		for i := 0; i < 600 && !arrived(); i++ {
			time.Sleep(5 * time.Millisecond)
		}
	}
	if !arrived() {
		return nil, fmt.Errorf("a zone never received the genesis pending header")
	}
	return h, nil
}

// asZoneNode: the hierarchy's zone seen through the interface chainworld drives
func (h *hier) asZoneNode() *zoneNode {
	z := h.zone
	return &zoneNode{db: z.db, cr: z.cr, sl: z.sl, hc: z.hc, eng: h.eng, ghash: h.ghash, loc: z.loc, nextDt: 1, nextCoinbase: chainCoinbase, h: h}
}

func (h *hier) stop() {
	done := make(chan struct{}, 8)
	ls := append(append([]*hLevel{}, h.zones...), h.region, h.prime)
	for _, l := range ls {
		go func(l *hLevel) {
			defer func() { recover(); done <- struct{}{} }()
			l.sl.Stop()
		}(l)
	}
	to := time.After(3 * time.Second)
	for range ls {
		select {
		case <-done:
		case <-to:
			return
		}
	}
}

// seal finds a nonce that meets the target and gives the block the wanted order
func (h *hier) seal(z *hLevel, ph *types.WorkObject, want int) *types.WorkObject {
	wh := ph.WorkObjectHeader()
	wh.SetLocation(z.loc)
	wh.SetAuxPow(nil)
	if wh.PrimeTerminusNumber().Uint64() < params.KawPowForkBlock {
		wh.SetShaDiffAndCount(types.NewPowShareDiffAndCount(nil, nil, nil))
		wh.SetScryptDiffAndCount(types.NewPowShareDiffAndCount(nil, nil, nil))
		wh.SetShaShareTarget(nil)
		wh.SetScryptShareTarget(nil)
		wh.SetKawpowDifficulty(nil)
	}
	target := new(big.Int).Div(common.Big2e256, ph.Difficulty())
	// the order a seal gives depends on the entropy accumulated since the last dominant block: once that is large, every
	// seal is of region or prime order.  The wanted order is looked for among the first seals; failing that, the first
	// seal found is taken whatever its order.
	var fallback uint64
	found := 0
	for nonce := uint64(0); nonce < 50_000_000; nonce++ {
		wh.SetNonce(types.EncodeNonce(nonce))
		hs, _ := h.eng.ComputePowHash(wh)
		if new(big.Int).SetBytes(hs.Bytes()).Cmp(target) <= 0 {
			if _, order, err := z.hc.CalcOrder(ph); err == nil && order == want {
				return types.NewWorkObject(wh, ph.Body(), nil)
			}
			if found == 0 {
				fallback = nonce
			}
			found++
			if found >= 12 {
				break
			}
		}
	}
	if found == 0 {
		return nil
	}
	wh.SetNonce(types.EncodeNonce(fallback))
	return types.NewWorkObject(wh, ph.Body(), nil)
}

// next: pending header from the first zone, sealed with the wanted order
func (h *hier) next(want int) (*types.WorkObject, error) { return h.nextAt(h.zone, want) }

func (h *hier) nextAt(z *hLevel, want int) (*types.WorkObject, error) {
	// the miner picks the timestamp: it is written into the zone's best pending header before the header is handed
	// out, so that the body the worker caches for it is keyed by the seal hash the miner will actually seal
	if best := z.sl.ReadBestPh(); best != nil {
		if parent := z.hc.GetHeaderByHash(best.ParentHash(common.ZONE_CTX)); parent != nil {
			best.WorkObjectHeader().SetTime(parent.Time() + h.nextDt)
			if h.nextData != nil {
				best.WorkObjectHeader().SetData(h.nextData)
			}
			z.sl.WriteBestPh(best)
		}
	}
	ph, err := z.sl.GetPendingHeader(types.Progpow, h.nextCoinbase)
	if err != nil {
		return nil, fmt.Errorf("get pending header: %w", err)
	}
	if ph.ParentHash(common.ZONE_CTX) != z.hc.CurrentHeader().Hash() {
		return nil, fmt.Errorf("%w: the zone's pending header is not built on its head", errHierStuck)
	}
	blk := h.seal(z, ph, want)
	if blk == nil {
		return nil, fmt.Errorf("no seal of order %d found", want)
	}
	return blk, nil
}

// add: the zone receives the sealed header from the miner, builds its block and - if the block is also a region or
// prime block - reports it upwards, where each dominant chain builds and stores its own view; the chain of the
// block's order then inserts it (which appends it down through its subordinates); finally the pending headers are
// recomputed on the new tips.
func (h *hier) add(sealed *types.WorkObject) (*types.WorkObject, error) {
	return h.addAt(h.zone, sealed)
}

func (h *hier) addAt(z *hLevel, sealed *types.WorkObject) (*types.WorkObject, error) {
	levels := []*hLevel{h.prime, h.region, z}
	for _, l := range levels {
		l.mined, l.minedErr = nil, nil
	}
	zblk, err := z.cr.ReceiveMinedHeader(sealed)
	if err != nil {
		return nil, fmt.Errorf("zone ReceiveMinedHeader: %w", err)
	}
	z.sl.WriteBlock(zblk)
	z.mined = zblk
	_, order, err := z.hc.CalcOrder(zblk)
	if err != nil {
		return zblk, err
	}
	for i := order; i < common.ZONE_CTX; i++ {
		if levels[i].mined == nil {
			return zblk, fmt.Errorf("%v did not build its view of the block (order %d): %v", levels[i].loc, order, levels[i].minedErr)
		}
	}
	top := levels[order]
	appended := func() (bool, *hLevel) {
		for i := order; i <= common.ZONE_CTX; i++ {
			if levels[i].hc.GetHeaderByHash(zblk.Hash()) == nil || levels[i].hc.GetTerminiByHash(zblk.Hash()) == nil {
				return false, levels[i]
			}
		}
		return true, nil
	}
	// InsertChain does not report "cannot append yet" conditions (a subordinate's pending ETXs still on their way
	// up): the block stays in the chain's append queue and is retried.  The coordinator does the same.
	var lastErr error
	for try := 0; try < 40; try++ {
		if _, err := top.cr.InsertChain(types.WorkObjects{top.mined}); err != nil {
			lastErr = err
		}
		if ok, _ := appended(); ok {
			break
		}
		h.retries++
		time.Sleep(25 * time.Millisecond)
	}
	if ok, at := appended(); !ok {
		if order == common.ZONE_CTX {
			// a zone-order block waits for nothing outside the zone: the zone refused the block its own worker assembled
			return zblk, fmt.Errorf("zone-order block not appended by its zone %v after %d inserts: %v", at.loc, 40, lastErr)
		}
		return zblk, fmt.Errorf("%w: block not appended at %v after insert (order %d): %v", errHierStuck, at.loc, order, lastErr)
	}
	for i := order; i <= common.ZONE_CTX; i++ {
		levels[i].tip = levels[i].mined
	}
	return zblk, h.pendingHeaders()
}

func (h *hier) pendingHeaders() error {
	pp, err := h.prime.sl.GeneratePendingHeader(h.prime.tip, false)
	if err != nil {
		return fmt.Errorf("prime pending header: %w", err)
	}
	h.primePH = pp
	rp, err := h.region.sl.GeneratePendingHeader(h.region.tip, false)
	if err != nil {
		return fmt.Errorf("region pending header: %w", err)
	}
	for _, z := range h.zones {
		zp, err := z.sl.GeneratePendingHeader(z.tip, true)
		if err != nil {
			return fmt.Errorf("zone %v pending header: %w", z.loc, err)
		}
		z.sl.MakeFullPendingHeader(types.CopyWorkObject(pp), types.CopyWorkObject(rp), zp)
	}
	return nil
}

func init() { areas["hier"] = runHierDbg }

func runHierDbg(seed uint64, n int, outDir string, replay string) {
	cwSetParams(cwRegime{})
	params.ControllerKickInBlock = 2 // the first prime blocks carry the default exchange rate; the controller runs afterwards
	w, err := newHierWorld(h2.NewRng(seed), cwRegime{})
	if err != nil {
		fmt.Println("ERR", err)
		return
	}
	defer w.node.h.stop()
	for i := 0; i < n; i++ {
		st, err := w.step()
		if err != nil {
			fmt.Fprintln(os.Stderr, "step", i, "ERR", err)
			break
		}
		blk := st.blk
		ne := 0
		for _, tx := range blk.Transactions() {
			if tx.Type() == types.ExternalTxType {
				ne++
			}
		}
		sc := scanLedger(w.node.db, w.node.loc)
		fmt.Fprintln(os.Stderr, "block", blk.NumberArray(), "order", st.order, "txs", len(blk.Transactions()), "inboundETXs", ne, "out", len(blk.OutboundEtxs()), "utxos", len(sc.utxos), "lockups", len(sc.lockups), "rootok", sc.root() == blk.UTXORoot())
	}
	fmt.Fprintln(os.Stderr, w.hist)
}

func init() { areas["hier2"] = runHier2Dbg }

// runHier2Dbg: two zones under one region; the first zone runs chainworld, the second only mines
func runHier2Dbg(seed uint64, n int, outDir string, replay string) {
	cwSetParams(cwRegime{})
	params.ControllerKickInBlock = 2
	rc := h2.NewRng(seed)
	w, err := newHierWorldN(rc, cwRegime{}, 2)
	if err != nil {
		fmt.Println("ERR", err)
		return
	}
	hr := w.node.h
	defer hr.stop()
	z1 := hr.zones[1]
	for i := 0; i < n; i++ {
		if rc.Chance(40) {
			want := common.ZONE_CTX
			if rc.Chance(35) {
				want = common.REGION_CTX
				if rc.Chance(40) {
					want = common.PRIME_CTX
				}
			}
			hr.nextDt, hr.nextCoinbase, hr.nextData = 1, chainCoinbase, []byte{0}
			blk, err := hr.nextAt(z1, want)
			if err != nil {
				fmt.Fprintln(os.Stderr, "zone1 next", i, "ERR", err)
				break
			}
			zb, err := hr.addAt(z1, blk)
			if err != nil {
				fmt.Fprintln(os.Stderr, "zone1 add", i, "ERR", err)
				break
			}
			fmt.Fprintln(os.Stderr, "zone1 block", zb.NumberArray(), "order", want, "txs", len(zb.Transactions()), "out", len(zb.OutboundEtxs()))
			continue
		}
		st, err := w.step()
		if err != nil {
			fmt.Fprintln(os.Stderr, "step", i, "ERR", err)
			break
		}
		blk := st.blk
		ne := 0
		for _, tx := range blk.Transactions() {
			if tx.Type() == types.ExternalTxType {
				ne++
			}
		}
		sc := scanLedger(w.node.db, w.node.loc)
		fmt.Fprintln(os.Stderr, "zone0 block", blk.NumberArray(), "order", st.order, "txs", len(blk.Transactions()), "inboundETXs", ne, "out", len(blk.OutboundEtxs()), "utxos", len(sc.utxos), "lockups", len(sc.lockups), "rootok", sc.root() == blk.UTXORoot())
	}
	fmt.Fprintln(os.Stderr, w.hist)
}
