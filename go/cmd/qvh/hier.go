package main

// Hierarchy harness: real prime, region and zone cores (core.Core over their own databases) wired to each other
// through the dom / sub interfaces the way cmd/utils/hierarchical_coordinator.go wires a full node's three
// contexts.  The harness is the miner and the coordinator: it asks the zone for the pending header, seals it with
// real work choosing the order (zone / region / prime), hands the block to the chain of its order (which appends
// it down through its subordinates, confirming ETXs on the way), and then has each level generate its pending
// header on its tip and the zone combine them.

import (
	"fmt"
	"math/big"
	"os"
	"time"
	h2 "verifharness/internal/h"

	"github.com/dominant-strategies/go-quai/common"
	"github.com/dominant-strategies/go-quai/consensus"
	"github.com/dominant-strategies/go-quai/consensus/blake3pow"
	"github.com/dominant-strategies/go-quai/core"
	"github.com/dominant-strategies/go-quai/core/types"
	"github.com/dominant-strategies/go-quai/core/vm"
	"github.com/dominant-strategies/go-quai/ethdb"
	"github.com/dominant-strategies/go-quai/log"
	"github.com/dominant-strategies/go-quai/params"
)

// hBackend makes a core.Core usable as the CoreBackend of its neighbours
type hBackend struct {
	*core.Core
	lvl *hLevel
}

func (b hBackend) NewGenesisPendingHeader(ph *types.WorkObject, domTerminus common.Hash, genesisHash common.Hash) error {
	return b.Core.Slice().NewGenesisPendingHeader(ph, domTerminus, genesisHash)
}

// ReceiveMinedHeader: a subordinate reports a mined block that is also a block of this chain.  The chain builds its
// own view of it (body = manifest of the subordinate blocks since its last block), stores it, and - as the API
// backend of a real node does through its own broadcast - keeps it ready for insertion.
func (b hBackend) ReceiveMinedHeader(wo *types.WorkObject) error {
	blk, err := b.Core.ReceiveMinedHeader(wo)
	if err != nil {
		b.lvl.minedErr = err
		return err
	}
	b.Core.Slice().WriteBlock(blk)
	b.lvl.mined = blk
	return nil
}

type hLevel struct {
	loc      common.Location
	db       ethdb.Database
	cr       *core.Core
	sl       *core.Slice
	hc       *core.HeaderChain
	tip      *types.WorkObject // the last block of this chain (a block of this order or a dominant one)
	mined    *types.WorkObject // this chain's view of the block just mined (set through ReceiveMinedHeader)
	minedErr error
}

type hier struct {
	prime, region, zone *hLevel
	eng                 consensus.Engine
	ghash               common.Hash
	nextDt              uint64
	nextCoinbase        common.Address
	nextData            []byte
}

func newHLevel(db ethdb.Database, loc common.Location, allocs []params.GenesisAccount) (*hLevel, common.Hash, consensus.Engine, error) {
	logger := log.Global
	gen := core.DefaultLocalGenesisBlock("blake3", 0, nil)
	gen.Difficulty = big.NewInt(3000)
	gen.Timestamp = chainGenesisTime
	cfg0, ghash, err := core.SetupGenesisBlock(db, gen, 0, nil, loc, logger)
	if err != nil {
		return nil, common.Hash{}, nil, fmt.Errorf("genesis %v: %w", loc, err)
	}
	chainCfg := params.ChainConfig{ChainID: cfg0.ChainID, ConsensusEngine: cfg0.ConsensusEngine, Blake3Pow: cfg0.Blake3Pow, Progpow: cfg0.Progpow, Location: loc}
	chainCfg.DefaultGenesisHash = ghash
	pow := params.PowConfig{PowMode: params.ModeNormal, DurationLimit: params.LocalDurationLimit, GasCeil: params.LocalGasCeil, MinDifficulty: big.NewInt(1000), NodeLocation: loc, WorkShareThreshold: 3, NumThreads: 1, GenAllocs: allocs}
	eng := make([]consensus.Engine, params.TotalPowEngines)
	eng[0] = blake3pow.New(pow, nil, false, logger)
	eng[types.Kawpow] = eng[0]
	mcfg := &core.Config{QuaiCoinbase: chainCoinbase, QiCoinbase: chainCoinbase, GasCeil: params.LocalGasCeil, GasPrice: big.NewInt(1), Recommit: time.Hour, ExtraData: []byte("verif")}
	tcfg := core.DefaultTxPoolConfig
	tcfg.Journal = ""
	tcfg.ReorgFrequency = 2 * time.Millisecond
	var lim uint64
	cr, err := core.NewCore(db, mcfg, pow, &tcfg, &lim, &chainCfg, []common.Location{{0, 0}}, 0, nil, eng, &core.CacheConfig{TrieCleanLimit: 16, TrieDirtyLimit: 16, TrieTimeLimit: time.Minute}, vm.Config{}, gen, logger)
	if err != nil {
		return nil, common.Hash{}, nil, fmt.Errorf("core %v: %w", loc, err)
	}
	l := &hLevel{loc: loc, db: db, cr: cr, sl: cr.Slice(), hc: cr.Slice().HeaderChain()}
	return l, ghash, eng[0], nil
}

func newHier(allocs []params.GenesisAccount) (*hier, error) {
	mk := func(loc common.Location) ethdb.Database {
		return rawdbWithLoc(loc)
	}
	p, gp, _, err := newHLevel(mk(common.Location{}), common.Location{}, allocs)
	if err != nil {
		return nil, err
	}
	r, gr, _, err := newHLevel(mk(common.Location{0}), common.Location{0}, allocs)
	if err != nil {
		return nil, err
	}
	z, gz, eng, err := newHLevel(mk(common.Location{0, 0}), common.Location{0, 0}, allocs)
	if err != nil {
		return nil, err
	}
	if gp != gr || gr != gz {
		return nil, fmt.Errorf("genesis hashes differ: %x %x %x", gp[:4], gr[:4], gz[:4])
	}
	p.cr.SetSubInterface(hBackend{r.cr, r}, common.Location{0})
	r.cr.SetDomInterface(hBackend{p.cr, p})
	r.cr.SetSubInterface(hBackend{z.cr, z}, common.Location{0, 0})
	z.cr.SetDomInterface(hBackend{r.cr, r})
	h := &hier{prime: p, region: r, zone: z, eng: eng, ghash: gz, nextDt: 1, nextCoinbase: chainCoinbase}
	g := z.hc.GetBlockByHash(gz)
	p.tip, r.tip, z.tip = g, g, g
	// the coordinator's start: prime generates the genesis pending header and hands it down
	if err := p.sl.NewGenesisPendingHeader(nil, gz, gz); err != nil {
		return nil, fmt.Errorf("genesis pending header: %w", err)
	}
	for i := 0; i < 200 && z.sl.ReadBestPh() == nil; i++ {
		time.Sleep(5 * time.Millisecond)
	}
	if z.sl.ReadBestPh() == nil {
		return nil, fmt.Errorf("zone never received the genesis pending header")
	}
	return h, nil
}

// asZoneNode: the hierarchy's zone seen through the interface chainworld drives
func (h *hier) asZoneNode() *zoneNode {
	z := h.zone
	return &zoneNode{db: z.db, cr: z.cr, sl: z.sl, hc: z.hc, eng: h.eng, ghash: h.ghash, loc: z.loc, nextDt: 1, nextCoinbase: chainCoinbase, h: h}
}

func (h *hier) stop() {
	for _, l := range []*hLevel{h.zone, h.region, h.prime} {
		func() { defer func() { recover() }(); l.cr.Stop() }()
	}
}

// seal finds a nonce that meets the target and gives the block the wanted order
func (h *hier) seal(ph *types.WorkObject, want int) *types.WorkObject {
	wh := ph.WorkObjectHeader()
	wh.SetLocation(h.zone.loc)
	wh.SetAuxPow(nil)
	if wh.PrimeTerminusNumber().Uint64() < params.KawPowForkBlock {
		wh.SetShaDiffAndCount(types.NewPowShareDiffAndCount(nil, nil, nil))
		wh.SetScryptDiffAndCount(types.NewPowShareDiffAndCount(nil, nil, nil))
		wh.SetShaShareTarget(nil)
		wh.SetScryptShareTarget(nil)
		wh.SetKawpowDifficulty(nil)
	}
	target := new(big.Int).Div(common.Big2e256, ph.Difficulty())
	for nonce := uint64(0); nonce < 50_000_000; nonce++ {
		wh.SetNonce(types.EncodeNonce(nonce))
		hs, _ := h.eng.ComputePowHash(wh)
		if new(big.Int).SetBytes(hs.Bytes()).Cmp(target) <= 0 {
			if _, order, err := h.zone.hc.CalcOrder(ph); err == nil && order == want {
				return types.NewWorkObject(wh, ph.Body(), nil)
			}
		}
	}
	return nil
}

// next: pending header from the zone, sealed with the wanted order
func (h *hier) next(want int) (*types.WorkObject, error) {
	// the miner picks the timestamp: it is written into the zone's best pending header before the header is handed
	// out, so that the body the worker caches for it is keyed by the seal hash the miner will actually seal
	if best := h.zone.sl.ReadBestPh(); best != nil {
		if parent := h.zone.hc.GetHeaderByHash(best.ParentHash(common.ZONE_CTX)); parent != nil {
			best.WorkObjectHeader().SetTime(parent.Time() + h.nextDt)
			if h.nextData != nil {
				best.WorkObjectHeader().SetData(h.nextData)
			}
			h.zone.sl.WriteBestPh(best)
		}
	}
	ph, err := h.zone.sl.GetPendingHeader(types.Progpow, h.nextCoinbase)
	if err != nil {
		return nil, fmt.Errorf("get pending header: %w", err)
	}
	blk := h.seal(ph, want)
	if blk == nil {
		return nil, fmt.Errorf("no seal of order %d found", want)
	}
	return blk, nil
}

// add: the zone receives the sealed header from the miner, builds its block and - if the block is also a region or
// prime block - reports it upwards, where each dominant chain builds and stores its own view; the chain of the
// block's order then inserts it (which appends it down through its subordinates); finally the pending headers are
// recomputed on the new tips.
func (h *hier) add(sealed *types.WorkObject) (*types.WorkObject, error) {
	levels := []*hLevel{h.prime, h.region, h.zone}
	for _, l := range levels {
		l.mined, l.minedErr = nil, nil
	}
	zblk, err := h.zone.cr.ReceiveMinedHeader(sealed)
	if err != nil {
		return nil, fmt.Errorf("zone ReceiveMinedHeader: %w", err)
	}
	h.zone.sl.WriteBlock(zblk)
	h.zone.mined = zblk
	_, order, err := h.zone.hc.CalcOrder(zblk)
	if err != nil {
		return zblk, err
	}
	for i := order; i < common.ZONE_CTX; i++ {
		if levels[i].mined == nil {
			return zblk, fmt.Errorf("%v did not build its view of the block (order %d): %v", levels[i].loc, order, levels[i].minedErr)
		}
	}
	top := levels[order]
	if _, err := top.cr.InsertChain(types.WorkObjects{top.mined}); err != nil {
		return zblk, fmt.Errorf("insert at %v (order %d): %w", top.loc, order, err)
	}
	for i := order; i <= common.ZONE_CTX; i++ {
		if levels[i].hc.GetHeaderByHash(zblk.Hash()) == nil || levels[i].hc.GetTerminiByHash(zblk.Hash()) == nil {
			return zblk, fmt.Errorf("block not appended at %v after insert (order %d)", levels[i].loc, order)
		}
		levels[i].tip = levels[i].mined
	}
	return zblk, h.pendingHeaders()
}

func (h *hier) pendingHeaders() error {
	pp, err := h.prime.sl.GeneratePendingHeader(h.prime.tip, false)
	if err != nil {
		return fmt.Errorf("prime pending header: %w", err)
	}
	rp, err := h.region.sl.GeneratePendingHeader(h.region.tip, false)
	if err != nil {
		return fmt.Errorf("region pending header: %w", err)
	}
	zp, err := h.zone.sl.GeneratePendingHeader(h.zone.tip, true)
	if err != nil {
		return fmt.Errorf("zone pending header: %w", err)
	}
	h.zone.sl.MakeFullPendingHeader(pp, rp, zp)
	return nil
}

func init() { areas["hier"] = runHierDbg }

func runHierDbg(seed uint64, n int, outDir string, replay string) {
	cwSetParams(cwRegime{})
	params.ControllerKickInBlock = 2 // the first prime blocks carry the default exchange rate; the controller runs afterwards
	w, err := newHierWorld(h2.NewRng(seed), cwRegime{})
	if err != nil {
		fmt.Println("ERR", err)
		return
	}
	defer w.node.h.stop()
	for i := 0; i < n; i++ {
		st, err := w.step()
		if err != nil {
			fmt.Fprintln(os.Stderr, "step", i, "ERR", err)
			break
		}
		blk := st.blk
		ne := 0
		for _, tx := range blk.Transactions() {
			if tx.Type() == types.ExternalTxType {
				ne++
			}
		}
		sc := scanLedger(w.node.db, w.node.loc)
		fmt.Fprintln(os.Stderr, "block", blk.NumberArray(), "order", st.order, "txs", len(blk.Transactions()), "inboundETXs", ne, "out", len(blk.OutboundEtxs()), "utxos", len(sc.utxos), "lockups", len(sc.lockups), "rootok", sc.root() == blk.UTXORoot())
	}
	fmt.Fprintln(os.Stderr, w.hist)
}
