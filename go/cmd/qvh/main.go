// qvh: correspondence harness. `qvh <area> -seed S -n N -out DIR` drives the real go-quai code
// in-process, writes DIR/<area>.ops (op lines for the Lean model), DIR/<area>.<impl>.out (the
// implementation's canonical answers) and DIR/<area>.stats.json (histograms, samples, oracle verdicts).
package main

import (
	"flag"
	"fmt"
	"os"
	"sort"
)

type areaFn func(seed uint64, n int, out string, replay string)

var areas = map[string]areaFn{}

func main() {
	if len(os.Args) < 2 {
		usage()
	}
	area := os.Args[1]
	fs := flag.NewFlagSet(area, flag.ExitOnError)
	seed := fs.Uint64("seed", 1, "PRNG seed")
	n := fs.Int("n", 100, "number of cases")
	out := fs.String("out", "", "output directory")
	replay := fs.String("replay", "", "replay an ops file instead of generating")
	fs.Parse(os.Args[2:])
	f, ok := areas[area]
	if !ok || *out == "" {
		usage()
	}
	f(*seed, *n, *out, *replay)
}

func usage() {
	var names []string
	for k := range areas {
		names = append(names, k)
	}
	sort.Strings(names)
	fmt.Fprintf(os.Stderr, "usage: qvh <area> -seed S -n N -out DIR   areas: %v\n", names)
	os.Exit(2)
}
