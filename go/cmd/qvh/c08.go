package main

// Area c08: a block is sealed only by work on exactly its contents.
//
//  - seal / share arithmetic: real headers (random nonces, mined ones, boundary difficulties 0, -1, 1, 2, 2^255,
//    2^256-1, 2^256, 2^256+1, 2^300) go through the real HeaderChain.VerifySeal and CheckWorkThreshold; the model
//    decides from the same proof-of-work hash and difficulty;
//  - coverage: every setter of the sealed header and of the body header is applied to a copy; if the encoded header
//    changes, the seal hash (resp. the header hash, which the seal contains) must change;
//  - KAWPOW: the light evaluation must be a function of the full 64-bit nonce (compared with the share verifier, which
//    has no result cache).

import (
	"fmt"
	"math/big"
	"reflect"
	"strings"
	"time"

	"verifharness/internal/h"

	"github.com/dominant-strategies/go-quai/common"
	"github.com/dominant-strategies/go-quai/consensus/kawpow"
	"github.com/dominant-strategies/go-quai/consensus/progpow"
	"github.com/dominant-strategies/go-quai/core/types"
	"github.com/dominant-strategies/go-quai/log"
	"github.com/dominant-strategies/go-quai/params"
	"google.golang.org/protobuf/proto"
)

func init() { areas["c08"] = runC08 }

func c08Verdict(err error) string {
	switch {
	case err == nil:
		return "ok"
	case strings.Contains(err.Error(), "difficulty"):
		return "invalid-difficulty"
	case strings.Contains(err.Error(), "proof-of-work"):
		return "invalid-pow"
	}
	return "other:" + err.Error()
}

// settersProbe applies every Set* method of obj (a pointer) to a fresh copy made by cp and reports, through check,
// the method name and the copy
func settersProbe(rc *h.Rng, obj any, cp func() any, skip map[string]bool, check func(name string, mutated any)) {
	t := reflect.TypeOf(obj)
	for i := 0; i < t.NumMethod(); i++ {
		m := t.Method(i)
		if !strings.HasPrefix(m.Name, "Set") || skip[m.Name] {
			continue
		}
		mt := m.Type
		ctxs := []int{-1}
		if mt.NumIn() == 3 && mt.In(2).Kind() == reflect.Int {
			ctxs = []int{0, 1, 2}
		} else if mt.NumIn() != 2 {
			continue
		}
		for _, ctx := range ctxs {
			var arg reflect.Value
			switch mt.In(1) {
			case reflect.TypeOf(common.Hash{}):
				arg = reflect.ValueOf(cHash(rc))
			case reflect.TypeOf((*big.Int)(nil)):
				arg = reflect.ValueOf(new(big.Int).SetUint64(rc.U64() | 1<<40))
			case reflect.TypeOf(uint64(0)):
				arg = reflect.ValueOf(rc.U64() | 1<<33)
			case reflect.TypeOf(uint16(0)):
				arg = reflect.ValueOf(uint16(rc.U64() | 0x100))
			case reflect.TypeOf(uint8(0)):
				arg = reflect.ValueOf(uint8(rc.U64() | 0x40))
			case reflect.TypeOf([]byte(nil)):
				arg = reflect.ValueOf(rc.Bytes(3 + rc.Intn(30)))
			case reflect.TypeOf(common.Location{}):
				arg = reflect.ValueOf(common.Location{1, 2})
			case reflect.TypeOf(common.Address{}):
				arg = reflect.ValueOf(cAddr(rc, common.Location{0, 0}))
			case reflect.TypeOf((*types.PowShareDiffAndCount)(nil)):
				arg = reflect.ValueOf(types.NewPowShareDiffAndCount(new(big.Int).SetUint64(rc.U64()|1), big.NewInt(int64(rc.Intn(1000))), big.NewInt(int64(rc.Intn(10)))))
			default:
				continue
			}
			c := cp()
			ok := true
			func() {
				defer func() {
					if recover() != nil {
						ok = false // a context index the field does not have
					}
				}()
				if ctx >= 0 {
					m.Func.Call([]reflect.Value{reflect.ValueOf(c), arg, reflect.ValueOf(ctx)})
				} else {
					m.Func.Call([]reflect.Value{reflect.ValueOf(c), arg})
				}
			}()
			if ok {
				name := m.Name
				if ctx >= 0 {
					name = fmt.Sprintf("%s[%d]", m.Name, ctx)
				}
				check(name, c)
			}
		}
	}
}

func kawpowHeader(height uint32, nonce64 uint64) *types.WorkObjectHeader {
	rvn := &types.RavencoinBlockHeader{Version: 0x20000000, HashPrevBlock: common.HexToHash("0x11"), HashMerkleRoot: common.HexToHash("0x22"),
		Time: 1588788000, Bits: 0x1d00ffff, Height: height, Nonce64: nonce64}
	coinbaseTx := types.NewAuxPowCoinbaseTx(types.Kawpow, height, []byte{0x76, 0xa9, 0x14, 0x89, 0xab, 0xcd, 0xef, 0x88, 0xac}, types.EmptyRootHash, 100)
	wh := &types.WorkObjectHeader{}
	wh.SetAuxPow(types.NewAuxPow(types.Kawpow, types.NewAuxPowHeader(rvn), []byte{}, []byte{}, [][]byte{}, coinbaseTx))
	wh.SetPrimeTerminusNumber(new(big.Int).SetUint64(params.KawPowForkBlock + 1000))
	wh.SetNumber(big.NewInt(int64(height)))
	wh.SetDifficulty(big.NewInt(1))
	wh.SetLocation(common.Location{0, 0})
	wh.SetPrimaryCoinbase(common.BytesToAddress(make([]byte, 20), common.Location{0, 0}))
	return wh
}

func runC08(seed uint64, n int, outDir string, replay string) {
	o := h.NewOut(outDir, "c08")
	r := h.NewRng(seed)
	ans := func(s string) { o.Ans("impl", "%s", s) }
	cwSetParams(cwRegime{})
	node, err := newZoneNode(newMemDB())
	if err != nil {
		panic(err)
	}
	defer safeStop(node)
	hc := node.hc
	two256 := new(big.Int).Lsh(big.NewInt(1), 256)
	boundary := []*big.Int{big.NewInt(0), big.NewInt(-1), big.NewInt(1), big.NewInt(2), big.NewInt(3), new(big.Int).Lsh(big.NewInt(1), 255),
		new(big.Int).Sub(two256, big.NewInt(1)), two256, new(big.Int).Add(two256, big.NewInt(1)), new(big.Int).Lsh(big.NewInt(1), 300)}
	for c := 0; c < n; c++ {
		rc := r.Fork()
		o.NewCase()
		o.Op("newcase")
		ans("ok")
		func() {
			defer func() {
				if p := recover(); p != nil {
					o.Violate("c08-panic", fmt.Sprintf("panic: %v at %s", p, stackTop()))
					o.Pad("panic %v", p)
				}
			}()
			if c == 0 {
				c08AuxBinding(o, rc.Fork())
				c08ShareWithBadMix(o, rc.Fork())
			}
			c08TemplateBinding(o, rc.Fork())
			wo := types.EmptyWorkObject(common.ZONE_CTX)
			fuzzSetters(rc, wo.WorkObjectHeader(), common.Location{0, 0})
			wh := wo.WorkObjectHeader()
			wh.SetAuxPow(nil)
			wh.SetLocation(common.Location{0, 0})
			wh.SetPrimeTerminusNumber(big.NewInt(int64(rc.Intn(1000))))
			wh.SetShaDiffAndCount(types.NewPowShareDiffAndCount(nil, nil, nil))
			wh.SetScryptDiffAndCount(types.NewPowShareDiffAndCount(nil, nil, nil))
			// (1) arithmetic
			for k := 0; k < 12; k++ {
				var d *big.Int
				switch {
				case k < len(boundary):
					d = boundary[k]
				default:
					d = new(big.Int).SetUint64(1 + rc.U64()>>uint(40+rc.Intn(24)))
				}
				wh.SetDifficulty(d)
				wh.SetNonce(types.EncodeNonce(rc.U64()))
				if k == 11 && d.Sign() > 0 && d.BitLen() < 20 { // a really mined one
					tgt := new(big.Int).Div(two256, d)
					for nn := uint64(0); nn < 5_000_000; nn++ {
						wh.SetNonce(types.EncodeNonce(nn))
						hs, _ := node.eng.ComputePowHash(wh)
						if new(big.Int).SetBytes(hs.Bytes()).Cmp(tgt) <= 0 {
							break
						}
					}
				}
				hs, _ := node.eng.ComputePowHash(wh)
				hv := new(big.Int).SetBytes(hs.Bytes())
				o.Op("seal %s %s", hv, d)
				_, err := hc.VerifySeal(wh)
				ans(c08Verdict(err))
				if d.Sign() > 0 {
					bits := 1 + rc.Intn(9)
					o.Op("share %s %s %d", hv, d, bits)
					ans(b01(hc.CheckWorkThreshold(wh, bits)))
				}
			}
			// (2) coverage of the seal hash and of the header hash
			wh.SetDifficulty(big.NewInt(5000))
			enc := func(x *types.WorkObjectHeader) string {
				p, err := x.ProtoEncode()
				if err != nil {
					return "err"
				}
				p.Nonce, p.MixHash, p.AuxPow = nil, nil, nil
				b, _ := proto.MarshalOptions{Deterministic: true}.Marshal(p)
				return string(b)
			}
			base, baseSeal := enc(wh), wh.SealHash()
			settersProbe(rc, wh, func() any { return types.CopyWorkObjectHeader(wh) }, map[string]bool{"SetNonce": true, "SetMixHash": true, "SetAuxPow": true},
				func(name string, m any) {
					x := m.(*types.WorkObjectHeader)
					if enc(x) != base {
						o.Count("seal-probe:" + name)
						if x.SealHash() == baseSeal {
							o.Violate("c08-field-not-in-seal:"+name, fmt.Sprintf("%s changes the encoded header but not its seal hash", name))
						}
					}
				})
			// the same probe on a header after the KawPow fork, where the share-difficulty fields exist and are sealed
			{
				wf := types.CopyWorkObjectHeader(wh)
				wf.SetPrimeTerminusNumber(new(big.Int).SetUint64(params.KawPowForkBlock + uint64(rc.Intn(1000))))
				wf.SetShaDiffAndCount(types.NewPowShareDiffAndCount(big.NewInt(int64(1000+rc.Intn(1000))), big.NewInt(int64(rc.Intn(50))), big.NewInt(int64(rc.Intn(5)))))
				wf.SetScryptDiffAndCount(types.NewPowShareDiffAndCount(big.NewInt(int64(2000+rc.Intn(1000))), big.NewInt(int64(rc.Intn(50))), big.NewInt(int64(rc.Intn(5)))))
				wf.SetShaShareTarget(big.NewInt(int64(1 + rc.Intn(1_000_000))))
				wf.SetScryptShareTarget(big.NewInt(int64(1 + rc.Intn(1_000_000))))
				wf.SetKawpowDifficulty(big.NewInt(int64(1 + rc.Intn(1_000_000))))
				fbase, fseal := enc(wf), wf.SealHash()
				settersProbe(rc, wf, func() any { return types.CopyWorkObjectHeader(wf) }, map[string]bool{"SetNonce": true, "SetMixHash": true, "SetAuxPow": true},
					func(name string, m any) {
						x := m.(*types.WorkObjectHeader)
						if enc(x) != fbase {
							o.Count("seal-probe-after-fork:" + name)
							if x.SealHash() == fseal {
								o.Violate("c08-field-not-in-seal:"+name, fmt.Sprintf("after the KawPow fork %s changes the encoded header but not its seal hash", name))
							}
						}
					})
			}
			hd := wo.Header()
			fuzzSetters(rc, hd, common.Location{0, 0})
			henc := func(x *types.Header) string {
				p, err := x.ProtoEncode()
				if err != nil {
					return "err"
				}
				b, _ := proto.MarshalOptions{Deterministic: true}.Marshal(p)
				return string(b)
			}
			hbase, hhash := henc(hd), hd.Hash()
			settersProbe(rc, hd, func() any { return types.CopyHeader(hd) }, nil, func(name string, m any) {
				x := m.(*types.Header)
				if henc(x) != hbase {
					o.Count("hash-probe:" + name)
					if x.Hash() == hhash {
						o.Violate("c08-field-not-in-header-hash:"+name, fmt.Sprintf("%s changes the encoded body header but not its hash", name))
					}
				}
			})
		}()
		o.EndCase(fmt.Sprint(rc.U64()), true)
	}
	// (3) KAWPOW: the light evaluation is a function of the whole 64-bit nonce
	func() {
		defer func() {
			if p := recover(); p != nil {
				o.Violate("c08-panic", fmt.Sprintf("kawpow: panic: %v at %s", p, stackTop()))
			}
		}()
		eng := kawpow.New(params.PowConfig{PowMode: params.ModeNormal, CachesInMem: 1}, nil, false, log.Global)
		rc := r.Fork()
		const height = uint32(1219737)
		pairs := 2
		if n >= 1000 {
			pairs = 12
		}
		for i := 0; i < pairs; i++ {
			base := rc.U64()
			for _, nonce := range []uint64{base, base ^ (1 << uint(32+rc.Intn(32))), base ^ (1 << uint(rc.Intn(32)))} {
				wh := kawpowHeader(height, nonce)
				mix, pow := eng.ComputePowLight(wh)
				rmix, rpow, err := eng.VerifyKawpowShare(wh.AuxPow().Header().SealHash().Reverse(), nonce, uint64(height))
				if err != nil || mix != rmix || pow != rpow {
					o.Violate("c08-kawpow-result-not-function-of-nonce", fmt.Sprintf("height %d nonce %#x (after evaluating nonce %#x): ComputePowLight gives pow %x, the share verifier %x (err %v)", height, nonce, base, pow.Bytes()[:6], rpow.Bytes()[:6], err))
				}
				o.Count("kawpow-evaluations")
			}
		}
	}()
	// (4) the verdict on a seal is a function of the header: evaluating it again - on the same object, whose memoised
	// digest fields the first evaluation filled, or on a copy - gives the same verdict.  ProgPoW and KAWPOW carry a mix
	// digest in the header that must equal the computed one.
	func() {
		defer func() {
			if p := recover(); p != nil {
				o.Violate("c08-panic", fmt.Sprintf("progpow: panic: %v at %s", p, stackTop()))
			}
		}()
		eng := progpow.New(params.PowConfig{PowMode: params.ModeTest}, nil, false, log.Global)
		rc := r.Fork()
		for i := 0; i < 3; i++ {
			wh := types.NewWorkObjectHeader(cHash(rc), cHash(rc), big.NewInt(int64(1+rc.Intn(1000))), big.NewInt(100), big.NewInt(int64(rc.Intn(100))), cHash(rc), types.EncodeNonce(rc.U64()), 0, 1, common.Location{0, 0}, common.Address{}, nil, nil,
				types.NewPowShareDiffAndCount(nil, nil, nil), types.NewPowShareDiffAndCount(nil, nil, nil), nil, nil, nil)
			mix, pow := eng.ComputePowLight(types.CopyWorkObjectHeader(wh))
			good := types.CopyWorkObjectHeader(wh)
			good.SetMixHash(mix)
			bad := types.CopyWorkObjectHeader(wh)
			wrong := mix
			wrong[rc.Intn(32)] ^= byte(1 << uint(rc.Intn(8)))
			bad.SetMixHash(wrong)
			for round := 0; round < 3; round++ {
				g, b := good, bad
				if round == 2 {
					g, b = types.CopyWorkObjectHeader(good), types.CopyWorkObjectHeader(bad)
				}
				if hs, err := eng.ComputePowHash(g); err != nil || hs != pow {
					o.Violate("c08-seal-verdict-changes-on-repeat", fmt.Sprintf("progpow: evaluation %d of a header with the right mix digest: pow %x err %v, first computed %x", round+1, hs.Bytes()[:6], err, pow.Bytes()[:6]))
				}
				if _, err := eng.ComputePowHash(b); err == nil {
					o.Violate("c08-seal-verdict-changes-on-repeat", fmt.Sprintf("progpow: evaluation %d of a header whose mix digest is wrong is accepted (the first evaluation rejected it)", round+1))
				}
				o.Count("progpow-evaluations")
			}
		}
	}()
	o.Close(nil)
}

// c08AuxBinding: a merge-mined seal binds the donor's work to this header only through the donor coinbase committing to
// the header's seal hash.  On a real region chain (genesis parent) a header B carries the donor proof made for another
// header A (other coinbase, other transaction root): VerifyHeader must refuse B at every prime-terminus number from the
// activation block on - while A with its own proof gets past the commitment check (and fails later, at the template
// signature the harness cannot produce), which shows the probe reaches the check.
func c08AuxBinding(o *h.Out, rc *h.Rng) {
	lvl, _, _, err := newHLevel(rawdbWithLoc(common.Location{0}), common.Location{0}, nil, 1)
	if err != nil {
		o.Count("auxbinding:no-region-chain")
		return
	}
	defer func() {
		done := make(chan struct{})
		go func() { defer func() { recover(); close(done) }(); lvl.sl.Stop() }()
		select {
		case <-done:
		case <-time.After(3 * time.Second):
		}
	}()
	parent := lvl.hc.CurrentHeader()
	now := uint64(time.Now().Unix())
	child := func(ptn uint64, coinbase common.Address, txHash common.Hash) *types.WorkObject {
		wo := types.EmptyWorkObject(common.REGION_CTX)
		wo.Header().SetNumber(big.NewInt(1), common.REGION_CTX)
		wo.Header().SetNumber(new(big.Int).SetUint64(ptn), common.PRIME_CTX)
		wo.Header().SetParentHash(parent.Hash(), common.REGION_CTX)
		wh := wo.WorkObjectHeader()
		wh.SetLocation(common.Location{0, 0})
		wh.SetParentHash(parent.Hash())
		wh.SetNumber(big.NewInt(1))
		wh.SetDifficulty(big.NewInt(1000))
		wh.SetPrimeTerminusNumber(new(big.Int).SetUint64(ptn))
		wh.SetTime(now)
		wh.SetPrimaryCoinbase(coinbase)
		wh.SetTxHash(txHash)
		wh.SetHeaderHash(wo.Body().Header().Hash())
		return wo
	}
	proofFor := func(seal common.Hash) *types.AuxPow {
		coinbaseOut := []byte{0x01, 0, 0, 0, 0, 0, 0, 0, 0, 0x00, 0, 0, 0, 0}
		tx := types.NewAuxPowCoinbaseTx(types.Kawpow, 1000, coinbaseOut, seal, uint32(now)-10)
		root := types.CalculateMerkleRoot(types.Kawpow, tx, nil)
		donor := types.NewRavencoinBlockHeader(0x30000000, [32]byte{1}, root, uint32(now), 0x1d00ffff, 1000)
		return types.NewAuxPow(types.Kawpow, types.NewAuxPowHeader(donor), nil, make([]byte, 64), nil, tx)
	}
	cbA := common.HexToAddress("0x0000000000000000000000000000000000000001", common.Location{0, 0})
	cbB := common.HexToAddress("0x0000000000000000000000000000000000000002", common.Location{0, 0})
	for _, ptn := range []uint64{params.KawPowForkBlock, params.KawPowForkBlock + 1, params.KawPowForkBlock + 2 + uint64(rc.Intn(100000))} {
		a := child(ptn, cbA, types.EmptyRootHash)
		proof := proofFor(a.SealHash())
		own := types.CopyWorkObject(a)
		own.WorkObjectHeader().SetAuxPow(types.CopyAuxPow(proof))
		b := child(ptn, cbB, common.HexToHash("0xbeef"))
		b.WorkObjectHeader().SetAuxPow(types.CopyAuxPow(proof))
		errOwn, errB := lvl.hc.VerifyHeader(own), lvl.hc.VerifyHeader(b)
		switch {
		case errB == nil:
			o.Violate("c08-auxpow-not-bound-to-header", fmt.Sprintf("prime terminus %d (activation block %d): a header with seal hash %x is accepted with a donor proof whose coinbase commits to the seal hash %x of another header", ptn, params.KawPowForkBlock, b.SealHash().Bytes()[:6], a.SealHash().Bytes()[:6]))
		case errOwn != nil && errOwn.Error() == errB.Error():
			o.Count("auxbinding:inconclusive") // both stop at the same, earlier check: the probe did not reach the commitment
		default:
			o.Count("auxbinding:foreign-proof-refused")
		}
	}
}

// c08ShareWithBadMix: after the fork a merge-mined share is classified by its KAWPOW hash.  A share whose donor header
// carries a mix digest that does not belong to its nonce has no verifiable proof of work at all: on a chain with the
// real KAWPOW engine it must be classified Invalid - never as a valid work share - by CheckIfValidWorkShare and by the
// uncle classification; the same share with its genuine mix digest is the control (whatever its class, the two differ
// only if the genuine one happens to meet a target).
func c08ShareWithBadMix(o *h.Out, rc *h.Rng) {
	hierRealKawpow = true
	lvl, _, _, err := newHLevel(rawdbWithLoc(common.Location{0, 0}), common.Location{0, 0}, nil, 1)
	hierRealKawpow = false
	if err != nil {
		o.Count("badmix:no-chain")
		return
	}
	defer func() {
		done := make(chan struct{})
		go func() { defer func() { recover(); close(done) }(); lvl.sl.Stop() }()
		select {
		case <-done:
		case <-time.After(3 * time.Second):
		}
	}()
	eng := kawpow.New(params.PowConfig{PowMode: params.ModeNormal, CachesInMem: 1}, nil, false, log.Global)
	for i := 0; i < 2; i++ {
		height := uint32(1000 + rc.Intn(5000))
		wh := kawpowHeader(height, rc.U64())
		wh.SetDifficulty(new(big.Int).Lsh(big.NewInt(1), 200))
		wh.SetKawpowDifficulty(new(big.Int).Lsh(big.NewInt(1), 200))
		wh.SetShaDiffAndCount(types.NewPowShareDiffAndCount(big.NewInt(1000), big.NewInt(0), big.NewInt(0)))
		wh.SetScryptDiffAndCount(types.NewPowShareDiffAndCount(big.NewInt(1000), big.NewInt(0), big.NewInt(0)))
		wh.SetShaShareTarget(big.NewInt(100))
		wh.SetScryptShareTarget(big.NewInt(100))
		mix, _, err := eng.VerifyKawpowShare(wh.AuxPow().Header().SealHash().Reverse(), wh.AuxPow().Header().Nonce64(), uint64(height))
		if err != nil {
			o.Count("badmix:no-genuine-mix")
			continue
		}
		good := types.CopyWorkObjectHeader(wh)
		good.AuxPow().Header().SetMixHash(mix)
		bad := types.CopyWorkObjectHeader(wh)
		var garbage common.Hash
		copy(garbage[:], rc.Bytes(32))
		bad.AuxPow().Header().SetMixHash(garbage)
		vGood, vBad := lvl.hc.CheckIfValidWorkShare(good), lvl.hc.CheckIfValidWorkShare(bad)
		o.Count(fmt.Sprintf("badmix:genuine-class-%d", vGood))
		if vBad != types.Invalid {
			o.Violate("c08-share-without-verifiable-work-accepted", fmt.Sprintf("a merge-mined share whose donor header carries a mix digest that is not the one of its nonce is classified %d by CheckIfValidWorkShare (Invalid is %d; the same share with the genuine digest: %d)", vBad, types.Invalid, vGood))
		}
	}
}

// c08TemplateBinding: the message the merge-mining template signature covers (AuxTemplate.Hash of the template an AuxPoW
// converts to) binds the donor header's version - except the low 29 bits of the SHA donor chains, which ASIC-boost
// miners roll - and its other template fields.  Needs no keys: two proofs that differ in one field must not yield the
// same message.  Also: a donor coinbase cut short anywhere yields a template or nothing, never a crash.
func c08TemplateBinding(o *h.Out, rc *h.Rng) {
	pid := []types.PowID{types.Kawpow, types.SHA_BTC, types.SHA_BCH, types.Scrypt}[rc.Intn(4)]
	height := uint32(1000 + rc.Intn(800000))
	out := []byte{0x01, 0, 0, 0, 0, 0, 0, 0, 0, 0x00, 0, 0, 0, 0}
	seal := cHash(rc)
	mk := func(version int32, bits uint32, h uint32) *types.AuxPow {
		ctx := types.NewAuxPowCoinbaseTx(pid, h, out, seal, 1700000000)
		var prev, mr [32]byte
		prev[0], mr[0] = 1, 2
		donor := types.NewBlockHeader(pid, version, prev, mr, 1700000100, bits, 7, h)
		return types.NewAuxPow(pid, donor, []byte{}, make([]byte, 64), [][]byte{make([]byte, 32)}, ctx)
	}
	base := mk(0x20000000, 0x1d00ffff, height)
	h0 := base.ConvertToTemplate().Hash()
	o.Count(fmt.Sprintf("template:%d", pid))
	// low version bits (rolled by SHA miners only)
	low := mk(0x20000000|int32(1<<uint(2+rc.Intn(20))), 0x1d00ffff, height)
	if pid != types.SHA_BTC && pid != types.SHA_BCH && low.ConvertToTemplate().Hash() == h0 {
		o.Violate("c08-template-signature-does-not-bind-donor-version", fmt.Sprintf("pow id %d: two donor headers that differ in a low version bit give the same signed template message", pid))
	}
	// the top three version bits bind for every algorithm
	if top := mk(0x40000000, 0x1d00ffff, height); top.ConvertToTemplate().Hash() == h0 {
		o.Violate("c08-template-signature-does-not-bind-donor-version", fmt.Sprintf("pow id %d: donor versions 0x20000000 and 0x40000000 give the same signed template message", pid))
	}
	if bits := mk(0x20000000, 0x1c00ffff, height); bits.ConvertToTemplate().Hash() == h0 {
		o.Violate("c08-template-signature-does-not-bind-donor-field", fmt.Sprintf("pow id %d: donor headers that differ in the difficulty bits give the same signed template message", pid))
	}
	// truncated donor coinbase
	full := base.Transaction()
	for cut := 0; cut < len(full); cut++ {
		func() {
			defer func() {
				if p := recover(); p != nil {
					o.Violate("c15-truncated-donor-coinbase-crashes", fmt.Sprintf("pow id %d: a donor coinbase cut to %d of %d bytes: panic %v at %s", pid, cut, len(full), p, stackTop()))
				}
			}()
			donor := base.Header()
			ap := types.NewAuxPow(pid, donor, []byte{}, make([]byte, 64), [][]byte{make([]byte, 32)}, append([]byte{}, full[:cut]...))
			ap.ConvertToTemplate().VerifySignature()
		}()
	}
}
