package main

// Area addr (C16): every address constructor / decoder, the scope predicates, the StateDB account
// creation guard and contract-address grinding on the real code.

import (
	"encoding/binary"
	"encoding/json"
	"fmt"
	"github.com/dominant-strategies/go-quai/core/types"
	"math/big"
	"sort"
	"strings"

	"verifharness/internal/h"

	"github.com/dominant-strategies/go-quai/common"
	"github.com/dominant-strategies/go-quai/core/rawdb"
	"github.com/dominant-strategies/go-quai/core/state"
	"github.com/dominant-strategies/go-quai/core/vm"
	"github.com/dominant-strategies/go-quai/crypto"
	"github.com/dominant-strategies/go-quai/log"
	"github.com/dominant-strategies/go-quai/params"
	"github.com/dominant-strategies/go-quai/rlp"
)

func init() { areas["addr"] = runAddr }

func addrLoc(r *h.Rng) common.Location {
	switch r.Intn(12) {
	case 0:
		return common.Location{}
	case 1:
		return common.Location{byte(r.Intn(3))}
	case 2:
		return common.Location{byte(r.Intn(16)), byte(r.Intn(16))}
	default:
		return common.Location{byte(r.Intn(3)), byte(r.Intn(3))}
	}
}

// addrBytes generates byte strings biased towards the interesting boundaries for location loc.
func addrBytes(r *h.Rng, loc common.Location, n int) []byte {
	b := r.Bytes(n)
	if n == 0 {
		return b
	}
	pfx := byte(0)
	if len(loc) == 2 {
		pfx = loc.BytePrefix()
	}
	switch r.Intn(8) {
	case 0, 1, 2:
		b[0] = pfx
	case 3:
		b[0] = byte(r.Intn(3))<<4 + byte(r.Intn(3))
	case 4:
		for i := range b {
			b[i] = 0
		}
		if r.Bool() {
			b[0] = pfx
		} else if n > 20 {
			b[n-20] = pfx
		}
	}
	if n > 1 {
		switch r.Intn(6) {
		case 0:
			b[1] = 127
		case 1:
			b[1] = 128
		case 2:
			b[1] = 0
		case 3:
			b[1] = 255
		}
	}
	return b
}

// inZone is the property's own definition, independent of the code under test: a 20-byte address
// belongs to the zone named by its first byte.
func inZone(b []byte, loc common.Location) bool {
	return len(loc) == 2 && len(b) == 20 && b[0] == loc[0]<<4+loc[1]
}

func kindOf(a common.Address) string {
	if _, err := a.InternalAddress(); err == nil {
		return "I " + h.Hex(a.Bytes())
	}
	return "E " + h.Hex(a.Bytes())
}

func tf(b bool) string {
	if b {
		return "t"
	}
	return "f"
}

func safely(f func() string) (s string) {
	defer func() {
		if r := recover(); r != nil {
			s = fmt.Sprintf("panic %v", r)
		}
	}()
	return f()
}

func runAddr(seed uint64, n int, outDir string, replay string) {
	o := h.NewOut(outDir, "addr")
	r := h.NewRng(seed)
	ans := func(s string) { o.Ans("impl", "%s", s) }
	for c := 0; c < n; c++ {
		o.NewCase()
		o.Op("newcase")
		ans("ok")
		rc := r.Fork()
		loc := addrLoc(rc)
		lh := h.Hex(loc)
		kinds := map[string]bool{}
		nops := 10 + rc.Intn(30)
		if rc.Chance(35) {
			addrFilter(o, rc, ans)
		}
		for i := 0; i < nops; i++ {
			ln := 20
			if rc.Chance(35) {
				ln = rc.Intn(41)
			}
			b := addrBytes(rc, loc, ln)
			switch k := rc.Intn(14); k {
			case 0:
				o.Op("b2a %s %s", lh, h.Hex(b))
				a := common.BytesToAddress(b, loc)
				ans(kindOf(a))
				// T3: for a 20-byte input every constructor agrees with the scope predicate
				if len(b) == 20 {
					want := "E"
					if inZone(b, loc) {
						want = "I"
					}
					if !strings.HasPrefix(kindOf(a), want) || string(a.Bytes()) != string(b) {
						o.Violate("addr-ctor-disagrees:bytes", fmt.Sprintf("BytesToAddress(%x,%v)=%s but IsInChainScope says %s", b, loc, kindOf(a), want))
					}
				}
				kinds[kindOf(a)[:1]] = true
			case 1:
				o.Op("scope %s %s", lh, h.Hex(b))
				ans(tf(common.IsInChainScope(b, loc)))
				if len(b) == 20 && common.IsInChainScope(b, loc) != inZone(b, loc) {
					o.Violate("addr-scope-predicate", fmt.Sprintf("IsInChainScope(%x,%v)=%v but first byte says %v", b, loc, common.IsInChainScope(b, loc), inZone(b, loc)))
				}
			case 2:
				if len(b) != 20 {
					continue
				}
				var b20 [20]byte
				copy(b20[:], b)
				o.Op("ctor bytes20 %s %s", lh, h.Hex(b))
				ans(kindOf(common.Bytes20ToAddress(b20, loc)))
			case 3:
				if len(b) == 0 {
					continue
				}
				o.Op("ctor hex %s %s", lh, h.Hex(b))
				ans(kindOf(common.HexToAddress("0x"+common.Bytes2Hex(b), loc)))
			case 4:
				o.Op("ctor proto %s %s", lh, h.Hex(b))
				var a common.Address
				bb := b
				if len(bb) == 0 {
					bb = []byte{}
				}
				if err := a.ProtoDecode(&common.ProtoAddress{Value: bb}, loc); err != nil {
					ans("err")
				} else {
					ans(kindOf(a))
				}
			case 5:
				if len(b) != 20 {
					continue
				}
				o.Op("ctor scan %s %s", lh, h.Hex(b))
				var a common.Address
				if err := a.Scan(b, loc); err != nil {
					ans("err")
				} else {
					ans(kindOf(a))
				}
			case 6:
				// pubkey / CREATE / CREATE2 derivations: the keccak image is handed to the model
				key, _ := crypto.ToECDSA(crypto.Keccak256(rc.Bytes(8)))
				pub := crypto.FromECDSAPub(&key.PublicKey)
				img := crypto.Keccak256(pub[1:])[12:]
				o.Op("ctor pubkey %s %s", lh, h.Hex(img))
				ans(kindOf(crypto.PubkeyToAddress(key.PublicKey, loc)))
				sender := common.BytesToAddress(b, loc)
				nonce := rc.U64() % 1000
				code := rc.Bytes(rc.Intn(40))
				nb := make([]byte, 8)
				binary.BigEndian.PutUint64(nb, nonce)
				img = crypto.Keccak256(sender.Bytes(), nb, code)[12:]
				o.Op("ctor create %s %s", lh, h.Hex(img))
				ans(kindOf(crypto.CreateAddress(sender, nonce, code, loc)))
				var salt [32]byte
				copy(salt[:], rc.Bytes(32))
				ih := crypto.Keccak256(code)
				img = crypto.Keccak256([]byte{0xff}, sender.Bytes(), salt[:], ih)[12:]
				o.Op("ctor create2 %s %s", lh, h.Hex(img))
				ans(kindOf(crypto.CreateAddress2(sender, salt, ih, loc)))
			case 7:
				enc, _ := rlp.EncodeToBytes(b)
				o.Op("noloc rlp %s", h.Hex(b))
				var a common.Address
				if err := rlp.DecodeBytes(enc, &a); err != nil {
					ans("err")
				} else {
					ans(kindOf(a))
				}
				// T3 (finding F-C16-1): a decoder must classify as the node's own constructor does
				if len(b) == 20 && len(loc) == 2 && kindOf(a)[:1] != kindOf(common.BytesToAddress(b, loc))[:1] {
					o.Violate("addr-decoder-fixed-location", fmt.Sprintf("RLP-decoded %x is %s but node %v classifies it %s", b, kindOf(a)[:1], loc, kindOf(common.BytesToAddress(b, loc))[:1]))
				}
			case 8:
				if len(b) != 20 {
					continue
				}
				o.Op("noloc json %s", h.Hex(b))
				var a common.Address
				if err := json.Unmarshal([]byte("\"0x"+common.Bytes2Hex(b)+"\""), &a); err != nil {
					ans("err")
				} else {
					ans(kindOf(a))
				}
				o.Op("noloc text %s", h.Hex(b))
				var a2 common.Address
				if err := a2.UnmarshalText([]byte("0x" + common.Bytes2Hex(b))); err != nil {
					ans("err")
				} else {
					ans(kindOf(a2))
				}
			case 9:
				o.Op("ciq %s %s", lh, h.Hex(b))
				ans(tf(common.CheckIfBytesAreInternalAndQiAddress(b, loc) == nil))
			case 10:
				if len(b) < 2 {
					continue
				}
				a := common.BytesToAddress(b, loc)
				o.Op("iaq %s %s", lh, h.Hex(b))
				_, e1 := a.InternalAndQuaiAddress()
				ans(tf(e1 == nil))
				o.Op("iaqi %s %s", lh, h.Hex(b))
				_, e2 := a.InternalAndQiAddress()
				ans(tf(e2 == nil))
				if e1 == nil && e2 == nil {
					o.Violate("addr-two-ledgers", fmt.Sprintf("%x is both Quai and Qi", b))
				}
				o.Op("zone %s", h.Hex(a.Bytes()))
				led := "quai"
				if a.IsInQiLedgerScope() {
					led = "qi"
				}
				ans(h.Hex(*a.Location()) + " " + led)
			case 11:
				addrState(o, rc, loc, ans)
				kinds["state"] = true
			default:
				addrGrind(o, rc, loc, ans)
				kinds["grind"] = true
			}
		}
		o.EndCase(fmt.Sprint(rc.U64()), len(kinds) >= 2)
	}
	o.Close(nil)
}

// addrState: random account creations with adversarial addresses on a real StateDB of zone loc.
func addrState(o *h.Out, rc *h.Rng, loc common.Location, ans func(string)) {
	if len(loc) != 2 {
		return
	}
	db := state.NewDatabase(rawdb.NewMemoryDatabase(log.Global))
	sdb, err := state.New(common.Hash{}, common.Hash{}, new(big.Int), db, db, nil, loc, log.Global)
	if err != nil {
		panic(err)
	}
	o.Op("newstate %s", h.Hex(loc))
	ans("ok")
	var tried [][]byte
	for i := 0; i < 3+rc.Intn(8); i++ {
		b := addrBytes(rc, loc, 20)
		tried = append(tried, b)
		var ia common.InternalAddress
		copy(ia[:], b)
		switch rc.Intn(3) {
		case 0:
			sdb.CreateAccount(ia)
		case 1:
			sdb.AddBalance(ia, big.NewInt(1))
		default:
			sdb.SetNonce(ia, 7)
		}
		o.Op("create %s", h.Hex(b))
		ans(tf(sdb.Exist(ia)))
	}
	// commit and list what is really in the trie
	root, err := sdb.Commit(false)
	_ = root
	var got []string
	seen := map[string]bool{}
	for _, b := range tried {
		var ia common.InternalAddress
		copy(ia[:], b)
		if sdb.Exist(ia) && !seen[string(b)] {
			seen[string(b)] = true
			got = append(got, h.Hex(b))
			if !inZone(b, loc) || b[1] > 127 {
				o.Violate("addr-state-out-of-scope", fmt.Sprintf("account %x exists in state of zone %v", b, loc))
			}
		}
	}
	sort.Strings(got)
	o.Op("accts")
	if len(got) == 0 {
		ans("0")
	} else {
		ans(fmt.Sprintf("%d %s", len(got), strings.Join(got, " ")))
	}
}

func addrGrind(o *h.Out, rc *h.Rng, loc common.Location, ans func(string)) {
	if len(loc) != 2 {
		return
	}
	sender := common.BytesToAddress(addrBytes(rc, loc, 20), loc)
	nonce := rc.U64() % 100
	blockNumber := big.NewInt(0)
	maxA := params.PreviousMaxAddressGrindAttempts
	if rc.Chance(10) {
		blockNumber = new(big.Int).Add(params.MaxGrindIncreaseForkBlock, big.NewInt(1))
		maxA = params.MaxAddressGrindAttempts
	}
	mode := rc.Intn(20) // 0: exhaust the attempts (long), else early hit / out of gas
	limit := 40
	if mode == 0 {
		limit = maxA
		if maxA > 1000 {
			mode = 1
			limit = 40
		}
	}
	// look for a code hash whose grind succeeds early (else most grinds just exhaust the attempts)
	var codeHash common.Hash
	var cands [][]byte
	wantSuccess := mode != 0
	for try := 0; try < 400; try++ {
		codeHash = common.BytesToHash(rc.Bytes(32))
		cands = cands[:0]
		var salt [32]byte
		binary.BigEndian.PutUint64(salt[24:], nonce)
		hit := false
		for i := 0; i < limit; i++ {
			binary.BigEndian.PutUint64(salt[16:24], uint64(i))
			img := crypto.Keccak256([]byte{0xff}, sender.Bytes(), salt[:], codeHash.Bytes())[12:]
			cands = append(cands, img)
			a := common.BytesToAddress(img, loc)
			if _, err := a.InternalAndQuaiAddress(); err == nil {
				hit = true
				break
			}
		}
		if hit == wantSuccess {
			break
		}
	}
	gasCost := int64(30 + rc.Intn(100))
	gas := uint64(rc.Intn(int(gasCost) * (len(cands) + 3)))
	if rc.Chance(50) {
		gas = uint64(gasCost)*uint64(len(cands)) + uint64(rc.Intn(3)) - 1
	}
	hs := make([]string, len(cands))
	for i, c := range cands {
		hs[i] = h.Hex(c)
	}
	o.Op("grind %s %d %d %d - %s", h.Hex(loc), gasCost, maxA, gas, strings.Join(hs, " "))
	a, left, err := vm.GrindContract(sender, nonce, gas, gasCost, codeHash, blockNumber, loc)
	if err != nil {
		ans("err")
	} else {
		ans(fmt.Sprintf("ok %s %d", h.Hex(a.Bytes()), left))
		if !inZone(a.Bytes(), loc) || a.Bytes()[1] > 127 {
			o.Violate("addr-create-out-of-scope", fmt.Sprintf("GrindContract returned %x for zone %v", a.Bytes(), loc))
		}
	}
}

// addrFilter: what a dominant chain hands down to a subordinate (Transactions.FilterToSub) for ETXs addressed all over a
// 3 x 3 hierarchy and of every ETX type.  T2 against the model; T3: everything handed to a region is addressed into it,
// everything handed to a zone is addressed to exactly that zone (region and zone), and nothing is handed to two zones.
func addrFilter(o *h.Out, rc *h.Rng, ans func(string)) {
	nodeCtx := rc.Intn(2) // prime or region
	order := rc.Intn(nodeCtx + 1)
	slice := common.Location{byte(rc.Intn(3)), byte(rc.Intn(3))}
	var etxs types.Transactions
	var items []string
	for i, n := 0, 1+rc.Intn(12); i < n; i++ {
		dl := common.Location{byte(rc.Intn(3)), byte(rc.Intn(3))}
		if rc.Chance(35) {
			dl = common.Location{byte(rc.Intn(3)), slice[1]} // same zone number, any region
		}
		b := rc.Bytes(20)
		b[0] = dl[0]<<4 | dl[1]
		to := common.BytesToAddress(b, dl)
		typ := uint64(rc.Intn(7))
		etxs = append(etxs, types.NewTx(&types.ExternalTx{OriginatingTxHash: cHash(rc), ETXIndex: uint16(i), Gas: 21000, To: &to, Value: big.NewInt(1), Sender: to, EtxType: typ}))
		items = append(items, fmt.Sprintf("%s:%d", h.Hex(b), typ))
	}
	o.Op("filter %s %d %d %s", h.Hex(slice), nodeCtx, order, strings.Join(items, " "))
	kept := etxs.FilterToSub(slice, nodeCtx, order)
	var idx []string
	for _, k := range kept {
		idx = append(idx, fmt.Sprint(k.ETXIndex()))
		dl := *k.To().Location()
		switch {
		case nodeCtx == common.PRIME_CTX && dl.Region() != slice.Region():
			o.Violate("c16-etx-handed-to-foreign-region", fmt.Sprintf("prime hands region %d an ETX addressed to %v", slice.Region(), dl))
		case nodeCtx == common.REGION_CTX && !dl.Equal(slice):
			o.Violate("c16-etx-handed-to-foreign-zone", fmt.Sprintf("the region hands zone %v an ETX addressed to %v (%x): the zone would credit an address that is not its own", slice, dl, k.To().Bytes()))
		}
	}
	ans(strings.Join(idx, ","))
	if nodeCtx == common.REGION_CTX {
		other := common.Location{slice[0], (slice[1] + 1) % 3}
		for _, k := range etxs.FilterToSub(other, nodeCtx, order) {
			for _, k2 := range kept {
				if k.Hash() == k2.Hash() {
					o.Violate("c16-etx-handed-to-two-zones", fmt.Sprintf("ETX %d is handed to zone %v and to zone %v", k.ETXIndex(), slice, other))
				}
			}
		}
	}
	o.Count("filter")
}
