package main

// Area c13chain: mining rewards and conversions pay out exactly once, at their unlock height, no earlier, no more -
// observed on a real zone chain.  The watch-only addresses of chainworld receive Quai coinbases (every lock byte)
// and Qi->Quai conversions and never transact, so their balance is exactly what block processing has credited.
// The model (QuaiVerif.Model.Payout) is told every reward a block carries and must reproduce the balances block by
// block.

import (
	"bytes"
	"fmt"
	"math/big"
	"strings"
	"time"

	"verifharness/internal/h"

	"github.com/dominant-strategies/go-quai/common"
	"github.com/dominant-strategies/go-quai/consensus/misc"
	"github.com/dominant-strategies/go-quai/core/types"
	"github.com/dominant-strategies/go-quai/params"
)

func init() { areas["c13chain"] = runC13Chain }

func runC13Chain(seed uint64, n int, outDir string, replay string) {
	o := h.NewOut(outDir, "c13chain")
	r := h.NewRng(seed)
	ans := func(s string) { o.Ans("impl", "%s", s) }
	watch, _ := cwWatch()
	fresh := cwFresh()
	name := func(a common.Address) string {
		for i, x := range watch {
			if x.Equal(a) {
				return fmt.Sprintf("w%d", i)
			}
		}
		for i, x := range fresh {
			if x.Equal(a) {
				return fmt.Sprintf("f%d", i)
			}
		}
		return ""
	}
	for c := 0; c < n; c++ {
		rc := r.Fork()
		o.NewCase()
		o.Op("newcase")
		ans("ok")
		rg := cwRegime{preTx: rc.Chance(15)}
		cwSetParams(rg)
		func() {
			defer func() {
				if p := recover(); p != nil {
					o.Violate("c13-panic", fmt.Sprintf("panic: %v at %s", p, stackTop()))
					o.Pad("panic %v", p)
				}
			}()
			w, err := newWorld(newMemDB(), rc.Fork(), rg, zoneOpts{})
			if err != nil {
				panic(err)
			}
			defer safeStop(w.node)
			c13TimeDiscount(o, ans, rc, w.node)
			o.Op("depths %d %d %d %d", params.LockupByteToBlockDepth[0], params.LockupByteToBlockDepth[1], params.LockupByteToBlockDepth[2], params.LockupByteToBlockDepth[3])
			ans("ok")
			o.Op("watch w0 w1 w2")
			ans("ok")
			o.Op("fresh f0 f1")
			ans("ok")
			// T3 for the fresh accounts: an independent replay of "first payout that can afford it pays the fee, once"
			type facct struct {
				live bool
				bal  *big.Int
			}
			fac := []*facct{{bal: new(big.Int)}, {bal: new(big.Int)}}
			paid := map[string]*big.Int{} // T3: independent ledger of what has matured
			type pend struct {
				who    string
				amt    *big.Int
				unlock uint64
				depth  uint64
			}
			var pending []pend
			refunds := new(big.Int)
			rewarded := map[common.Hash]uint64{} // seal (block or share) hash -> height of the block that issued its reward
			for b := 0; b < 36; b++ {
				st, err := w.step()
				if err != nil {
					o.Violate("c07-own-block-rejected", fmt.Sprintf("block %d: %v", b+1, err))
					return
				}
				blk := st.blk
				num := blk.NumberU64(common.ZONE_CTX)
				for _, tx := range blk.Transactions() {
					if tx.Type() == types.ExternalTxType && tx.EtxType() == types.ConversionRevertType && tx.To() != nil && tx.To().IsInQiLedgerScope() && tx.ETXSender().Equal(cwRefundAddr()) {
						refunds.Add(refunds, tx.Value()) // a reverted Quai->Qi conversion: the Quai goes back to who sent it
						o.Count(fmt.Sprintf("refund:datalen=%d", len(tx.Data())))
					}
					if tx.Type() != types.ExternalTxType || tx.To() == nil || !tx.To().IsInQuaiLedgerScope() {
						continue
					}
					who := name(*tx.To())
					if who == "" {
						continue
					}
					switch {
					case isCoinbaseEtx(tx) && len(tx.Data()) == 1+common.HashLength && int(tx.Data()[0]) < len(params.LockupByteToBlockDepth):
						d := params.LockupByteToBlockDepth[tx.Data()[0]]
						amt := params.CalculateCoinbaseValueWithLockup(tx.Value(), tx.Data()[0], num+d)
						o.Op("ev %s %s %d %d", who, amt, num, d)
						ans("ok")
						pending = append(pending, pend{who, amt, num + d, d})
						o.Count(fmt.Sprintf("reward:coinbase-lock%d", tx.Data()[0]))
					case isConversionEtx(tx):
						d := params.ConversionLockPeriod
						o.Op("ev %s %s %d %d", who, tx.Value(), num, d)
						ans("ok")
						pending = append(pending, pend{who, tx.Value(), num + d, d})
						o.Count("reward:conversion")
					}
				}
				c13Issuance(o, ans, w.node, blk, rewarded)
				stt, err := w.node.hc.StateAt(blk.EVMRoot(), blk.EtxSetRoot(), blk.QuaiStateSize())
				if err != nil {
					o.Violate("c06-state-does-not-open", fmt.Sprintf("block %d: %v", num, err))
					return
				}
				if ria, err := cwRefundAddr().InternalAddress(); err == nil {
					if have := stt.GetBalance(ria); have.Cmp(refunds) != 0 {
						o.Violate("c20-conversion-revert-not-refunded", fmt.Sprintf("block %d: reverted Quai->Qi conversions of the refund-only account sum to %s, the account holds %s", num, refunds, have))
					}
				}
				var parts []string
				for i, a := range watch {
					ia, _ := a.InternalAddress()
					bal := new(big.Int).Sub(stt.GetBalance(ia), big.NewInt(1)) // minus the 1 wei they exist with
					parts = append(parts, fmt.Sprintf("w%d=%s", i, bal))
					// T3: exactly the matured rewards, each once
					want := new(big.Int)
					for _, p := range pending {
						if p.who == fmt.Sprintf("w%d", i) && p.unlock <= num {
							want.Add(want, p.amt)
						}
					}
					if bal.Cmp(want) != 0 && i == len(watch)-1 {
						// this address only ever receives Qi->Quai conversions
						o.Violate("c20-conversion-not-credited-exactly-once", fmt.Sprintf("block %d: the conversion-only address holds %s, the conversions past their lock period sum to %s", num, bal, want))
					}
					if bal.Cmp(want) != 0 {
						kind := "c13-reward-paid-early-or-twice"
						if bal.Cmp(want) < 0 {
							kind = "c13-matured-reward-not-paid"
						}
						o.Violate(kind, fmt.Sprintf("block %d: reward-only address w%d holds %s, the rewards matured by now sum to %s", num, i, bal, want))
					}
					_ = paid
				}
				parent := w.node.hc.GetHeaderByHash(blk.ParentHash(common.ZONE_CTX))
				fee := creationFee(parent)
				for i, a := range fresh {
					ia, _ := a.InternalAddress()
					who, fa := fmt.Sprintf("f%d", i), fac[i]
					for _, d := range params.LockupByteToBlockDepth {
						for _, p := range pending {
							if p.who != who || p.depth != d || p.unlock != num {
								continue
							}
							switch {
							case fa.live:
								fa.bal.Add(fa.bal, p.amt)
								o.Count("fresh:payout-to-existing-account")
							case p.amt.Cmp(fee) >= 0:
								fa.live = true
								fa.bal.Add(fa.bal, new(big.Int).Sub(p.amt, fee))
								o.Count("fresh:payout-creates-account")
							default:
								o.Count("fresh:payout-below-fee-dropped")
							}
						}
					}
					if fa.bal.Sign() == 0 {
						fa.live = false
					}
					bal, live := stt.GetBalance(ia), stt.Exist(ia)
					parts = append(parts, fmt.Sprintf("f%d=%s/%s", i, bal, b01(live)))
					if bal.Cmp(fa.bal) != 0 || live != fa.live {
						kind := "c13-new-account-fee-wrong"
						o.Violate(kind, fmt.Sprintf("block %d: new reward-only address f%d holds %s (exists=%v); the matured payouts less one creation fee (%s) give %s (exists=%v)", num, i, bal, live, fee, fa.bal, fa.live))
					}
				}
				o.Op("blk %d %s", num, fee)
				ans(strings.Join(parts, " "))
			}
		}()
		o.EndCase(fmt.Sprint(rc.U64()), true)
	}
	o.Close(nil)
}

// c13Issuance: the coinbase ETXs a block emits are exactly the rewards of the block `depth` below it and of the work
// shares at that height, in proportion to the entropy of each seal (the rule before the KawPow fork), one per seal,
// and no seal is ever rewarded by two blocks.
func c13Issuance(o *h.Out, ans func(string), n *zoneNode, blk *types.WorkObject, rewarded map[common.Hash]uint64) {
	num := blk.NumberU64(common.ZONE_CTX)
	var issued []*types.Transaction
	for _, e := range blk.OutboundEtxs() {
		if isCoinbaseEtx(e) {
			issued = append(issued, e)
		}
	}
	depth := params.WorkSharesInclusionDepth
	if num <= uint64(depth) {
		if len(issued) != 0 {
			o.Violate("c13-reward-issued-without-target", fmt.Sprintf("block %d issues %d coinbase ETXs before the inclusion depth", num, len(issued)))
		}
		return
	}
	if blk.PrimeTerminusNumber().Uint64() >= params.KawPowForkBlock {
		return // the per-algorithm share counts of the later rule are not modelled
	}
	var window []*types.WorkObject // parent, grandparent, ..., target
	cur := blk
	for i := 0; i < depth; i++ {
		p := n.hc.GetBlockByHash(cur.ParentHash(common.ZONE_CTX))
		if p == nil {
			return
		}
		window = append(window, p)
		cur = p
	}
	target := window[depth-1]
	entropyOf := func(wh *types.WorkObjectHeader, isTarget bool) *big.Int {
		if !isTarget {
			if _, err := n.hc.VerifySeal(wh); err == nil {
				// a full block that became an uncle counts with its target weight
				return common.IntrinsicLogEntropy(common.BytesToHash(new(big.Int).Div(common.Big2e256, wh.Difficulty()).Bytes()))
			}
		}
		ph, err := n.hc.ComputePowHash(wh)
		if err != nil {
			return big.NewInt(0)
		}
		return common.IntrinsicLogEntropy(ph)
	}
	shares := []*types.WorkObjectHeader{target.WorkObjectHeader()}
	ents := []*big.Int{entropyOf(target.WorkObjectHeader(), true)}
	for i := 0; i <= depth; i++ {
		src := blk
		if i < depth {
			src = window[i]
		}
		full := n.hc.GetWorkObjectWithWorkShares(src.Hash())
		if full == nil {
			full = src
		}
		for _, u := range full.Uncles() {
			if u.NumberU64() == target.NumberU64(common.ZONE_CTX) {
				shares = append(shares, u)
				ents = append(ents, entropyOf(u, false))
			}
		}
	}
	pt := n.hc.GetHeaderByHash(blk.PrimeTerminusHash())
	if pt == nil {
		return
	}
	rate := pt.ExchangeRate()
	r := misc.CalculateQuaiReward(target.WorkObjectHeader(), target.Difficulty(), rate)
	r.Add(r, target.AvgTxFees()).Add(r, new(big.Int).Div(target.TotalFees(), big.NewInt(2)))
	line := fmt.Sprintf("split %s", r)
	for _, e := range ents {
		line += " " + e.String()
	}
	o.Op("%s", line)
	var parts []string
	for i := range shares {
		v := "none"
		if i < len(issued) {
			tx := issued[i]
			v = tx.Value().String()
			if tx.To().IsInQiLedgerScope() {
				v = "?" // paid in Qi at the prime terminus rate (conversion helper covered by C20)
			}
		}
		parts = append(parts, fmt.Sprintf("r%d=%s", i, v))
	}
	ans(strings.Join(parts, " "))
	o.Count(fmt.Sprintf("issuance:shares-at-height:%d", min(len(shares), 4)))
	// T3: one reward per seal, addressed to its miner, labelled with its hash; no seal rewarded by two blocks
	if len(issued) != len(shares) {
		o.Violate("c13-reward-count", fmt.Sprintf("block %d issues %d coinbase ETXs for %d seals at height %d", num, len(issued), len(shares), target.NumberU64(common.ZONE_CTX)))
		return
	}
	for i, sh := range shares {
		tx := issued[i]
		if !tx.To().Equal(sh.PrimaryCoinbase()) || !bytes.HasSuffix(tx.Data(), sh.Hash().Bytes()) || !bytes.HasPrefix(tx.Data(), sh.Data()) {
			o.Violate("c13-reward-misaddressed", fmt.Sprintf("block %d: reward %d goes to %s with data %x, the seal %x belongs to %s", num, i, tx.To().Hex(), tx.Data(), sh.Hash().Bytes()[:6], sh.PrimaryCoinbase().Hex()))
		}
		if prev, ok := rewarded[sh.Hash()]; ok {
			o.Violate("c13-seal-rewarded-twice", fmt.Sprintf("seal %x is rewarded by block %d and again by block %d", sh.Hash().Bytes()[:6], prev, num))
		}
		rewarded[sh.Hash()] = num
	}
}

// c13TimeDiscount: the time discount of a work share's reward (the rule after the inclusion-depth fork), a pure formula
// of the share's algorithm and the delay between the signature time and the share's own timestamp, on the real function
func c13TimeDiscount(o *h.Out, ans func(string), rc *h.Rng, n *zoneNode) {
	mkAux := func(id types.PowID, ts uint32) *types.AuxPow {
		a := &types.AuxPow{}
		a.SetPowID(id)
		a.SetSignature([]byte{})
		a.SetMerkleBranch([][]byte{})
		out := []byte{0x76, 0xa9, 0x14, 0x89, 0xab, 0xcd, 0xef, 0x88, 0xac}
		switch id {
		case types.Kawpow:
			a.SetHeader(types.NewAuxPowHeader(&types.RavencoinBlockHeader{Version: 10, HashPrevBlock: types.EmptyRootHash, HashMerkleRoot: types.EmptyRootHash, Time: ts, Bits: 0x1d00ffff, Nonce64: 1, Height: 2, MixHash: types.EmptyRootHash}))
		case types.SHA_BTC:
			hd := types.NewBitcoinBlockHeader(10, types.EmptyRootHash, types.EmptyRootHash, 0, 0x1d00ffff, 0)
			hd.BlockHeader.Timestamp = time.Unix(int64(ts), 0)
			a.SetHeader(types.NewAuxPowHeader(hd))
		case types.SHA_BCH:
			hd := types.NewBitcoinCashBlockHeader(10, types.EmptyRootHash, types.EmptyRootHash, 0, 0x1d00ffff, 0)
			hd.BlockHeader.Timestamp = time.Unix(int64(ts), 0)
			a.SetHeader(types.NewAuxPowHeader(hd))
		default:
			hd := types.NewLitecoinBlockHeader(10, types.EmptyRootHash, types.EmptyRootHash, 0, 0x1d00ffff, 0)
			hd.BlockHeader.Timestamp = time.Unix(int64(ts), 0)
			a.SetHeader(types.NewAuxPowHeader(hd))
		}
		a.SetTransaction(types.NewAuxPowCoinbaseTx(id, 100, out, types.EmptyRootHash, 0))
		return a
	}
	ids := []types.PowID{types.Kawpow, types.SHA_BTC, types.SHA_BCH, types.Scrypt}
	for i := 0; i < 16; i++ {
		id := ids[rc.Intn(len(ids))]
		sig := uint32(1_700_000_000 + rc.Intn(1000))
		delay := []int{0, 1, 2, 3, 4, 10, 16, 17, 18, 19, 25, 29, 30, 31, 40, 100, -1, -5}[rc.Intn(18)]
		ts := uint32(int64(sig) + int64(delay))
		reward := new(big.Int).SetUint64(1 + rc.U64()%1_000_000_000_000)
		share := types.NewWorkObjectHeader(cHash(rc), cHash(rc), big.NewInt(5), big.NewInt(1000), big.NewInt(0), cHash(rc), types.EncodeNonce(1), 0, 1, common.Location{0, 0}, common.Address{}, []byte{0}, mkAux(id, ts),
			types.NewPowShareDiffAndCount(nil, nil, nil), types.NewPowShareDiffAndCount(nil, nil, nil), nil, nil, nil)
		got := n.hc.CalculateTimeDiscountedShareReward(share, reward, sig)
		o.Op("tdisc %d %d %d %s %s %s %s %d %d", params.NewShareLivenessTimeForSha, params.ShareLivenessTime, params.NoPenaltyTimeThreshold, params.UnlivelySharePenalty, params.ShareRewardPenaltyDivisor,
			b01(id == types.SHA_BTC || id == types.SHA_BCH), reward, sig, ts)
		ans(got.String())
		o.Count(fmt.Sprintf("tdisc:pow%d", id))
	}
}
