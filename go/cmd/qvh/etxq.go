package main

// Area etxq (C04a): push / pushN / pop / read / counters / root histories on the real StateDB ETX trie,
// with commit + reload. T3: every popped ETX is the pushed one (hash, fields), none twice, none lost;
// copies of an ETX are independent of the original (Prime repricing mutates copies).

import (
	"bytes"
	"fmt"
	"github.com/dominant-strategies/go-quai/trie"
	"math/big"
	"strings"

	"verifharness/internal/h"

	"github.com/dominant-strategies/go-quai/common"
	"github.com/dominant-strategies/go-quai/core/rawdb"
	"github.com/dominant-strategies/go-quai/core/state"
	"github.com/dominant-strategies/go-quai/core/types"
	"github.com/dominant-strategies/go-quai/log"
	"github.com/dominant-strategies/go-quai/rlp"
)

func init() { areas["etxq"] = runEtxQ }

func runEtxQ(seed uint64, n int, outDir string, replay string) {
	o := h.NewOut(outDir, "etxq")
	r := h.NewRng(seed)
	ans := func(s string) { o.Ans("impl", "%s", s) }
	for c := 0; c < n; c++ {
		rc := r.Fork()
		loc := common.Location{0, 0}
		if rc.Chance(50) {
			loc = common.Location{byte(rc.Intn(3)), byte(rc.Intn(3))} // the queue of any zone, not only 0-0
		}
		o.NewCase()
		o.Op("newcase")
		ans("ok")
		func() {
			defer func() {
				if p := recover(); p != nil {
					o.Violate("etxq-panic", fmt.Sprintf("panic: %v at %s", p, stackTop()))
					o.Pad("panic %v", p)
				}
			}()
			if (rc.Chance(15) && c != 1) || c == 2 { // case 1 is always the long queue history
				etxCommitment(o, rc, loc, c == 2)
				return
			}
			db := state.NewDatabase(rawdb.NewMemoryDatabase(log.Global))
			edb := state.NewDatabase(rawdb.NewMemoryDatabase(log.Global))
			sdb, err := state.New(common.Hash{}, common.Hash{}, new(big.Int), db, edb, nil, loc, log.Global)
			if err != nil {
				panic(err)
			}
			next := 0
			pushed := map[int]*types.Transaction{}
			var fifo []int
			popped := map[int]bool{}
			mk := func() *types.Transaction {
				to := cAddr(rc, loc)
				etx := types.NewTx(&types.ExternalTx{OriginatingTxHash: cHash(rc), ETXIndex: uint16(next), Gas: 21000 + uint64(rc.Intn(1000)), To: &to,
					Value: cBig(rc), Data: rc.Bytes(rc.Intn(20)), AccessList: cAccessList(rc, loc), Sender: cAddr(rc, loc), EtxType: uint64(rc.Intn(6))})
				pushed[next] = etx
				fifo = append(fifo, next)
				next++
				return etx
			}
			nops := 5 + rc.Intn(60)
			long := rc.Chance(3) || c == 1
			if long {
				nops = 520 // index growth past one byte: well over 256 pushes, while the oldest index still fits one byte
			}
			for i := 0; i < nops; i++ {
				switch x := rc.Intn(100); {
				case x < 35 || long && x < 70:
					etx := mk()
					data, _ := rlp.EncodeToBytes(etx)
					if err := sdb.PushETX(etx); err != nil {
						panic(err)
					}
					rt := sdb.ETXRoot()
					o.Op("push %d %s", next-1, h.Hex(data))
					ans(h.Hex(rt[:]))
				case x < 45:
					k := rc.Intn(4)
					var etxs []*types.Transaction
					var items []string
					for j := 0; j < k; j++ {
						etx := mk()
						data, _ := rlp.EncodeToBytes(etx)
						etxs = append(etxs, etx)
						items = append(items, fmt.Sprintf("%d:%s", next-1, h.Hex(data)))
					}
					if err := sdb.PushETXs(etxs); err != nil {
						panic(err)
					}
					rt := sdb.ETXRoot()
					o.Op("pushs %s", strings.Join(items, " "))
					ans(h.Hex(rt[:]))
				case x < 80:
					etx, err := sdb.PopETX()
					if err != nil {
						panic(err)
					}
					rt := sdb.ETXRoot()
					o.Op("pop")
					if etx == nil {
						ans("none " + h.Hex(rt[:]))
						if len(fifo) != 0 {
							o.Violate("c04-etx-lost", fmt.Sprintf("PopETX returned nothing while %d pushed ETXs are undelivered", len(fifo)))
						}
					} else {
						id := int(etx.ETXIndex())
						ans(fmt.Sprintf("%d %s", id, h.Hex(rt[:])))
						if len(fifo) == 0 || fifo[0] != id {
							o.Violate("c04-etx-out-of-order", fmt.Sprintf("popped %d, next in order is %v", id, fifo))
						} else {
							fifo = fifo[1:]
						}
						if popped[id] {
							o.Violate("c04-etx-delivered-twice", fmt.Sprintf("ETX %d popped twice", id))
						}
						popped[id] = true
						if orig := pushed[id]; orig != nil && orig.Hash() != etx.Hash() {
							o.Violate("c04-etx-altered", fmt.Sprintf("ETX %d pushed with hash %x popped with hash %x", id, orig.Hash(), etx.Hash()))
						}
						if to := etx.To(); to != nil {
							// the destination the zone is handed is classified for *this* zone: internal exactly if its prefix
							// is this zone's (what BytesToAddress with the zone's location says)
							_, e1 := to.InternalAddress()
							_, e2 := common.BytesToAddress(to.Bytes(), loc).InternalAddress()
							if (e1 == nil) != (e2 == nil) {
								o.Violate("c16-popped-etx-classified-for-another-zone", fmt.Sprintf("zone %v pops an ETX to %x: the recipient object says internal=%v, the zone's own classification of these bytes internal=%v", loc, to.Bytes(), e1 == nil, e2 == nil))
							}
						}
					}
				case x < 88:
					i := rc.Intn(next + 2)
					etx, _ := sdb.ReadETX(big.NewInt(int64(i)))
					o.Op("read %d", i)
					if etx == nil {
						ans("none")
					} else {
						ans(fmt.Sprint(etx.ETXIndex()))
					}
				case x < 93:
					a, _ := sdb.GetOldestIndex()
					b, _ := sdb.GetNewestIndex()
					o.Op("idx")
					ans(fmt.Sprintf("%s %s", a, b))
				default:
					root, err := sdb.CommitEtxs()
					if err != nil {
						panic(err)
					}
					if err := edb.TrieDB().Commit(root, false, nil); err != nil {
						panic(err)
					}
					sdb, err = state.New(common.Hash{}, root, new(big.Int), db, edb, nil, loc, log.Global)
					if err != nil {
						o.Violate("c04-etx-root-does-not-reopen", err.Error())
						return
					}
					rt := sdb.ETXRoot()
					o.Op("root")
					ans(h.Hex(rt[:]))
				}
			}
			// copies are independent of the original (core/slice.go reprices copies made with NewTx(etx.Inner()))
			if len(pushed) > 0 {
				orig := pushed[rc.Intn(next)]
				before := orig.Hash()
				val := new(big.Int).Set(orig.Value())
				cp := types.NewTx(orig.Inner())
				cp.SetValue(new(big.Int).Add(val, big.NewInt(12345)))
				cp.SetEtxType(uint64(7))
				to := cAddr(rc, loc)
				cp.SetTo(to)
				fresh := types.NewTx(&types.ExternalTx{OriginatingTxHash: orig.OriginatingTxHash(), ETXIndex: orig.ETXIndex(), Gas: orig.Gas(), To: orig.To(),
					Value: orig.Value(), Data: orig.Data(), AccessList: orig.AccessList(), Sender: orig.ETXSender(), EtxType: orig.EtxType()})
				if orig.Value().Cmp(val) != 0 || fresh.Hash() != before {
					o.Violate("c04-etx-altered-through-copy", fmt.Sprintf("mutating a copy changed the original ETX: value %s -> %s", val, orig.Value()))
				}
			}
		}()
		o.EndCase(fmt.Sprint(rc.U64()), true)
	}
	o.Close(nil)
}

// etxCommitment: the hash a block (outbound ETX hash) or a roll-up (ETX roll-up hash) commits to covers every entry of
// the list: it is the root of the trie {rlp(i) -> entry i} (T3, reference built with the plain trie in index order), and
// changing, dropping or swapping any single entry - in particular around positions 127 / 128 and 255 / 256, where the
// key encoding changes length - changes it.  A commitment that ignores an entry lets a relayed set deliver an ETX its
// origin never emitted, or lose one.
func etxCommitment(o *h.Out, rc *h.Rng, loc common.Location, boundary bool) {
	n := 1 + rc.Intn(40)
	switch x := rc.Intn(6); {
	case boundary || x == 0:
		n = 126 + rc.Intn(6)
	case x == 1:
		n = 254 + rc.Intn(6)
	case x == 2:
		n = 100 + rc.Intn(200)
	}
	mk := func(i int) *types.Transaction {
		to := cAddr(rc, loc)
		return types.NewTx(&types.ExternalTx{OriginatingTxHash: cHash(rc), ETXIndex: uint16(i), Gas: 21000 + uint64(rc.Intn(1000)), To: &to,
			Value: cBig(rc), Data: rc.Bytes(rc.Intn(20)), AccessList: cAccessList(rc, loc), Sender: cAddr(rc, loc), EtxType: uint64(rc.Intn(6))})
	}
	list := make(types.Transactions, n)
	for i := range list {
		list[i] = mk(i)
	}
	enc := make([]string, n)
	for i := range list {
		var buf bytes.Buffer
		list.EncodeIndex(i, &buf)
		enc[i] = h.Hex(buf.Bytes())
	}
	o.Op("commit %s", strings.Join(enc, " "))
	o.Count(fmt.Sprintf("commitment:n/64=%d", n/64))
	root := types.DeriveSha(list, trie.NewStackTrie(nil))
	o.Ans("impl", "%s", h.Hex(root[:]))
	ref := func(l types.Transactions) common.Hash {
		t, _ := trie.New(common.Hash{}, trie.NewDatabase(rawdb.NewMemoryDatabase(log.Global)))
		for i := range l {
			var buf bytes.Buffer
			l.EncodeIndex(i, &buf)
			t.Update(rlpUint(uint64(i)), buf.Bytes())
		}
		return t.Hash()
	}
	if want := ref(list); want != root {
		o.Violate("c04-etx-commitment-not-the-list-root", fmt.Sprintf("the commitment to %d ETXs is %x, the root of the trie holding every entry under its index is %x", n, root[:6], want[:6]))
	}
	// single-entry deviations: every position near a boundary, a few random ones
	var positions []int
	for _, b := range []int{0, 126, 127, 128, 129, 254, 255, 256, 257, n - 1} {
		if b >= 0 && b < n {
			positions = append(positions, b)
		}
	}
	for k := 0; k < 4; k++ {
		positions = append(positions, rc.Intn(n))
	}
	for _, i := range positions {
		alt := append(types.Transactions{}, list...)
		alt[i] = mk(i)
		if types.DeriveSha(alt, trie.NewStackTrie(nil)) == root {
			o.Violate("c04-etx-commitment-ignores-entry", fmt.Sprintf("replacing entry %d of %d ETXs by another ETX leaves the commitment %x unchanged", i, n, root[:6]))
		}
		if n > 1 {
			drop := append(append(types.Transactions{}, list[:i]...), list[i+1:]...)
			if types.DeriveSha(drop, trie.NewStackTrie(nil)) == root {
				o.Violate("c04-etx-commitment-ignores-entry", fmt.Sprintf("dropping entry %d of %d ETXs leaves the commitment %x unchanged", i, n, root[:6]))
			}
		}
	}
}
