package main

// Area utxo (C01): blocks of Qi transactions through the real core.ProcessQiTx over a real batch (memorydb,
// leveldb, pebble), with real secp256k1 keys and Schnorr / MuSig2 signatures. Mostly-valid spends plus an
// adversarial stream: same outpoint twice in one tx / in two txs of the block, spending an output created earlier
// in the block, wrong key, locked, bad denominations / merges, duplicate output addresses, conversion / wrapping
// mixes, foreign-zone outputs with eligible / ineligible slices, fee below the floor, non-20-byte addresses.

import (
	"bytes"
	"fmt"
	"math"
	"math/big"
	"os"
	"sort"
	"strings"

	"verifharness/internal/h"

	"github.com/btcsuite/btcd/btcec/v2"
	"github.com/btcsuite/btcd/btcec/v2/schnorr"
	"github.com/btcsuite/btcd/btcec/v2/schnorr/musig2"
	"github.com/dominant-strategies/go-quai/common"
	"github.com/dominant-strategies/go-quai/consensus"
	"github.com/dominant-strategies/go-quai/consensus/misc"
	"github.com/dominant-strategies/go-quai/core"
	"github.com/dominant-strategies/go-quai/core/rawdb"
	"github.com/dominant-strategies/go-quai/core/types"
	"github.com/dominant-strategies/go-quai/crypto"
	"github.com/dominant-strategies/go-quai/ethdb"
	"github.com/dominant-strategies/go-quai/log"
	"github.com/dominant-strategies/go-quai/params"
	"google.golang.org/protobuf/proto"
)

func init() { areas["utxo"] = runUtxo }

// the denomination table as it is at start-up (protocol constants; the Lean model carries its own copy, regenerated
// from the source): the oracles value amounts with this private copy, not with the table the processor can reach
var utFrozenDenoms = func() map[uint8]*big.Int {
	m := map[uint8]*big.Int{}
	for d, v := range types.Denominations {
		m[d] = new(big.Int).Set(v)
	}
	return m
}()

func utDenom(d uint8) *big.Int {
	if v, ok := utFrozenDenoms[d]; ok {
		return v
	}
	return new(big.Int)
}

type utChain struct {
	pt       *types.WorkObject
	eligible map[byte]bool
}

func (c *utChain) Engine(*types.WorkObjectHeader) consensus.Engine          { return nil }
func (c *utChain) GetHeaderOrCandidateByHash(common.Hash) *types.WorkObject { return c.pt }
func (c *utChain) NodeCtx() int                                             { return common.ZONE_CTX }
func (c *utChain) IsGenesisHash(common.Hash) bool                           { return false }
func (c *utChain) GetHeaderByHash(common.Hash) *types.WorkObject            { return c.pt }
func (c *utChain) GetBlockByHash(common.Hash) *types.WorkObject             { return c.pt }
func (c *utChain) CheckIfEtxIsEligible(_ common.Hash, l common.Location) bool {
	return c.eligible[l.BytePrefix()]
}
func (c *utChain) CheckInCalcOrderCache(common.Hash) (*big.Int, int, bool) { return nil, 0, false }
func (c *utChain) AddToCalcOrderCache(common.Hash, int, *big.Int)          {}
func (c *utChain) CalcBaseFee(*types.WorkObject) *big.Int                  { return big.NewInt(1) }
func (c *utChain) CalcOrder(*types.WorkObject) (*big.Int, int, error)      { return nil, 0, nil }

type utKey struct {
	priv *btcec.PrivateKey
	pub  []byte
	addr common.Address
}

var utLoc = common.Location{0, 0}
var utChainID = big.NewInt(1337)

// utKeys: deterministic pool of keys whose address is a Qi address of zone 0-0 (+ one Quai-ledger key, one foreign-zone key)
func utKeys() (qi []utKey, quai utKey, foreign utKey) {
	for i := 0; len(qi) < 6 || quai.priv == nil || foreign.priv == nil; i++ {
		seed := crypto.Keccak256([]byte("qvh-utxo-key"), big.NewInt(int64(i)).Bytes())
		k, err := crypto.ToECDSA(seed)
		if err != nil {
			continue
		}
		pub := crypto.FromECDSAPub(&k.PublicKey)
		addr := crypto.PubkeyBytesToAddress(pub, utLoc)
		priv, _ := btcec.PrivKeyFromBytes(seed)
		uk := utKey{priv, pub, addr}
		switch {
		case addr.Bytes()[0] == 0 && addr.IsInQiLedgerScope() && len(qi) < 6:
			qi = append(qi, uk)
		case addr.Bytes()[0] == 0 && addr.IsInQuaiLedgerScope() && quai.priv == nil:
			quai = uk
		case addr.Bytes()[0] == 0x01 && addr.IsInQiLedgerScope() && foreign.priv == nil:
			foreign = uk
		}
	}
	return
}

func utSign(inner *types.QiTx, privs []*btcec.PrivateKey) *types.Transaction {
	signer := types.NewSigner(utChainID, utLoc)
	digest := signer.Hash(types.NewTx(inner))
	if len(privs) == 1 {
		sig, err := schnorr.Sign(privs[0], digest[:])
		if err != nil {
			panic(err)
		}
		inner.Signature = sig
		return types.NewTx(inner)
	}
	pubs := make([]*btcec.PublicKey, len(privs))
	for i, p := range privs {
		pubs[i] = p.PubKey()
	}
	nonces := make([]*musig2.Nonces, len(privs))
	pubNonces := make([][musig2.PubNonceSize]byte, len(privs))
	for i, p := range privs {
		n, err := musig2.GenNonces(musig2.WithPublicKey(p.PubKey()))
		if err != nil {
			panic(err)
		}
		nonces[i] = n
		pubNonces[i] = n.PubNonce
	}
	combined, err := musig2.AggregateNonces(pubNonces)
	if err != nil {
		panic(err)
	}
	var msg [32]byte
	copy(msg[:], digest[:])
	partials := make([]*musig2.PartialSignature, len(privs))
	for i, p := range privs {
		ps, err := musig2.Sign(nonces[i].SecNonce, p, combined, pubs, msg)
		if err != nil {
			panic(err)
		}
		partials[i] = ps
	}
	inner.Signature = musig2.CombineSigs(partials[0].R, partials)
	return types.NewTx(inner)
}

func utErrClass(err error) string {
	s := err.Error()
	for _, p := range [][2]string{
		{"at least one input", "noinputs"}, {"invalid chain ID", "chainid"}, {"not equal to either address length", "data"},
		{"contract that is not in quai ledger", "wrapdata"}, {"refund address not in Qi", "convdata"}, {"gas limit reached", "gaspool"},
		{"uses too much gas", "gaslimit"}, {"non-existent UTXO", "nonexistent"}, {"locked UTXO", "locked"}, {"owned by Quai address", "quaiowner"},
		{"invalid pubkey", "pubkey"}, {"higher than max allowed", "denom"}, {"exceeds max output index", "outindex"}, {"non-zero lock", "lock"},
		{"Duplicate address", "dup"}, {"multiple convert UTXOs", "multiconv"}, {"To address not in the Qi ledger scope", "quaiout"},
		{"too many cross-region", "rlimit"}, {"too many cross-prime", "plimit"}, {"not eligible", "ineligible"}, {"less than the amount", "overspend"},
		{"insufficient fee", "fee"}, {"kquai hold interval", "hold"}, {"both a conversion and a wrapping", "both"}, {"combine smaller denominations", "merge"},
		{"invalid signature", "sig"}, {"belongs to other zone", "wrapowner"}, {"is in Qi ledger", "wrapowner"}, {"qi address", "wrapowner"},
	} {
		if strings.Contains(s, p[0]) {
			return p[1]
		}
	}
	return "other:" + s
}

type utEntry struct {
	hash  common.Hash
	idx   uint16
	denom uint8
	addr  []byte
	lock  int64
	owner int // index in the key pool, -1 unknown owner
}

func utScan(db ethdb.Database) string {
	it := db.NewIterator(rawdb.UtxoPrefix, nil)
	defer it.Release()
	var rows []string
	for it.Next() {
		if len(it.Key()) != rawdb.UtxoKeyLength {
			continue
		}
		p := new(types.ProtoTxOut)
		if err := proto.Unmarshal(it.Value(), p); err != nil {
			continue
		}
		u := new(types.UtxoEntry)
		if err := u.ProtoDecode(p); err != nil {
			continue
		}
		k := it.Key()[len(rawdb.UtxoPrefix):]
		lock := "0"
		if u.Lock != nil {
			lock = u.Lock.String()
		}
		rows = append(rows, fmt.Sprintf("%s:%d:%d:%s:%s", h.Hex(k[:32]), int(k[32])<<8|int(k[33]), u.Denomination, h.Hex(u.Address), lock))
	}
	sort.Slice(rows, func(i, j int) bool {
		a, b := strings.SplitN(rows[i], ":", 3), strings.SplitN(rows[j], ":", 3)
		if a[0] != b[0] {
			return a[0] < b[0]
		}
		var x, y int
		fmt.Sscan(a[1], &x)
		fmt.Sscan(b[1], &y)
		return x < y
	})
	if len(rows) == 0 {
		return "0"
	}
	return fmt.Sprintf("%d %s", len(rows), strings.Join(rows, " "))
}

func runUtxo(seed uint64, n int, outDir string, replay string) {
	tmp, err := os.MkdirTemp("", "qvh-utxo")
	if err != nil {
		panic(err)
	}
	defer os.RemoveAll(tmp)
	o := h.NewOut(outDir, "utxo")
	r := h.NewRng(seed)
	ans := func(s string) { o.Ans("impl", "%s", s) }
	keys, quaiKey, foreignKey := utKeys()
	_ = foreignKey
	for c := 0; c < n; c++ {
		rc := r.Fork()
		o.NewCase()
		o.Op("newcase")
		ans("ok")
		func() {
			var db ethdb.Database
			backendKind := rc.Intn(5)
			if backendKind > 2 {
				backendKind = 2
			}
			switch backendKind {
			case 0:
				db, err = rawdb.NewLevelDBDatabase(fmt.Sprintf("%s/l%d", tmp, c), 16, 16, "", false, log.Global, utLoc)
			case 1:
				db, err = rawdb.NewPebbleDBDatabase(fmt.Sprintf("%s/p%d", tmp, c), 16, 16, "", false, log.Global, utLoc)
			default:
				db = rawdb.NewMemoryDatabase(log.Global)
			}
			if err != nil {
				panic(err)
			}
			defer db.Close()
			// every disk-backed case has a shadow on the in-memory engine fed the same UTXOs and transactions: the verdict
			// and the fee of every transaction must be the same on both (the ledger rules do not depend on the engine)
			var sdb ethdb.Database
			if backendKind != 2 {
				sdb = rawdb.NewMemoryDatabase(log.Global)
			}
			defer func() {
				if p := recover(); p != nil {
					o.Violate("utxo-panic", fmt.Sprintf("panic: %v at %s", p, stackTop()))
					o.Pad("panic %v", p)
				}
			}()
			// block context
			height := int64(1000 + rc.Intn(100000))
			ptnChoices := []uint64{1, params.QiWrappingChangeBlock - 1, params.QiWrappingChangeBlock, params.KawPowForkBlock + 5, params.KawPowForkBlock + params.KQuaiChangeHoldInterval + 5,
				params.ShaEquivalentDifficultyForkBlock + 5, params.ShaEquivalentDifficultyForkBlock + params.KQuaiChangeHoldInterval + 5}
			ptn := ptnChoices[rc.Intn(len(ptnChoices))]
			pt := types.EmptyZoneWorkObject()
			rate := new(big.Int).Set(params.ExchangeRate)
			if rc.Chance(30) {
				rate = new(big.Int).Lsh(big.NewInt(int64(1+rc.Intn(1000))), uint(20+rc.Intn(40)))
			}
			pt.Header().SetExchangeRate(rate)
			header := types.EmptyZoneWorkObject()
			header.SetNumber(big.NewInt(height), common.ZONE_CTX)
			diff := new(big.Int).SetUint64(2*params.KQuaiDifficultyDivisor + uint64(rc.Intn(1_000_000_000)))
			header.WorkObjectHeader().SetDifficulty(diff)
			header.WorkObjectHeader().SetPrimeTerminusNumber(new(big.Int).SetUint64(ptn))
			header.WorkObjectHeader().SetShaDiffAndCount(types.NewPowShareDiffAndCount(new(big.Int).Mul(params.MinDifficultyForShaEquivalentDifficulty, params.InitialShaDiffMultiple), big.NewInt(0), big.NewInt(0)))
			header.WorkObjectHeader().SetScryptDiffAndCount(types.NewPowShareDiffAndCount(big.NewInt(1), big.NewInt(0), big.NewInt(0)))
			gasLimit := uint64(5_000_000)
			if rc.Chance(8) {
				gasLimit = uint64(20000 + rc.Intn(60000))
			}
			header.Header().SetGasLimit(gasLimit)
			baseFee := big.NewInt(int64(1 + rc.Intn(3)))
			if rc.Chance(15) {
				baseFee = new(big.Int).Lsh(big.NewInt(1), uint(20+rc.Intn(30))) // fee floor binds
			}
			header.Header().SetBaseFee(baseFee)
			header.Header().SetPrimeTerminusHash(common.HexToHash("0x01"))
			chain := &utChain{pt: pt, eligible: map[byte]bool{}}
			var elig []byte
			for _, z := range []byte{0x01, 0x02, 0x10, 0x11} {
				if !rc.Chance(25) {
					chain.eligible[z] = true
					elig = append(elig, z)
				}
			}
			quaiR := misc.CalculateQuaiReward(header.WorkObjectHeader(), diff, rate)
			qiR := misc.CalculateQiReward(header.WorkObjectHeader(), diff)
			scaling := math.Log(float64(1000 + rc.Intn(10_000_000)))
			checkSig := !rc.Chance(15)
			gp := new(types.GasPool).AddGas(gasLimit)
			usedGas := new(uint64)
			etxRLimit, etxPLimit := uint64(params.ETXRLimitMin), uint64(params.ETXPLimitMin)
			if rc.Chance(10) {
				etxRLimit, etxPLimit = uint64(rc.Intn(50000)), uint64(rc.Intn(150000))
			}
			o.Op("env loc=%s chain=%s height=%d gaslimit=%d ptn=%d basefee=%s quair=%s qir=%s eligible=%s txgas=%d etxgas=%d convgas=%d maxdata=%d wrapblock=%d kaw=%d sha=%d hold=%d checksig=%s gaspool=%d rlimit=%d plimit=%d",
				h.Hex(utLoc), utChainID, height, gasLimit, ptn, baseFee, quaiR, qiR, h.Hex(elig), params.TxGas, params.ETXGas, params.QiToQuaiConversionGas, params.MaxQiTxDataLength,
				params.QiWrappingChangeBlock, params.KawPowForkBlock, params.ShaEquivalentDifficultyForkBlock, params.KQuaiChangeHoldInterval, b01(checkSig), gasLimit, etxRLimit, etxPLimit)
			ans("ok")
			// initial UTXO set
			var set []utEntry
			nset := 5 + rc.Intn(25)
			for i := 0; i < nset; i++ {
				e := utEntry{hash: cHash(rc), idx: uint16(rc.Intn(4)), denom: uint8(rc.Intn(15)), owner: rc.Intn(len(keys))}
				e.addr = keys[e.owner].addr.Bytes()
				switch rc.Intn(12) {
				case 0:
					e.lock = height + 1
				case 1:
					e.lock = height
				case 2:
					e.lock = height - 1
				}
				if rc.Chance(4) {
					e.owner, e.addr = -1, cAddr(rc, utLoc).Bytes()
				}
				var lock *big.Int
				if e.lock != 0 {
					lock = big.NewInt(e.lock)
				}
				rawdb.CreateUTXO(db, e.hash, e.idx, types.NewUtxoEntry(&types.TxOut{Denomination: e.denom, Address: e.addr, Lock: lock}))
				if sdb != nil {
					rawdb.CreateUTXO(sdb, e.hash, e.idx, types.NewUtxoEntry(&types.TxOut{Denomination: e.denom, Address: e.addr, Lock: lock}))
				}
				o.Op("utxo h=%s i=%d denom=%d addr=%s lock=%d", h.Hex(e.hash[:]), e.idx, e.denom, h.Hex(e.addr), e.lock)
				ans("ok")
				set = append(set, e)
			}
			batch := db.NewBatch()
			batch.SetPending(true)
			var sbatch ethdb.Batch
			sgp, sused := new(types.GasPool).AddGas(gasLimit), new(uint64)
			srl, spl := etxRLimit, etxPLimit
			if sdb != nil {
				sbatch = sdb.NewBatch()
				sbatch.SetPending(true)
			}
			signer := types.NewSigner(utChainID, utLoc)
			spent := map[string]bool{}
			inBlock := 0 // entries at the end of `set` that this block created
			// T3 ledger of value
			ntx := 1 + rc.Intn(6)
			for t := 0; t < ntx; t++ {
				// choose inputs
				nin := 1 + rc.Intn(3)
				var ins []utEntry
				for j := 0; j < nin && len(set) > 0; j++ {
					e := set[rc.Intn(len(set))]
					if inBlock > 0 && rc.Chance(45) {
						// an output created earlier in this very block (it exists in the block's pending batch only) - any
						// of them, not only the newest
						e = set[len(set)-1-rc.Intn(inBlock)]
						o.Count("input-created-in-this-block")
					}
					if rc.Chance(85) && (spent[fmt.Sprintf("%x:%d", e.hash, e.idx)] || e.owner < 0 || e.lock > height) {
						continue // mostly pick spendable ones
					}
					ins = append(ins, e)
				}
				if len(ins) == 0 && rc.Chance(90) {
					for _, e := range set {
						if !spent[fmt.Sprintf("%x:%d", e.hash, e.idx)] && e.owner >= 0 && e.lock <= height {
							ins = append(ins, e)
							break
						}
					}
				}
				adversarial := rc.Intn(100)
				if adversarial < 6 && len(ins) > 0 {
					ins = append(ins, ins[0]) // same outpoint twice in one tx
				}
				totalIn := new(big.Int)
				var txins types.TxIns
				var privs []*btcec.PrivateKey
				sigOK := true
				for _, e := range ins {
					own := e.owner
					if own < 0 {
						own = 0
					}
					k := keys[own]
					if adversarial >= 6 && adversarial < 10 {
						k = keys[(own+1)%len(keys)] // not the owner's key
					}
					if adversarial == 10 {
						k = quaiKey
					}
					txins = append(txins, types.TxIn{PreviousOutPoint: types.OutPoint{TxHash: e.hash, Index: e.idx}, PubKey: k.pub})
					privs = append(privs, k.priv)
					totalIn.Add(totalIn, types.Denominations[e.denom])
				}
				// outputs: split the value, leave a fee
				var outs types.TxOuts
				data := []byte(nil)
				mode := rc.Intn(100) // 0..59 plain, 60..74 with foreign outputs, 75..84 conversion, 85..92 wrapping, rest odd
				alterAfterSigning := adversarial == 18 || (adversarial >= 30 && adversarial < 38)
				if alterAfterSigning && rc.Chance(70) {
					mode = 75 + rc.Intn(18) // alterations of the data of conversions and wrappings too
					if rc.Chance(60) {
						mode = 75 + rc.Intn(10) // conversions: the longest data (slip + refund address)
					}
				}
				budget := new(big.Int).Set(totalIn)
				feeTarget := new(big.Int).Div(totalIn, big.NewInt(int64(2+rc.Intn(20))))
				if rc.Chance(10) {
					feeTarget = new(big.Int)
				}
				budget.Sub(budget, feeTarget)
				if adversarial == 11 {
					budget.Add(totalIn, big.NewInt(1)) // overspend
				}
				used := map[string]bool{}
				freshAddr := func(zone byte, qi bool) []byte {
					for {
						b := rc.Bytes(20)
						b[0] = zone
						if qi {
							b[1] |= 0x80
						} else {
							b[1] &= 0x7f
						}
						if !used[string(b)] {
							used[string(b)] = true
							return b
						}
					}
				}
				convAddr := freshAddr(0x00, false)
				for d := 14; d >= 0 && len(outs) < 8; d-- {
					for budget.Cmp(types.Denominations[uint8(d)]) >= 0 && len(outs) < 8 {
						if rc.Chance(35) {
							break // leave the rest to smaller denominations / the fee
						}
						budget.Sub(budget, types.Denominations[uint8(d)])
						var addr []byte
						switch {
						case mode >= 60 && mode < 75 && rc.Chance(50):
							addr = freshAddr([]byte{0x01, 0x02, 0x10, 0x11}[rc.Intn(4)], true)
						case mode >= 75 && mode < 85 && rc.Chance(60):
							addr = convAddr
						case mode >= 85 && mode < 93 && rc.Chance(60):
							addr = freshAddr(0x00, false)
						case mode >= 93 && mode < 95:
							addr = freshAddr(0x01, false) // foreign Quai-ledger output
						case mode == 95:
							addr = freshAddr(0x00, true) // 19..21-byte address
							switch rc.Intn(3) {
							case 0:
								addr = addr[:19]
							case 1:
								addr = append(append([]byte(nil), addr...), 0x07)
							}
						default:
							addr = freshAddr(0x00, true)
							if rc.Chance(45) {
								// change back to one of the wallet's own keys: spendable by a later transaction of this block
								addr = keys[rc.Intn(len(keys))].addr.Bytes()
							}
						}
						var lock *big.Int
						if adversarial == 12 {
							lock = big.NewInt(5)
						}
						outs = append(outs, types.TxOut{Denomination: uint8(d), Address: addr, Lock: lock})
					}
				}
				if adversarial == 13 && len(outs) >= 2 {
					outs[1].Address = outs[0].Address // duplicate output address
				}
				if adversarial == 19 && len(ins) >= 2 && !bytes.Equal(convAddr, nil) {
					// merge smaller denominations into a larger one
					maxd := uint8(0)
					for _, e := range ins {
						if e.denom > maxd {
							maxd = e.denom
						}
					}
					if maxd < 14 && totalIn.Cmp(types.Denominations[maxd+1]) > 0 {
						outs = types.TxOuts{{Denomination: maxd + 1, Address: freshAddr(0x00, true)}}
					}
				}
				if adversarial == 14 && len(outs) >= 1 {
					outs[0].Denomination = 15 + uint8(rc.Intn(3))
				}
				switch {
				case mode >= 75 && mode < 85:
					data = append([]byte{0x00, byte(rc.Intn(100))}, freshAddr(0x00, true)...) // slip + Qi refund address
					if adversarial == 15 {
						data[3] &= 0x7f
					}
				case mode >= 85 && mode < 93:
					data = freshAddr(0x00, false) // owner contract
					if adversarial == 16 {
						data[0] = 0x01
					}
				case mode == 96:
					data = rc.Bytes(1 + rc.Intn(30))
				}
				if adversarial >= 20 && adversarial < 28 && mode >= 75 && mode < 93 {
					// an output to a Quai-ledger address of this zone that is neither a conversion nor a wrapping (no data, or
					// data of another length): no Qi output may be created for it
					data = nil
					if adversarial%2 == 1 {
						data = rc.Bytes(1 + rc.Intn(19))
					}
				}
				txChain := utChainID
				if adversarial == 17 {
					txChain = big.NewInt(1)
				}
				inner := &types.QiTx{ChainID: txChain, TxIn: txins, TxOut: outs, Data: data}
				var tx *types.Transaction
				if len(privs) == 0 {
					k, _ := btcec.NewPrivateKey()
					sig, _ := schnorr.Sign(k, make([]byte, 32))
					inner.Signature = sig
					tx = types.NewTx(inner)
				} else {
					tx = utSign(inner, privs)
				}
				if alterAfterSigning && len(outs) > 0 {
					// alter the tx after signing: the signature no longer covers it
					// (any signed part: an output's address / denomination / lock, any byte of the data - also its last ones)
					outs2 := append(types.TxOuts(nil), outs...)
					data2 := append([]byte(nil), data...)
					kind := rc.Intn(4)
					if len(data2) > 0 && rc.Chance(80) {
						kind = 4
					}
					switch kind {
					case 0, 3:
						outs2[0].Address = freshAddr(0x00, true)
					case 1:
						i := rc.Intn(len(outs2))
						if outs2[i].Denomination > 0 {
							outs2[i].Denomination--
						} else {
							outs2[i].Address = freshAddr(0x00, true)
						}
					case 2:
						i := rc.Intn(len(outs2))
						outs2[i].Address = append([]byte(nil), outs2[i].Address...)
						outs2[i].Address[len(outs2[i].Address)-1] ^= 0x10
					case 4:
						i := len(data2) - 1 - rc.Intn(min(2, len(data2)))
						if rc.Chance(25) {
							i = rc.Intn(len(data2))
						}
						if i < 2 || i > 3 { // bytes 2 and 3 of a refund / owner address carry its zone and ledger: keep them
							data2[i] ^= 1 << uint(rc.Intn(8))
						} else {
							data2[len(data2)-1] ^= 0x01
						}
					}
					o.Count(fmt.Sprintf("altered-after-signing:%d", kind))
					inner2 := &types.QiTx{ChainID: txChain, TxIn: txins, TxOut: outs2, Data: data2, Signature: tx.GetSchnorrSignature()}
					tx = types.NewTx(inner2)
					outs = outs2
					data = data2
					sigOK = false
				}
				isFirst := t == 0 && rc.Chance(50)
				ig := types.CalculateIntrinsicQiTxGas(tx, scaling)
				var sb strings.Builder
				th := tx.Hash()
				fmt.Fprintf(&sb, "tx hash=%s chain=%s data=%s ig=%d sigok=%s first=%s", h.Hex(th[:]), txChain, h.Hex(data), ig, b01(sigOK), b01(isFirst))
				for _, in := range txins {
					fmt.Fprintf(&sb, " in=%s:%d:%s", h.Hex(in.PreviousOutPoint.TxHash[:]), in.PreviousOutPoint.Index, h.Hex(crypto.PubkeyBytesToAddress(in.PubKey, utLoc).Bytes()))
				}
				for _, out := range outs {
					l := int64(0)
					if out.Lock != nil {
						l = out.Lock.Int64()
					}
					fmt.Fprintf(&sb, " out=%d:%s:%d", out.Denomination, h.Hex(out.Address), l)
				}
				o.Op("%s", sb.String())
				// the transaction reaches the processor the way a block from a peer does: over the wire encoding
				if ptx, err := tx.ProtoEncode(); err == nil {
					raw, _ := proto.Marshal(ptx)
					fresh := new(types.ProtoTransaction)
					proto.Unmarshal(raw, fresh)
					wtx := new(types.Transaction)
					if derr := wtx.ProtoDecode(fresh, utLoc); derr != nil {
						ans("err decode")
						o.Count("verdict:err:decode")
						batch.Reset()
						o.Op("abortblock")
						ans("ok")
						break
					}
					tx = wtx
				}
				ucd := new(core.UtxosCreatedDeleted)
				added, removed := new(big.Int), new(big.Int)
				// run on a scratch copy of the accumulators first: a rejected tx must leave the block's accumulators usable
				gpc, ugc, rlc, plc := *gp, *usedGas, etxRLimit, etxPLimit
				shadow := ""
				if sdb != nil {
					sg, su, sr, sp := *sgp, *sused, srl, spl
					sfee, setxs, _, serr, _ := core.ProcessQiTx(tx, chain, checkSig, isFirst, header, sbatch, sdb, sgp, sused, signer, utLoc, *utChainID, scaling, &srl, &spl, new(core.UtxosCreatedDeleted), new(big.Int), new(big.Int), false)
					if serr != nil {
						*sgp, *sused, srl, spl = sg, su, sr, sp
						sbatch.Reset()
						shadow = "err " + utErrClass(serr)
					} else {
						shadow = fmt.Sprintf("ok fee=%s etxs=%d", sfee, len(setxs))
					}
				}
				fee, etxs, _, perr, _ := core.ProcessQiTx(tx, chain, checkSig, isFirst, header, batch, db, gp, usedGas, signer, utLoc, *utChainID, scaling, &etxRLimit, &etxPLimit, ucd, added, removed, false)
				if sdb != nil {
					primary := ""
					if perr != nil {
						primary = "err " + utErrClass(perr)
					} else {
						primary = fmt.Sprintf("ok fee=%s etxs=%d", fee, len(etxs))
					}
					o.Count("engine-shadowed-tx")
					if primary != shadow {
						o.Violate("c01-storage-engines-disagree", fmt.Sprintf("the same Qi transaction on the same ledger: `%s` on %s, `%s` on the in-memory engine", primary, []string{"leveldb", "pebble", "memory"}[backendKind], shadow))
					}
				}
				if perr != nil {
					ans("err " + utErrClass(perr))
					// a rejected tx invalidates the block in the real node: stop this block here (the batch holds partial effects)
					*gp, *usedGas, etxRLimit, etxPLimit = gpc, ugc, rlc, plc
					o.Count("verdict:err:" + utErrClass(perr))
					// the block is invalid: its batch is dropped, nothing of it may reach the database
					batch.Reset()
					o.Op("abortblock")
					ans("ok")
					break
				}
				o.Count("verdict:ok")
				var es []string
				sent := new(big.Int)
				conv := new(big.Int)
				for _, e := range etxs {
					k := "t"
					switch e.EtxType {
					case types.ConversionType:
						k = "c"
						conv.Add(conv, e.Value)
					case types.WrappingQiType:
						k = "w"
						conv.Add(conv, e.Value)
					default:
						sent.Add(sent, utDenom(uint8(e.Value.Uint64())))
					}
					es = append(es, fmt.Sprintf("%s:%s:%s:%d:%d", e.Value, h.Hex(e.To.Bytes()), k, e.ETXIndex, e.Gas))
				}
				tin, tout := new(big.Int), new(big.Int)
				for _, u := range ucd.UtxosDeleted {
					tin.Add(tin, utDenom(u.Denomination))
				}
				for _, out := range outs {
					tout.Add(tout, utDenom(out.Denomination))
				}
				for d, v := range utFrozenDenoms {
					if cur := types.Denominations[d]; cur == nil || cur.Cmp(v) != 0 {
						o.Violate("c01-denomination-table-changed", fmt.Sprintf("after this transaction the value of denomination %d is %v (it is the protocol constant %s): every later Qi amount is mis-valued", d, cur, v))
						types.Denominations[d] = new(big.Int).Set(v) // keep going with the right table
					}
				}
				ans(fmt.Sprintf("ok fee=%s in=%s out=%s conv=%s used=%d etxs=%s created=%d deleted=%d", fee, tin, tout, conv, *usedGas, strings.Join(es, ","), len(ucd.UtxosCreatedKeys), len(ucd.UtxosDeleted)))
				// T3: each outpoint at most once, owned, unlocked; value equation
				for i, in := range txins {
					key := fmt.Sprintf("%x:%d", in.PreviousOutPoint.TxHash, in.PreviousOutPoint.Index)
					if spent[key] {
						o.Violate("c01-double-spend", fmt.Sprintf("outpoint %s consumed twice in this block", key))
					}
					spent[key] = true
					e := ins[i]
					if e.lock > height {
						o.Violate("c01-spent-before-lock-height", fmt.Sprintf("outpoint %s locked until %d spent at %d", key, e.lock, height))
					}
					if !bytes.Equal(crypto.PubkeyBytesToAddress(in.PubKey, utLoc).Bytes(), common.BytesToAddress(e.addr, utLoc).Bytes()) {
						o.Violate("c01-spent-by-non-owner", fmt.Sprintf("outpoint %s owned by %x spent with the key of %x", key, e.addr, crypto.PubkeyBytesToAddress(in.PubKey, utLoc).Bytes()))
						o.Violate("c03-qi-spend-not-authorised-by-owner", fmt.Sprintf("accepted Qi transaction consumes outpoint %s of %x under the key of %x: its signature was not made with the owner's key", key, e.addr, crypto.PubkeyBytesToAddress(in.PubKey, utLoc).Bytes()))
					}
				}
				if checkSig && !sigOK {
					o.Violate("c01-accepted-without-valid-signature", "a tx altered after signing was accepted with checkSig")
					o.Violate("c03-qi-accepted-without-valid-signature", "a Qi transaction whose signed content (chain id / inputs / outputs / data) was altered after signing is accepted with signature checking on")
				}
				local := new(big.Int).Set(added)
				lhs := new(big.Int).Set(totalIn)
				rhs := new(big.Int).Add(local, sent)
				rhs.Add(rhs, conv).Add(rhs, fee)
				legacyWrap := ptn < params.QiWrappingChangeBlock && mode >= 85 && mode < 93
				if lhs.Cmp(rhs) != 0 {
					sig := "c01-value-not-conserved"
					if legacyWrap {
						sig += ":legacy-wrapping" // before the QiWrappingChangeBlock fork a wrapping output is both kept as a local output and sent as an ETX
					}
					o.Violate(sig, fmt.Sprintf("inputs %s != local outputs %s + sent %s + converted %s + fee %s", lhs, local, sent, conv, fee))
				}
				// C16: every Qi output the accepted transaction created in this zone's ledger belongs to a Qi-ledger address
				// of this zone (read back from the batch / database, not from the transaction)
				for i := range outs {
					if u := rawdb.GetUTXOWithBatch(db, batch, th, uint16(i)); u != nil {
						a := common.BytesToAddress(u.Address, utLoc)
						if _, err := a.InternalAndQiAddress(); err != nil || len(u.Address) != 20 {
							sig := "c16-qi-output-for-non-qi-address"
							if legacyWrap {
								sig += ":legacy-wrapping"
							}
							o.Violate(sig, fmt.Sprintf("accepted Qi transaction %x created output %d for address %x, which is not a Qi-ledger address of zone %v", th.Bytes()[:6], i, u.Address, utLoc))
						}
					}
				}
				// outputs created in this block become spendable by later txs of the block
				for i, out := range outs {
					for ki, k := range keys {
						if bytes.Equal(k.addr.Bytes(), out.Address) {
							set = append(set, utEntry{hash: th, idx: uint16(i), denom: out.Denomination, addr: out.Address, owner: ki})
							inBlock++
						}
					}
				}
			}
			if err := batch.Write(); err != nil {
				panic(err)
			}
			o.Op("scan")
			ans(utScan(db))
		}()
		o.EndCase(fmt.Sprint(rc.U64()), true)
	}
	o.Close(nil)
}
