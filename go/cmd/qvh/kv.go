package main

// Area kv (C17): random operation histories applied in lock-step to leveldb, pebble, memorydb,
// table(memorydb) and table(leveldb).  Each backend's answers go to its own stream; the Lean model
// must reproduce every one of them.  Cross-backend equality is additionally checked here (T3).

import (
	"bufio"
	"bytes"
	"fmt"
	"os"
	"strings"

	"verifharness/internal/h"

	"github.com/dominant-strategies/go-quai/common"
	"github.com/dominant-strategies/go-quai/core/rawdb"
	"github.com/dominant-strategies/go-quai/ethdb"
	"github.com/dominant-strategies/go-quai/ethdb/leveldb"
	"github.com/dominant-strategies/go-quai/ethdb/memorydb"
	"github.com/dominant-strategies/go-quai/ethdb/pebble"
	"github.com/dominant-strategies/go-quai/log"
)

func init() { areas["kv"] = runKV }

type kvBackend struct {
	name    string
	db      ethdb.KeyValueStore
	batches map[string]ethdb.Batch
	cleanup func()
}

type recWriter struct{ ops []string }

func (r *recWriter) Put(k, v []byte) error {
	r.ops = append(r.ops, "p:"+h.Hex(k)+":"+h.Hex(v))
	return nil
}
func (r *recWriter) Delete(k []byte) error { r.ops = append(r.ops, "d:"+h.Hex(k)); return nil }
func (r *recWriter) Logger() *log.Logger   { return log.Global }

func openKVBackends(tmp string, idx int) []*kvBackend {
	loc := common.Location{0, 0}
	var bs []*kvBackend
	ldb, err := leveldb.New(fmt.Sprintf("%s/ldb%d", tmp, idx), 16, 16, "", false, log.Global, loc)
	if err != nil {
		panic(err)
	}
	bs = append(bs, &kvBackend{name: "leveldb", db: ldb, cleanup: func() { ldb.Close() }})
	pdb, err := pebble.New(fmt.Sprintf("%s/pdb%d", tmp, idx), 16, 16, "", false, log.Global, loc)
	if err != nil {
		panic(err)
	}
	bs = append(bs, &kvBackend{name: "pebble", db: pdb, cleanup: func() { pdb.Close() }})
	bs = append(bs, &kvBackend{name: "memorydb", db: memorydb.New(log.Global)})
	bs = append(bs, &kvBackend{name: "table_memorydb", db: rawdb.NewTable(rawdb.NewDatabase(memorydb.New(log.Global)), "tb-", loc, log.Global)})
	ldb2, err := leveldb.New(fmt.Sprintf("%s/ldbt%d", tmp, idx), 16, 16, "", false, log.Global, loc)
	if err != nil {
		panic(err)
	}
	// the table shares its leveldb with foreign keys around the table prefix
	ldb2.Put([]byte("tb"), []byte{1})
	ldb2.Put([]byte("tb,zz"), []byte{2})
	ldb2.Put([]byte("tb."), []byte{3})
	ldb2.Put([]byte("tc"), []byte{4})
	bs = append(bs, &kvBackend{name: "table_leveldb", db: rawdb.NewTable(rawdb.NewDatabase(ldb2), "tb-", loc, log.Global), cleanup: func() { ldb2.Close() }})
	for _, b := range bs {
		b.batches = map[string]ethdb.Batch{}
	}
	return bs
}

var kvNames = []string{"leveldb", "pebble", "memorydb", "table_memorydb", "table_leveldb"}

// key alphabet: shared prefixes, empty key, 0xff runs
func kvKey(r *h.Rng) []byte {
	switch r.Intn(10) {
	case 0:
		return []byte{}
	case 1:
		return []byte{0xff}
	case 2:
		return []byte{0xff, 0xff}
	case 3:
		return []byte{0xff, 0xff, byte(r.Intn(3))}
	case 4:
		return []byte{0xfe, 0xff}
	default:
		n := 1 + r.Intn(3)
		b := make([]byte, n)
		for i := range b {
			b[i] = byte([]int{0, 1, 2, 0xfe, 0xff, 0x61}[r.Intn(6)])
		}
		return b
	}
}
func kvVal(r *h.Rng) []byte {
	if r.Chance(15) {
		return []byte{}
	}
	return r.Bytes(1 + r.Intn(4))
}

func kvExec(b *kvBackend, w []string) string {
	un := func(s string) []byte {
		if s == "-" {
			return []byte{}
		}
		return common.Hex2Bytes(s)
	}
	// spare capacity exposes aliasing of append(prefix, start...) inside the backends
	spare := func(x []byte) []byte {
		y := make([]byte, len(x), len(x)+8)
		copy(y, x)
		for i := len(x); i < cap(y); i++ {
			y[:cap(y)][i] = 0xaa
		}
		return y
	}
	switch w[0] {
	case "compact":
		// maintenance: no key, value or pending entry may change (nil bounds = the whole key space)
		var st, lim []byte
		if w[1] != "nil" {
			st = un(w[1])
		}
		if w[2] != "nil" {
			lim = un(w[2])
		}
		b.db.Compact(st, lim) // (what an engine says about a range is its own business; the content is compared by the following operations)
		return "ok"
	case "put":
		if err := b.db.Put(un(w[1]), un(w[2])); err != nil {
			return "err"
		}
		return "ok"
	case "del":
		if err := b.db.Delete(un(w[1])); err != nil {
			return "err"
		}
		return "ok"
	case "get":
		v, err := b.db.Get(un(w[1]))
		if err != nil {
			return "nf"
		}
		return "v " + h.Hex(v)
	case "has":
		ok, err := b.db.Has(un(w[1]))
		if err != nil {
			return "err"
		}
		if ok {
			return "t"
		}
		return "f"
	case "iter":
		p, s := spare(un(w[1])), spare(un(w[2]))
		it := b.db.NewIterator(p, s)
		var sb strings.Builder
		n := 0
		for it.Next() {
			n++
			sb.WriteString(" " + h.Hex(it.Key()) + "=" + h.Hex(it.Value()))
		}
		it.Release()
		if string(p) != string(un(w[1])) || string(s) != string(un(w[2])) {
			return "args-mutated"
		}
		return fmt.Sprintf("%d%s", n, sb.String())
	case "nb":
		b.batches[w[1]] = b.db.NewBatch()
		return "ok"
	case "bput":
		if err := b.batches[w[1]].Put(un(w[2]), un(w[3])); err != nil {
			return "err"
		}
		return "ok"
	case "bdel":
		if err := b.batches[w[1]].Delete(un(w[2])); err != nil {
			return "err"
		}
		return "ok"
	case "setp":
		b.batches[w[1]].SetPending(w[2] == "1")
		return "ok"
	case "getp":
		del, v := b.batches[w[1]].GetPending(un(w[2]))
		if del {
			return "d"
		}
		if v == nil {
			return "none"
		}
		return "v " + h.Hex(v)
	case "write":
		if err := b.batches[w[1]].Write(); err != nil {
			return "err"
		}
		return "ok"
	case "reset":
		b.batches[w[1]].Reset()
		return "ok"
	case "replay":
		rw := &recWriter{}
		if err := b.batches[w[1]].Replay(rw); err != nil {
			return "err"
		}
		return fmt.Sprintf("%d", len(rw.ops)) + func() string {
			if len(rw.ops) == 0 {
				return ""
			}
			return " " + strings.Join(rw.ops, " ")
		}()
	}
	return "bad-op"
}

func runKV(seed uint64, n int, outDir string, replay string) {
	tmp, err := os.MkdirTemp("", "qvh-kv")
	if err != nil {
		panic(err)
	}
	defer os.RemoveAll(tmp)
	o := h.NewOut(outDir, "kv", kvNames...)
	r := h.NewRng(seed)

	emit := func(bs []*kvBackend, line string) {
		o.Op("%s", line)
		w := strings.Fields(line)
		first := ""
		for i, b := range bs {
			a := kvExec(b, w)
			o.Ans(b.name, "%s", a)
			if i == 0 {
				first = a
			} else if a != first {
				o.Violate("kv-backend-diff:"+w[0]+":"+b.name, fmt.Sprintf("%s answers %q, leveldb %q to %q", b.name, a, first, line))
			}
		}
		o.Count("ans:" + w[0] + ":" + strings.Fields(first + " x")[0])
	}

	if replay != "" {
		f, err := os.Open(replay)
		if err != nil {
			panic(err)
		}
		sc := bufio.NewScanner(f)
		sc.Buffer(make([]byte, 1<<20), 1<<26)
		var bs []*kvBackend
		idx := 0
		for sc.Scan() {
			line := strings.TrimSpace(sc.Text())
			if line == "" {
				continue
			}
			if line == "newcase" || bs == nil {
				for _, b := range bs {
					if b.cleanup != nil {
						b.cleanup()
					}
				}
				bs = openKVBackends(tmp, idx)
				idx++
				o.NewCase()
				if line == "newcase" {
					o.Op("newcase")
					o.AnsAll("ok")
					continue
				}
			}
			emit(bs, line)
		}
		o.Close(nil)
		return
	}

	for c := 0; c < n; c++ {
		bs := openKVBackends(tmp, c)
		o.NewCase()
		o.Op("newcase")
		o.AnsAll("ok")
		rc := r.Fork()
		length := 1 + rc.Intn(60)
		if rc.Chance(10) {
			length = 100 + rc.Intn(300)
		}
		open := []string{} // batch ids
		tracking := map[string]bool{}
		written := map[string]bool{}
		nbatch := 0
		kinds := map[string]bool{}
		lastLen := map[string]int{}
		var script []string // directed sequences are played line by line
		for i := 0; i < length; i++ {
			k := rc.Intn(100)
			var line string
			if len(script) == 0 && rc.Chance(1) && i+12 < length {
				// a key written twice, deleted through a batch, then maintenance: the older value must not come back
				key := kvKey(rc)
				id := fmt.Sprintf("b%d", nbatch)
				nbatch++
				script = []string{fmt.Sprintf("put %s %s", h.Hex(key), h.Hex(kvVal(rc))), fmt.Sprintf("put %s %s", h.Hex(key), h.Hex(kvVal(rc))),
					"nb " + id, fmt.Sprintf("bdel %s %s", id, h.Hex(key)), "write " + id, "reset " + id, "compact nil nil",
					fmt.Sprintf("get %s", h.Hex(key)), fmt.Sprintf("has %s", h.Hex(key)), "iter - -"}
				open = append(open, id)
				delete(lastLen, string(key))
			}
			if len(script) > 0 {
				line, script = script[0], script[1:]
				kinds[strings.Fields(line)[0]] = true
				emit(bs, line)
				continue
			}
			switch {
			case k < 12:
				key, val := kvKey(rc), kvVal(rc)
				if prev, ok := lastLen[string(key)]; ok && rc.Chance(50) {
					val = rc.Bytes(prev) // overwrite with a value of the same length
				}
				lastLen[string(key)] = len(val)
				line = fmt.Sprintf("put %s %s", h.Hex(key), h.Hex(val))
			case k < 18:
				line = fmt.Sprintf("del %s", h.Hex(kvKey(rc)))
			case k < 26:
				line = fmt.Sprintf("get %s", h.Hex(kvKey(rc)))
			case k < 30 && !(k == 29 && rc.Chance(25)):
				line = fmt.Sprintf("has %s", h.Hex(kvKey(rc)))
			case k < 30: // (one operation in four hundred: compaction is slow on the disk engines)
				st, lim := "nil", "nil"
				a, b := kvKey(rc), kvKey(rc)
				if bytes.Compare(a, b) > 0 {
					a, b = b, a
				}
				if rc.Chance(40) {
					st = h.Hex(a)
				}
				if rc.Chance(30) && !bytes.Equal(a, b) {
					lim = h.Hex(b)
				}
				line = fmt.Sprintf("compact %s %s", st, lim)
			case k < 40:
				p := kvKey(rc)
				if rc.Chance(30) {
					p = []byte{}
				}
				s := []byte{}
				if rc.Chance(50) {
					s = kvKey(rc)
				}
				line = fmt.Sprintf("iter %s %s", h.Hex(p), h.Hex(s))
			case k < 46 || len(open) == 0:
				id := fmt.Sprintf("b%d", nbatch)
				nbatch++
				open = append(open, id)
				line = "nb " + id
			default:
				id := open[rc.Intn(len(open))]
				if written[id] && rc.Chance(35) {
					// a written batch still replays what it wrote, whatever happened to those keys since
					line = "replay " + id
					break
				}
				if written[id] {
					// interface contract: a written batch is reset before it takes new operations
					line = "reset " + id
					written[id] = false
					tracking[id] = false
					break
				}
				switch j := rc.Intn(100); {
				case j < 35:
					key, val := kvKey(rc), kvVal(rc)
					lastLen[string(key)] = len(val)
					line = fmt.Sprintf("bput %s %s %s", id, h.Hex(key), h.Hex(val))
				case j < 50:
					line = fmt.Sprintf("bdel %s %s", id, h.Hex(kvKey(rc)))
				case j < 60:
					v := "1"
					if rc.Chance(20) {
						v = "0"
					}
					tracking[id] = v == "1"
					line = fmt.Sprintf("setp %s %s", id, v)
				case j < 78:
					line = fmt.Sprintf("getp %s %s", id, h.Hex(kvKey(rc)))
				case j < 88:
					line = "write " + id
					written[id] = true
				case j < 93:
					line = "reset " + id
					tracking[id] = false
				default:
					line = "replay " + id
				}
			}
			kinds[strings.Fields(line)[0]] = true
			emit(bs, line)
		}
		emit(bs, "iter - -")
		o.EndCase(fmt.Sprintf("%d", rc.U64()), len(kinds) >= 4)
		for _, b := range bs {
			if b.cleanup != nil {
				b.cleanup()
			}
		}
		os.RemoveAll(tmp)
		os.MkdirAll(tmp, 0o755)
	}
	o.Close(nil)
}
