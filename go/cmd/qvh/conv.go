package main

// Area conv (C20): the exported conversion helpers on generated amounts, rates and fork regimes.

import (
	"fmt"
	"math/big"
	"sort"
	"strings"

	"verifharness/internal/h"

	"github.com/dominant-strategies/go-quai/common"
	"github.com/dominant-strategies/go-quai/consensus/misc"
	"github.com/dominant-strategies/go-quai/core/types"
	"github.com/dominant-strategies/go-quai/params"
)

func init() { areas["conv"] = runConv }

func cvAmount(rc *h.Rng) *big.Int {
	switch rc.Intn(8) {
	case 0:
		return new(big.Int)
	case 1:
		return big.NewInt(int64(1 + rc.Intn(10)))
	case 2:
		return new(big.Int).Add(params.MinQuaiConversionAmount, big.NewInt(int64(rc.Intn(100))))
	case 3:
		return new(big.Int).Lsh(big.NewInt(int64(1+rc.Intn(1000))), uint(60+rc.Intn(60)))
	case 4:
		return new(big.Int).SetUint64(rc.U64())
	}
	return big.NewInt(int64(rc.Intn(2_000_000_000)))
}

func runConv(seed uint64, n int, outDir string, replay string) {
	o := h.NewOut(outDir, "conv")
	r := h.NewRng(seed)
	ans := func(s string) { o.Ans("impl", "%s", s) }
	loc := common.Location{0, 0}
	for c := 0; c < n; c++ {
		rc := r.Fork()
		o.NewCase()
		o.Op("newcase")
		ans("ok")
		func() {
			defer func() {
				if p := recover(); p != nil {
					o.Violate("conv-panic", fmt.Sprintf("panic: %v at %s", p, stackTop()))
				}
			}()
			// a block context: fork regime, number, difficulty, exchange rate
			forks := []uint64{params.KawPowForkBlock, params.ShaEquivalentDifficultyForkBlock, params.KQuaiResetAfterKawPowForkBlock}
			ptn := forks[rc.Intn(len(forks))] + uint64(rc.Intn(5)) - 2
			if rc.Chance(40) {
				ptn = uint64(rc.Intn(1_000_000))
			}
			number := big.NewInt(int64(rc.Intn(40_000_000)))
			diff := new(big.Int).Lsh(big.NewInt(int64(1+rc.Intn(1000))), uint(10+rc.Intn(60)))
			if min := new(big.Int).SetUint64(2 * params.KQuaiDifficultyDivisor); ptn >= params.KQuaiResetAfterKawPowForkBlock && diff.Cmp(min) < 0 {
				// protocol precondition: after the reset fork the block difficulty is above KQuaiDifficultyDivisor
				// (below it log(difficulty) - log(divisor) is negative and so is CalculateQuaiReward)
				diff = min
			}
			rate := new(big.Int).Lsh(big.NewInt(int64(1+rc.Intn(1000))), uint(rc.Intn(70)))
			wh := types.NewWorkObjectHeader(cHash(rc), cHash(rc), number, diff, new(big.Int).SetUint64(ptn), cHash(rc), types.EncodeNonce(0), 0, 1, loc, cAddr(rc, loc), nil, nil,
				types.NewPowShareDiffAndCount(cvAmount(rc), new(big.Int).Lsh(big.NewInt(int64(rc.Intn(12))), 32), big.NewInt(0)),
				types.NewPowShareDiffAndCount(new(big.Int).Add(cvAmount(rc), big.NewInt(1)), new(big.Int).Lsh(big.NewInt(int64(rc.Intn(12))), 32), big.NewInt(0)),
				big.NewInt(1), big.NewInt(1), diff)
			wo := types.NewWorkObject(wh, types.EmptyWorkObjectBody(), nil)
			quaiR := misc.CalculateQuaiReward(wh, diff, rate)
			qiR := misc.CalculateQiReward(wh, diff)
			if quaiR.Sign() <= 0 || qiR.Sign() <= 0 {
				o.Violate("c20-nonpositive-reward", fmt.Sprintf("reward functions returned %s / %s", quaiR, qiR))
				return
			}
			for i := 0; i < 6; i++ {
				x := cvAmount(rc)
				a := misc.QiToQuai(wo, rate, diff, x)
				o.Op("q2u %s %s %s", quaiR, qiR, x)
				ans(a.String())
				b := misc.QuaiToQi(wo, rate, diff, x)
				o.Op("u2q %s %s %s", quaiR, qiR, x)
				ans(b.String())
				// T3: a round trip at a fixed rate never yields more
				if back := misc.QuaiToQi(wo, rate, diff, a); back.Cmp(x) > 0 {
					o.Violate("c20-roundtrip-gains:qi", fmt.Sprintf("Qi %s -> Quai %s -> Qi %s", x, a, back))
				}
				if back := misc.QiToQuai(wo, rate, diff, b); back.Cmp(x) > 0 {
					o.Violate("c20-roundtrip-gains:quai", fmt.Sprintf("Quai %s -> Qi %s -> Quai %s", x, b, back))
				}
			}
			// conversion volume of a prime block: every conversion at the block's rate, which is read at the block's
			// *miner* difficulty (the long-term average), not at its own difficulty
			{
				minerDiff := new(big.Int).Lsh(big.NewInt(int64(1+rc.Intn(1000))), uint(10+rc.Intn(60)))
				if min := new(big.Int).SetUint64(2 * params.KQuaiDifficultyDivisor); ptn >= params.KQuaiResetAfterKawPowForkBlock && minerDiff.Cmp(min) < 0 {
					minerDiff = min
				}
				if rc.Chance(20) {
					minerDiff = new(big.Int).Set(diff)
				}
				vwo := types.CopyWorkObject(wo)
				vwo.Header().SetExchangeRate(rate)
				vwo.Header().SetMinerDifficulty(minerDiff)
				vq, vu := misc.CalculateQuaiReward(wh, minerDiff, rate), misc.CalculateQiReward(wh, minerDiff)
				var etxs types.Transactions
				var items []string
				freshAddr := func(zone byte, qi bool) []byte {
					b := rc.Bytes(20)
					b[0] = zone
					if qi {
						b[1] |= 0x80
					} else {
						b[1] &= 0x7f
					}
					return b
				}
				for k, nk := 0, rc.Intn(7); k < nk; k++ {
					v := cvAmount(rc)
					if rc.Chance(10) {
						v = new(big.Int)
					}
					var to common.Address
					typ := uint64(types.ConversionType)
					switch rc.Intn(5) {
					case 0, 1:
						to = common.BytesToAddress(freshAddr(0x00, true), loc)
						items = append(items, "q:"+v.String())
					case 2, 3:
						to = common.BytesToAddress(freshAddr(0x00, false), loc)
						items = append(items, "u:"+v.String())
					default:
						to = common.BytesToAddress(freshAddr(0x00, rc.Bool()), loc)
						typ = uint64([]int{types.DefaultType, types.CoinbaseType, types.ConversionRevertType}[rc.Intn(3)])
						items = append(items, "n")
					}
					etxs = append(etxs, types.NewTx(&types.ExternalTx{OriginatingTxHash: cHash(rc), ETXIndex: uint16(k), Gas: 21000, To: &to, Value: v, Sender: cAddr(rc, loc), EtxType: typ}))
				}
				if vq.Sign() > 0 && vu.Sign() > 0 {
					o.Op("%s", strings.TrimSpace(fmt.Sprintf("vol %s %s %s", vq, vu, strings.Join(items, " "))))
					ans(misc.ComputeConversionAmountInQuai(vwo, etxs).String())
				}
			}
			// denominations
			for i := 0; i < 4; i++ {
				v := cvAmount(rc)
				if v.BitLen() > 90 {
					v = new(big.Int).Rsh(v, 40) // counts are uint64 in the implementation
				}
				m := misc.FindMinDenominations(v)
				var ks []int
				for k := range m {
					ks = append(ks, int(k))
				}
				sort.Sort(sort.Reverse(sort.IntSlice(ks)))
				var parts []string
				sum := new(big.Int)
				for _, k := range ks {
					parts = append(parts, fmt.Sprintf("%d:%d", k, m[uint8(k)]))
					sum.Add(sum, new(big.Int).Mul(types.Denominations[uint8(k)], new(big.Int).SetUint64(m[uint8(k)])))
				}
				o.Op("fmd %s", v)
				if len(parts) == 0 {
					ans("0")
				} else {
					ans(fmt.Sprintf("%d %s", len(parts), strings.Join(parts, " ")))
				}
				if sum.Cmp(v) != 0 {
					o.Violate("c20-denominations-lose-value", fmt.Sprintf("FindMinDenominations(%s) sums to %s", v, sum))
				}
			}
			// the cubic discount only ever reduces (the hypothesis D <= A of the Lean theorem)
			for i := 0; i < 4; i++ {
				value, mean := cvAmount(rc), cvAmount(rc)
				switch rc.Intn(4) {
				case 0:
					value = new(big.Int).Mul(mean, big.NewInt(10))
				case 1:
					value = new(big.Int).Add(new(big.Int).Mul(mean, big.NewInt(10)), big.NewInt(1))
				case 2:
					value = new(big.Int).Set(mean)
				}
				d, _ := misc.ApplyCubicDiscount(value, mean).Int(nil)
				if d.Cmp(value) > 0 || d.Sign() < 0 {
					o.Violate("c20-discount-increases", fmt.Sprintf("ApplyCubicDiscount(%s, %s) = %s", value, mean, d))
				}
				o.Count("cubic")
			}
			// prime reprices copies (NewTx(etx.Inner()) + SetValue / SetEtxType) of the conversions it finds in the
			// cached rollups; the same cached ETX is read again by a retried append or by a sibling prime block, so the
			// repricing must not write through to it - otherwise the second pass converts an already converted amount
			{
				to, from := cAddr(rc, loc), cAddr(rc, loc)
				orig := types.NewTx(&types.ExternalTx{OriginatingTxHash: cHash(rc), ETXIndex: uint16(rc.Intn(100)), Gas: 21000, To: &to, Value: cvAmount(rc), Data: []byte{0x23, 0x28}, Sender: from, EtxType: types.ConversionType})
				before, hashBefore := new(big.Int).Set(orig.Value()), orig.Hash()
				for pass := 0; pass < 2; pass++ {
					cp := types.NewTx(orig.Inner())
					cp.SetValue(misc.QiToQuai(wo, rate, diff, cp.Value()))
					if pass == 1 {
						cp.SetEtxType(uint64(types.ConversionRevertType))
					}
				}
				if orig.Value().Cmp(before) != 0 || orig.Hash() != hashBefore || orig.EtxType() != types.ConversionType {
					o.Violate("c20-repricing-writes-through-to-cached-etx", fmt.Sprintf("repricing copies of a conversion ETX changed the cached one: value %s -> %s, type %d", before, orig.Value(), orig.EtxType()))
				}
				o.Count("reprice-copy-probe")
			}
		}()
		o.EndCase(fmt.Sprint(rc.U64()), true)
	}
	o.Close(nil)
}
