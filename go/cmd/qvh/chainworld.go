package main

// chainworld: a random but reproducible history generator on top of the zone node of chain.go.  It plays
// everything around the node: users (Quai and Qi transactions through the real tx pool), the miner (timestamps,
// coinbase, lockup data, choice of zone / region order), and the region chain (inbound ETXs handed over at region
// blocks).  Blocks are always assembled by the node's own worker.  Every block and the inbound ETX list that
// accompanied it are recorded, so a history can be replayed on a second node, forked, or crashed.

import (
	"bytes"
	"crypto/ecdsa"
	"encoding/binary"
	"fmt"
	"io"
	"math/big"
	"os"
	"regexp"
	"sort"
	"strings"
	"time"

	"verifharness/internal/h"

	"github.com/btcsuite/btcd/btcec/v2"
	"github.com/dominant-strategies/go-quai/common"
	"github.com/dominant-strategies/go-quai/core/rawdb"
	"github.com/dominant-strategies/go-quai/core/types"
	"github.com/dominant-strategies/go-quai/core/vm"
	"github.com/dominant-strategies/go-quai/crypto"
	"github.com/dominant-strategies/go-quai/crypto/multiset"
	"github.com/dominant-strategies/go-quai/ethdb"
	"github.com/dominant-strategies/go-quai/log"
	"github.com/dominant-strategies/go-quai/params"
	orderedmap "github.com/wk8/go-ordered-map/v2"
	"google.golang.org/protobuf/proto"
)

type cwRegime struct {
	preTx bool   // the whole history stays before TimeToStartTx (no user transactions; ETX count window 50..100)
	epoch uint64 // blocks per coinbase lockup epoch (0: 6); a long epoch keeps one lockup record per (contract, miner, byte) alive across a fork
}

// cwSetParams rescales the protocol's horizons (all package-level variables of params / types) so that lockups
// mature, conversions unlock, epochs roll over and trimming starts within a few blocks.  The code paths are the
// production ones; only the constants differ.
func cwSetParams(rg cwRegime) {
	params.LockupByteToBlockDepth[0] = 3
	params.LockupByteToBlockDepth[1] = 5
	params.LockupByteToBlockDepth[2] = 7
	params.LockupByteToBlockDepth[3] = 9
	params.ConversionLockPeriod = 3 // as in production: equal to the shortest lockup depth (conversions are redeemed by the same look-back)
	params.CoinbaseEpochBlocks = 6
	if rg.epoch != 0 {
		params.CoinbaseEpochBlocks = rg.epoch
	}
	params.ControllerKickInBlock = 0
	params.CoinbaseLockupPrecompileKickInHeight = 0
	if rg.preTx {
		params.TimeToStartTx = 1 << 40
	} else {
		params.TimeToStartTx = 2
	}
	for d := range types.TrimDepths {
		types.TrimDepths[d] = 4 + uint64(d)
	}
	log.Global.SetOutput(io.Discard)
	if os.Getenv("QVH_LOG") != "" {
		log.Global.SetOutput(os.Stderr)
		log.Global.SetLevel(3) // logrus.WarnLevel
		if os.Getenv("QVH_LOG") == "info" {
			log.Global.SetLevel(4)
		}
	}
	log.Global.ExitFunc = func(c int) { panic(fmt.Sprintf("log.Fatal exit %d", c)) }
}

type cwAcct struct {
	key   *ecdsa.PrivateKey
	addr  common.Address
	nonce uint64 // next nonce to use (as known to the generator)
}

// cwStep is one recorded step of a history
type cwStep struct {
	blk     *types.WorkObject
	inbound types.Transactions // handed over by the region (region blocks only)
	order   int
}

type cwWorld struct {
	bigBatchDone  bool // preTx worlds: one inbound batch above the early chain's ETX count window has been handed over
	node          *zoneNode
	rc            *h.Rng
	rg            cwRegime
	quai          []*cwAcct
	qi            []utKey
	steps         []cwStep
	etxSeq        uint64
	owner         *common.Address    // deployed lockup-owner contract (nil until deployed)
	store         *common.Address    // deployed storage contract
	wrapper       *common.Address    // deployed contract that forwards its call data to the lockup precompile (holds wrapped Qi)
	wrapped       []common.Address   // Quai beneficiaries of wrapping transactions made so far
	emitted       types.Transactions // coinbase ETXs emitted by the zone since the last region block
	hist          map[string]int
	spentInPool   map[string]bool // outpoints the generator already used in a submitted Qi transaction
	plan          *cwPlan         // a contract deployment onto an address that was funded beforehand
	hunt          bool            // time spends of small unlocked outputs to the block that trims them
	busy          bool            // more region blocks, and every one of them delivers a burst of lockup coinbases
	zoneRun       int             // so many of the next blocks are asked to be of zone order
	priceVar      bool            // some Quai transactions pay a dearer gas price than the rest (area c07: price order of a block)
	priceMult     int64
	adversarialQi bool // some Qi transactions handed to the pool are invalid in ways only block assembly can notice
	convertQi     bool // some Qi spends are Qi -> Quai conversions
	bigLogs       bool // deploy and call a contract whose receipt carries a 110000-byte log (a block whose write batch passes the 100 KiB mark)
	biglog        *common.Address
	quiet         bool                      // the next block: no user activity, zone order, Quai coinbase (whatever the block does to the Qi ledger, it does unasked: trimming)
	forceRegion   int                       // when it counts down to zero the block being built is of region order
	qiBoost       int                       // extra Qi spends per round
	born          map[types.OutPoint]uint64 // creation height of outputs made on this chain
}

type cwPlan struct {
	deployer *cwAcct
	addr     common.Address
	code     []byte
	ready    uint64 // deploy once the head is at least this high
}

func cwAccounts() (quai []*cwAcct, allocs []params.GenesisAccount) {
	loc := common.Location{0, 0}
	for i := 0; len(quai) < 5; i++ {
		seed := crypto.Keccak256([]byte("qvh-chain-key"), big.NewInt(int64(i)).Bytes())
		k, err := crypto.ToECDSA(seed)
		if err != nil {
			continue
		}
		addr := crypto.PubkeyToAddress(k.PublicKey, loc)
		if addr.Bytes()[0] != 0 || !addr.IsInQuaiLedgerScope() {
			continue
		}
		quai = append(quai, &cwAcct{key: k, addr: addr})
		sched := orderedmap.New[uint64, *big.Int]()
		bal, _ := new(big.Int).SetString("1000000000000000000000000", 10)
		sched.Set(0, bal)
		allocs = append(allocs, params.GenesisAccount{Address: addr, Award: bal, Vested: bal, BalanceSchedule: sched})
	}
	return
}

func cwQiKeys(n int) (qi []utKey) {
	for i := 0; len(qi) < n; i++ {
		seed := crypto.Keccak256([]byte("qvh-chain-qikey"), big.NewInt(int64(i)).Bytes())
		k, err := crypto.ToECDSA(seed)
		if err != nil {
			continue
		}
		pub := crypto.FromECDSAPub(&k.PublicKey)
		addr := crypto.PubkeyBytesToAddress(pub, utLoc)
		if addr.Bytes()[0] == 0 && addr.IsInQiLedgerScope() {
			priv, _ := btcec.PrivKeyFromBytes(seed)
			qi = append(qi, utKey{priv, pub, addr})
		}
	}
	return
}

func cwAllAllocs() (struct{}, []params.GenesisAccount) {
	_, a := cwAccounts()
	_, b := cwWatch()
	return struct{}{}, append(a, b...)
}

// cwWatch: Quai addresses of zone 0-0 that never send a transaction; they exist from block 1 on (1 wei each), so a
// payout never pays the account-creation fee and their balance is exactly what the chain paid out to them
func cwWatch() (out []common.Address, allocs []params.GenesisAccount) {
	for i := 0; len(out) < 3; i++ {
		b := crypto.Keccak256([]byte("qvh-watch"), big.NewInt(int64(i)).Bytes())[:20]
		b[0] = 0
		addr := common.BytesToAddress(b, common.Location{0, 0})
		if _, err := addr.InternalAndQuaiAddress(); err != nil {
			continue
		}
		out = append(out, addr)
		sched := orderedmap.New[uint64, *big.Int]()
		sched.Set(0, big.NewInt(1))
		allocs = append(allocs, params.GenesisAccount{Address: addr, Award: big.NewInt(1), Vested: big.NewInt(1), BalanceSchedule: sched})
	}
	return
}

// cwRefundAddr: a Quai address of zone 0-0 that only ever receives refunds of reverted Quai->Qi conversions
func cwRefundAddr() common.Address {
	for i := 0; ; i++ {
		b := crypto.Keccak256([]byte("qvh-refund"), big.NewInt(int64(i)).Bytes())[:20]
		b[0] = 0
		addr := common.BytesToAddress(b, common.Location{0, 0})
		if _, err := addr.InternalAndQuaiAddress(); err == nil {
			return addr
		}
	}
}

// cwFresh: Quai addresses of zone 0-0 that do not exist at genesis and never transact: the first payout they can afford
// creates them, less the account-creation fee
func cwFresh() (out []common.Address) {
	for i := 0; len(out) < 2; i++ {
		b := crypto.Keccak256([]byte("qvh-fresh"), big.NewInt(int64(i)).Bytes())[:20]
		b[0] = 0
		addr := common.BytesToAddress(b, common.Location{0, 0})
		if _, err := addr.InternalAndQuaiAddress(); err != nil {
			continue
		}
		out = append(out, addr)
	}
	return
}

// creationFee: what RedeemLockedQuai withholds from the first payout to a new account in a child of `parent`
func creationFee(parent *types.WorkObject) *big.Int {
	return new(big.Int).Mul(new(big.Int).SetUint64(params.CallNewAccountGas(parent.QuaiStateSize())), big.NewInt(params.InitialBaseFee))
}

// newHierWorld: the same generator on top of a real prime / region / zone hierarchy: inbound ETXs are whatever the
// dominant chains confirm, nothing is synthesised
func newHierWorld(rc *h.Rng, rg cwRegime) (*cwWorld, error) { return newHierWorldN(rc, rg, 1) }

func newHierWorldN(rc *h.Rng, rg cwRegime, nzones int) (*cwWorld, error) {
	quai, allocs := cwAccounts()
	_, wallocs := cwWatch()
	hr, err := newHierN(append(allocs, wallocs...), nzones)
	if err != nil {
		return nil, err
	}
	return &cwWorld{node: hr.asZoneNode(), rc: rc, rg: rg, quai: quai, qi: cwQiKeys(12), hist: map[string]int{}, spentInPool: map[string]bool{}, born: map[types.OutPoint]uint64{}}, nil
}

func newWorld(db ethdb.Database, rc *h.Rng, rg cwRegime, opts zoneOpts) (*cwWorld, error) {
	quai, allocs := cwAccounts()
	_, wallocs := cwWatch()
	allocs = append(allocs, wallocs...)
	opts.allocs = allocs
	node, err := newZoneNode(db, opts)
	if err != nil {
		return nil, err
	}
	qi := cwQiKeys(12)
	return &cwWorld{node: node, rc: rc, rg: rg, quai: quai, qi: qi, hist: map[string]int{}, spentInPool: map[string]bool{}, born: map[types.OutPoint]uint64{}}, nil
}

func (w *cwWorld) head() *types.WorkObject { return w.node.hc.CurrentHeader() }

func (w *cwWorld) count(k string) { w.hist[k]++ }

// ---- inbound ETXs (the region's part) ----

func (w *cwWorld) etxHash() common.Hash {
	w.etxSeq++
	var b [8]byte
	binary.BigEndian.PutUint64(b[:], w.etxSeq)
	return crypto.Keccak256Hash([]byte("qvh-etx"), b[:])
}

func (w *cwWorld) randQuaiAddr() common.Address { return w.quai[w.rc.Intn(len(w.quai))].addr }

// rewardAddr: a Quai address to pay a reward to - often one of the watch-only addresses
func (w *cwWorld) rewardAddr() common.Address {
	if w.rc.Chance(12) {
		fs := cwFresh()
		return fs[w.rc.Intn(len(fs))]
	}
	if w.rc.Chance(50) {
		ws, _ := cwWatch()
		return ws[w.rc.Intn(len(ws)-1)] // the last watch address is reserved for conversions
	}
	return w.randQuaiAddr()
}

// convAddr: recipient of a Qi->Quai conversion; half of them go to a watch address that receives nothing else, so that
// its balance is exactly what matured conversions credited
func (w *cwWorld) convAddr() common.Address {
	if w.rc.Chance(50) {
		ws, _ := cwWatch()
		return ws[len(ws)-1]
	}
	return w.rewardAddr()
}
func (w *cwWorld) randQiAddr() common.Address { return w.qi[w.rc.Intn(len(w.qi))].addr }

// cwQiAmount: a Qi amount in qits with an interesting denomination decomposition
func (w *cwWorld) qiAmount() *big.Int {
	v := big.NewInt(0)
	for i, n := 0, 1+w.rc.Intn(4); i < n; i++ {
		v.Add(v, types.Denominations[uint8(w.rc.Intn(10))])
	}
	return v
}

func (w *cwWorld) coinbaseData(lock byte) []byte {
	data := []byte{lock}
	if w.owner != nil && w.rc.Chance(50) {
		data = append(data, w.owner.Bytes()...)
		if w.rc.Chance(40) {
			data = append(data, w.randQuaiAddr().Bytes()...) // delegate
		}
	}
	return append(data, w.etxHash().Bytes()...)
}

func (w *cwWorld) synthInbound(blkNum uint64) types.Transactions {
	var out types.Transactions
	rc := w.rc
	add := func(kind string, e *types.ExternalTx) {
		w.count("etx:" + kind)
		out = append(out, types.NewTx(e))
	}
	// the zone's own coinbase ETXs come back through the dominant chains
	for _, e := range w.emitted {
		out = append(out, types.NewTx(e.Inner()))
		w.count(fmt.Sprintf("etx:own-type%d", e.EtxType()))
	}
	w.emitted = nil
	if blkNum == params.TimeToStartTx {
		to := w.rewardAddr()
		add("cb-quai", &types.ExternalTx{OriginatingTxHash: w.etxHash(), ETXIndex: 100, Gas: params.TxGas, To: &to, Value: big.NewInt(1e15 + int64(rc.Intn(1e9))), Data: append([]byte{byte(rc.Intn(4))}, w.etxHash().Bytes()...), Sender: to, EtxType: types.CoinbaseType})
		if rc.Bool() {
			qto := w.randQiAddr()
			add("cb-qi", &types.ExternalTx{OriginatingTxHash: w.etxHash(), ETXIndex: 101, Gas: params.TxGas, To: &qto, Value: w.qiAmount(), Data: w.coinbaseData(byte(rc.Intn(4))), Sender: qto, EtxType: types.CoinbaseType})
		}
	}
	if rc.Chance(30) {
		// several plain coinbases of one lock byte for an account that may not exist yet, with amounts around the
		// account-creation fee: they unlock together, and only the first that can afford it pays the fee
		fs := cwFresh()
		to, lock, fee := fs[rc.Intn(len(fs))], byte(rc.Intn(4)), creationFee(w.head())
		for i, k := 0, 2+rc.Intn(2); i < k; i++ {
			v := new(big.Int).Set(fee)
			switch rc.Intn(6) {
			case 0:
				v.Sub(v, big.NewInt(1))
			case 1:
				v.SetInt64(1 + int64(rc.Intn(1000)))
			case 2:
			case 3:
				v.Add(v, big.NewInt(1))
			default:
				v.Add(v, big.NewInt(1e15+int64(rc.Intn(1e9))))
			}
			if v.Sign() <= 0 {
				v.SetInt64(1)
			}
			add("cb-quai-fresh", &types.ExternalTx{OriginatingTxHash: w.etxHash(), ETXIndex: uint16(300 + i), Gas: params.TxGas, To: &to, Value: v, Data: append([]byte{lock}, w.etxHash().Bytes()...), Sender: to, EtxType: types.CoinbaseType})
		}
	}
	if w.owner != nil && (rc.Chance(60) || w.busy) {
		// a burst of coinbases for one (contract, miner, lockup byte): the block rewrites one lockup record several
		// times; always the same miner and byte, so that the record usually exists before the block
		to, lock := w.quai[0].addr, byte(1)
		for i, k := 0, 2+rc.Intn(2); i < k; i++ {
			data := append([]byte{lock}, w.owner.Bytes()...)
			if rc.Chance(50) {
				data = append(data, w.quai[1+rc.Intn(2)].addr.Bytes()...) // the delegate may change with every coinbase
			}
			data = append(data, w.etxHash().Bytes()...)
			add("cb-quai-burst", &types.ExternalTx{OriginatingTxHash: w.etxHash(), ETXIndex: uint16(200 + i), Gas: params.TxGas, To: &to, Value: big.NewInt(1e15 + int64(rc.Intn(1e9))), Data: data, Sender: to, EtxType: types.CoinbaseType})
		}
	}
	n := rc.Intn(6)
	if w.rg.preTx && rc.Chance(40) {
		n = 40 + rc.Intn(120) // the ETX count window of the early chain
	}
	if w.rg.preTx && !w.bigBatchDone {
		// every early-chain history sees at least one backlog above the window's upper end (100), right at the start
		w.bigBatchDone = true
		n = 105 + rc.Intn(50)
	}
	for i := 0; i < n; i++ {
		lock := byte(rc.Intn(4))
		kind := []int{0, 0, 1, 2, 3, 4, 5, 5, 6, 6, 7, 8, 8}[rc.Intn(13)] // Quai coinbases, Qi->Quai conversions and plain Qi outputs a little more often
		if w.rg.preTx || blkNum < params.TimeToStartTx {
			// blocks of the early chain have gas limit 0: only coinbase ETXs (which draw no gas) can exist there
			kind = rc.Intn(3)
		}
		switch kind {
		case 0: // Quai coinbase
			to := w.rewardAddr()
			add("cb-quai", &types.ExternalTx{OriginatingTxHash: w.etxHash(), ETXIndex: uint16(i), Gas: params.TxGas, To: &to, Value: big.NewInt(1e15 + int64(rc.Intn(1e9))), Data: w.coinbaseData(lock), Sender: to, EtxType: types.CoinbaseType})
		case 1, 2: // Qi coinbase
			to := w.randQiAddr()
			add("cb-qi", &types.ExternalTx{OriginatingTxHash: w.etxHash(), ETXIndex: uint16(i), Gas: params.TxGas, To: &to, Value: w.qiAmount(), Data: w.coinbaseData(lock), Sender: to, EtxType: types.CoinbaseType})
		case 3, 4: // Quai -> Qi conversion arriving
			to, from := w.randQiAddr(), w.randQuaiAddr()
			gas := params.TxGas + uint64(rc.Intn(12))*params.CallValueTransferGas
			add("conv-to-qi", &types.ExternalTx{OriginatingTxHash: w.etxHash(), ETXIndex: uint16(i), Gas: gas, To: &to, Value: w.qiAmount(), Sender: from, EtxType: types.ConversionType})
		case 5: // Qi -> Quai conversion arriving
			to, from := w.convAddr(), w.randQiAddr()
			add("conv-to-quai", &types.ExternalTx{OriginatingTxHash: w.etxHash(), ETXIndex: uint16(i), Gas: params.TxGas * 2, To: &to, Value: big.NewInt(1e14 + int64(rc.Intn(1e9))), Sender: from, EtxType: types.ConversionType})
		case 6: // reverted conversion: refunds
			if rc.Chance(65) {
				to, from := w.randQiAddr(), w.randQuaiAddr()
				var data []byte
				if rc.Chance(70) {
					// the refund-only account (it never transacts: its balance is the sum of the refunds), and the data the
					// reverted conversion carried: the slip, possibly followed by anything the sender cared to add
					from = cwRefundAddr()
					data = rc.Bytes([]int{0, 2, 2, 21, 22, 22, 23, 40}[rc.Intn(8)])
					if len(data) >= 22 {
						data[2] = 0x00 // bytes 2..21 read as an address of this zone, in either ledger
						if rc.Bool() {
							data[3] |= 0x80
						} else {
							data[3] &= 0x7f
						}
					}
				}
				add("revert-quai", &types.ExternalTx{OriginatingTxHash: w.etxHash(), ETXIndex: uint16(i), Gas: params.TxGas * 2, To: &to, Value: big.NewInt(1e14 + int64(rc.Intn(1e6))), Data: data, Sender: from, EtxType: types.ConversionRevertType})
			} else {
				to, from := w.randQuaiAddr(), w.randQiAddr()
				if rc.Chance(60) {
					ws, _ := cwWatch()
					to = ws[len(ws)-1] // a refused conversion to the conversion-only watch address: it must never be credited there
				}
				data := append([]byte{0, 0}, from.Bytes()...)
				add("revert-qi", &types.ExternalTx{OriginatingTxHash: w.etxHash(), ETXIndex: uint16(i), Gas: params.TxGas + 8*params.CallValueTransferGas, To: &to, Value: w.qiAmount(), Data: data, Sender: from, EtxType: types.ConversionRevertType})
			}
		case 7: // plain value transfer from another zone to a Quai account
			to := w.randQuaiAddr()
			from := common.HexToAddress("0x1000000000000000000000000000000000000042", common.Location{1, 0})
			add("xfer-quai", &types.ExternalTx{OriginatingTxHash: w.etxHash(), ETXIndex: uint16(i), Gas: params.TxGas * 2, To: &to, Value: big.NewInt(1e12 + int64(rc.Intn(1e6))), Sender: from, EtxType: types.DefaultType})
		case 8: // Qi output from another zone
			to := w.randQiAddr()
			from := common.HexToAddress("0x1080000000000000000000000000000000000042", common.Location{1, 0})
			add("xfer-qi", &types.ExternalTx{OriginatingTxHash: w.etxHash(), ETXIndex: uint16(i), Gas: params.TxGas, To: &to, Value: big.NewInt(int64(rc.Intn(int(types.MaxTrimDenomination) + 3))), Sender: from, EtxType: types.DefaultType}) // the value of a Qi ETX is its denomination index
		}
	}
	if !w.rg.preTx && blkNum >= params.TimeToStartTx && rc.Chance(50) {
		// one more refund of a reverted Quai -> Qi conversion of the refund-only account, carrying as much data as the
		// sender chose to attach (the slip and then anything)
		to := w.randQiAddr()
		data := rc.Bytes([]int{2, 22, 22, 23, 30, 40}[rc.Intn(6)])
		if len(data) >= 22 {
			data[2] = 0x00
			if rc.Bool() {
				data[3] |= 0x80
			} else {
				data[3] &= 0x7f
			}
		}
		add("revert-quai", &types.ExternalTx{OriginatingTxHash: w.etxHash(), ETXIndex: uint16(900), Gas: params.TxGas * 2, To: &to, Value: big.NewInt(1e14 + int64(rc.Intn(1e6))), Data: data, Sender: cwRefundAddr(), EtxType: types.ConversionRevertType})
	}
	return out
}

// ---- DB scans (independent of the node's caches) ----

type cwScan struct {
	utxos   []string // "txhash:index:denom:address:lock"
	lockups []string // "owner:beneficiary:byte:epoch:balance:unlock:elements:delegate"
	hashes  []common.Hash
}

// scanLedger walks the 'ut' and 'cl' key spaces of the database and recomputes, from the stored bytes alone,
// the hash under which each entry enters the UTXO multiset.
func scanLedger(db ethdb.Database, loc common.Location) cwScan {
	var s cwScan
	it := db.NewIterator(rawdb.UtxoPrefix, nil)
	for it.Next() {
		k := it.Key()
		if len(k) != rawdb.UtxoKeyLength {
			continue
		}
		p := new(types.ProtoTxOut)
		if err := proto.Unmarshal(it.Value(), p); err != nil {
			s.utxos = append(s.utxos, "undecodable:"+h.Hex(k))
			continue
		}
		u := new(types.UtxoEntry)
		if err := u.ProtoDecode(p); err != nil {
			s.utxos = append(s.utxos, "undecodable:"+h.Hex(k))
			continue
		}
		txh := common.BytesToHash(k[len(rawdb.UtxoPrefix) : len(rawdb.UtxoPrefix)+32])
		idx := binary.BigEndian.Uint16(k[len(rawdb.UtxoPrefix)+32:])
		lock := "0"
		if u.Lock != nil {
			lock = u.Lock.String()
		}
		s.utxos = append(s.utxos, fmt.Sprintf("%s:%d:%d:%s:%s", h.Hex(txh[:]), idx, u.Denomination, h.Hex(u.Address), lock))
		s.hashes = append(s.hashes, types.UTXOHash(txh, idx, u))
	}
	it.Release()
	it = db.NewIterator(rawdb.CoinbaseLockupPrefix, nil)
	for it.Next() {
		k, v := it.Key(), it.Value()
		if len(k) != rawdb.CoinbaseLockupKeyLength {
			continue
		}
		owner, ben, lb, epoch, err := rawdb.ReverseCoinbaseLockupKey(k, loc)
		if err != nil || len(v) < 38 {
			s.lockups = append(s.lockups, "undecodable:"+h.Hex(k))
			continue
		}
		bal := new(big.Int).SetBytes(v[:32])
		unlock := binary.BigEndian.Uint32(v[32:36])
		elems := binary.BigEndian.Uint16(v[36:38])
		del := common.Zero
		if len(v) == 58 {
			del = common.BytesToAddress(v[38:], loc)
		}
		s.lockups = append(s.lockups, fmt.Sprintf("%s:%s:%d:%d:%s:%d:%d:%s", h.Hex(owner.Bytes()), h.Hex(ben.Bytes()), lb, epoch, bal, unlock, elems, h.Hex(del.Bytes())))
		s.hashes = append(s.hashes, types.CoinbaseLockupHash(owner, ben, del, lb, epoch, bal, unlock, elems))
	}
	it.Release()
	sort.Strings(s.utxos)
	sort.Strings(s.lockups)
	return s
}

func (s cwScan) root() common.Hash {
	ms := multiset.New()
	for _, x := range s.hashes {
		ms.Add(x.Bytes())
	}
	return ms.Hash()
}

func (s cwScan) digest() string {
	hs := make([]string, len(s.hashes))
	for i, x := range s.hashes {
		hs[i] = h.Hex(x[:])
	}
	sort.Strings(hs)
	var b bytes.Buffer
	for _, x := range hs {
		b.WriteString(x)
	}
	return h.Hex(crypto.Keccak256(b.Bytes())[:8])
}

// ---- users ----

func (w *cwWorld) gasPrice() *big.Int {
	bf := w.node.hc.CalcBaseFee(w.head())
	if w.priceMult > 0 {
		return new(big.Int).Mul(bf, big.NewInt(w.priceMult))
	}
	return new(big.Int).Mul(bf, big.NewInt(3))
}

func (w *cwWorld) signQuai(a *cwAcct, to *common.Address, value *big.Int, data []byte, gas uint64, al ...types.AccessTuple) *types.Transaction {
	inner := &types.QuaiTx{ChainID: w.node.sl.Config().ChainID, Nonce: a.nonce, GasPrice: w.gasPrice(), Gas: gas, To: to, Value: value, Data: data, AccessList: al}
	tx, err := types.SignTx(types.NewTx(inner), types.NewSigner(w.node.sl.Config().ChainID, w.node.loc), a.key)
	if err != nil {
		panic(err)
	}
	return tx
}

func indexOf(l []*cwAcct, a *cwAcct) int {
	for i, x := range l {
		if x == a {
			return i
		}
	}
	return 0
}

// grindCreate appends salt bytes to init code until the created address is a Quai address of this zone
func grindCreate(from common.Address, nonce uint64, code []byte, loc common.Location) ([]byte, common.Address) {
	for salt := uint32(0); ; salt++ {
		c := append(append([]byte{}, code...), byte(salt), byte(salt>>8), byte(salt>>16), byte(salt>>24))
		addr := crypto.CreateAddress(from, nonce, c, loc)
		if _, err := addr.InternalAndQuaiAddress(); err == nil {
			return c, addr
		}
	}
}

// initCodeFor wraps runtime code into init code: CODECOPY(0, off, len); RETURN(0, len); <runtime>
func initCodeFor(runtime []byte, ctor ...byte) []byte {
	// fixed layout: PUSH2 len, PUSH2 off, PUSH1 0, CODECOPY, PUSH2 len, PUSH1 0, RETURN
	b := []byte{byte(vm.PUSH2), byte(len(runtime) >> 8), byte(len(runtime)), byte(vm.PUSH2), byte((len(ctor) + 15) >> 8), byte(len(ctor) + 15), byte(vm.PUSH1), 0, byte(vm.CODECOPY), byte(vm.PUSH2), byte(len(runtime) >> 8), byte(len(runtime)), byte(vm.PUSH1), 0, byte(vm.RETURN)}
	return append(append(append([]byte{}, ctor...), b...), runtime...)
}

// storeCode: SSTORE(calldata[0:32], calldata[32:64]); STOP  -- a contract whose storage the users grow and clear
func storeCode() []byte {
	a := &asm{}
	a.pushN(32).op(vm.CALLDATALOAD).pushN(0).op(vm.CALLDATALOAD).op(vm.SSTORE).op(vm.STOP)
	return a.b
}

// lkForwardCode: a contract that hands its whole call data to the lockup precompile: a 20-byte input claims a wrapped-Qi
// deposit made in its name, a 60-byte input unwraps Qi to a Qi address
func lkForwardCode(lockup common.Address) []byte {
	a := &asm{}
	a.op(vm.CALLDATASIZE).pushN(0).pushN(0).op(vm.CALLDATACOPY)
	a.pushN(0).pushN(0).op(vm.CALLDATASIZE).pushN(0).pushN(0).pushB(lockup.Bytes()).pushN(2_000_000).op(vm.CALL).op(vm.POP).op(vm.STOP)
	return a.b
}

func (w *cwWorld) userActivity() {
	if w.rg.preTx {
		return
	}
	rc := w.rc
	headNum := w.head().NumberU64(common.ZONE_CTX)
	if headNum < params.TimeToStartTx+1 {
		return
	}
	var cur *cwAcct
	txs := &cwSubmitter{w: w, ok: func() { cur.nonce++ }}
	// Quai side
	funded := false
	if w.plan != nil {
		if st, err := w.node.hc.StateAt(w.head().EVMRoot(), w.head().EtxSetRoot(), w.head().QuaiStateSize()); err == nil {
			if ia, err := w.plan.addr.InternalAddress(); err == nil && st.GetBalance(ia).Sign() > 0 {
				funded = true
			}
		}
	}
	if w.plan != nil && ((funded && headNum >= w.plan.ready) || headNum >= w.plan.ready+6) {
		cur = w.plan.deployer
		txs.add(w.signQuai(cur, nil, big.NewInt(0), w.plan.code, 3000000, types.AccessTuple{Address: w.plan.addr, StorageKeys: []common.Hash{{}, common.BigToHash(big.NewInt(1))}}))
		w.count("tx:deploy-on-funded-address")
		if funded {
			w.count("tx:deploy-on-funded-address:funded-at-head")
		}
		w.plan = nil
	}
	for i, n := 0, rc.Intn(4); i < n; i++ {
		a := w.quai[rc.Intn(len(w.quai))]
		if w.plan != nil && a == w.plan.deployer {
			continue // its nonce is reserved for the planned deployment
		}
		cur = a
		if w.plan == nil && rc.Chance(20) {
			// plan: fund the address a later CREATE of another account will produce, then deploy a contract whose
			// constructor writes storage
			d := w.quai[(rc.Intn(len(w.quai)-1)+1+indexOf(w.quai, a))%len(w.quai)]
			ctor := (&asm{}).pushN(uint64(1 + rc.Intn(250))).pushN(0).op(vm.SSTORE).pushN(uint64(1 + rc.Intn(250))).pushN(1).op(vm.SSTORE).b
			code, addr := grindCreate(d.addr, d.nonce, initCodeFor(storeCode(), ctor...), w.node.loc)
			w.plan = &cwPlan{deployer: d, addr: addr, code: code, ready: headNum + 1 + uint64(rc.Intn(3))}
			txs.add(w.signQuai(a, &addr, big.NewInt(int64(1+rc.Intn(1e6))), nil, 100000)) // a transfer that creates the account costs more than TxGas
			w.count("tx:prefund")
			continue
		}
		if w.bigLogs && w.biglog == nil && headNum >= 3 {
			code, addr := grindCreate(a.addr, a.nonce, initCodeFor((&asm{}).pushN(110000).pushN(0).op(vm.LOG0).op(vm.STOP).b), w.node.loc)
			txs.add(w.signQuai(a, nil, big.NewInt(0), code, 3000000, types.AccessTuple{Address: addr}))
			w.biglog = &addr
			w.count("tx:deploy-biglog")
			continue
		} else if w.bigLogs && w.biglog != nil && rc.Chance(40) {
			txs.add(w.signQuai(a, w.biglog, big.NewInt(0), nil, 1_500_000, types.AccessTuple{Address: *w.biglog}))
			w.count("tx:biglog")
			continue
		}
		switch k := rc.Intn(10); {
		case k < 4:
			to := w.randQuaiAddr()
			txs.add(w.signQuai(a, &to, big.NewInt(int64(1+rc.Intn(1e9))), nil, 21000))
			w.count("tx:transfer")
		case (k < 5 || headNum < 8) && w.owner == nil:
			code, addr := grindCreate(a.addr, a.nonce, initCodeFor(lkOwnerCode(vm.LockupContractAddresses[[2]byte{0, 0}])), w.node.loc)
			txs.add(w.signQuai(a, nil, big.NewInt(0), code, 3000000, types.AccessTuple{Address: addr}))
			w.owner = &addr
			w.count("tx:deploy-owner")
		case k < 6 && w.store == nil:
			code, addr := grindCreate(a.addr, a.nonce, initCodeFor(storeCode()), w.node.loc)
			txs.add(w.signQuai(a, nil, big.NewInt(0), code, 3000000, types.AccessTuple{Address: addr}))
			w.store = &addr
			w.count("tx:deploy-store")
		case k < 7 && w.wrapper == nil && headNum >= 6:
			code, addr := grindCreate(a.addr, a.nonce, initCodeFor(lkForwardCode(vm.LockupContractAddresses[[2]byte{0, 0}])), w.node.loc)
			txs.add(w.signQuai(a, nil, big.NewInt(0), code, 3000000, types.AccessTuple{Address: addr}))
			w.wrapper = &addr
			w.count("tx:deploy-wrapper")
		case k < 9 && w.store != nil:
			data := make([]byte, 64)
			data[31] = byte(rc.Intn(6))
			if rc.Chance(70) {
				data[63] = byte(1 + rc.Intn(200))
			}
			txs.add(w.signQuai(a, w.store, big.NewInt(0), data, 100000, types.AccessTuple{Address: *w.store, StorageKeys: []common.Hash{common.BytesToHash(data[:32])}}))
			w.count("tx:store")
		case k < 10 && w.owner != nil && rc.Chance(70):
			if data := w.claimData(headNum + 1); data != nil {
				lc := vm.LockupContractAddresses[[2]byte{0, 0}]
				txs.add(w.signQuai(a, w.owner, big.NewInt(0), data, 500000, types.AccessTuple{Address: *w.owner}, types.AccessTuple{Address: lc}))
				w.count("tx:claim")
				break
			}
			fallthrough
		default:
			// Quai -> Qi conversion: a value transfer to a Qi address of the same zone
			to := w.randQiAddr()
			var slipData []byte
			if rc.Chance(60) {
				slip := []uint16{0, 10, 100, 1000, 5000, 9000, 9999}[rc.Intn(7)]
				slipData = []byte{byte(slip >> 8), byte(slip)}
			}
			amt := new(big.Int).Mul(big.NewInt(int64(1+rc.Intn(5))), params.MinQuaiConversionAmount)
			if rc.Chance(15) {
				amt.Mul(amt, big.NewInt(int64(20+rc.Intn(2000)))) // far above the running average: heavy discount, floor, reverts
			}
			txs.add(w.signQuai(a, &to, amt, slipData, 200000, types.AccessTuple{Address: to}))
			w.count("tx:convert-to-qi")
		}
	}
	// three independent transactions at three prices above the usual one, the cheapest of them failing (a creation whose
	// constructor reverts): the assembler lists them dearest first
	if w.priceVar && rc.Chance(45) {
		var free []*cwAcct
		for _, a := range w.quai {
			if w.plan == nil || a != w.plan.deployer {
				free = append(free, a)
			}
		}
		if len(free) >= 3 {
			off := rc.Intn(len(free))
			to1, to2 := w.randQuaiAddr(), w.randQuaiAddr()
			w.priceMult = 6
			cur = free[off%len(free)]
			txs.add(w.signQuai(cur, &to1, big.NewInt(int64(1+rc.Intn(1e9))), nil, 21000))
			w.priceMult = 4
			cur = free[(off+1)%len(free)]
			code, addr := grindCreate(cur.addr, cur.nonce, []byte{byte(vm.PUSH1), 0, byte(vm.PUSH1), 0, byte(vm.REVERT)}, w.node.loc)
			txs.add(w.signQuai(cur, nil, big.NewInt(0), code, 200000, types.AccessTuple{Address: addr}))
			w.priceMult = 5
			cur = free[(off+2)%len(free)]
			txs.add(w.signQuai(cur, &to2, big.NewInt(int64(1+rc.Intn(1e9))), nil, 21000))
			w.priceMult = 0
			w.count("tx:price-trio")
		}
	}
	// wrapped Qi: accept deposits made in the wrapper contract's name, unwrap part of what it holds
	if w.wrapper != nil && len(w.wrapped) > 0 && rc.Chance(50) {
		lc := vm.LockupContractAddresses[[2]byte{0, 0}]
		a := w.quai[rc.Intn(len(w.quai))]
		if w.plan == nil || a != w.plan.deployer {
			cur = a
			held := new(big.Int)
			if st, err := w.node.hc.StateAt(w.head().EVMRoot(), w.head().EtxSetRoot(), w.head().QuaiStateSize()); err == nil {
				li, _ := lc.InternalAndQuaiAddress()
				wi, _ := w.wrapper.InternalAndQuaiAddress()
				held = st.GetState(li, common.BytesToHash(wi[:])).Big()
			}
			if held.Sign() == 0 || rc.Chance(40) {
				b := w.wrapped[rc.Intn(len(w.wrapped))]
				txs.add(w.signQuai(a, w.wrapper, big.NewInt(0), b.Bytes(), 400000, types.AccessTuple{Address: *w.wrapper}, types.AccessTuple{Address: lc}))
				w.count("tx:claim-qi-deposit")
			} else {
				// amounts with and without the small notes that an unwrap does not mint; sometimes more than is held
				var opts []*big.Int
				for _, v := range []int64{500, 600, 1500, 5500, 1000, 6000, 100, 1} {
					if held.Cmp(big.NewInt(v)) >= 0 {
						opts = append(opts, big.NewInt(v))
					}
				}
				opts = append(opts, new(big.Int).Set(held), new(big.Int).Add(held, big.NewInt(1)))
				amt := opts[rc.Intn(len(opts))]
				data := append(append([]byte{}, w.randQiAddr().Bytes()...), common.LeftPadBytes(amt.Bytes(), 32)...)
				data = append(data, 0, 0, 0, 0, 0, 1, 0x86, 0xa0) // ETX gas limit 100000
				txs.add(w.signQuai(a, w.wrapper, big.NewInt(0), data, 600000, types.AccessTuple{Address: *w.wrapper}, types.AccessTuple{Address: lc}))
				w.count("tx:unwrap-qi")
			}
		}
	}
	// Qi side: spend unlocked outputs of the generator's keys
	for i, n := 0, rc.Intn(3)+w.qiBoost; i < n; i++ {
		if tx := w.qiSpend(headNum); tx != nil {
			txs.add(tx)
		}
	}
}

type cwSubmitter struct {
	w  *cwWorld
	ok func()
}

func (s *cwSubmitter) add(tx *types.Transaction) {
	if errs := s.w.node.sl.TxPool().AddRemotesSync([]*types.Transaction{tx}); errs[0] != nil {
		s.w.count("tx:pool-reject")
		if tx.Type() == types.QuaiTxType {
			s.w.resyncNonces()
		}
		if os.Getenv("QVH_DEBUG") != "" {
			if tx.Type() == types.QuaiTxType {
				from, _ := types.Sender(types.NewSigner(s.w.node.sl.Config().ChainID, s.w.node.loc), tx)
				ia, _ := from.InternalAddress()
				p, q := s.w.node.sl.TxPool().ContentFrom(ia)
				fmt.Fprintln(os.Stderr, "  DBG from", from.Hex()[:10], "price", tx.GasPrice(), "head", s.w.head().NumberU64(2), "poolnonce", s.w.node.sl.TxPool().Nonce(ia), "pending", len(p), "queued", len(q))
				for _, x := range p {
					fmt.Fprintln(os.Stderr, "    pending nonce", x.Nonce(), "price", x.GasPrice(), "gas", x.Gas())
				}
			}
			fmt.Fprintln(os.Stderr, "pool reject:", errs[0], "type", tx.Type(), "nonce", func() uint64 {
				if tx.Type() == types.QuaiTxType {
					return tx.Nonce()
				}
				return 0
			}())
		}
	} else if tx.Type() == types.QuaiTxType {
		s.ok()
	}
}

// resyncNonces re-reads every account's nonce from the head state
func (w *cwWorld) resyncNonces() {
	hd := w.head()
	st, err := w.node.hc.StateAt(hd.EVMRoot(), hd.EtxSetRoot(), hd.QuaiStateSize())
	if err != nil {
		return
	}
	for _, a := range w.quai {
		ia, _ := a.addr.InternalAddress()
		was := a.nonce
		a.nonce = st.GetNonce(ia)
		if os.Getenv("QVH_DEBUG") != "" && was != a.nonce {
			fmt.Fprintln(os.Stderr, "  DBG resync", a.addr.Hex()[:10], "was", was, "state", a.nonce, "pool", w.node.sl.TxPool().Nonce(ia))
		}
		if w.priceVar {
			// transactions still waiting in the pool keep their nonces
			p, q := w.node.sl.TxPool().ContentFrom(ia)
			for _, x := range append(append(types.Transactions{}, p...), q...) {
				if x.Nonce() >= a.nonce {
					a.nonce = x.Nonce() + 1
				}
			}
		}
	}
}

// claimData: calldata for the owner contract claiming a matured lockup record it owns (nil when there is none)
func (w *cwWorld) claimData(height uint64) []byte {
	it := w.node.db.NewIterator(rawdb.CoinbaseLockupPrefix, nil)
	defer it.Release()
	var cands [][]byte
	for it.Next() {
		k, v := it.Key(), it.Value()
		if len(k) != rawdb.CoinbaseLockupKeyLength || len(v) < 38 {
			continue
		}
		owner, ben, lb, epoch, err := rawdb.ReverseCoinbaseLockupKey(k, w.node.loc)
		if err != nil || !owner.Equal(*w.owner) {
			continue
		}
		if uint64(binary.BigEndian.Uint32(v[32:36])) > height && !w.rc.Chance(10) {
			continue // mostly matured ones
		}
		in := make([]byte, 54)
		copy(in[0:20], ben.Bytes())
		dest := w.randQuaiAddr()
		if ben.IsInQiLedgerScope() {
			dest = w.randQiAddr()
		}
		copy(in[20:40], dest.Bytes())
		in[40] = lb
		binary.BigEndian.PutUint32(in[41:45], epoch)
		binary.BigEndian.PutUint64(in[45:53], 100000)
		if w.rc.Chance(15) {
			in[53] = 1 // the owner contract reverts after the claim
		}
		cands = append(cands, in)
	}
	if len(cands) == 0 {
		return nil
	}
	return cands[w.rc.Intn(len(cands))]
}

// qiSpend builds a signed Qi transaction over one to three unlocked outputs owned by the generator's keys
func (w *cwWorld) qiSpend(height uint64) *types.Transaction {
	rc := w.rc
	type cand struct {
		op    types.OutPoint
		denom uint8
		key   int
	}
	var cands, forced []cand
	it := w.node.db.NewIterator(rawdb.UtxoPrefix, nil)
	for it.Next() {
		k := it.Key()
		if len(k) != rawdb.UtxoKeyLength {
			continue
		}
		p := new(types.ProtoTxOut)
		u := new(types.UtxoEntry)
		if proto.Unmarshal(it.Value(), p) != nil || u.ProtoDecode(p) != nil {
			continue
		}
		if u.Lock != nil && u.Lock.Uint64() > height {
			continue
		}
		for ki, key := range w.qi {
			if bytes.Equal(key.addr.Bytes(), u.Address) {
				txh := common.BytesToHash(k[len(rawdb.UtxoPrefix) : len(rawdb.UtxoPrefix)+32])
				if !w.spentInPool[fmt.Sprintf("%x:%d", txh, binary.BigEndian.Uint16(k[len(rawdb.UtxoPrefix)+32:]))] {
					c := cand{types.OutPoint{TxHash: txh, Index: binary.BigEndian.Uint16(k[len(rawdb.UtxoPrefix)+32:])}, u.Denomination, ki}
					if b, ok := w.born[c.op]; ok && w.hunt && u.Denomination <= types.MaxTrimDenomination && (u.Lock == nil || u.Lock.Sign() == 0) {
						due := b + types.TrimDepths[u.Denomination] // the block whose trimming pass removes this output
						if height+1 < due {
							continue // keep it for that block
						}
						if height+1 == due {
							forced = append(forced, c)
							continue
						}
					}
					cands = append(cands, c)
				}
			}
		}
	}
	it.Release()
	if len(cands) == 0 {
		return nil
	}
	sort.Slice(cands, func(i, j int) bool { return cands[i].denom > cands[j].denom })
	nin := 1 + rc.Intn(3)
	if nin > len(cands) {
		nin = len(cands)
	}
	// the largest output pays the fee; the others are picked at random
	picked := []cand{cands[0]}
	if len(forced) > 0 {
		picked = append(picked, forced[0])
		w.count("tx:qi-spend-at-trim-height")
		nin = len(picked)
	} else if rc.Chance(60) {
		// chain: spend an output the head block itself created (after a reorg both transactions sit in the pool again
		// and can end up in one block)
		for _, c := range cands[1:] {
			if w.born[c.op] == height {
				picked = append(picked, c)
				w.count("tx:qi-spend-of-head-output")
				if nin < 2 {
					nin = 2
				}
				break
			}
		}
	}
	for len(picked) < nin {
		c := cands[1+rc.Intn(len(cands)-1)]
		dup := false
		for _, q := range picked {
			if q.op == c.op {
				dup = true
			}
		}
		if !dup {
			picked = append(picked, c)
		} else {
			nin--
		}
	}
	if w.adversarialQi && rc.Chance(12) && len(forced) == 0 {
		// an adversarial transaction for the pool: the same outpoint named twice (signed by its key twice).  The pool's
		// checks add the value up twice; the worker must still never put it into a block of its own.
		picked = []cand{cands[0], cands[0]}
		nin = 2
		w.count("tx:qi-same-outpoint-twice")
	}
	var ins types.TxIns
	var privs []*btcec.PrivateKey
	total := new(big.Int)
	for _, c := range picked {
		ins = append(ins, types.TxIn{PreviousOutPoint: c.op, PubKey: w.qi[c.key].pub})
		privs = append(privs, w.qi[c.key].priv)
		total.Add(total, types.Denominations[c.denom])
	}
	// outputs: everything but the largest input goes back out, split over distinct addresses
	budget := new(big.Int).Sub(total, types.Denominations[picked[0].denom])
	if rc.Chance(50) && picked[0].denom > 0 { // and part of the largest one
		budget.Add(budget, types.Denominations[picked[0].denom-1])
	}
	var outs types.TxOuts
	var free []int // keys that own none of the inputs (an output may not go to an input's address)
	for ki := range w.qi {
		owns := false
		for _, c := range picked {
			if c.key == ki {
				owns = true
			}
		}
		if !owns {
			free = append(free, ki)
		}
	}
	perm := rc.Intn(len(free))
	maxOuts := 1 + rc.Intn(5)
	for d := int(types.MaxDenomination); d >= 0 && len(outs) < maxOuts; d-- {
		for budget.Cmp(types.Denominations[uint8(d)]) >= 0 && len(outs) < maxOuts {
			budget.Sub(budget, types.Denominations[uint8(d)])
			outs = append(outs, *types.NewTxOut(uint8(d), w.qi[free[(perm+len(outs))%len(free)]].addr.Bytes(), big.NewInt(0)))
		}
	}
	if len(outs) == 0 {
		outs = append(outs, *types.NewTxOut(0, w.qi[free[perm]].addr.Bytes(), big.NewInt(0)))
	}
	var data []byte
	if w.convertQi && rc.Chance(35) && w.head().PrimeTerminusNumber().Uint64() >= params.ControllerKickInBlock {
		// Qi -> Quai conversion: every output goes to one Quai address of this zone; the data carries the sender's
		// slippage bound (2 bytes, basis points) and the Qi address a refused conversion is refunded to
		to := w.convAddr()
		for i := range outs {
			outs[i] = *types.NewTxOut(outs[i].Denomination, to.Bytes(), big.NewInt(0))
		}
		slip := []uint16{0, 10, 100, 1000, 5000, 9000, 9999}[rc.Intn(7)]
		data = append([]byte{byte(slip >> 8), byte(slip)}, w.qi[picked[0].key].addr.Bytes()...)
		w.count("tx:qi-convert-to-quai")
	}
	if data == nil && w.wrapper != nil && rc.Chance(30) {
		// wrapping: every output goes to one Quai beneficiary, the data names the contract that will hold the wrapped Qi
		to := w.quai[rc.Intn(len(w.quai))].addr
		for i := range outs {
			outs[i] = *types.NewTxOut(outs[i].Denomination, to.Bytes(), big.NewInt(0))
		}
		data = append([]byte{}, w.wrapper.Bytes()...)
		w.wrapped = append(w.wrapped, to)
		w.count("tx:qi-wrap")
	}
	inner := &types.QiTx{ChainID: w.node.sl.Config().ChainID, TxIn: ins, TxOut: outs, Data: data}
	tx := utSign(inner, privs)
	for _, c := range picked {
		w.spentInPool[fmt.Sprintf("%x:%d", c.op.TxHash, c.op.Index)] = true
	}
	w.count("tx:qi-spend")
	return tx
}

// ---- one step ----

func (w *cwWorld) step() (*cwStep, error) {
	st, err := w.build()
	if err != nil {
		return nil, err
	}
	return st, w.commit(st)
}

// build lets the users act, then has the node's worker assemble the next block, which the harness seals; nothing
// is appended yet
func (w *cwWorld) build() (*cwStep, error) {
	rc := w.rc
	if !w.quiet {
		w.userActivity()
	}
	n := w.node
	n.nextDt = uint64(rc.Intn(4))
	if rc.Chance(10) {
		n.nextDt = uint64(rc.Intn(40))
	} else if rc.Chance(8) {
		// a long pause: the retarget caps the gap it looks at (MaxTimeDiffBetweenBlocks)
		n.nextDt = []uint64{99, 100, 101, 104, 105, 106, 600, 7200}[rc.Intn(8)]
	}
	lock := byte(rc.Intn(4))
	n.nextData = []byte{lock}
	if w.owner != nil && rc.Chance(40) {
		n.nextData = append(n.nextData, w.owner.Bytes()...)
		if rc.Chance(40) {
			n.nextData = append(n.nextData, w.randQuaiAddr().Bytes()...)
		}
	}
	n.nextCoinbase = w.rewardAddr()
	if rc.Chance(40) && w.head().PrimeTerminusNumber().Uint64() >= params.ControllerKickInBlock {
		n.nextCoinbase = w.randQiAddr()
	}
	want := common.ZONE_CTX
	if rc.Chance(30) || (w.busy && rc.Chance(40)) {
		want = common.REGION_CTX
		if n.h != nil && rc.Chance(45) {
			want = common.PRIME_CTX
		}
	}
	if !w.rg.preTx && n.h == nil && w.head().NumberU64(common.ZONE_CTX)+1 == params.TimeToStartTx && rc.Chance(85) {
		// the block after this one is the first with a gas limit: let it receive coinbase ETXs (they start to be
		// charged TxGas exactly there, by the worker and by the processor separately)
		want = common.REGION_CTX
	}
	if w.zoneRun > 0 {
		// a run of zone-order blocks (the manifest the next coincident block commits to grows with each)
		w.zoneRun--
		want = common.ZONE_CTX
	}
	if w.forceRegion > 0 && n.h == nil {
		w.forceRegion--
		if w.forceRegion == 0 {
			want = common.REGION_CTX
		}
	}
	n.wantShare = rc.Chance(30)
	if w.quiet {
		want, n.wantShare, w.quiet = common.ZONE_CTX, false, false
		n.nextCoinbase = w.randQuaiAddr()
	}
	blk, err := n.nextBlock(want)
	if err != nil {
		return nil, err
	}
	st := cwStep{blk: blk, order: want}
	if _, ord, err := n.hc.CalcOrder(blk); err == nil {
		st.order = ord // in a hierarchy the accumulated entropy may leave no seal of the wanted order
	}
	if want == common.REGION_CTX && n.h == nil {
		st.inbound = w.synthInbound(blk.NumberU64(common.ZONE_CTX))
	}
	return &st, nil
}

// commit appends a built block (or an equally valid variant of it) to the node and updates the generator's view
func (w *cwWorld) commit(st *cwStep) error {
	if err := w.node.appendBlock(st.blk, st.inbound); err != nil {
		return err
	}
	if w.node.h != nil {
		if b := w.node.hc.GetBlockByHash(st.blk.Hash()); b != nil {
			st.blk = b
		}
	}
	w.noteAppended(st)
	return nil
}

// noteAppended updates the generator's view after st.blk became the node's head
func (w *cwWorld) noteAppended(st *cwStep) {
	n, blk := w.node, st.blk
	// with a single zone every outbound ETX (coinbase, conversion, lockup redemption, unwrap) is addressed to this
	// zone again and returns through the dominant chains
	for _, e := range blk.OutboundEtxs() {
		w.emitted = append(w.emitted, e)
	}
	if ck, err := rawdb.ReadCreatedUTXOKeys(n.db, blk.Hash()); err == nil {
		for _, k := range ck {
			if len(k) >= rawdb.UtxoKeyLength {
				if txh, idx, err := rawdb.ReverseUtxoKey(k[:rawdb.UtxoKeyLength]); err == nil {
					w.born[types.OutPoint{TxHash: txh, Index: idx}] = blk.NumberU64(common.ZONE_CTX)
				}
			}
		}
	}
	w.steps = append(w.steps, *st)
	w.waitPool()
}

var (
	reRemoteLocalDec = regexp.MustCompile(`\(remote: (\d+) local: (\d+)\)`)
	reRemoteLocalHex = regexp.MustCompile(`\(remote: ([0-9a-f]+) local: ([0-9a-f]+)\)`)
)

// foreignStep plays a miner that does not use this node's worker: it takes the worker's template, keeps the
// mandatory inbound ETXs, replaces the pool's transactions by a chain of two Qi transactions of which the second
// spends an output of the first (go-quai's own worker never builds that, its validator accepts it), and derives
// the header's declared results the only way an outsider can: from the validator's verdicts.  Returns nil when the
// ledger offers no suitable output.
func (w *cwWorld) foreignStep() (*cwStep, error) {
	st, err := w.build()
	if err != nil {
		return nil, err
	}
	headNum := w.head().NumberU64(common.ZONE_CTX)
	if w.rg.preTx || headNum < params.TimeToStartTx+2 {
		return st, w.commit(st)
	}
	tx1, tx2 := w.qiChain(headNum)
	if tx1 == nil {
		return st, w.commit(st)
	}
	m := types.CopyWorkObject(st.blk)
	var txs types.Transactions
	for _, tx := range m.Transactions() {
		if tx.Type() == types.ExternalTxType {
			txs = append(txs, tx)
		}
	}
	txs = append(txs, tx1, tx2)
	m.Body().SetTransactions(txs)
	m.Header().SetTxHash(txRoot(txs))
	for try := 0; try < 16; try++ {
		if w.node.reseal(m, st.order, 0) == nil {
			return nil, fmt.Errorf("foreign block: no seal found")
		}
		err := w.node.appendBlock(m, st.inbound)
		if err == nil {
			st.blk = m
			w.noteAppended(st)
			w.count("foreign-block-with-chained-qi-spend")
			return st, nil
		}
		msg := err.Error()
		dec := reRemoteLocalDec.FindStringSubmatch(msg)
		hx := reRemoteLocalHex.FindStringSubmatch(msg)
		big10 := func() *big.Int { v, _ := new(big.Int).SetString(dec[2], 10); return v }
		hash16 := func() common.Hash { return common.HexToHash(hx[2]) }
		switch {
		case strings.Contains(msg, "invalid gas used") && dec != nil:
			m.Header().SetGasUsed(big10().Uint64())
		case strings.Contains(msg, "invalid state used") && dec != nil:
			m.Header().SetStateUsed(big10().Uint64())
		case strings.Contains(msg, "avgTxFees") && dec != nil:
			m.Header().SetAvgTxFees(big10())
		case strings.Contains(msg, "totalFees") && dec != nil:
			m.Header().SetTotalFees(big10())
		case strings.Contains(msg, "invalid receipt root") && hx != nil:
			m.Header().SetReceiptHash(hash16())
		case strings.Contains(msg, "invalid merkle root") && hx != nil:
			m.Header().SetEVMRoot(hash16())
		case strings.Contains(msg, "invalid utxo root") && hx != nil:
			m.Header().SetUTXORoot(hash16())
		case strings.Contains(msg, "invalid etx root") && hx != nil:
			m.Header().SetEtxSetRoot(hash16())
		case strings.Contains(msg, "invalid quai trie size") && hx != nil:
			v, _ := new(big.Int).SetString(hx[2], 16)
			m.Header().SetQuaiStateSize(v)
		default:
			// the chain of Qi transactions itself was not acceptable (fee floor, ordering): fall back to the template
			w.count("foreign-block-abandoned")
			if os.Getenv("QVH_DEBUG") != "" {
				fmt.Fprintln(os.Stderr, "foreign block abandoned:", msg)
			}
			return st, w.commit(st)
		}
	}
	return st, w.commit(st)
}

// qiChain: tx1 spends the largest spendable output into one output of the next lower denomination, tx2 spends that
// output again one denomination lower (so tx2's fee and fee rate are below tx1's, as block order demands)
func (w *cwWorld) qiChain(height uint64) (*types.Transaction, *types.Transaction) {
	var best *types.OutPoint
	var bestDen uint8
	bestKey := -1
	it := w.node.db.NewIterator(rawdb.UtxoPrefix, nil)
	for it.Next() {
		k := it.Key()
		if len(k) != rawdb.UtxoKeyLength {
			continue
		}
		p := new(types.ProtoTxOut)
		u := new(types.UtxoEntry)
		if proto.Unmarshal(it.Value(), p) != nil || u.ProtoDecode(p) != nil || (u.Lock != nil && u.Lock.Uint64() > height) {
			continue
		}
		txh, idx, err := rawdb.ReverseUtxoKey(k)
		if err != nil || w.spentInPool[fmt.Sprintf("%x:%d", txh, idx)] {
			continue
		}
		for ki, key := range w.qi {
			if bytes.Equal(key.addr.Bytes(), u.Address) && (best == nil || u.Denomination > bestDen) {
				best, bestDen, bestKey = &types.OutPoint{TxHash: txh, Index: idx}, u.Denomination, ki
			}
		}
	}
	it.Release()
	if best == nil || bestDen < 4 {
		return nil, nil
	}
	k1, k2 := (bestKey+1)%len(w.qi), (bestKey+2)%len(w.qi)
	chain := w.node.sl.Config().ChainID
	tx1 := utSign(&types.QiTx{ChainID: chain, TxIn: types.TxIns{{PreviousOutPoint: *best, PubKey: w.qi[bestKey].pub}},
		TxOut: types.TxOuts{*types.NewTxOut(bestDen-1, w.qi[k1].addr.Bytes(), big.NewInt(0))}}, []*btcec.PrivateKey{w.qi[bestKey].priv})
	tx2 := utSign(&types.QiTx{ChainID: chain, TxIn: types.TxIns{{PreviousOutPoint: types.OutPoint{TxHash: tx1.Hash(), Index: 0}, PubKey: w.qi[k1].pub}},
		TxOut: types.TxOuts{*types.NewTxOut(bestDen-2, w.qi[k2].addr.Bytes(), big.NewInt(0))}}, []*btcec.PrivateKey{w.qi[k1].priv})
	w.spentInPool[fmt.Sprintf("%x:%d", best.TxHash, best.Index)] = true
	return tx1, tx2
}

// waitPool lets the pool's asynchronous head reset finish (it is driven by the chain head feed)
func (w *cwWorld) waitPool() {
	if w.rg.preTx {
		return
	}
	time.Sleep(5 * time.Millisecond)
}

// the oracles classify ETXs themselves (by the type field), not with the predicates of the code under test
func isCoinbaseEtx(tx *types.Transaction) bool {
	return tx != nil && tx.Type() == types.ExternalTxType && tx.EtxType() == types.CoinbaseType
}
func isConversionEtx(tx *types.Transaction) bool {
	return tx != nil && tx.Type() == types.ExternalTxType && tx.EtxType() == types.ConversionType
}
