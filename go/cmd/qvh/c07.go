package main

// Area c07: own blocks validate; single-component mutants of a valid block are rejected and leave no trace.
//
// A case is one chainworld history.  Every block is assembled by the node's own worker from its pool and inbound
// queue and must be accepted by the same node (op `own`).  At random heights, before the genuine block is
// appended, mutants of it are offered to the node: one header-declared result or one body component is changed,
// the body roots are recomputed where the body changed (so that only re-execution can tell), the header hash is
// updated and the block is re-sealed with real work.  Neutral re-sealings (another nonce) must be accepted
// instead.  After every rejected mutant the whole database is diffed against its image before the attempt.

import (
	"bytes"
	"fmt"
	"math/big"
	"sort"
	"strings"

	"verifharness/internal/h"

	"github.com/dominant-strategies/go-quai/common"
	"github.com/dominant-strategies/go-quai/core/rawdb"
	"github.com/dominant-strategies/go-quai/core/types"
	"github.com/dominant-strategies/go-quai/ethdb"
	"github.com/dominant-strategies/go-quai/params"
	"github.com/dominant-strategies/go-quai/trie"
)

func init() { areas["c07"] = runC07 }

// reseal updates the header hash commitment and finds a nonce that meets the target with the wanted order
func (n *zoneNode) reseal(m *types.WorkObject, want int, skip uint64) *types.WorkObject {
	m.WorkObjectHeader().SetHeaderHash(m.Body().Header().Hash())
	target := new(big.Int).Div(common.Big2e256, m.Difficulty())
	for nonce := skip; nonce < skip+5_000_000; nonce++ {
		m.WorkObjectHeader().SetNonce(types.EncodeNonce(nonce))
		hs, _ := n.eng.ComputePowHash(m.WorkObjectHeader())
		if new(big.Int).SetBytes(hs.Bytes()).Cmp(target) <= 0 {
			if _, order, err := n.hc.CalcOrder(m); err == nil && order == want {
				return m
			}
		}
	}
	return nil
}

type c07Mutation struct {
	kind  string
	apply func(w *cwWorld, m *types.WorkObject) bool // false: not applicable to this block
}

func bump(x *big.Int) *big.Int { return new(big.Int).Add(x, big.NewInt(1)) }

func flip(hs common.Hash) common.Hash { hs[7] ^= 0x40; return hs }

func txRoot(txs types.Transactions) common.Hash {
	if len(txs) == 0 {
		return types.EmptyRootHash
	}
	return types.DeriveSha(txs, trie.NewStackTrie(nil))
}

var c07Mutations = []c07Mutation{
	{"evmroot", func(w *cwWorld, m *types.WorkObject) bool { m.Header().SetEVMRoot(flip(m.EVMRoot())); return true }},
	{"utxoroot", func(w *cwWorld, m *types.WorkObject) bool { m.Header().SetUTXORoot(flip(m.UTXORoot())); return true }},
	{"etxsetroot", func(w *cwWorld, m *types.WorkObject) bool {
		m.Header().SetEtxSetRoot(flip(m.EtxSetRoot()))
		return true
	}},
	{"receipthash", func(w *cwWorld, m *types.WorkObject) bool {
		m.Header().SetReceiptHash(flip(m.ReceiptHash()))
		return true
	}},
	{"gasused", func(w *cwWorld, m *types.WorkObject) bool {
		if m.GasUsed()+1 > m.GasLimit() {
			return false
		}
		m.Header().SetGasUsed(m.GasUsed() + 1)
		return true
	}},
	{"stateused", func(w *cwWorld, m *types.WorkObject) bool {
		if m.StateUsed()+1 > m.StateLimit() {
			return false
		}
		m.Header().SetStateUsed(m.StateUsed() + 1)
		return true
	}},
	{"statesize", func(w *cwWorld, m *types.WorkObject) bool {
		m.Header().SetQuaiStateSize(bump(m.QuaiStateSize()))
		return true
	}},
	{"avgtxfees", func(w *cwWorld, m *types.WorkObject) bool { m.Header().SetAvgTxFees(bump(m.AvgTxFees())); return true }},
	{"totalfees", func(w *cwWorld, m *types.WorkObject) bool { m.Header().SetTotalFees(bump(m.TotalFees())); return true }},
	{"uncledentropy", func(w *cwWorld, m *types.WorkObject) bool {
		m.Header().SetUncledEntropy(bump(m.Header().UncledEntropy()))
		return true
	}},
	// work shares: a share is included - and so rewarded - at most once, and never an ancestor
	{"dupshare", func(w *cwWorld, m *types.WorkObject) bool {
		// a share an ancestor within the inclusion depth already carries
		parent := m.ParentHash(common.ZONE_CTX)
		for i := 0; i < params.WorkSharesInclusionDepth; i++ {
			anc := w.node.hc.GetWorkObjectWithWorkShares(parent)
			if anc == nil {
				return false
			}
			if us := anc.Uncles(); len(us) > 0 {
				setUncles(m, append(append([]*types.WorkObjectHeader{}, m.Uncles()...), types.CopyWorkObjectHeader(us[0])))
				return true
			}
			parent = anc.ParentHash(common.ZONE_CTX)
		}
		return false
	}},
	{"dupshareinblock", func(w *cwWorld, m *types.WorkObject) bool {
		us := m.Uncles()
		if len(us) == 0 {
			return false
		}
		setUncles(m, append(append([]*types.WorkObjectHeader{}, us...), types.CopyWorkObjectHeader(us[0])))
		return true
	}},
	{"ancestorshare", func(w *cwWorld, m *types.WorkObject) bool {
		anc := w.node.hc.GetHeaderByHash(m.ParentHash(common.ZONE_CTX))
		if anc == nil || w.node.hc.IsGenesisHash(anc.Hash()) {
			return false
		}
		setUncles(m, append(append([]*types.WorkObjectHeader{}, m.Uncles()...), types.CopyWorkObjectHeader(anc.WorkObjectHeader())))
		return true
	}},
	{"outboundetxhash", func(w *cwWorld, m *types.WorkObject) bool {
		m.Header().SetOutboundEtxHash(flip(m.OutboundEtxHash()))
		return true
	}},
	{"txhash", func(w *cwWorld, m *types.WorkObject) bool {
		m.Header().SetTxHash(flip(m.Header().TxHash()))
		return true
	}},
	{"droptx", func(w *cwWorld, m *types.WorkObject) bool {
		txs := m.Transactions()
		if len(txs) == 0 {
			return false
		}
		i := w.rc.Intn(len(txs))
		out := append(append(types.Transactions{}, txs[:i]...), txs[i+1:]...)
		m.Body().SetTransactions(out)
		m.Header().SetTxHash(txRoot(out))
		return true
	}},
	{"duptx", func(w *cwWorld, m *types.WorkObject) bool {
		txs := m.Transactions()
		if len(txs) == 0 {
			return false
		}
		i := w.rc.Intn(len(txs))
		out := append(append(append(types.Transactions{}, txs[:i+1]...), txs[i]), txs[i+1:]...)
		m.Body().SetTransactions(out)
		m.Header().SetTxHash(txRoot(out))
		return true
	}},
	{"swaptx", func(w *cwWorld, m *types.WorkObject) bool {
		txs := m.Transactions()
		if len(txs) < 2 {
			return false
		}
		// only pairs whose order matters: two inbound ETXs (queue order) or two Quai transactions of one sender (nonce
		// order).  Swapping two independent transactions yields another valid block, not a deviation.
		signer := types.NewSigner(w.node.sl.Config().ChainID, w.node.loc)
		var cands []int
		for j := 0; j+1 < len(txs); j++ {
			a, b := txs[j], txs[j+1]
			if a.Type() == types.ExternalTxType && b.Type() == types.ExternalTxType && a.Hash() != b.Hash() {
				cands = append(cands, j)
			} else if a.Type() == types.QuaiTxType && b.Type() == types.QuaiTxType {
				fa, e1 := types.Sender(signer, a)
				fb, e2 := types.Sender(signer, b)
				if e1 == nil && e2 == nil && fa.Equal(fb) {
					cands = append(cands, j)
				}
			}
		}
		if len(cands) == 0 {
			return false
		}
		i := cands[w.rc.Intn(len(cands))]
		out := append(types.Transactions{}, txs...)
		out[i], out[i+1] = out[i+1], out[i]
		m.Body().SetTransactions(out)
		m.Header().SetTxHash(txRoot(out))
		return true
	}},
	{"addtx", func(w *cwWorld, m *types.WorkObject) bool {
		if w.rg.preTx || m.NumberU64(common.ZONE_CTX) <= 3 {
			return false
		}
		w.resyncNonces()
		a := w.quai[w.rc.Intn(len(w.quai))]
		for _, tx := range m.Transactions() { // an account that has no transaction in the block, so the nonce is right
			if tx.Type() == types.QuaiTxType {
				if from, err := types.Sender(types.NewSigner(w.node.sl.Config().ChainID, w.node.loc), tx); err == nil && from.Equal(a.addr) {
					return false
				}
			}
		}
		to := w.randQuaiAddr()
		extra := w.signQuai(a, &to, big.NewInt(12345), nil, 21000)
		out := append(append(types.Transactions{}, m.Transactions()...), extra)
		m.Body().SetTransactions(out)
		m.Header().SetTxHash(txRoot(out))
		return true
	}},
	{"altertx", func(w *cwWorld, m *types.WorkObject) bool {
		txs := m.Transactions()
		for i, tx := range txs {
			if tx.Type() == types.QuaiTxType && tx.To() != nil {
				in := tx.Inner().(*types.QuaiTx)
				cp := *in
				cp.Value = bump(in.Value)
				out := append(types.Transactions{}, txs...)
				out[i] = types.NewTx(&cp)
				m.Body().SetTransactions(out)
				m.Header().SetTxHash(txRoot(out))
				return true
			}
		}
		return false
	}},
	{"alteretx", func(w *cwWorld, m *types.WorkObject) bool {
		etxs := m.OutboundEtxs()
		if len(etxs) == 0 {
			return false
		}
		i := w.rc.Intn(len(etxs))
		in := etxs[i].Inner().(*types.ExternalTx)
		cp := *in
		cp.Value = bump(in.Value)
		out := append(types.Transactions{}, etxs...)
		out[i] = types.NewTx(&cp)
		m.Body().SetOutboundEtxs(out)
		m.Header().SetOutboundEtxHash(txRoot(out))
		return true
	}},
	{"dropetx", func(w *cwWorld, m *types.WorkObject) bool {
		etxs := m.OutboundEtxs()
		if len(etxs) == 0 {
			return false
		}
		i := w.rc.Intn(len(etxs))
		out := append(append(types.Transactions{}, etxs[:i]...), etxs[i+1:]...)
		m.Body().SetOutboundEtxs(out)
		m.Header().SetOutboundEtxHash(txRoot(out))
		return true
	}},
}

// price order: two adjacent transactions of different senders, the first dearer than the second, change places; every
// commitment that depends on the order (transaction root, receipts with their cumulative gas) is recomputed honestly,
// so that the only thing wrong with the block is that a dearer transaction follows a cheaper one
var c07PriceOrder = c07Mutation{"priceorder", func(w *cwWorld, m *types.WorkObject) bool {
	txs := m.Transactions()
	if len(txs) < 2 {
		return false
	}
	own := h.NewRng(m.NumberU64(common.ZONE_CTX)*7919 + uint64(len(txs)))
	signer := types.NewSigner(w.node.sl.Config().ChainID, w.node.loc)
	var cands []int
	for j := 0; j+1 < len(txs); j++ {
		a, b := txs[j], txs[j+1]
		if a.Type() != types.QuaiTxType || b.Type() != types.QuaiTxType || a.GasPrice().Cmp(b.GasPrice()) <= 0 {
			continue
		}
		fa, e1 := types.Sender(signer, a)
		fb, e2 := types.Sender(signer, b)
		if e1 == nil && e2 == nil && !fa.Equal(fb) {
			cands = append(cands, j)
		}
	}
	if len(cands) == 0 {
		return false
	}
	receipts, _, _, _, _, _, _, _, _, err := w.node.cr.Processor().Process(types.CopyWorkObject(m), w.node.db.NewBatch())
	if err != nil || len(receipts) != len(txs) {
		return false
	}
	// a pair whose cheaper transaction failed, if there is one
	var failing []int
	for _, j := range cands {
		if receipts[j+1].Status != types.ReceiptStatusSuccessful {
			failing = append(failing, j)
		}
	}
	pick := cands
	if len(failing) > 0 && own.Chance(70) {
		pick = failing
		w.count("mut:priceorder:cheaper-one-failed")
	}
	j := pick[own.Intn(len(pick))]
	out := append(types.Transactions{}, txs...)
	out[j], out[j+1] = out[j+1], out[j]
	rs := make(types.Receipts, len(receipts))
	for i, r := range receipts {
		cp := *r
		rs[i] = &cp
	}
	base := receipts[j].CumulativeGasUsed - receipts[j].GasUsed
	rs[j], rs[j+1] = rs[j+1], rs[j]
	rs[j].CumulativeGasUsed = base + rs[j].GasUsed
	rs[j+1].CumulativeGasUsed = rs[j].CumulativeGasUsed + rs[j+1].GasUsed
	m.Body().SetTransactions(out)
	m.Header().SetTxHash(txRoot(out))
	m.Header().SetReceiptHash(types.DeriveSha(rs, trie.NewStackTrie(nil)))
	return true
}}

// dbImage: every key/value of the database
func dbImage(db ethdb.Database) map[string]string {
	m := map[string]string{}
	it := db.NewIterator(nil, nil)
	defer it.Release()
	for it.Next() {
		m[string(it.Key())] = string(it.Value())
	}
	return m
}

// keyClass names the key space of a raw database key (longest known prefix; lengths disambiguate the one-letter ones)
func keyClass(k string) string {
	n := len(k)
	switch {
	case strings.HasPrefix(k, "h") && n == 1+8+32:
		return "header"
	case strings.HasPrefix(k, "h") && n == 1+8+1 && k[n-1] == 'n':
		return "canonical"
	case strings.HasPrefix(k, "H") && n == 33:
		return "hash->number"
	case strings.HasPrefix(k, "r") && n == 1+8+32:
		return "receipts"
	case strings.HasPrefix(k, "l") && n == 33:
		return "txlookup"
	case strings.HasPrefix(k, "c") && n == 33:
		return "code"
	case n == 32:
		return "trienode"
	}
	for _, p := range []string{"sutxo", "tutxo", "cutxo", "putxo", "wsh2bh", "pbKey", "auwh", "ccl", "dcl", "pru", "ltb", "wb", "tk", "ph", "pb", "bh", "ie", "au", "al", "ub", "ps", "ms", "ut", "tc", "us", "pe", "pr", "ma", "il", "bl", "cl", "sa", "ld", "dh", "secure-key-"} {
		if strings.HasPrefix(k, p) {
			return p
		}
	}
	return "other:" + h.Hex([]byte(k[:min(n, 12)]))
}

// block storage and header-chain bookkeeping that a stored-but-rejected block may legitimately leave behind
var c07NotChainState = map[string]bool{"header": true, "hash->number": true, "wb": true, "tk": true, "ph": true, "pb": true, "pbKey": true, "bh": true, "ma": true, "pe": true, "pr": true, "il": true, "ie": true}

// setUncles replaces the work shares of a block and keeps the header's commitment to them in step
func setUncles(m *types.WorkObject, us []*types.WorkObjectHeader) {
	m.Body().SetUncles(us)
	m.Header().SetUncleHash(types.CalcUncleHash(us))
}

func diffImages(a, b map[string]string) (classes []string) {
	set := map[string]bool{}
	for k, v := range b {
		if av, ok := a[k]; !ok || av != v {
			set[keyClass(k)] = true
		}
	}
	for k := range a {
		if _, ok := b[k]; !ok {
			set[keyClass(k)] = true
		}
	}
	for k := range set {
		classes = append(classes, k)
	}
	sort.Strings(classes)
	return
}

func errClass(err error) string {
	s := err.Error()
	for _, p := range [][2]string{{"invalid merkle root", "evmroot"}, {"invalid utxo root", "utxoroot"}, {"invalid etx root", "etxroot"}, {"invalid receipt root", "receipts"},
		{"invalid gas used", "gasused"}, {"invalid state used", "stateused"}, {"invalid quai trie size", "statesize"}, {"avgTxFees", "avgfees"}, {"totalFees", "totalfees"},
		{"uncledEntropy", "uncled"}, {"outbound etx hash", "etxhash"}, {"transaction root hash", "txhash"}, {"invalid header hash", "headerhash"}, {"nonce too", "nonce"},
		{"could not apply tx", "txapply"}, {"not in order", "etxorder"}, {"gas price less", "price"}, {"invalid signature", "sig"}, {"insufficient funds", "funds"},
		{"emitted etx", "etxmismatch"}, {"sub not synced", "notsynced"}, {"duplicate uncle", "dupuncle"}, {"uncle is ancestor", "uncleancestor"}, {"uncle", "uncle"}} {
		if strings.Contains(s, p[0]) {
			return p[1]
		}
	}
	return "other"
}

func runC07(seed uint64, n int, outDir string, replay string) {
	o := h.NewOut(outDir, "c07")
	r := h.NewRng(seed)
	ans := func(s string) { o.Ans("impl", "%s", s) }
	blocksPerCase := 36
	for c := 0; c < n; c++ {
		rc := r.Fork()
		o.NewCase()
		o.Op("newcase")
		ans("ok")
		rg := cwRegime{preTx: c%4 == 3} // one case in four stays in the early, transaction-less chain
		cwSetParams(rg)
		func() {
			defer func() {
				if p := recover(); p != nil {
					o.Violate("c07-panic", fmt.Sprintf("panic: %v at %s", p, stackTop()))
					o.Pad("panic %v", p)
				}
			}()
			w, err := newWorld(newMemDB(), rc, rg, zoneOpts{})
			if err != nil {
				panic(err)
			}
			defer safeStop(w.node)
			w.adversarialQi = c%2 == 0
			w.priceVar = true
			for b := 0; b < blocksPerCase; b++ {
				st, err := w.build()
				if err != nil {
					o.Op("own")
					ans("reject")
					o.Violate("c07-own-block-not-assembled", fmt.Sprintf("block %d: %v", b+1, err))
					return
				}
				num := st.blk.NumberU64(common.ZONE_CTX)
				c07OwnBlockOracles(o, w, st.blk)
				// mutants first (the genuine block is appended afterwards on the untouched head)
				accepted := false
				tryMut := func(mu c07Mutation) bool {
					m := types.CopyWorkObject(st.blk)
					if !mu.apply(w, m) {
						return false
					}
					if w.node.reseal(m, st.order, 0) == nil {
						return false
					}
					before := dbImage(w.node.db)
					headBefore := w.node.hc.CurrentHeader().Hash()
					o.Op("mut %s changed=1", mu.kind)
					err := w.node.appendBlock(m, st.inbound)
					if err == nil {
						ans("accept")
						o.Violate("c07-mutant-accepted:"+mu.kind, fmt.Sprintf("block %d with mutation %s (re-sealed) was appended and became head", num, mu.kind))
						if strings.Contains(mu.kind, "share") {
							o.Violate("c13-workshare-included-twice-or-ancestor:"+mu.kind, fmt.Sprintf("block %d carrying a work share that an ancestor already carries (or that is an ancestor) was accepted: the share is rewarded again", num))
						}
						accepted = true
						return true
					}
					ans("reject")
					o.Count("reject:" + mu.kind + ":" + errClass(err))
					var bad []string
					for _, cl := range diffImages(before, dbImage(w.node.db)) {
						if c07NotChainState[cl] {
							o.Count("left-behind:" + cl)
						} else {
							bad = append(bad, cl)
						}
					}
					o.Op("trace")
					if len(bad) == 0 && w.node.hc.CurrentHeader().Hash() == headBefore {
						ans("unchanged")
					} else {
						ans("changed")
						o.Violate("c07-rejected-block-left-trace", fmt.Sprintf("block %d mutation %s rejected (%v) but the database changed in %v (head moved: %v)", num, mu.kind, err, bad, w.node.hc.CurrentHeader().Hash() != headBefore))
					}
					return true
				}
				if rc.Chance(35) {
					perm := rc.Intn(len(c07Mutations))
					tried := 0
					for k := 0; k < len(c07Mutations) && tried < 3 && !accepted; k++ {
						if tryMut(c07Mutations[(perm+k)%len(c07Mutations)]) {
							tried++
						}
					}
				}
				// whenever the block lists a dearer transaction before a cheaper one of another sender: the two exchanged
				if !accepted {
					tryMut(c07PriceOrder)
				}
				if accepted {
					return
				}
				// a neutral variant (another nonce sealing the same content) is as good as the original
				if rc.Chance(15) {
					m := types.CopyWorkObject(st.blk)
					if w.node.reseal(m, st.order, uint64(types.BlockNonce(st.blk.Nonce()).Uint64())+1) != nil && m.Hash() != st.blk.Hash() {
						st.blk = m
						o.Count("own-resealed")
					}
				}
				o.Op("own")
				if err := w.commit(st); err != nil {
					ans("reject")
					o.Violate("c07-own-block-rejected", fmt.Sprintf("block %d (%d txs, %d inbound ETXs handed over with its parent chain): %v", num, len(st.blk.Transactions()), len(st.inbound), err))
					if strings.Contains(err.Error(), "receipt root") && len(st.blk.OutboundEtxs()) > 1 {
						// the receipts commit to the outbound ETXs recorded per transaction: assembler and validator recorded different ones
						o.Violate("c05-recorded-outbound-etxs-disagree", fmt.Sprintf("block %d emits %d ETXs; the receipts its assembler committed to (which list each transaction's outbound ETXs) are not the ones its validator derives: %v", num, len(st.blk.OutboundEtxs()), err))
					}
					return
				}
				ans("accept")
				c05ReceiptOracle(o, w, st.blk)
				ne := 0
				for _, tx := range st.blk.Transactions() {
					if tx.Type() == types.ExternalTxType {
						ne++
					}
				}
				o.Count(fmt.Sprintf("own-block-etxs:%s", map[bool]string{true: ">50", false: "<=50"}[ne > 50]))
			}
			for k, v := range w.hist {
				o.Hist[k] += v
			}
		}()
		o.EndCase(fmt.Sprint(rc.U64()), true)
	}
	_ = bytes.Equal
	o.Close(nil)
}

// c07OwnBlockOracles: properties of a block the node assembled from its own pool that can be read off the block
// itself, whatever its validator later says
func c07OwnBlockOracles(o *h.Out, w *cwWorld, blk *types.WorkObject) {
	num := blk.NumberU64(common.ZONE_CTX)
	// C01: no output is consumed twice - inside one transaction or by two transactions of the block
	seen := map[types.OutPoint]common.Hash{}
	for _, tx := range blk.Transactions() {
		if tx.Type() != types.QiTxType {
			continue
		}
		for _, in := range tx.TxIn() {
			if prev, ok := seen[in.PreviousOutPoint]; ok {
				o.Violate("c01-own-block-spends-output-twice", fmt.Sprintf("block %d assembled by the node's worker consumes outpoint %x:%d twice (transactions %x and %x)", num, in.PreviousOutPoint.TxHash.Bytes()[:6], in.PreviousOutPoint.Index, prev.Bytes()[:6], tx.Hash().Bytes()[:6]))
			}
			seen[in.PreviousOutPoint] = tx.Hash()
		}
	}
}

// c05ReceiptOracle: the outbound ETXs recorded for each transaction (its receipt) are the ones that transaction
// emitted - they carry its hash as origin - and, in order, they are exactly the non-reward ETXs the block commits to
func c05ReceiptOracle(o *h.Out, w *cwWorld, blk *types.WorkObject) {
	num := blk.NumberU64(common.ZONE_CTX)
	rs := rawdb.ReadReceipts(w.node.db, blk.Hash(), num, w.node.sl.Config())
	if len(rs) != len(blk.Transactions()) {
		return
	}
	var fromReceipts []*types.Transaction
	for i, r := range rs {
		tx := blk.Transactions()[i]
		for _, e := range r.OutboundEtxs {
			if tx.Type() != types.ExternalTxType && e.OriginatingTxHash() != tx.Hash() {
				o.Violate("c05-receipt-lists-foreign-etx", fmt.Sprintf("block %d: the receipt of transaction %d (%x) lists an outbound ETX whose origin is %x", num, i, tx.Hash().Bytes()[:6], e.OriginatingTxHash().Bytes()[:6]))
			}
			fromReceipts = append(fromReceipts, e)
		}
		if len(r.OutboundEtxs) > 0 {
			o.Count("receipt-with-outbound-etxs")
		}
	}
	committed := blk.OutboundEtxs()
	if len(fromReceipts) > len(committed) {
		o.Violate("c05-receipts-list-more-etxs-than-block", fmt.Sprintf("block %d: receipts list %d outbound ETXs, the block commits to %d", num, len(fromReceipts), len(committed)))
		return
	}
	for i, e := range fromReceipts {
		if e.Hash() != committed[i].Hash() {
			o.Violate("c05-receipt-etxs-differ-from-committed", fmt.Sprintf("block %d: outbound ETX %d recorded in the receipts (%x, value %s) is not the one the block commits to (%x, value %s)", num, i, e.Hash().Bytes()[:6], e.Value(), committed[i].Hash().Bytes()[:6], committed[i].Value()))
			return
		}
	}
}
