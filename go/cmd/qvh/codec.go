package main

// Area codec (C14, C03 hash stability): structured generators for transactions (Quai / Qi / External),
// headers, work-object headers, work objects, UTXO entries, termini, manifests, pending-ETX bundles.
//   T2: the produced wire bytes are decoded by the Lean wire model with the regenerated schema; the
//       dump must equal the one produced by protobuf-go's reflection.
//   T3: decode(encode(x)) == x (fingerprint by JSON / getters, independent of the proto path),
//       re-encoding is byte-identical, hashes are stable across wire / JSON round trips, and single-field
//       mutations change the hash.

import (
	"bytes"
	"crypto/ecdsa"
	"encoding/json"
	"fmt"
	"math/big"
	"reflect"
	"runtime"
	"sort"
	"strings"

	"verifharness/internal/h"

	"github.com/btcsuite/btcd/btcec/v2"
	"github.com/btcsuite/btcd/btcec/v2/schnorr"
	"github.com/dominant-strategies/go-quai/common"
	"github.com/dominant-strategies/go-quai/core/types"
	"github.com/dominant-strategies/go-quai/crypto"
	"github.com/dominant-strategies/go-quai/params"
	"google.golang.org/protobuf/proto"
	"google.golang.org/protobuf/reflect/protoreflect"
)

func init() { areas["codec"] = runCodec }

// pdump renders a decoded proto message in the canonical form of Model/Proto.dump.
func pdump(m protoreflect.Message) string {
	var parts []string
	fds := m.Descriptor().Fields()
	type kv struct {
		n int
		s string
	}
	var out []kv
	for i := 0; i < fds.Len(); i++ {
		fd := fds.Get(i)
		if !m.Has(fd) {
			continue
		}
		n := int(fd.Number())
		v := m.Get(fd)
		one := func(v protoreflect.Value) string {
			switch fd.Kind() {
			case protoreflect.MessageKind:
				return "{" + pdump(v.Message()) + "}"
			case protoreflect.BytesKind:
				return h.Hex(v.Bytes())
			case protoreflect.StringKind:
				return h.Hex([]byte(v.String()))
			case protoreflect.BoolKind:
				if v.Bool() {
					return "1"
				}
				return "0"
			default:
				return fmt.Sprint(v.Uint())
			}
		}
		if fd.IsList() {
			l := v.List()
			if fd.Kind() == protoreflect.MessageKind || fd.Kind() == protoreflect.BytesKind || fd.Kind() == protoreflect.StringKind {
				for j := 0; j < l.Len(); j++ {
					out = append(out, kv{n, fmt.Sprintf("%d=%s", n, one(l.Get(j)))})
				}
			} else {
				var xs []string
				for j := 0; j < l.Len(); j++ {
					xs = append(xs, one(l.Get(j)))
				}
				out = append(out, kv{n, fmt.Sprintf("%d=[%s]", n, strings.Join(xs, ","))})
			}
		} else {
			out = append(out, kv{n, fmt.Sprintf("%d=%s", n, one(v))})
		}
	}
	sort.SliceStable(out, func(i, j int) bool { return out[i].n < out[j].n })
	for _, x := range out {
		parts = append(parts, x.s)
	}
	return strings.Join(parts, " ")
}

func cHash(rc *h.Rng) common.Hash { return common.BytesToHash(rc.Bytes(32)) }
func cBig(rc *h.Rng) *big.Int {
	switch rc.Intn(6) {
	case 0:
		return new(big.Int)
	case 1:
		return new(big.Int).Sub(new(big.Int).Lsh(big.NewInt(1), 256), big.NewInt(1))
	case 2:
		return new(big.Int).SetUint64(^uint64(0))
	}
	return new(big.Int).SetBytes(rc.Bytes(1 + rc.Intn(20)))
}
func cAddr(rc *h.Rng, loc common.Location) common.Address {
	b := rc.Bytes(20)
	b[0] = loc.BytePrefix()
	if rc.Chance(30) {
		b[0] = byte(rc.Intn(3))<<4 | byte(rc.Intn(3))
	}
	if rc.Bool() {
		b[1] &= 0x7f
	}
	return common.BytesToAddress(b, loc)
}
func cAccessList(rc *h.Rng, loc common.Location) types.AccessList {
	var al types.AccessList
	for i := rc.Intn(4); i > 0; i-- {
		t := types.AccessTuple{Address: cAddr(rc, loc)}
		for j := rc.Intn(4); j > 0; j-- {
			t.StorageKeys = append(t.StorageKeys, cHash(rc))
		}
		al = append(al, t)
	}
	return al
}

type txParams struct {
	kind                  int
	loc                   common.Location
	chainID, price, value *big.Int
	nonce, gas            uint64
	to                    *common.Address
	data                  []byte
	al                    types.AccessList
	v, r, s               *big.Int
	work                  bool
	ph, mh                common.Hash
	wn                    uint64
	// etx
	oth     common.Hash
	idx     uint16
	sender  common.Address
	etxType uint64
	// qi
	ins  types.TxIns
	outs types.TxOuts
	sig  *schnorr.Signature
	key  *ecdsa.PrivateKey
}

// cU64: a scalar with its boundary values (present-but-zero fields are where optional-field codecs go wrong)
func cU64(rc *h.Rng) uint64 {
	switch rc.Intn(6) {
	case 0:
		return 0
	case 1:
		return 1
	case 2:
		return ^uint64(0)
	}
	return rc.U64() >> uint(rc.Intn(64))
}

var codecSeenKeys [][]byte

func genTxParams(rc *h.Rng) *txParams {
	p := &txParams{kind: rc.Intn(3), loc: common.Location{byte(rc.Intn(3)), byte(rc.Intn(3))}}
	p.key, _ = crypto.ToECDSA(crypto.Keccak256(rc.Bytes(16)))
	if p.kind == 0 {
		// a Quai tx's hash carries its sender's zone: the node location is the signer's own zone
		from := crypto.PubkeyToAddress(p.key.PublicKey, common.Location{0, 0})
		p.loc = common.Location{from.Bytes()[0] >> 4, from.Bytes()[0] & 0x0f}
	}
	p.chainID, p.price, p.value = big.NewInt(int64(1+rc.Intn(20000))), cBig(rc), cBig(rc)
	p.nonce, p.gas = cU64(rc), cU64(rc)
	if rc.Chance(85) || p.kind == 1 {
		a := cAddr(rc, p.loc)
		p.to = &a
	}
	if rc.Chance(70) {
		p.data = rc.Bytes(rc.Intn(40))
	}
	p.al = cAccessList(rc, p.loc)
	p.v, p.r, p.s = big.NewInt(int64(rc.Intn(2))), new(big.Int).SetBytes(rc.Bytes(32)), new(big.Int).SetBytes(rc.Bytes(32))
	p.work = rc.Chance(30)
	p.ph, p.mh, p.wn = cHash(rc), cHash(rc), cU64(rc)
	p.oth, p.idx, p.sender, p.etxType = cHash(rc), uint16(cU64(rc)), cAddr(rc, p.loc), uint64(rc.Intn(6))
	for i := 1 + rc.Intn(3); i > 0; i-- {
		k, _ := btcec.NewPrivateKey()
		pub := k.PubKey().SerializeUncompressed()
		if rc.Chance(35) {
			// keys seen before in this process, and their negations (same X coordinate, the other Y): what a decoder
			// remembers about one key must not leak into another
			if len(codecSeenKeys) > 0 && rc.Bool() {
				pub = codecSeenKeys[rc.Intn(len(codecSeenKeys))]
			}
			if rc.Bool() {
				if pk, err := btcec.ParsePubKey(pub); err == nil {
					var neg btcec.JacobianPoint
					pk.AsJacobian(&neg)
					neg.Y.Negate(1).Normalize()
					pub = btcec.NewPublicKey(&neg.X, &neg.Y).SerializeUncompressed()
				}
			}
		}
		if len(codecSeenKeys) < 64 {
			codecSeenKeys = append(codecSeenKeys, pub)
		}
		p.ins = append(p.ins, types.TxIn{PreviousOutPoint: types.OutPoint{TxHash: cHash(rc), Index: uint16(rc.U64())}, PubKey: pub})
	}
	for i := rc.Intn(4); i > 0; i-- {
		// (a nil Lock is legal for ProtoEncode but Transaction.MarshalJSON dereferences it; objects that
		// came over the wire always carry a non-nil Lock, which is what is generated here)
		lock := big.NewInt(0)
		if rc.Bool() {
			lock = big.NewInt(int64(rc.Intn(1000)))
		}
		p.outs = append(p.outs, types.TxOut{Denomination: uint8(rc.Intn(16)), Address: cAddr(rc, p.loc).Bytes(), Lock: lock})
	}
	k, _ := btcec.NewPrivateKey()
	dg := cHash(rc)
	p.sig, _ = schnorr.Sign(k, dg[:])
	return p
}

func (p *txParams) build() *types.Transaction {
	cp := func(b *big.Int) *big.Int { return new(big.Int).Set(b) }
	switch p.kind {
	case 0:
		q := &types.QuaiTx{ChainID: cp(p.chainID), Nonce: p.nonce, GasPrice: cp(p.price), Gas: p.gas, To: p.to, Value: cp(p.value),
			Data: common.CopyBytes(p.data), AccessList: p.al, V: cp(p.v), R: cp(p.r), S: cp(p.s)}
		if p.work {
			ph, mh, wn := p.ph, p.mh, types.EncodeNonce(p.wn)
			q.ParentHash, q.MixHash, q.WorkNonce = &ph, &mh, &wn
		}
		tx, err := types.SignTx(types.NewTx(q), types.NewSigner(p.chainID, p.loc), p.key)
		if err != nil {
			panic(err)
		}
		return tx
	case 1:
		return types.NewTx(&types.ExternalTx{OriginatingTxHash: p.oth, ETXIndex: p.idx, Gas: p.gas, To: p.to, Value: cp(p.value),
			Data: common.CopyBytes(p.data), AccessList: p.al, Sender: p.sender, EtxType: p.etxType})
	default:
		q := &types.QiTx{ChainID: cp(p.chainID), TxIn: p.ins, TxOut: p.outs, Signature: p.sig, Data: common.CopyBytes(p.data)}
		if p.work {
			ph, mh, wn := p.ph, p.mh, types.EncodeNonce(p.wn)
			q.ParentHash, q.MixHash, q.WorkNonce = &ph, &mh, &wn
		}
		return types.NewTx(q)
	}
}

// txFingerprint reads every consensus field through the getters (not through the proto path).
func txFingerprint(tx *types.Transaction) string {
	var sb strings.Builder
	fmt.Fprintf(&sb, "type=%d", tx.Type())
	switch tx.Type() {
	case types.QuaiTxType:
		v, r, s := tx.GetEcdsaSignatureValues()
		fmt.Fprintf(&sb, " chain=%s nonce=%d price=%s gas=%d to=%v value=%s data=%x v=%s r=%s s=%s", tx.ChainId(), tx.Nonce(), tx.GasPrice(), tx.Gas(), tx.To(), tx.Value(), tx.Data(), v, r, s)
	case types.ExternalTxType:
		fmt.Fprintf(&sb, " oth=%x idx=%d gas=%d to=%v value=%s data=%x sender=%v etype=%d", tx.OriginatingTxHash(), tx.ETXIndex(), tx.Gas(), tx.To(), tx.Value(), tx.Data(), tx.ETXSender(), tx.EtxType())
	case types.QiTxType:
		fmt.Fprintf(&sb, " chain=%s data=%x sig=%x", tx.ChainId(), tx.Data(), tx.GetSchnorrSignature().Serialize())
		for _, in := range tx.TxIn() {
			fmt.Fprintf(&sb, " in=%x:%d:%x", in.PreviousOutPoint.TxHash, in.PreviousOutPoint.Index, in.PubKey)
		}
		for _, out := range tx.TxOut() {
			l := "0"
			if out.Lock != nil {
				l = out.Lock.String()
			}
			fmt.Fprintf(&sb, " out=%d:%x:%s", out.Denomination, out.Address, l)
		}
	}
	if tx.Type() != types.QiTxType {
		for _, t := range tx.AccessList() {
			fmt.Fprintf(&sb, " al=%x", t.Address.Bytes())
			for _, k := range t.StorageKeys {
				fmt.Fprintf(&sb, ",%x", k)
			}
		}
	}
	if tx.Type() != types.ExternalTxType {
		// each optional field on its own: present-with-a-zero-value is not the same as absent
		if tx.ParentHash() != nil {
			fmt.Fprintf(&sb, " ph=%x", *tx.ParentHash())
		}
		if tx.MixHash() != nil {
			fmt.Fprintf(&sb, " mh=%x", *tx.MixHash())
		}
		if tx.WorkNonce() != nil {
			fmt.Fprintf(&sb, " wn=%d", tx.WorkNonce().Uint64())
		}
	}
	return sb.String()
}

func codecTx(o *h.Out, rc *h.Rng, ans func(string)) {
	p := genTxParams(rc)
	tx := p.build()
	want := txFingerprint(tx) // before any encoding touches the object
	pb, err := tx.ProtoEncode()
	if err != nil {
		o.Count("tx-encode-err")
		return
	}
	data, _ := proto.Marshal(pb)
	fresh := new(types.ProtoTransaction)
	if err := proto.Unmarshal(data, fresh); err != nil {
		o.Violate("c14-unmarshal-own-bytes", err.Error())
		return
	}
	o.Op("dec ProtoTransaction %s", h.Hex(data))
	ans(orEmpty(pdump(fresh.ProtoReflect())))
	o.Op("reenc %s", h.Hex(data))
	ans(h.Hex(data))
	o.Count(fmt.Sprintf("txkind:%d", p.kind))
	// decode
	tx2 := new(types.Transaction)
	if err := tx2.ProtoDecode(fresh, p.loc); err != nil {
		// the ProtoDecode of a Quai tx needs `to` etc; every object produced here is well formed
		o.Violate("c14-decode-own-encoding:tx", fmt.Sprintf("ProtoDecode fails on own encoding: %v (%s)", err, want))
		return
	}
	if got := txFingerprint(tx2); got != want {
		o.Violate("c14-roundtrip-changes-object:tx", fmt.Sprintf("decode(encode(x)) != x: want `%s` got `%s`", want, got))
	}
	pb2, _ := tx2.ProtoEncode()
	data2, _ := proto.Marshal(pb2)
	if !bytes.Equal(data, data2) {
		o.Violate("c14-reencode-differs:tx", fmt.Sprintf("re-encoding differs: %x vs %x", data, data2))
	}
	// a decoded object owns its numbers: repricing a decoded ETX in place (as prime and the worker do with inbound
	// conversions) must not reach any shared constant or the object it was decoded from
	if p.kind == 1 {
		tx4 := new(types.Transaction)
		if err := tx4.ProtoDecode(fresh, p.loc); err == nil {
			tx4.SetValue(big.NewInt(123456789))
			if common.Big0.Sign() != 0 || common.Big1.Cmp(big.NewInt(1)) != 0 {
				o.Violate("c14-decoded-value-aliases-shared-constant", fmt.Sprintf("SetValue on an ETX decoded from the wire (value %s) changed common.Big0 / Big1 to %s / %s", p.value, common.Big0, common.Big1))
				common.Big0.SetInt64(0)
				common.Big1.SetInt64(1)
			}
			if got := txFingerprint(tx2); got != want {
				o.Violate("c14-decoded-objects-share-state", "SetValue on one decoded ETX changed another object decoded from the same bytes")
			}
			o.Count("decoded-etx-repriced")
		}
	}
	// hash stability (fresh objects so that no memoised hash is compared with itself)
	h1 := p.build().Hash(p.loc...)
	if h2 := tx2.Hash(p.loc...); h1 != h2 {
		o.Violate("c14-hash-changes:tx", fmt.Sprintf("hash %x before, %x after the wire round trip", h1, h2))
	}
	// JSON round trip (RPC path); Qi and Quai only carry full fidelity
	if js, err := json.Marshal(p.build()); err == nil {
		tx3 := new(types.Transaction)
		if err := json.Unmarshal(js, tx3); err == nil {
			if p.kind != 2 && tx3.Hash(p.loc...) != h1 {
				o.Violate("c14-hash-changes:tx-json", fmt.Sprintf("hash %x before, %x after the JSON round trip (%s)", h1, tx3.Hash(p.loc...), js))
			}
		} else {
			o.Count("tx-json-unmarshal-err:" + fmt.Sprint(p.kind))
		}
	}
	// injectivity: a single-field change must change the hash
	q := *p
	field := ""
	switch rc.Intn(6) {
	case 0:
		q.value = new(big.Int).Add(p.value, big.NewInt(1))
		field = "value"
		if p.kind == 2 {
			field = ""
		}
	case 1:
		q.gas = p.gas + 1
		field = "gas"
		if p.kind == 2 {
			field = ""
		}
	case 2:
		q.data = append(common.CopyBytes(p.data), 1)
		field = "data"
	case 3:
		if len(p.al) > 0 && len(p.al[0].StorageKeys) > 0 && p.kind != 2 {
			al := make(types.AccessList, len(p.al))
			copy(al, p.al)
			ks := append([]common.Hash(nil), al[0].StorageKeys...)
			ks[0][5] ^= 1
			al[0] = types.AccessTuple{Address: al[0].Address, StorageKeys: ks}
			q.al = al
			field = "accesslist-key0"
		}
	case 4:
		if p.kind != 1 {
			q.chainID = new(big.Int).Add(p.chainID, big.NewInt(1))
			field = "chainid"
		}
	case 5:
		if p.kind == 2 && len(p.outs) > 0 {
			outs := append(types.TxOuts(nil), p.outs...)
			outs[0].Denomination ^= 1
			q.outs = outs
			field = "txout-denomination"
		}
	}
	if field != "" {
		if hq := q.build().Hash(p.loc...); hq == h1 {
			o.Violate("c14-hash-collision:tx:"+field, fmt.Sprintf("two transactions differing in %s share hash %x", field, h1))
		}
	}
}

func orEmpty(s string) string {
	if s == "" {
		return "{}"
	}
	return s
}

// randomise every Set* method of a header-like object through reflection
func fuzzSetters(rc *h.Rng, obj any, loc common.Location) {
	v := reflect.ValueOf(obj)
	t := v.Type()
	for i := 0; i < t.NumMethod(); i++ {
		m := t.Method(i)
		if !strings.HasPrefix(m.Name, "Set") || rc.Chance(12) {
			continue
		}
		mt := m.Type
		ctxs := []int{-1}
		if mt.NumIn() == 3 && mt.In(2).Kind() == reflect.Int {
			ctxs = []int{0, 1, 2}
		} else if mt.NumIn() != 2 {
			continue
		}
		for _, ctx := range ctxs {
			var arg reflect.Value
			switch mt.In(1) {
			case reflect.TypeOf(common.Hash{}):
				arg = reflect.ValueOf(cHash(rc))
			case reflect.TypeOf((*big.Int)(nil)):
				arg = reflect.ValueOf(cBig(rc))
			case reflect.TypeOf(uint64(0)):
				arg = reflect.ValueOf(rc.U64() >> uint(rc.Intn(64)))
			case reflect.TypeOf(uint16(0)):
				arg = reflect.ValueOf(uint16(rc.U64()))
			case reflect.TypeOf(uint8(0)):
				arg = reflect.ValueOf(uint8(rc.U64()))
			case reflect.TypeOf([]byte(nil)):
				arg = reflect.ValueOf(rc.Bytes(rc.Intn(30)))
			case reflect.TypeOf(common.Location{}):
				arg = reflect.ValueOf(loc)
			case reflect.TypeOf(common.Address{}):
				arg = reflect.ValueOf(cAddr(rc, loc))
			case reflect.TypeOf(types.BlockNonce{}):
				arg = reflect.ValueOf(types.EncodeNonce(rc.U64()))
			default:
				continue
			}
			func() {
				defer func() { recover() }() // a context index the field does not have
				if ctx >= 0 {
					m.Func.Call([]reflect.Value{v, arg, reflect.ValueOf(ctx)})
				} else {
					m.Func.Call([]reflect.Value{v, arg})
				}
			}()
		}
	}
}

func codecHeader(o *h.Out, rc *h.Rng, ans func(string)) {
	loc := common.Location{byte(rc.Intn(3)), byte(rc.Intn(3))}
	hd := types.EmptyHeader()
	fuzzSetters(rc, hd, loc)

	js0, _ := json.Marshal(hd)
	pb, err := hd.ProtoEncode()
	if err != nil {
		o.Count("header-encode-err")
		return
	}
	data, _ := proto.Marshal(pb)
	fresh := new(types.ProtoHeader)
	proto.Unmarshal(data, fresh)
	o.Op("dec ProtoHeader %s", h.Hex(data))
	ans(orEmpty(pdump(fresh.ProtoReflect())))
	hd2 := new(types.Header)
	if err := hd2.ProtoDecode(fresh, loc); err != nil {
		o.Violate("c14-decode-own-encoding:header", err.Error())
		return
	}
	js1, _ := json.Marshal(hd2)
	if string(js0) != string(js1) {
		o.Violate("c14-roundtrip-changes-object:header", fmt.Sprintf("decode(encode(h)) != h: %s vs %s", js0, js1))
	}
	if hd.Hash() != hd2.Hash() {
		o.Violate("c14-hash-changes:header", "header hash changes over the wire round trip")
	}
	pb2, _ := hd2.ProtoEncode()
	data2, _ := proto.Marshal(pb2)
	if !bytes.Equal(data, data2) {
		o.Violate("c14-reencode-differs:header", "re-encoding differs")
	}
	// JSON round trip
	hd3 := new(types.Header)
	if err := json.Unmarshal(js0, hd3); err == nil {
		if hd3.Hash() != hd.Hash() {
			o.Violate("c14-hash-changes:header-json", fmt.Sprintf("header hash changes over the JSON round trip: %s", js0))
		}
	} else {
		o.Count("header-json-err")
	}
	// injectivity: flip one setter
	hd4 := types.CopyHeader(hd)
	hd4.SetGasUsed(hd.GasUsed() + 1)
	if hd4.Hash() == hd.Hash() {
		o.Violate("c14-hash-collision:header:gasUsed", "headers differing in gasUsed share a hash")
	}
}

func codecWoHeader(o *h.Out, rc *h.Rng, ans func(string)) {
	loc := common.Location{byte(rc.Intn(3)), byte(rc.Intn(3))}
	// well-formedness: the KawPow-era fields are present exactly from the fork on
	ptn := new(big.Int).SetUint64(params.KawPowForkBlock + uint64(rc.Intn(5)) - 2)
	if rc.Chance(30) {
		ptn = big.NewInt(int64(rc.Intn(1000)))
	}
	wh := types.NewWorkObjectHeader(cHash(rc), cHash(rc), cBig(rc), cBig(rc), ptn, cHash(rc), types.EncodeNonce(rc.U64()), uint8(rc.Intn(4)), rc.U64(), loc, cAddr(rc, loc), rc.Bytes(rc.Intn(60)), nil, types.NewPowShareDiffAndCount(cBig(rc), cBig(rc), cBig(rc)), types.NewPowShareDiffAndCount(cBig(rc), cBig(rc), cBig(rc)), cBig(rc), cBig(rc), cBig(rc))
	wh.SetMixHash(cHash(rc))
	if ptn.Uint64() >= params.KawPowForkBlock && rc.Chance(60) {
		// a merge-mined header or work share: the donor proof of any of the four algorithms is part of the object
		pid := []types.PowID{types.Kawpow, types.SHA_BTC, types.SHA_BCH, types.Scrypt}[rc.Intn(4)]
		height := uint32(1000 + rc.Intn(100000))
		out := []byte{0x01, 0, 0, 0, 0, 0, 0, 0, 0, 0x00, 0, 0, 0, 0}
		ctx := types.NewAuxPowCoinbaseTx(pid, height, out, cHash(rc), uint32(rc.U64()))
		var prev, mr [32]byte
		copy(prev[:], rc.Bytes(32))
		copy(mr[:], rc.Bytes(32))
		donor := types.NewBlockHeader(pid, 0x20000000, prev, mr, uint32(rc.U64()), 0x1d00ffff, uint32(rc.U64()), height)
		var branch [][]byte
		for i, n := 0, rc.Intn(3); i < n; i++ {
			branch = append(branch, rc.Bytes(32))
		}
		wh.SetAuxPow(types.NewAuxPow(pid, donor, rc.Bytes(rc.Intn(40)), rc.Bytes(64), branch, ctx))
		o.Count(fmt.Sprintf("woheader-auxpow:%d", pid))
	}
	pb, err := wh.ProtoEncode()
	if err != nil {
		o.Count("woheader-encode-err")
		return
	}
	data, _ := proto.Marshal(pb)
	fresh := new(types.ProtoWorkObjectHeader)
	proto.Unmarshal(data, fresh)
	o.Op("dec ProtoWorkObjectHeader %s", h.Hex(data))
	ans(orEmpty(pdump(fresh.ProtoReflect())))
	wh2 := new(types.WorkObjectHeader)
	if err := wh2.ProtoDecode(fresh, loc); err != nil {
		o.Violate("c14-decode-own-encoding:woheader", err.Error())
		return
	}
	if wh.Hash() != wh2.Hash() || wh.SealHash() != wh2.SealHash() {
		o.Violate("c14-hash-changes:woheader", "work-object header hash / seal hash changes over the wire round trip")
	}
	if (wh.AuxPow() == nil) != (wh2.AuxPow() == nil) {
		o.Violate("c14-roundtrip-changes-object:woheader", fmt.Sprintf("the donor proof (AuxPoW) is present before the round trip: %v, after: %v", wh.AuxPow() != nil, wh2.AuxPow() != nil))
	}
	m0, m1 := wh.RPCMarshalWorkObjectHeader("v2"), wh2.RPCMarshalWorkObjectHeader("v2")
	if ptn.Uint64() < params.KawPowForkBlock {
		// before the fork the KawPow-era fields are not part of the object on the wire
		for _, k := range []string{"kawpowDifficulty", "scryptDiffAndCount", "scryptShareTarget", "shaDiffAndCount", "shaShareTarget"} {
			delete(m0, k)
			delete(m1, k)
		}
	}
	js0, _ := json.Marshal(m0)
	js1, _ := json.Marshal(m1)
	if string(js0) != string(js1) {
		o.Violate("c14-roundtrip-changes-object:woheader", fmt.Sprintf("%s vs %s", js0, js1))
	}
	pb2, _ := wh2.ProtoEncode()
	data2, _ := proto.Marshal(pb2)
	if !bytes.Equal(data, data2) {
		o.Violate("c14-reencode-differs:woheader", "re-encoding differs")
	}
}

func codecUtxo(o *h.Out, rc *h.Rng, ans func(string)) {
	loc := common.Location{0, 0}
	var lock *big.Int
	if rc.Bool() {
		lock = big.NewInt(int64(rc.Intn(100000)))
	}
	e := &types.UtxoEntry{Denomination: uint8(rc.Intn(16)), Address: cAddr(rc, loc).Bytes(), Lock: lock}
	pb, err := e.ProtoEncode()
	if err != nil {
		return
	}
	data, _ := proto.Marshal(pb)
	fresh := new(types.ProtoTxOut)
	proto.Unmarshal(data, fresh)
	o.Op("dec ProtoTxOut %s", h.Hex(data))
	ans(orEmpty(pdump(fresh.ProtoReflect())))
	e2 := new(types.UtxoEntry)
	if err := e2.ProtoDecode(fresh); err != nil {
		o.Violate("c14-decode-own-encoding:utxo", err.Error())
		return
	}
	l1, l2 := "0", "0"
	if e.Lock != nil {
		l1 = e.Lock.String()
	}
	if e2.Lock != nil {
		l2 = e2.Lock.String()
	}
	if e.Denomination != e2.Denomination || !bytes.Equal(e.Address, e2.Address) || l1 != l2 {
		o.Violate("c14-roundtrip-changes-object:utxo", fmt.Sprintf("%v vs %v", e, e2))
	}
	th := cHash(rc)
	if types.UTXOHash(th, 3, e) != types.UTXOHash(th, 3, e2) {
		o.Violate("c14-hash-changes:utxo", "UTXO hash changes over the round trip")
	}
}

func runCodec(seed uint64, n int, outDir string, replay string) {
	o := h.NewOut(outDir, "codec")
	r := h.NewRng(seed)
	ans := func(s string) { o.Ans("impl", "%s", s) }
	for c := 0; c < n; c++ {
		rc := r.Fork()
		o.NewCase()
		o.Op("newcase")
		ans("ok")
		func() {
			defer func() {
				if p := recover(); p != nil {
					o.Violate("codec-panic", fmt.Sprintf("panic: %v at %s", p, stackTop()))
				}
			}()
			switch rc.Intn(15) {
			case 13:
				codecReceipts(o, rc, ans)
			case 14:
				codecRollup(o, rc, ans)
			case 10:
				codecBlock(o, rc, ans)
			case 11:
				codecPendingEtxs(o, rc, ans)
			case 12:
				codecTermini(o, rc, ans)
			case 0, 1, 2, 3, 4:
				codecTx(o, rc, ans)
			case 5, 6:
				codecHeader(o, rc, ans)
			case 7, 8:
				codecWoHeader(o, rc, ans)
			default:
				codecUtxo(o, rc, ans)
			}
		}()
		o.EndCase(fmt.Sprint(rc.U64()), true)
	}
	o.Close(nil)
}

func stackTop() string {
	buf := make([]byte, 4096)
	n := runtime.Stack(buf, false)
	lines := strings.Split(string(buf[:n]), "\n")
	var keep []string
	for _, l := range lines {
		if strings.Contains(l, ".go:") && !strings.Contains(l, "runtime/") {
			keep = append(keep, strings.TrimSpace(l))
		}
		if len(keep) >= 6 {
			break
		}
	}
	return strings.Join(keep, " <- ")
}
