package main

import (
	"fmt"
	"math/big"
	"strings"

	"github.com/dominant-strategies/go-quai/common"
	"github.com/dominant-strategies/go-quai/core/types"
	"github.com/dominant-strategies/go-quai/core/vm"
	"verifharness/internal/h"
)

// evWrapped: one transaction in which an owner contract makes several calls to the lockup contract about the wrapped
// Qi it holds - unwraps (60-byte input) of amounts below, at and above what is left, claims (20-byte input) of deposits
// made in its name, present or not.  The model (Model/Wrapped.lean) answers the status of every call, the final
// balance and deposit slots and the values of the ETXs emitted.  T3: balance + unclaimed deposits + value carried by
// the emitted ETXs is what it was before the transaction, and every unwrap that reports success has its own ETX of
// exactly the requested value.
func evWrapped(o *h.Out, rc *h.Rng, ans func(string)) {
	pt := evPT(rc)
	eligible := true
	env := newEvEnv(pt, big.NewInt(1), &eligible)
	lockup := vm.LockupContractAddresses[[2]byte{evLoc[0], evLoc[1]}]
	li, err := lockup.InternalAndQuaiAddress()
	if err != nil {
		panic(err)
	}
	c1 := evContract(1)
	ben := func(i int) common.InternalAddress {
		ia := evContract(0x20)
		ia[5] = byte(i + 1)
		return ia
	}
	depKey := func(i int) common.Hash {
		var k common.Hash
		b := ben(i)
		copy(k[:16], c1[:16])
		copy(k[16:], b[:16])
		return k
	}
	balKey := common.BytesToHash(c1[:])
	bal := int64(rc.Intn(3)) * int64(1+rc.Intn(100000))
	if rc.Chance(70) {
		bal = int64(2 + rc.Intn(100000))
	}
	ndeps := rc.Intn(3)
	deps := make([]int64, ndeps)
	for i := range deps {
		if rc.Chance(75) {
			deps[i] = int64(1 + rc.Intn(50000))
		}
	}
	// the calls; a shadow of what is left chooses amounts around it
	type call struct {
		unwrap bool
		v      int64
		i      int
	}
	var calls []call
	left := bal
	shadowDeps := append([]int64{}, deps...)
	n := 2 + rc.Intn(4)
	directed := rc.Chance(40) // two unwraps that each fit the starting balance and together exceed it
	for k := 0; k < n; k++ {
		if directed && k < 2 && bal >= 2 {
			v := bal/2 + 1 + int64(rc.Intn(int(bal/2)))
			if v > bal {
				v = bal
			}
			calls = append(calls, call{unwrap: true, v: v})
			if left > 0 && v <= left {
				left -= v
			}
			continue
		}
		if rc.Chance(30) {
			i := rc.Intn(ndeps + 1)
			calls = append(calls, call{i: i})
			if i < ndeps {
				left += shadowDeps[i]
				shadowDeps[i] = 0
			}
			continue
		}
		var v int64
		switch rc.Intn(7) {
		case 0:
			v = left
		case 1:
			v = left + 1
		case 2:
			v = 0
		case 3:
			v = bal
		case 4:
			v = left / 2
		default:
			v = int64(rc.Intn(int(left) + 2))
		}
		calls = append(calls, call{unwrap: true, v: v})
		if left > 0 && v <= left {
			left -= v
		}
	}
	a := &asm{}
	a.pushN(0)
	var words []string
	for _, c := range calls {
		var input []byte
		if c.unwrap {
			to := make([]byte, 20)
			copy(to, rc.Bytes(20))
			to[0] = 0x00
			to[1] |= 0x80
			input = append(input, to...)
			input = append(input, common.LeftPadBytes(big.NewInt(c.v).Bytes(), 32)...)
			input = append(input, 0, 0, 0, 0, 0, 0, 0x75, 0x30) // ETX gas limit 30000
			words = append(words, fmt.Sprintf("u%d", c.v))
		} else {
			input = append(input, ben(c.i).Bytes()...)
			words = append(words, fmt.Sprintf("c%d", c.i))
		}
		padded := make([]byte, 64)
		copy(padded, input)
		a.pushN(2).op(vm.MUL)
		a.pushB(padded[:32]).pushN(0).op(vm.MSTORE)
		if len(input) > 32 {
			a.pushB(padded[32:]).pushN(32).op(vm.MSTORE)
		}
		a.pushN(0).pushN(0).pushN(uint64(len(input))).pushN(0).pushN(0).pushB(lockup.Bytes()).pushN(1_000_000).op(vm.CALL).op(vm.ADD)
	}
	a.returnTop()
	env.sdb.CreateAccount(c1)
	env.sdb.SetCode(c1, a.b)
	if bal > 0 {
		env.sdb.SetState(li, balKey, common.BigToHash(big.NewInt(bal)))
	}
	for i, d := range deps {
		if d > 0 {
			env.sdb.SetState(li, depKey(i), common.BigToHash(big.NewInt(d)))
		}
	}
	// the lockup contract's account as block 1 leaves it (nonce 1, so it is never an empty account); the transaction
	// starts from committed storage, as it does in a block
	env.sdb.SetNonce(li, 1)
	env.sdb.IntermediateRoot(true)
	showList := func(l []int64) string {
		if len(l) == 0 {
			return "-"
		}
		var s []string
		for _, x := range l {
			s = append(s, fmt.Sprint(x))
		}
		return strings.Join(s, ",")
	}
	o.Op("wrapped %d %s %s", bal, showList(deps), strings.Join(words, " "))
	ret, _, _, cerr := env.evm.Call(vm.AccountRef(common.NewAddressFromData(ptr(evContract(0xee)))), common.NewAddressFromData(&c1), nil, 25_000_000, new(big.Int))
	if cerr != nil || len(ret) != 32 {
		ans(fmt.Sprintf("call-failed %v", cerr))
		o.Violate("c05-no-status:wrapped", fmt.Sprintf("the owner contract's call failed: %v", cerr))
		return
	}
	mask := new(big.Int).SetBytes(ret)
	status := make([]int64, len(calls))
	for k := range calls {
		status[k] = int64(mask.Bit(len(calls) - 1 - k))
	}
	balAfter := env.sdb.GetState(li, balKey).Big()
	depsAfter := make([]int64, ndeps)
	total := new(big.Int).Set(balAfter)
	for i := range deps {
		d := env.sdb.GetState(li, depKey(i)).Big()
		depsAfter[i] = d.Int64()
		total.Add(total, d)
	}
	var out []int64
	for i, x := range env.evm.ETXCache {
		out = append(out, x.Value().Int64())
		total.Add(total, x.Value())
		if x.EtxType() != types.UnwrapQiType || int(x.ETXIndex()) != i {
			o.Violate("c05-success-without-exact-etx:unwrap", fmt.Sprintf("ETX %d of the transaction has type %d and index %d", i, x.EtxType(), x.ETXIndex()))
		}
	}
	ans(fmt.Sprintf("s=%s bal=%s deps=%s out=%s", showList(status), balAfter, showList(depsAfter), showList(out)))
	before := big.NewInt(bal)
	for _, d := range deps {
		before.Add(before, big.NewInt(d))
	}
	if total.Cmp(before) != 0 {
		o.Violate("c05-unwrap-etxs-differ-from-debit", fmt.Sprintf("wrapped balance %d and deposits %v before the transaction (%s); after the calls %s: balance %s, deposits %v, emitted ETXs carrying %v (%s in all)",
			bal, deps, before, strings.Join(words, " "), balAfter, depsAfter, out, total))
	}
	// every successful unwrap has its own ETX of exactly its value, a failed one has none
	var want []int64
	for k, c := range calls {
		if c.unwrap && status[k] == 1 {
			want = append(want, c.v)
		}
	}
	if showList(want) != showList(out) {
		o.Violate("c05-success-without-exact-etx:unwrap", fmt.Sprintf("calls %s reported %v; the unwraps that reported success asked for %v, the ETXs emitted carry %v", strings.Join(words, " "), status, want, out))
	}
	o.Count("wrapped")
	if directed {
		o.Count("wrapped:two-unwraps-exceeding-the-balance")
	}
}
