package main

// evm area, create cases (C05 / C02): a contract creation whose constructor sends value off-chain (ETX) and then
// ends in every way a constructor can end.  Either the creation succeeds and everything it did stands (endowment
// moved, ETX recorded), or it fails and nothing of it stands: no debit, no outbound ETX, no account.

import (
	"fmt"
	"math/big"
	"os"

	"verifharness/internal/h"

	"github.com/dominant-strategies/go-quai/common"
	"github.com/dominant-strategies/go-quai/core/vm"
	"github.com/dominant-strategies/go-quai/params"
)

var evCreateEndings = []string{"code", "ef", "oversize", "revert", "invalid", "stop", "storeoog"}

// evInitCode: constructor = [ETX of ev] [SSTORE] ending
func evInitCode(emit bool, ev uint64, ending string, maxCode int) []byte {
	a := &asm{}
	if emit {
		a.pushN(0).pushN(0).pushN(0).pushN(0).pushN(0).pushN(0).pushN(21000).pushN(ev).pushB(evForeign).pushN(0).op(vm.ETX).op(vm.POP)
	}
	a.pushN(9).pushN(1).op(vm.SSTORE)
	switch ending {
	case "code": // runtime code = one STOP byte
		a.pushN(0).pushN(0).op(vm.MSTORE8).pushN(1).pushN(0).op(vm.RETURN)
	case "ef":
		a.pushN(0xef).pushN(0).op(vm.MSTORE8).pushN(1).pushN(0).op(vm.RETURN)
	case "oversize":
		a.pushN(uint64(maxCode + 1)).pushN(0).op(vm.RETURN)
	case "revert":
		a.pushN(0).pushN(0).op(vm.REVERT)
	case "invalid":
		a.b = append(a.b, 0xfe) // the designated invalid opcode
	case "stop":
		a.op(vm.STOP)
	case "storeoog": // returns 2000 bytes of code: the deposit (200 gas a byte) is more than the frame has left
		a.pushN(2000).pushN(0).op(vm.RETURN)
	}
	return a.b
}

func evOneCreate(o *h.Out, rc *h.Rng, ans func(string)) {
	pt := evPT(rc)
	eligible := true
	env := newEvEnv(pt, big.NewInt(1), &eligible)
	maxCode := params.GetMaxCodeSize(pt)
	ending := evCreateEndings[rc.Intn(len(evCreateEndings))]
	emit := rc.Chance(75)
	endow := uint64(rc.Intn(1000))
	ev := uint64(0)
	if emit && endow == 0 {
		emit = false // an ETX of value zero is refused by the opcode itself (covered by the etx cases)
	}
	if emit {
		ev = 1 + uint64(rc.Intn(int(endow)))
	}
	balance := endow + uint64(rc.Intn(500))
	if rc.Chance(10) && endow > 0 {
		balance = uint64(rc.Intn(int(endow))) // cannot afford the endowment
	}
	nested := rc.Bool()
	gas := uint64(20_000_000)
	if ending == "storeoog" {
		gas = 300_000 // enough for the constructor (ETX, SSTORE), not for storing 2000 bytes of code
	}
	init := evInitCode(emit, ev, ending, maxCode)
	creator := evContract(1)
	env.sdb.CreateAccount(creator)
	env.sdb.AddBalance(creator, new(big.Int).SetUint64(balance))
	creatorAddr := common.NewAddressFromData(&creator)
	// the created address depends on the init code: pad it (after its last instruction) until the address lies in
	// this zone's Quai ledger, so that the interpreter's own bounded address grinding is not what decides the outcome
	init, expectedAddr := grindCreate(creatorAddr, 0, init, evLoc)
	o.Op("create nested=%s balance=%d endow=%d emit=%s ev=%d ending=%s", b01(nested), balance, endow, b01(emit), ev, ending)
	var created common.Address
	ok := false
	if nested {
		// factory: CODECOPY the init code from the tail of its own code, CREATE, return the address word
		pre := &asm{}
		const preLen = 3 + 3 + 2 + 1 + 3 + 2 + 3 + 1 + 8 // fixed-width pushes below
		push2 := func(n int) { pre.b = append(pre.b, byte(vm.PUSH2), byte(n>>8), byte(n)) }
		push2(len(init))
		push2(preLen)
		pre.pushN(0).op(vm.CODECOPY)
		push2(len(init))
		pre.pushN(0)
		push2(int(endow))
		pre.op(vm.CREATE).returnTop()
		if len(pre.b) != preLen {
			panic(fmt.Sprintf("factory prefix is %d bytes", len(pre.b)))
		}
		env.sdb.SetCode(creator, append(pre.b, init...))
		ret, _, _, err := env.evm.Call(vm.AccountRef(common.NewAddressFromData(ptr(evContract(0xee)))), creatorAddr, nil, gas, new(big.Int))
		if err == nil && len(ret) == 32 && new(big.Int).SetBytes(ret).Sign() != 0 {
			ok = true
			created = common.BytesToAddress(ret[12:], evLoc)
		}
	} else {
		_, addr, _, _, err := env.evm.Create(vm.AccountRef(creatorAddr), init, gas, new(big.Int).SetUint64(endow))
		ok, created = err == nil, addr
		if err != nil && os.Getenv("QVH_DEBUG") != "" {
			fmt.Fprintln(os.Stderr, "create error:", err, "ending", ending, "pt", pt)
		}
	}
	if !ok {
		created = expectedAddr // a failed creation reports no address: look at the one it would have used
	}
	debit := new(big.Int).Sub(new(big.Int).SetUint64(balance), env.sdb.GetBalance(creator))
	createdBal, exists, codeLen := new(big.Int), false, 0
	if ia, err := created.InternalAndQuaiAddress(); err == nil && created != (common.Address{}) {
		createdBal, exists, codeLen = env.sdb.GetBalance(ia), env.sdb.Exist(ia), len(env.sdb.GetCode(ia))
	}
	var es []string
	for _, x := range env.evm.ETXCache {
		es = append(es, x.Value().String())
	}
	ans(fmt.Sprintf("ok=%s debit=%s created=%s etxs=%v", b01(ok), debit, createdBal, es))
	o.Count("create:" + ending + ":ok=" + b01(ok))
	// T3: all or nothing
	if ok {
		if debit.Uint64() != endow || createdBal.Uint64() != endow-ev || len(es) != map[bool]int{true: 1, false: 0}[emit] || !exists {
			o.Violate("c05-create-success-partial", fmt.Sprintf("creation (%s) succeeded: creator debited %s of endowment %d, created account holds %s (exists %v), ETXs %v (constructor sent %d)", ending, debit, endow, createdBal, exists, es, ev))
		}
	} else {
		if debit.Sign() != 0 || len(es) != 0 || createdBal.Sign() != 0 || codeLen != 0 {
			sig := "c05-create-failure-with-effect"
			if ending == "storeoog" {
				sig += ":storeoog" // known finding: a creation that cannot pay the code deposit fails without being undone
			}
			o.Violate(sig, fmt.Sprintf("creation (%s) failed but creator debited %s, created account holds %s / code %d bytes, ETXs recorded %v", ending, debit, createdBal, codeLen, es))
		}
	}
	if want := (ending == "code" || ending == "stop") && balance >= endow; want != ok {
		o.Violate("c05-create-outcome", fmt.Sprintf("creation ending in %q with balance %d / endowment %d reports ok=%v", ending, balance, endow, ok))
	}
}
