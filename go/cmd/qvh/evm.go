package main

// Area evm (C05, EVM level of C12): the real interpreter on generated contracts.
//   etx / conv / xcall ops: one ETX / CONVERT / CALL-to-foreign-address with generated arguments, fork
//   regime, balance, cache length, access-list blob, eligibility; observed: status word, balance
//   delta, ETX cache.
//   tree ops: a tree of call frames (CALL / DELEGATECALL / CALLCODE / STATICCALL) that emit ETXs,
//   write storage and end in STOP or REVERT; parents ignore failures; observed: the ETX cache after
//   the transaction, balances and storage.

import (
	"fmt"
	"math/big"
	"os"
	"strings"

	"verifharness/internal/h"

	"github.com/dominant-strategies/go-quai/common"
	"github.com/dominant-strategies/go-quai/core"
	"github.com/dominant-strategies/go-quai/core/rawdb"
	"github.com/dominant-strategies/go-quai/core/state"
	"github.com/dominant-strategies/go-quai/core/types"
	"github.com/dominant-strategies/go-quai/core/vm"
	"github.com/dominant-strategies/go-quai/log"
	"github.com/dominant-strategies/go-quai/params"
	"github.com/dominant-strategies/go-quai/rlp"
)

func init() { areas["evm"] = runEVM }

var evLoc = common.Location{0, 0}

func evContract(i int) common.InternalAddress {
	var ia common.InternalAddress
	ia[17] = 0xc0
	ia[19] = byte(i)
	return ia
}

type asm struct{ b []byte }

func (a *asm) op(o vm.OpCode) *asm { a.b = append(a.b, byte(o)); return a }
func (a *asm) push(v *big.Int) *asm {
	bs := v.Bytes()
	if len(bs) == 0 {
		bs = []byte{0}
	}
	if len(bs) > 32 {
		bs = bs[len(bs)-32:]
	}
	a.b = append(a.b, byte(int(vm.PUSH1)+len(bs)-1))
	a.b = append(a.b, bs...)
	return a
}
func (a *asm) pushN(n uint64) *asm { return a.push(new(big.Int).SetUint64(n)) }
func (a *asm) pushB(b []byte) *asm { return a.push(new(big.Int).SetBytes(b)) }

// returnTop: MSTORE the top word at 0 and RETURN it
func (a *asm) returnTop() *asm {
	return a.pushN(0).op(vm.MSTORE).pushN(32).pushN(0).op(vm.RETURN)
}

type evEnv struct {
	sdb      *state.StateDB
	evm      *vm.EVM
	eligible bool
}

func newEvEnv(pt uint64, gasPrice *big.Int, eligible *bool) *evEnv {
	db := state.NewDatabase(rawdb.NewMemoryDatabase(log.Global))
	sdb, err := state.New(common.Hash{}, common.Hash{}, new(big.Int), db, db, nil, evLoc, log.Global)
	if err != nil {
		panic(err)
	}
	sdb.ConfigureAccessListChecks(false)
	cfg := *params.ProgpowColosseumChainConfig
	cfg.Location = evLoc
	bctx := vm.BlockContext{
		CanTransfer: core.CanTransfer, Transfer: core.Transfer,
		GetHash:            func(uint64) common.Hash { return common.Hash{} },
		CheckIfEtxEligible: func(common.Hash, common.Location) bool { return *eligible },
		BlockNumber:        new(big.Int).SetUint64(pt), Time: big.NewInt(1), Difficulty: big.NewInt(1), BaseFee: big.NewInt(1),
		GasLimit: 30_000_000, QuaiStateSize: big.NewInt(1000), PrimeTerminusNumber: pt,
		PrimaryCoinbase: common.NewAddressFromData(ptr(evContract(0xcb))),
	}
	tctx := vm.TxContext{Origin: common.NewAddressFromData(ptr(evContract(0xee))), GasPrice: gasPrice, Hash: common.BytesToHash([]byte{7})}
	e := vm.NewEVM(bctx, tctx, sdb, &cfg, vm.Config{}, nil)
	return &evEnv{sdb: sdb, evm: e}
}

func ptr[T any](v T) *T { return &v }

func u256(rc *h.Rng) *big.Int {
	switch rc.Intn(10) {
	case 0:
		return new(big.Int)
	case 1:
		return new(big.Int).Sub(new(big.Int).Lsh(big.NewInt(1), 256), big.NewInt(int64(1+rc.Intn(3))))
	case 2:
		return new(big.Int).Lsh(big.NewInt(int64(1+rc.Intn(5))), uint(60+rc.Intn(190)))
	case 3:
		return new(big.Int).SetUint64(rc.U64())
	default:
		return big.NewInt(int64(rc.Intn(100000)))
	}
}

func evPT(rc *h.Rng) uint64 {
	forks := []uint64{params.ControllerKickInBlock, params.KawPowForkBlock, params.KawPowForkBlock + params.KQuaiChangeHoldInterval,
		params.ShaEquivalentDifficultyForkBlock, params.ShaEquivalentDifficultyForkBlock + params.KQuaiChangeHoldInterval, params.SelfDestructRefundForkBlock}
	if rc.Chance(15) {
		return uint64(rc.Intn(1000))
	}
	f := forks[rc.Intn(len(forks))]
	switch rc.Intn(4) {
	case 0:
		return f - 1
	case 1:
		return f
	case 2:
		return f + 1
	}
	return params.SelfDestructRefundForkBlock + 1000 + uint64(rc.Intn(1000))
}

func cfgLine(pt uint64) string {
	return fmt.Sprintf("pt=%d sdf=%d cki=%d kaw=%d sha=%d hold=%d txgas=%d etxgas=%d minconv=%s", pt, params.SelfDestructRefundForkBlock,
		params.ControllerKickInBlock, params.KawPowForkBlock, params.ShaEquivalentDifficultyForkBlock, params.KQuaiChangeHoldInterval,
		params.TxGas, params.ETXGas, params.MinQuaiConversionAmount)
}

func fillCache(e *vm.EVM, n int) {
	to := common.BytesToAddress(append([]byte{0x01}, make([]byte, 19)...), evLoc)
	dummy := types.NewTx(&types.ExternalTx{To: &to, Sender: to, Value: big.NewInt(1), Gas: 21000})
	for i := 0; i < n; i++ {
		e.ETXCache = append(e.ETXCache, dummy)
	}
}

func evObserve(env *evEnv, c common.InternalAddress, balBefore *big.Int, ret []byte, err error, base int) string {
	status := "none"
	if err == nil && len(ret) == 32 {
		status = new(big.Int).SetBytes(ret).String()
	} else if err != nil {
		status = "none"
	}
	debit := new(big.Int).Sub(balBefore, env.sdb.GetBalance(c))
	etx := "none"
	if len(env.evm.ETXCache) == base+1 {
		x := env.evm.ETXCache[base]
		etx = fmt.Sprintf("%s,%d,%d", x.Value(), x.ETXIndex(), x.Gas())
	} else if len(env.evm.ETXCache) != base {
		etx = fmt.Sprintf("cache-len-%d", len(env.evm.ETXCache)-base)
	}
	return fmt.Sprintf("s=%s d=%s e=%s", status, debit, etx)
}

// aonOracle is the property's own predicate, evaluated on the observation.
func aonOracle(o *h.Out, kind, obs string, value *big.Int, idx int, gasWord *big.Int, legacy bool) {
	var s, d, e string
	fmt.Sscanf(strings.ReplaceAll(obs, "=", " "), "s %s d %s e %s", &s, &d, &e)
	switch {
	case s == "1":
		if !strings.HasPrefix(e, fmt.Sprintf("%s,%d,", value, idx)) || d == "0" {
			o.Violate("c05-success-without-exact-etx:"+kind, "success reported but "+obs)
		}
		if gasWord != nil && !strings.HasSuffix(e, ","+gasWord.String()) {
			// the sender prepays the fee for the gas-limit word it names; the ETX must carry exactly that gas limit
			sig := "c05-etx-gas-differs-from-requested:" + kind
			if legacy && kind == "conv" {
				sig += ":legacy-gas-word" // before SelfDestructRefundForkBlock CONVERT has no upper bound on the word (known finding)
			}
			o.Violate(sig, fmt.Sprintf("gas-limit word %s requested (and charged for), %s", gasWord, obs))
		}
	case s == "0":
		if d != "0" || e != "none" {
			o.Violate("c05-failure-with-effect:"+kind, "failure reported but "+obs)
		}
	default:
		o.Violate("c05-no-status:"+kind, "no status word / error: "+obs)
	}
}

func runEVM(seed uint64, n int, outDir string, replay string) {
	vm.InitializePrecompiles(evLoc)
	o := h.NewOut(outDir, "evm")
	r := h.NewRng(seed)
	ans := func(s string) { o.Ans("impl", "%s", s) }
	for c := 0; c < n; c++ {
		rc := r.Fork()
		o.NewCase()
		o.Op("newcase")
		ans("ok")
		func() {
			defer func() {
				if p := recover(); p != nil {
					o.Violate("evm-panic", fmt.Sprintf("panic: %v", p))
					o.Pad("panic %v", p)
				}
			}()
			switch rc.Intn(18) {
			case 17:
				evCreationTxThenTransfer(o, rc, ans)
			case 16:
				evPrecompileFails(o, rc, ans)
			case 15:
				evSuicideAgain(o, rc, ans)
			case 14:
				evGasPurchase(o, rc, ans)
			case 12, 13:
				evOneCreate(o, rc, ans)
			case 0, 1, 2:
				evOneETX(o, rc, ans)
			case 3, 4:
				evOneConvert(o, rc, ans)
			case 5, 6:
				evOneCall(o, rc, ans)
			case 7, 8:
				evTree(o, rc, ans)
			default:
				evValueTree(o, rc, ans)
			}
		}()
		if c%4 == 3 {
			// an extra sub-case with its own generator, so that the cases above stay what they were
			func() {
				defer func() {
					if p := recover(); p != nil {
						o.Violate("evm-panic", fmt.Sprintf("panic: %v", p))
						o.Pad("panic %v", p)
					}
				}()
				evWrapped(o, h.NewRng(seed*1000003+uint64(c)), ans)
			}()
		}
		o.EndCase(fmt.Sprint(rc.U64()), true)
	}
	o.Close(nil)
}

// evGasPurchase: a plain value transfer through core.ApplyMessage with every size of gas price - ordinary, 2^64, 2^128,
// around 2^256 / gas limit (where gas limit x price passes 2^256), 2^255, 2^256-1 - and payer balances below, at and above
// the cost.  T3: the transaction is either refused with every balance unchanged, or the payer ends with exactly
// balance - gas used x price - value and the recipient with + value: buying and refunding gas never creates value, in
// particular not when a product no longer fits a machine word of any width.
func evGasPurchase(o *h.Out, rc *h.Rng, ans func(string)) {
	eligible := true
	env := newEvEnv(params.SelfDestructRefundForkBlock+10, big.NewInt(1), &eligible)
	gasLimit := uint64(30000 + rc.Intn(200000)) // above the intrinsic gas of a transfer with one access-list entry
	if rc.Bool() {
		gasLimit = 100000
	}
	two := func(n uint) *big.Int { return new(big.Int).Lsh(big.NewInt(1), n) }
	wrap := new(big.Int).Div(two(256), new(big.Int).SetUint64(gasLimit)) // the largest price whose product still fits 256 bits
	var price *big.Int
	switch rc.Intn(9) {
	case 0:
		price = big.NewInt(int64(1 + rc.Intn(100)))
	case 1:
		price = new(big.Int).Add(two(64), big.NewInt(int64(rc.Intn(5))))
	case 2:
		price = two(128)
	case 3:
		price = new(big.Int).Add(wrap, big.NewInt(int64(1+rc.Intn(3))))
	case 4:
		price = new(big.Int).Sub(wrap, big.NewInt(int64(rc.Intn(3))))
	case 5:
		price = two(255)
	case 6:
		price = new(big.Int).Sub(two(256), big.NewInt(int64(1+rc.Intn(3))))
	case 7:
		price = new(big.Int).Mul(wrap, big.NewInt(int64(2+rc.Intn(5))))
	default:
		price = two(uint(1 + rc.Intn(255)))
	}
	value := big.NewInt(int64(rc.Intn(1000)))
	cost := new(big.Int).Add(new(big.Int).Mul(new(big.Int).SetUint64(gasLimit), price), value)
	var bal *big.Int
	switch rc.Intn(5) {
	case 0:
		bal = new(big.Int).Set(cost)
	case 1:
		bal = new(big.Int).Sub(cost, big.NewInt(1))
	case 2:
		bal = big.NewInt(int64(1_000_000 + rc.Intn(1_000_000_000))) // what a wrapped-around cost would fit into
	case 3:
		bal = new(big.Int).Add(cost, big.NewInt(int64(rc.Intn(1000))))
	default:
		bal = new(big.Int).Sub(two(256), big.NewInt(1))
	}
	if bal.Sign() < 0 {
		bal = new(big.Int)
	}
	payer, rcpt := evContract(0xee), evContract(0x31)
	env.sdb.CreateAccount(payer)
	env.sdb.AddBalance(payer, bal)
	env.sdb.CreateAccount(rcpt)
	env.sdb.AddBalance(rcpt, big.NewInt(5))
	env.evm.TxContext.GasPrice = price
	to := common.NewAddressFromData(&rcpt)
	msg := types.NewMessage(common.NewAddressFromData(&payer), &to, 0, value, gasLimit, price, nil, types.AccessList{{Address: to}}, false)
	res, err := core.ApplyMessage(env.evm, msg, new(types.GasPool).AddGas(gasLimit))
	pa, ra := env.sdb.GetBalance(payer), env.sdb.GetBalance(rcpt)
	// T2: verdict and final balances against the model (the gas used and whether the transfer took place are read off
	// the result; the model does the buying and refunding)
	usedGas, moved := uint64(0), "0"
	if err == nil {
		usedGas = res.UsedGas
		if !res.Failed() {
			moved = "1"
		}
	}
	o.Op("gasbuy %d %s %s %s %d %s", gasLimit, price, value, bal, usedGas, moved)
	if err != nil {
		ans(fmt.Sprintf("refused payer=%s gain=%s", pa, new(big.Int).Sub(ra, big.NewInt(5))))
	} else {
		ans(fmt.Sprintf("ok payer=%s gain=%s", pa, new(big.Int).Sub(ra, big.NewInt(5))))
	}
	desc := fmt.Sprintf("gas limit %d, gas price %s, value %s, payer balance %s (cost %s)", gasLimit, price, value, bal, cost)
	switch {
	case err != nil:
		o.Count("gaspurchase:refused")
		if pa.Cmp(bal) != 0 || ra.Cmp(big.NewInt(5)) != 0 {
			o.Violate("c02-refused-transaction-moves-value", fmt.Sprintf("%s: refused (%v) but the payer holds %s and the recipient %s", desc, err, pa, ra))
		}
		if bal.Cmp(cost) >= 0 && price.BitLen() <= 256 {
			o.Count("gaspurchase:refused-although-affordable")
		}
	default:
		o.Count("gaspurchase:executed")
		if bal.Cmp(cost) < 0 {
			o.Violate("c02-gas-bought-without-funds", fmt.Sprintf("%s: executed although the payer cannot cover gas limit x price + value", desc))
		}
		moved := new(big.Int)
		if !res.Failed() {
			moved = value
		}
		want := new(big.Int).Sub(new(big.Int).Sub(bal, new(big.Int).Mul(new(big.Int).SetUint64(res.UsedGas), price)), moved)
		if pa.Cmp(want) != 0 {
			o.Violate("c02-gas-purchase-creates-or-loses-value", fmt.Sprintf("%s: used %d gas; the payer ends with %s, balance - gas used x price - value is %s", desc, res.UsedGas, pa, want))
		}
		if wantR := new(big.Int).Add(big.NewInt(5), moved); ra.Cmp(wantR) != 0 {
			o.Violate("c02-gas-purchase-creates-or-loses-value", fmt.Sprintf("%s: the recipient ends with %s instead of %s", desc, ra, wantR))
		}
	}
}

// evSuicideAgain: one transaction in which a contract self-destructs, is paid again by a later call of the same
// transaction and self-destructs again (2-4 calls, values zero or not, to one or two beneficiaries).  T3: the balances
// of everybody involved plus the gas charge never exceed what was there before plus one refund per SELFDESTRUCT - what
// a destroyed contract receives afterwards leaves it at its next SELFDESTRUCT exactly once.
func evSuicideAgain(o *h.Out, rc *h.Rng, ans func(string)) {
	o.Op("note")
	ans("ok")
	pt := params.SelfDestructRefundForkBlock + 10
	if rc.Chance(30) {
		pt = params.SelfDestructRefundForkBlock - 10
	}
	eligible := true
	env := newEvEnv(pt, big.NewInt(1), &eligible)
	victim, orch, payer := evContract(0x41), evContract(0x42), evContract(0xee)
	bens := []common.InternalAddress{evContract(0x51), evContract(0x52)}
	// victim: SELFDESTRUCT(beneficiary chosen by the first calldata byte)
	va := &asm{}
	va.pushN(0).op(vm.CALLDATALOAD).pushN(248).op(vm.SHR) // first byte
	// if byte == 0 -> ben0 else ben1: compute ben0 + byte * (ben1 - ben0)
	b0, b1 := new(big.Int).SetBytes(bens[0].Bytes()), new(big.Int).SetBytes(bens[1].Bytes())
	va.push(new(big.Int).Sub(b1, b0)).op(vm.MUL).push(b0).op(vm.ADD).op(vm.SELFDESTRUCT)
	oa := &asm{}
	ncalls := 2 + rc.Intn(3)
	sent := new(big.Int)
	for i := 0; i < ncalls; i++ {
		v := uint64(0)
		if rc.Chance(65) {
			v = uint64(1 + rc.Intn(50))
		}
		sent.Add(sent, new(big.Int).SetUint64(v))
		// mstore8(0, which beneficiary); call(gas, victim, v, 0, 1, 0, 0); pop
		oa.pushN(uint64(rc.Intn(2))).pushN(0).op(vm.MSTORE8)
		oa.pushN(0).pushN(0).pushN(1).pushN(0).pushN(v).pushB(victim.Bytes()).pushN(200000).op(vm.CALL).op(vm.POP)
	}
	oa.op(vm.STOP)
	all := []common.InternalAddress{victim, orch, payer, bens[0], bens[1]}
	for _, a := range all {
		env.sdb.CreateAccount(a)
	}
	env.sdb.SetCode(victim, va.b)
	env.sdb.SetCode(orch, oa.b)
	env.sdb.AddBalance(victim, big.NewInt(int64(rc.Intn(500))))
	env.sdb.AddBalance(orch, new(big.Int).Add(sent, big.NewInt(int64(rc.Intn(100)))))
	price := big.NewInt(int64(1 + rc.Intn(4)))
	gasLimit := uint64(3_000_000)
	env.sdb.AddBalance(payer, new(big.Int).Mul(new(big.Int).SetUint64(gasLimit), big.NewInt(5)))
	sumAll := func() *big.Int {
		t := new(big.Int)
		for _, a := range all {
			t.Add(t, env.sdb.GetBalance(a))
		}
		return t
	}
	before := sumAll()
	env.evm.TxContext.GasPrice = price
	to := common.NewAddressFromData(&orch)
	var al types.AccessList
	for _, a := range all {
		x := a
		al = append(al, types.AccessTuple{Address: common.NewAddressFromData(&x)})
	}
	msg := types.NewMessage(common.NewAddressFromData(&payer), &to, 0, new(big.Int), gasLimit, price, nil, al, false)
	res, err := core.ApplyMessage(env.evm, msg, new(types.GasPool).AddGas(gasLimit))
	if err != nil {
		o.Count("suicide-again:not-applied")
		return
	}
	charge := new(big.Int).Mul(new(big.Int).SetUint64(res.UsedGas), price)
	refund := new(big.Int).Mul(env.evm.Context.BaseFee, new(big.Int).SetUint64(params.CallNewAccountGas(env.evm.Context.QuaiStateSize)))
	check := func(where string) {
		after := new(big.Int).Add(sumAll(), charge)
		bound := new(big.Int).Add(before, new(big.Int).Mul(refund, big.NewInt(int64(ncalls))))
		if after.Cmp(bound) > 0 {
			o.Violate("c02-repeated-selfdestruct-creates-value", fmt.Sprintf("%s: a contract destroyed %d times in one transaction (paid %s in between): balances + gas charge %s exceed the %s held before plus %d refunds of %s (failed=%v)", where, ncalls, sent, after, before, ncalls, refund, res.Failed()))
		}
	}
	check("after the transaction")
	env.sdb.Finalize(true)
	check("after the end of the transaction is processed")
	o.Count("suicide-again")
}

// evPrecompileFails: a contract sends value along with a call to a precompile that refuses its input (blake2F with a
// malformed length, the others with too little gas), the precompile account existing or not.  T3: the call reports
// failure and leaves nothing behind - no balance moved, no account created.
func evPrecompileFails(o *h.Out, rc *h.Rng, ans func(string)) {
	o.Op("note")
	ans("ok")
	eligible := true
	env := newEvEnv(params.SelfDestructRefundForkBlock+10, big.NewInt(1), &eligible)
	caller := evContract(0x61)
	preNo := []byte{9, 9, 9, 2, 3, 4}[rc.Intn(6)]
	pre := make([]byte, 20)
	pre[19] = preNo
	preIA := common.BytesToAddress(pre, evLoc)
	pia, perr := preIA.InternalAddress()
	value := uint64(1 + rc.Intn(50))
	gasArg := uint64(100000)
	inLen := uint64(rc.Intn(8)) // blake2F wants exactly 213 bytes: any short input is refused
	if preNo != 9 {
		gasArg = uint64(rc.Intn(10)) // the hash / copy precompiles cost at least 15 gas: too little gas is refused
		inLen = 64
	}
	a := &asm{}
	a.pushN(0).pushN(0).pushN(inLen).pushN(0).pushN(value).pushB(pre).pushN(gasArg).op(vm.CALL).returnTop()
	env.sdb.CreateAccount(caller)
	env.sdb.SetCode(caller, a.b)
	env.sdb.AddBalance(caller, big.NewInt(1000))
	existed := rc.Bool()
	if existed && perr == nil {
		env.sdb.CreateAccount(pia)
		env.sdb.AddBalance(pia, big.NewInt(5))
	}
	before := env.sdb.IntermediateRoot(true)
	ret, _, _, err := env.evm.Call(vm.AccountRef(common.NewAddressFromData(ptr(evContract(0xee)))), common.NewAddressFromData(&caller), nil, 1_000_000, new(big.Int))
	o.Count(fmt.Sprintf("precompile-fail:%d", preNo))
	if err != nil || len(ret) != 32 {
		return
	}
	if new(big.Int).SetBytes(ret).Sign() != 0 {
		o.Count("precompile-fail:call-succeeded") // the input was acceptable after all: nothing to check
		return
	}
	cb := env.sdb.GetBalance(caller)
	pb := new(big.Int)
	if perr == nil {
		pb = env.sdb.GetBalance(pia)
	}
	wantP := int64(0)
	if existed {
		wantP = 5
	}
	if cb.Int64() != 1000 || pb.Int64() != wantP {
		o.Violate("c12-failed-precompile-call-keeps-its-transfer", fmt.Sprintf("CALL with value %d to precompile %d reports failure, but the caller holds %s (1000 before) and the precompile account %s (%d before)", value, preNo, cb, pb, wantP))
	}
	if after := env.sdb.IntermediateRoot(true); after != before {
		o.Violate("c12-failed-precompile-call-changes-state", fmt.Sprintf("CALL with value %d to precompile %d reports failure, yet the state root changes (account existed before: %v)", value, preNo, existed))
	}
}

// evCreationTxThenTransfer: two whole transactions on one EVM, as in a block: a contract creation whose constructor sends
// an ETX and then ends in any of the ways a constructor can end (also by returning code it cannot pay the deposit
// for), then a plain transfer.  T3, for each transaction separately: what all accounts hold afterwards, plus the gas
// charge, plus what the ETXs the transaction reports carry, is what was there before - an ETX is reported by the
// transaction that paid for it, by no other.
func evCreationTxThenTransfer(o *h.Out, rc *h.Rng, ans func(string)) {
	o.Op("note")
	ans("ok")
	pt := evPT(rc)
	eligible := true
	env := newEvEnv(pt, big.NewInt(1), &eligible)
	ending := evCreateEndings[rc.Intn(len(evCreateEndings))]
	endow := uint64(1 + rc.Intn(1000))
	ev := 1 + uint64(rc.Intn(int(endow)))
	init := evInitCode(true, ev, ending, params.GetMaxCodeSize(pt))
	payer, rcpt := evContract(0xee), evContract(0x32)
	payerAddr := common.NewAddressFromData(&payer)
	init, created := grindCreate(payerAddr, 0, init, evLoc)
	gasLimit := uint64(5_000_000)
	if ending == "storeoog" {
		gasLimit = 400_000
	}
	price := big.NewInt(int64(1 + rc.Intn(4)))
	env.sdb.CreateAccount(payer)
	env.sdb.AddBalance(payer, new(big.Int).Add(new(big.Int).Mul(big.NewInt(12_000_000), price), big.NewInt(int64(endow))))
	env.sdb.CreateAccount(rcpt)
	env.sdb.AddBalance(rcpt, big.NewInt(5))
	cia, cerr := created.InternalAndQuaiAddress()
	sumAll := func() *big.Int {
		t := new(big.Int).Add(env.sdb.GetBalance(payer), env.sdb.GetBalance(rcpt))
		if cerr == nil {
			t.Add(t, env.sdb.GetBalance(cia))
		}
		return t
	}
	env.evm.TxContext.GasPrice = price
	run := func(what string, msg types.Message, gl uint64) bool {
		before := sumAll()
		res, err := core.ApplyMessage(env.evm, msg, new(types.GasPool).AddGas(gl))
		if err != nil {
			o.Count("creation-tx:" + what + ":not-applied")
			return false
		}
		env.sdb.Finalize(true)
		o.Count(fmt.Sprintf("creation-tx:%s:%s:failed=%v:etxs=%d", what, ending, res.Failed(), len(res.Etxs)))
		after := new(big.Int).Add(sumAll(), new(big.Int).Mul(new(big.Int).SetUint64(res.UsedGas), price))
		carried := new(big.Int)
		for _, x := range res.Etxs {
			carried.Add(carried, x.Value())
		}
		after.Add(after, carried)
		if after.Cmp(before) != 0 {
			o.Violate("c02-transaction-does-not-account-for-its-etxs", fmt.Sprintf("%s (constructor ends with %q, sends %d of an endowment of %d): balances + gas charge + value of the %d ETX(s) the transaction reports = %s, before the transaction %s (failed=%v)", what, ending, ev, endow, len(res.Etxs), after, before, res.Failed()))
		}
		return true
	}
	o.Count("creation-tx:" + ending)
	al := types.AccessList{{Address: created}}
	if !run("the creation", types.NewMessage(payerAddr, nil, 0, new(big.Int).SetUint64(endow), gasLimit, price, init, al, false), gasLimit) {
		return
	}
	to := common.NewAddressFromData(&rcpt)
	run("the transfer after it", types.NewMessage(payerAddr, &to, env.sdb.GetNonce(payer), big.NewInt(int64(1+rc.Intn(50))), 100_000, price, nil, types.AccessList{{Address: to}}, false), 100_000)
}

func evOneETX(o *h.Out, rc *h.Rng, ans func(string)) {
	pt := evPT(rc)
	eligible := !rc.Chance(20)
	env := newEvEnv(pt, big.NewInt(1), &eligible)
	c1 := evContract(1)
	inScope := rc.Chance(10)
	to := make([]byte, 20)
	copy(to, rc.Bytes(20))
	to[0] = 0x01
	if inScope {
		to[0] = 0x00
	}
	to[1] &= 0x7f
	value, gasLimit, tip, feeCap := u256(rc), u256(rc), u256(rc), u256(rc)
	if rc.Chance(70) {
		gasLimit = big.NewInt(int64(20998 + rc.Intn(5)))
		if rc.Chance(50) {
			gasLimit = big.NewInt(int64(21000 + rc.Intn(100000)))
		}
		tip, feeCap = big.NewInt(int64(rc.Intn(5))), big.NewInt(int64(rc.Intn(5)))
		value = big.NewInt(int64(rc.Intn(100000)))
		if rc.Chance(12) {
			// a gas-limit word beyond 64 bits whose low 64 bits alone would be a valid gas limit
			gasLimit = new(big.Int).Add(new(big.Int).Lsh(big.NewInt(int64(1+rc.Intn(3))), uint(64+rc.Intn(3)*64)), big.NewInt(int64(21000+rc.Intn(50000))))
		}
	}
	// balance around the total
	total := new(big.Int).Add(tip, feeCap)
	total.Mul(total, gasLimit).Add(total, value)
	total.Mod(total, new(big.Int).Lsh(big.NewInt(1), 256))
	balance := new(big.Int).Set(total)
	switch rc.Intn(4) {
	case 0:
		balance.Sub(balance, big.NewInt(1))
		if balance.Sign() < 0 {
			balance.SetInt64(0)
		}
	case 1:
		balance.Add(balance, big.NewInt(int64(rc.Intn(1000))))
	case 2:
		balance = u256(rc)
	}
	cacheLen := rc.Intn(3)
	if rc.Chance(4) {
		cacheLen = 65535 + rc.Intn(3)
	}
	alKind := rc.Intn(4) // 0 none, 1 valid, 2 malformed, 3 malformed-but-size-0
	var blob []byte
	alSize := 0
	switch alKind {
	case 1:
		blob, _ = rlp.EncodeToBytes(types.AccessList{})
		alSize = len(blob)
	case 2:
		blob = []byte{byte(rc.Intn(0x7f))}
		alSize = 1
	case 3:
		blob = []byte{0x00}
		alSize = 0
	}
	alOK := alKind != 2 // size 0 is never checked
	// contract: store blob at memory 64.., then ETX, then return the status word
	a := &asm{}
	if len(blob) > 0 {
		word := make([]byte, 32)
		copy(word, blob)
		a.pushB(word).pushN(64).op(vm.MSTORE)
	}
	a.pushN(uint64(alSize)).pushN(64).pushN(0).pushN(0).push(feeCap).push(tip).push(gasLimit).push(value).pushB(to).pushN(0).op(vm.ETX).returnTop()
	env.sdb.CreateAccount(c1)
	env.sdb.SetCode(c1, a.b)
	env.sdb.AddBalance(c1, balance)
	fillCache(env.evm, cacheLen)
	o.Op("etx %s inscope=%s value=%s gaslimit=%s tip=%s feecap=%s balance=%s cachelen=%d alok=%s alsize=%d eligible=%s", cfgLine(pt),
		b01(inScope), value, gasLimit, tip, feeCap, balance, cacheLen, b01(alOK), alSize, b01(eligible))
	ret, _, _, err := env.evm.Call(vm.AccountRef(common.NewAddressFromData(ptr(evContract(0xee)))), common.NewAddressFromData(&c1), nil, 5_000_000, new(big.Int))
	obs := evObserve(env, c1, balance, ret, err, cacheLen)
	ans(obs)
	aonOracle(o, "etx", obs, value, cacheLen, gasLimit, pt < params.SelfDestructRefundForkBlock)
}

func evOneConvert(o *h.Out, rc *h.Rng, ans func(string)) {
	pt := evPT(rc)
	eligible := true
	gasPrice := big.NewInt(int64(1 + rc.Intn(5)))
	if rc.Chance(10) {
		gasPrice = u256(rc)
	}
	env := newEvEnv(pt, gasPrice, &eligible)
	c1 := evContract(1)
	inScope, toQi := !rc.Chance(15), !rc.Chance(15)
	to := rc.Bytes(20)
	to[0] = 0x00
	if !inScope {
		to[0] = 0x01
	}
	to[1] |= 0x80
	if !toQi {
		to[1] &= 0x7f
	}
	value := new(big.Int).Add(params.MinQuaiConversionAmount, big.NewInt(int64(rc.Intn(1000))-2))
	if rc.Chance(15) {
		value = u256(rc)
	}
	gasLimit := big.NewInt(int64(20998 + rc.Intn(5)))
	if rc.Chance(50) {
		gasLimit = big.NewInt(int64(21000 + rc.Intn(100000)))
	}
	if rc.Chance(10) {
		gasLimit = u256(rc)
	} else if rc.Chance(10) {
		// a gas-limit word beyond 64 bits whose low 64 bits alone would be a valid gas limit
		gasLimit = new(big.Int).Add(new(big.Int).Lsh(big.NewInt(int64(1+rc.Intn(3))), uint(64+rc.Intn(3)*64)), big.NewInt(int64(21000+rc.Intn(50000))))
	}
	total := new(big.Int).Mul(gasPrice, gasLimit)
	total.Add(total, value).Mod(total, new(big.Int).Lsh(big.NewInt(1), 256))
	balance := new(big.Int).Set(total)
	switch rc.Intn(4) {
	case 0:
		balance.Sub(balance, big.NewInt(1))
		if balance.Sign() < 0 {
			balance.SetInt64(0)
		}
	case 1:
		balance.Add(balance, big.NewInt(int64(rc.Intn(1000))))
	}
	cacheLen := rc.Intn(3)
	if rc.Chance(4) {
		cacheLen = 65535 + rc.Intn(3)
	}
	a := &asm{}
	a.push(gasLimit).push(value).pushB(to).pushN(0).op(vm.CONVERT).returnTop()
	env.sdb.CreateAccount(c1)
	env.sdb.SetCode(c1, a.b)
	env.sdb.AddBalance(c1, balance)
	fillCache(env.evm, cacheLen)
	o.Op("conv %s inscope=%s toqi=%s value=%s gaslimit=%s gasprice=%s balance=%s cachelen=%d", cfgLine(pt), b01(inScope), b01(toQi), value, gasLimit, gasPrice, balance, cacheLen)
	ret, _, _, err := env.evm.Call(vm.AccountRef(common.NewAddressFromData(ptr(evContract(0xee)))), common.NewAddressFromData(&c1), nil, 5_000_000, new(big.Int))
	obs := evObserve(env, c1, balance, ret, err, cacheLen)
	ans(obs)
	aonOracle(o, "conv", obs, value, cacheLen, gasLimit, pt < params.SelfDestructRefundForkBlock)
}

// evOneCall: contract C1 performs CALL(gas, foreignAddr, value) and returns the CALL status.
func evOneCall(o *h.Out, rc *h.Rng, ans func(string)) {
	pt := evPT(rc)
	eligible := !rc.Chance(20)
	env := newEvEnv(pt, big.NewInt(1), &eligible)
	c1 := evContract(1)
	mode := rc.Intn(4) // 0 foreign quai, 1 own-zone qi (conversion), 2 foreign qi, 3 foreign quai
	to := rc.Bytes(20)
	inScope, toQi := false, false
	switch mode {
	case 1:
		to[0], inScope, toQi = 0x00, true, true
	case 2:
		to[0], toQi = 0x01, true
	default:
		to[0] = 0x01
	}
	to[1] &= 0x7f
	if toQi {
		to[1] |= 0x80
	}
	value := big.NewInt(int64(rc.Intn(100000)))
	if mode == 1 {
		value = new(big.Int).Add(params.MinQuaiConversionAmount, big.NewInt(int64(rc.Intn(1000))-2))
	}
	balance := new(big.Int).Add(value, big.NewInt(int64(rc.Intn(3))-1))
	if balance.Sign() < 0 {
		balance.SetInt64(0)
	}
	gas := uint64(41998 + rc.Intn(5))
	if rc.Chance(50) {
		gas = uint64(42000 + rc.Intn(100000))
	}
	if rc.Chance(10) {
		gas = uint64(rc.Intn(42000))
	}
	cacheLen := rc.Intn(3)
	if rc.Chance(4) {
		cacheLen = 65535 + rc.Intn(3)
	}
	// a contract's CALL opcode cannot reach a foreign address (gasCall rejects it); CreateETX is reached
	// from the top-level message call of a transaction whose To is out of scope.
	snd := evContract(0xee)
	env.sdb.CreateAccount(snd)
	env.sdb.AddBalance(snd, balance)
	fillCache(env.evm, cacheLen)
	o.Op("xcall %s inscope=%s toqi=%s value=%s gas=%d balance=%s cachelen=%d eligible=%s", cfgLine(pt), b01(inScope), b01(toQi), value, gas, balance, cacheLen, b01(eligible))
	_, _, _, err := env.evm.Call(vm.AccountRef(common.NewAddressFromData(&snd)), common.BytesToAddress(to, evLoc), nil, gas, value)
	ret := make([]byte, 32)
	if err == nil {
		ret[31] = 1
	}
	obs := evObserve(env, snd, balance, ret, nil, cacheLen)
	ans(obs)
	aonOracle(o, "xcall", obs, value, cacheLen, nil, false)
	_ = c1
}

// ---- frame trees -----------------------------------------------------------------------------

var evChildGas = map[int]uint64{1: 5_500_000, 2: 1_350_000, 3: 260_000}

type evNode struct {
	depth  int
	kind   vm.OpCode // how this frame is entered from its parent
	items  []any     // int (emit value v) | *evNode
	revert bool
	addr   int // contract index holding this node's code
	static bool
}

func evGenTree(rc *h.Rng, depth int, next *int, val *int, static bool) *evNode {
	nd := &evNode{addr: *next, static: static, depth: depth}
	*next++
	k := 1 + rc.Intn(4)
	for i := 0; i < k; i++ {
		if depth < 3 && *next < 9 && rc.Chance(40) {
			kinds := []vm.OpCode{vm.CALL, vm.DELEGATECALL, vm.CALLCODE, vm.STATICCALL}
			kd := kinds[rc.Intn(4)]
			if rc.Chance(40) {
				kd = vm.DELEGATECALL
			}
			ch := evGenTree(rc, depth+1, next, val, static || kd == vm.STATICCALL)
			ch.kind = kd
			nd.items = append(nd.items, ch)
		} else {
			*val++
			nd.items = append(nd.items, *val)
		}
	}
	nd.revert = rc.Chance(40)
	return nd
}

var evForeign = append([]byte{0x01, 0x05}, make([]byte, 18)...)

func evCompile(nd *evNode) []byte {
	a := &asm{}
	for _, it := range nd.items {
		switch x := it.(type) {
		case int:
			// ETX(value = x, gasLimit 21000, tip 0, feeCap 0); status popped
			a.pushN(0).pushN(0).pushN(0).pushN(0).pushN(0).pushN(0).pushN(21000).pushN(uint64(x)).pushB(evForeign).pushN(0).op(vm.ETX).op(vm.POP)
			// and a storage write that must vanish with the frame
			a.pushN(uint64(x)).pushN(uint64(x % 3)).op(vm.SSTORE)
		case *evNode:
			ca := evContract(x.addr)
			switch x.kind {
			case vm.CALL, vm.CALLCODE:
				a.pushN(0).pushN(0).pushN(0).pushN(0).pushN(0).pushB(ca[:]).pushN(evChildGas[x.depth]).op(x.kind).op(vm.POP)
			default:
				a.pushN(0).pushN(0).pushN(0).pushN(0).pushB(ca[:]).pushN(evChildGas[x.depth]).op(x.kind).op(vm.POP)
			}
		}
	}
	if nd.revert {
		a.pushN(0).pushN(0).op(vm.REVERT)
	} else {
		a.op(vm.STOP)
	}
	return a.b
}

func evAll(nd *evNode, f func(*evNode)) {
	f(nd)
	for _, it := range nd.items {
		if c, ok := it.(*evNode); ok {
			evAll(c, f)
		}
	}
}

// effective revert: explicit REVERT, or a write attempted in a static context (fails at the first write)
func evSerialize(nd *evNode, sb *strings.Builder) {
	sb.WriteString("(" + map[vm.OpCode]string{vm.CALL: "c", vm.DELEGATECALL: "d", vm.CALLCODE: "o", vm.STATICCALL: "s"}[nd.kind] + " ")
	failed := false
	for _, it := range nd.items {
		switch x := it.(type) {
		case int:
			if nd.static {
				failed = true
			}
			if !failed {
				fmt.Fprintf(sb, "e%d ", x)
			}
		case *evNode:
			if !failed {
				evSerialize(x, sb)
			}
		}
		if failed {
			break
		}
	}
	if nd.revert || failed {
		sb.WriteString(")r ")
	} else {
		sb.WriteString(")c ")
	}
}

func evTree(o *h.Out, rc *h.Rng, ans func(string)) {
	pt := params.SelfDestructRefundForkBlock + 10
	if rc.Bool() {
		pt = params.SelfDestructRefundForkBlock - 10
	}
	eligible := true
	env := newEvEnv(pt, big.NewInt(1), &eligible)
	next, val := 1, 0
	root := evGenTree(rc, 0, &next, &val, false)
	root.kind = vm.CALL
	evAll(root, func(nd *evNode) {
		ca := evContract(nd.addr)
		env.sdb.CreateAccount(ca)
		env.sdb.SetCode(ca, evCompile(nd))
		env.sdb.AddBalance(ca, big.NewInt(1_000_000))
	})
	var sb strings.Builder
	evSerialize(root, &sb)
	o.Op("tree %s", strings.TrimSpace(sb.String()))
	totalBefore := new(big.Int)
	for i := 1; i < next; i++ {
		totalBefore.Add(totalBefore, env.sdb.GetBalance(evContract(i)))
	}
	c1 := evContract(root.addr)
	_, _, _, err := env.evm.Call(vm.AccountRef(common.NewAddressFromData(ptr(evContract(0xee)))), common.NewAddressFromData(&c1), nil, 25_000_000, new(big.Int))
	_ = err
	var vals []string
	sum := new(big.Int)
	for i, x := range env.evm.ETXCache {
		vals = append(vals, x.Value().String())
		sum.Add(sum, x.Value())
		if int(x.ETXIndex()) != i {
			o.Violate("c05-etx-index-not-fresh", fmt.Sprintf("ETX %d carries index %d", i, x.ETXIndex()))
		}
	}
	totalAfter := new(big.Int)
	for i := 1; i < next; i++ {
		totalAfter.Add(totalAfter, env.sdb.GetBalance(evContract(i)))
	}
	res := fmt.Sprintf("%d", len(vals))
	if len(vals) > 0 {
		res += " " + strings.Join(vals, " ")
	}
	ans(res)
	// T3: what left the contracts' balances is exactly what the recorded ETXs carry (fee is 0 here)
	if d := new(big.Int).Sub(totalBefore, totalAfter); d.Cmp(sum) != 0 {
		o.Violate("c05-debit-not-equal-recorded-etx-value", fmt.Sprintf("contracts were debited %s in total but the outbound set carries %s (tree %s)", d, sum, sb.String()))
	}
}

// ---- value trees (C02): frames that move value, emit ETXs and self-destruct -------------------------------

const vRootDepth = 0

type vNode struct {
	kind   vm.OpCode
	value  int
	addr   int
	items  []any // int: emit value | -ben: selfdestruct to ben | *vNode
	revert bool
	depth  int
}

func vGen(rc *h.Rng, depth int, naddr int) *vNode {
	nd := &vNode{addr: 1 + rc.Intn(naddr), depth: depth}
	k := 1 + rc.Intn(4)
	for i := 0; i < k; i++ {
		switch x := rc.Intn(100); {
		case x < 35 && depth < 3:
			kinds := []vm.OpCode{vm.CALL, vm.CALL, vm.DELEGATECALL, vm.CALLCODE, vm.STATICCALL}
			ch := vGen(rc, depth+1, naddr)
			ch.kind = kinds[rc.Intn(len(kinds))]
			if (ch.kind == vm.CALL || ch.kind == vm.CALLCODE) && rc.Chance(70) {
				ch.value = rc.Intn(400)
			}
			nd.items = append(nd.items, ch)
		case x < 50:
			nd.items = append(nd.items, -(1 + rc.Intn(naddr))) // SELFDESTRUCT to some account (maybe itself)
		default:
			nd.items = append(nd.items, 1+rc.Intn(300))
		}
	}
	nd.revert = rc.Chance(30)
	return nd
}

// vCompile: code of one node; children are separate contracts holding their own code, called at their address
func vCompile(nd *vNode, codes map[*vNode]common.InternalAddress) []byte {
	a := &asm{}
	if nd.depth == vRootDepth && len(nd.items)%2 == 0 {
		// the root frame (never static) sets a storage slot and puts it back: the transaction ends with a non-zero
		// refund counter, which the gas settlement must hand back consistently
		a.pushN(5).pushN(7).op(vm.SSTORE).pushN(0).pushN(7).op(vm.SSTORE)
	}
	for _, it := range nd.items {
		switch x := it.(type) {
		case int:
			if x > 0 {
				a.pushN(0).pushN(0).pushN(0).pushN(0).pushN(0).pushN(0).pushN(21000).pushN(uint64(x)).pushB(evForeign).pushN(0).op(vm.ETX).op(vm.POP)
			} else {
				ben := evContract(-x)
				a.pushB(ben[:]).op(vm.SELFDESTRUCT)
			}
		case *vNode:
			ca := codes[x]
			gas := evChildGas[x.depth]
			switch x.kind {
			case vm.CALL, vm.CALLCODE:
				a.pushN(0).pushN(0).pushN(0).pushN(0).pushN(uint64(x.value)).pushB(ca[:]).pushN(gas).op(x.kind).op(vm.POP)
			default:
				a.pushN(0).pushN(0).pushN(0).pushN(0).pushB(ca[:]).pushN(gas).op(x.kind).op(vm.POP)
			}
		}
	}
	if nd.revert {
		a.pushN(0).pushN(0).op(vm.REVERT)
	} else {
		a.op(vm.STOP)
	}
	return a.b
}

func vSerialize(nd *vNode, sb *strings.Builder) {
	for _, it := range nd.items {
		switch x := it.(type) {
		case int:
			if x > 0 {
				fmt.Fprintf(sb, "e%d ", x)
			} else {
				fmt.Fprintf(sb, "x%d ", -x)
			}
		case *vNode:
			k := map[vm.OpCode]string{vm.CALL: "c", vm.DELEGATECALL: "d", vm.CALLCODE: "o", vm.STATICCALL: "s"}[x.kind]
			v := ""
			if x.kind == vm.CALL || x.kind == vm.CALLCODE {
				v = fmt.Sprint(x.value)
			}
			fmt.Fprintf(sb, "(%s%s@%d ", k, v, x.addr)
			vSerialize(x, sb)
			if x.revert {
				sb.WriteString(")r ")
			} else {
				sb.WriteString(")c ")
			}
		}
	}
}

func evValueTree(o *h.Out, rc *h.Rng, ans func(string)) {
	pt := params.SelfDestructRefundForkBlock + 10
	once := true
	if rc.Chance(30) {
		pt, once = params.SelfDestructRefundForkBlock-10, false
	}
	eligible := true
	env := newEvEnv(pt, big.NewInt(1), &eligible)
	naddr := 2 + rc.Intn(3)
	root := vGen(rc, 0, naddr)
	root.kind, root.addr, root.value = vm.CALL, 1, 0
	// every node gets its own account (addresses 1..k in creation order), so that an account's code is its node
	var nodes []*vNode
	var number func(nd *vNode)
	number = func(nd *vNode) {
		nodes = append(nodes, nd)
		nd.addr = len(nodes)
		for _, it := range nd.items {
			if c, ok := it.(*vNode); ok {
				number(c)
			}
		}
	}
	number(root)
	k := len(nodes)
	if k > 12 {
		return
	}
	// self-destruct beneficiaries range over the existing accounts
	for _, nd := range nodes {
		for i, it := range nd.items {
			if x, ok := it.(int); ok && x < 0 {
				nd.items[i] = -(1 + rc.Intn(k))
			}
		}
	}
	// directed: the last self-destruct of the tree pays an account that destroyed itself earlier in the transaction - a
	// destroyed account that holds value when the transaction ends (the second phase then sends it a transfer)
	revived := 0
	if rc.Chance(50) {
		type sd struct {
			nd *vNode
			i  int
		}
		var sds []sd
		for _, nd := range nodes { // creation order = execution order of the frames' first entries
			for i, it := range nd.items {
				if x, ok := it.(int); ok && x < 0 {
					sds = append(sds, sd{nd, i})
				}
			}
		}
		if len(sds) >= 2 && sds[0].nd != sds[len(sds)-1].nd {
			last := sds[len(sds)-1]
			last.nd.items[last.i] = -sds[0].nd.addr
			revived = sds[0].nd.addr
			o.Count("vtree:destroyed-account-paid-later")
		}
	}
	codes := map[*vNode]common.InternalAddress{}
	for _, nd := range nodes {
		codes[nd] = evContract(nd.addr)
	}
	var bals []string
	total := new(big.Int)
	for _, nd := range nodes {
		ca := evContract(nd.addr)
		env.sdb.CreateAccount(ca)
		env.sdb.SetCode(ca, vCompile(nd, codes))
		b := big.NewInt(int64(rc.Intn(1500)))
		env.sdb.AddBalance(ca, b)
		bals = append(bals, b.String())
		total.Add(total, b)
	}
	refund := new(big.Int).Mul(env.evm.Context.BaseFee, new(big.Int).SetUint64(params.CallNewAccountGas(env.evm.Context.QuaiStateSize)))
	var sb strings.Builder
	vSerialize(root, &sb)
	rv := ")c"
	if root.revert {
		rv = ")r"
	}
	o.Op("vtree refund=%s once=%s bal=%s (c0@1 %s%s", refund, b01(once), strings.Join(bals, ","), sb.String(), rv)
	c1 := evContract(1)
	viaMessage := rc.Bool()
	var msgEtxs []*types.Transaction
	payer := evContract(0xee)
	price := big.NewInt(int64(1 + rc.Intn(5)))
	gasLimit := uint64(25_000_000)
	payerBefore := new(big.Int).Mul(new(big.Int).SetUint64(gasLimit), big.NewInt(7))
	if viaMessage {
		// the whole transaction: buy gas, execute, refund (core.ApplyMessage)
		env.sdb.CreateAccount(payer)
		env.sdb.AddBalance(payer, payerBefore)
		env.evm.TxContext.GasPrice = price
		to := common.NewAddressFromData(&c1)
		var al types.AccessList // every contract the tree touches is declared, as a real transaction must
		for _, nd := range nodes {
			ca := evContract(nd.addr)
			al = append(al, types.AccessTuple{Address: common.NewAddressFromData(&ca)})
		}
		msg := types.NewMessage(common.NewAddressFromData(&payer), &to, 0, new(big.Int), gasLimit, price, nil, al, false)
		gp := new(types.GasPool).AddGas(gasLimit)
		res, err := core.ApplyMessage(env.evm, msg, gp)
		if err != nil {
			o.Violate("c02-applymessage-error", err.Error())
		} else {
			msgEtxs = res.Etxs
			charge := new(big.Int).Sub(payerBefore, env.sdb.GetBalance(payer))
			lo := new(big.Int).Mul(new(big.Int).SetUint64(res.UsedGas), price)
			hi := new(big.Int).Mul(new(big.Int).SetUint64(gasLimit), price)
			if os.Getenv("QVH_DEBUG") != "" {
				fmt.Fprintln(os.Stderr, "vtree msg: used", res.UsedGas, "refundctr", env.sdb.GetRefund(), "failed", res.Failed(), res.Err, "tree", sb.String())
			}
			if env.sdb.GetRefund() > 0 {
				o.Count("vtree:transaction-ends-with-refund-counter")
			}
			if charge.Cmp(lo) != 0 {
				// no tip and a fixed price: the payer is charged exactly the gas the result reports
				o.Violate("c02-gas-charge-not-gasused-x-price", fmt.Sprintf("payer charged %s, result reports gas used %d x price %s = %s (refund counter %d)", charge, res.UsedGas, price, lo, env.sdb.GetRefund()))
			}
			if want := gasLimit - res.UsedGas; gp.Gas() != want {
				o.Violate("c02-gas-pool-mismatch", fmt.Sprintf("block gas pool got %d back, gas limit - gas used = %d", gp.Gas(), want))
			}
			if charge.Cmp(lo) < 0 || charge.Cmp(hi) > 0 {
				o.Violate("c02-gas-charge-out-of-bounds", fmt.Sprintf("payer charged %s, gas used x price = %s, gas limit x price = %s", charge, lo, hi))
			}
			if res.Failed() {
				for i, nd := range nodes {
					if env.sdb.GetBalance(evContract(nd.addr)).String() != bals[i] {
						o.Violate("c02-failed-tx-changes-balances", fmt.Sprintf("tx failed (%v) but account %d went from %s to %s", res.Err, nd.addr, bals[i], env.sdb.GetBalance(evContract(nd.addr))))
					}
				}
			}
		}
		o.Count("vtree:via-applymessage")
	} else {
		env.evm.Call(vm.AccountRef(common.NewAddressFromData(&payer)), common.NewAddressFromData(&c1), nil, gasLimit, new(big.Int))
	}
	var after []string
	sum := new(big.Int)
	for _, nd := range nodes {
		b := env.sdb.GetBalance(evContract(nd.addr))
		after = append(after, b.String())
		sum.Add(sum, b)
	}
	var es []string
	esum := new(big.Int)
	emitted := env.evm.ETXCache
	if viaMessage {
		emitted = msgEtxs
	}
	for _, x := range emitted {
		snd := x.ETXSender().Bytes()
		es = append(es, fmt.Sprintf("%d:%s", snd[19], x.Value()))
		esum.Add(esum, x.Value())
	}
	ans(fmt.Sprintf("bal=%s etxs=%s", strings.Join(after, ","), strings.Join(es, ",")))
	// T3: the sum of balances plus what the ETXs carry never exceeds the sum before plus one refund per SELFDESTRUCT executed
	nsd := 0
	for _, nd := range nodes {
		for _, it := range nd.items {
			if x, ok := it.(int); ok && x < 0 {
				nsd++
			}
		}
	}
	bound := new(big.Int).Add(total, new(big.Int).Mul(refund, big.NewInt(int64(nsd))))
	if new(big.Int).Add(sum, esum).Cmp(bound) > 0 {
		o.Violate("c02-value-created", fmt.Sprintf("balances %s + ETX value %s exceed the %s held before plus %d refunds of %s", sum, esum, total, nsd, refund))
	}
	if nsd == 0 && new(big.Int).Add(sum, esum).Cmp(total) != 0 {
		o.Violate("c02-sum-not-conserved", fmt.Sprintf("without self-destructs: balances %s + ETX value %s != %s before", sum, esum, total))
	}
	// a second transaction on the same state (as in one block): plain transfers to accounts of the tree, also to ones
	// that destroyed themselves in the first transaction.  What a self-destructed account still held when the first
	// transaction ended is gone for good: a later transfer must not bring it back.
	env.sdb.Finalize(true)
	env.evm.ETXCache = nil // (the direct evm.Call path of the first phase leaves its ETXs in the cache)
	if !env.sdb.Exist(payer) {
		env.sdb.CreateAccount(payer)
	}
	env.sdb.AddBalance(payer, big.NewInt(1_000_000_000))
	env.evm.TxContext.GasPrice = price
	sumAll := func() *big.Int {
		t := new(big.Int).Set(env.sdb.GetBalance(payer))
		for _, nd := range nodes {
			t.Add(t, env.sdb.GetBalance(evContract(nd.addr)))
		}
		return t
	}
	for i, k := 0, 2+rc.Intn(4); i < k; i++ {
		nd := nodes[rc.Intn(len(nodes))]
		if revived != 0 && i == 0 {
			nd = nodes[revived-1]
		}
		ta := evContract(nd.addr)
		if len(env.sdb.GetCode(ta)) != 0 {
			continue // still a contract: running it again is the first phase's business (refunds, further ETXs)
		}
		to := common.NewAddressFromData(&ta)
		before, toBefore := sumAll(), new(big.Int).Set(env.sdb.GetBalance(ta))
		v := big.NewInt(int64(1 + rc.Intn(50)))
		msg := types.NewMessage(common.NewAddressFromData(&payer), &to, env.sdb.GetNonce(payer), v, 200_000, price, nil, types.AccessList{{Address: to}}, false)
		res, err := core.ApplyMessage(env.evm, msg, new(types.GasPool).AddGas(200_000))
		if err != nil {
			o.Count("second-tx:not-applied")
			continue
		}
		env.sdb.Finalize(true)
		charge := new(big.Int).Mul(new(big.Int).SetUint64(res.UsedGas), price)
		after := sumAll()
		for _, x := range res.Etxs {
			after.Add(after, x.Value())
		}
		if new(big.Int).Add(after, charge).Cmp(before) > 0 && os.Getenv("QVH_DEBUG") != "" {
			fmt.Fprintln(os.Stderr, "DBG second tx: v", v, "used", res.UsedGas, "price", price, "charge", charge, "payer", env.sdb.GetBalance(payer), "failed", res.Failed(), res.Err, "etxs", len(res.Etxs), "refundctr", env.sdb.GetRefund())
		}
		if new(big.Int).Add(after, charge).Cmp(before) != 0 {
			o.Violate("c02-later-transaction-creates-value", fmt.Sprintf("a transfer of %s to account %d (held %s before, %s after; failed=%v) in a second transaction: balances + gas charge went from %s to %s", v, nd.addr, toBefore, env.sdb.GetBalance(ta), res.Failed(), before, new(big.Int).Add(after, charge)))
		}
		o.Count("second-tx")
	}
}
