package main

// Area mem (C15): (b) interpreter memory vs. gas: one memory-growing opcode per program with sizes / offsets
// from 0 to 2^64-1, gas budgets from tiny to large; peak Memory.Len() observed through the Tracer.
// (a) structure-aware fuzzing of the wire decoders: valid messages with random sub-sets of fields cleared,
// truncated / bit-flipped encodings, through proto.Unmarshal + ProtoDecode of every view, under recover().

import (
	"bytes"
	"errors"
	"fmt"
	"math/big"
	"time"

	"verifharness/internal/h"

	"github.com/dominant-strategies/go-quai/common"
	"github.com/dominant-strategies/go-quai/core/types"
	"github.com/dominant-strategies/go-quai/core/vm"
	"github.com/dominant-strategies/go-quai/params"
	"google.golang.org/protobuf/proto"
	"google.golang.org/protobuf/reflect/protoreflect"
)

func init() { areas["mem"] = runMem }

type memTracer struct{ peak int }

func (t *memTracer) CaptureStart(*vm.EVM, common.Address, common.Address, bool, []byte, uint64, *big.Int) {
}
func (t *memTracer) CaptureState(env *vm.EVM, pc uint64, op vm.OpCode, gas, cost uint64, scope *vm.ScopeContext, rData []byte, depth int, err error, loc common.Location) {
	if scope != nil && scope.Memory != nil && scope.Memory.Len() > t.peak {
		t.peak = scope.Memory.Len()
	}
}
func (t *memTracer) CaptureFault(env *vm.EVM, pc uint64, op vm.OpCode, gas, cost uint64, scope *vm.ScopeContext, depth int, err error) {
	if scope != nil && scope.Memory != nil && scope.Memory.Len() > t.peak {
		t.peak = scope.Memory.Len()
	}
}
func (t *memTracer) CaptureEnd([]byte, uint64, time.Duration, error) {}

func memSize(rc *h.Rng) *big.Int {
	max64 := new(big.Int).SetUint64(^uint64(0))
	switch rc.Intn(14) {
	case 12:
		// the top half of the 256-bit range (negative when read as signed), with low 64 bits that look harmless
		return new(big.Int).Add(new(big.Int).Lsh(big.NewInt(1), 255), new(big.Int).SetUint64(uint64(rc.Intn(3))<<32+uint64(rc.Intn(64))))
	case 13:
		return new(big.Int).Sub(new(big.Int).Lsh(big.NewInt(1), 256), big.NewInt(int64(1+rc.Intn(40))))
	case 0:
		return new(big.Int)
	case 1:
		return big.NewInt(int64(1 + rc.Intn(64)))
	case 2:
		return new(big.Int).Sub(max64, big.NewInt(int64(rc.Intn(70)))) // the top of the uint64 range
	case 3:
		return new(big.Int).Add(max64, big.NewInt(int64(1+rc.Intn(3)))) // beyond uint64
	case 4:
		return new(big.Int).Lsh(big.NewInt(1), uint(20+rc.Intn(44)))
	case 5:
		return new(big.Int).SetUint64(0x1FFFFFFFE0 + uint64(rc.Intn(64)) - 32)
	}
	return big.NewInt(int64(rc.Intn(5000)))
}

func memCostGo(words uint64) uint64 { return words*3 + words*words/512 }

func runMem(seed uint64, n int, outDir string, replay string) {
	vm.InitializePrecompiles(evLoc)
	o := h.NewOut(outDir, "mem")
	r := h.NewRng(seed)
	ans := func(s string) { o.Ans("impl", "%s", s) }
	for c := 0; c < n; c++ {
		rc := r.Fork()
		o.NewCase()
		o.Op("newcase")
		ans("ok")
		func() {
			defer func() {
				if p := recover(); p != nil {
					o.Violate("c15-panic", fmt.Sprintf("panic: %v at %s", p, stackTop()))
					o.Pad("panic %v", p)
				}
			}()
			switch rc.Intn(12) {
			case 0, 1, 2:
				memModelled(o, rc, ans)
			case 3, 4, 5, 6:
				memAnyOp(o, rc, ans)
			case 10, 11:
				memCopySrc(o, rc, ans)
			default:
				fuzzDecoders(o, rc, ans)
			}
		}()
		o.EndCase(fmt.Sprint(rc.U64()), true)
	}
	o.Close(nil)
}

func memEnv(tr *memTracer) *evEnv {
	eligible := true
	env := newEvEnv(params.SelfDestructRefundForkBlock+10, big.NewInt(1), &eligible)
	cfg := *params.ProgpowColosseumChainConfig
	cfg.Location = evLoc
	bctx := env.evm.Context
	bctx.BlockNumber = big.NewInt(params.MaxCodeSizeForkHeight + 10) // past the height that enables the newer opcodes (MCOPY, ...)
	env.evm = vm.NewEVM(bctx, env.evm.TxContext, env.sdb, &cfg, vm.Config{Debug: true, Tracer: tr}, nil)
	return env
}

// memModelled: MSTORE / MSTORE8 / MLOAD sequences whose whole gas is known, compared with the model (T2)
func memModelled(o *h.Out, rc *h.Rng, ans func(string)) {
	tr := &memTracer{}
	env := memEnv(tr)
	a := &asm{}
	var items []string
	k := 1 + rc.Intn(4)
	for i := 0; i < k; i++ {
		off := memSize(rc)
		if off.BitLen() > 64 {
			off = new(big.Int).SetUint64(^uint64(0))
		}
		switch rc.Intn(3) {
		case 0:
			a.pushN(7).push(off).op(vm.MSTORE)
			items = append(items, fmt.Sprintf("%s:1:9", new(big.Int).Add(off, big.NewInt(32))))
		case 1:
			a.pushN(7).push(off).op(vm.MSTORE8)
			items = append(items, fmt.Sprintf("%s:1:9", new(big.Int).Add(off, big.NewInt(1))))
		default:
			a.push(off).op(vm.MLOAD).op(vm.POP)
			items = append(items, fmt.Sprintf("%s:1:8", new(big.Int).Add(off, big.NewInt(32))))
		}
	}
	a.op(vm.STOP)
	gas := uint64(rc.Intn(3000))
	if rc.Chance(40) {
		gas = uint64(rc.Intn(2_000_000))
	}
	c1 := evContract(1)
	env.sdb.CreateAccount(c1)
	env.sdb.SetCode(c1, a.b)
	line := fmt.Sprintf("memrun %d", gas)
	for _, it := range items {
		line += " " + it
	}
	o.Op("%s", line)
	_, _, _, err := env.evm.Call(vm.AccountRef(common.NewAddressFromData(ptr(evContract(0xee)))), common.NewAddressFromData(&c1), nil, gas, new(big.Int))
	if err != nil {
		ans("oog")
	} else {
		ans(fmt.Sprintf("ok words=%d", tr.peak/32))
	}
}

// memAnyOp: every memory-growing opcode with boundary sizes; T3: memory is paid for, nothing panics
func memAnyOp(o *h.Out, rc *h.Rng, ans func(string)) {
	tr := &memTracer{}
	env := memEnv(tr)
	a := &asm{}
	off, size := memSize(rc), memSize(rc)
	to := make([]byte, 20)
	to[0] = 0x00
	to[19] = 2
	ops := []string{"MLOAD", "MSTORE", "MSTORE8", "SHA3", "CALLDATACOPY", "CODECOPY", "RETURNDATACOPY", "EXTCODECOPY", "MCOPY", "LOG0", "LOG2", "CREATE", "CREATE2", "CALL", "CALLCODE", "DELEGATECALL", "STATICCALL", "RETURN", "REVERT", "ETX"}
	name := ops[rc.Intn(len(ops))]
	if rc.Chance(15) {
		// an empty range far away: nothing has to be paid for it, and nothing may be touched for it either
		switch name {
		case "SHA3", "LOG0", "LOG2", "CREATE", "CREATE2", "CALL", "CALLCODE", "DELEGATECALL", "STATICCALL", "RETURN", "REVERT", "CALLDATACOPY", "CODECOPY", "EXTCODECOPY":
			size = new(big.Int)
			off = []*big.Int{new(big.Int).Lsh(big.NewInt(1), 63), new(big.Int).Add(new(big.Int).Lsh(big.NewInt(1), 63), big.NewInt(int64(rc.Intn(1000)))),
				new(big.Int).SetUint64(^uint64(0)), new(big.Int).Lsh(big.NewInt(1), 255), new(big.Int).Sub(new(big.Int).Lsh(big.NewInt(1), 256), big.NewInt(1)),
				new(big.Int).Add(new(big.Int).Lsh(big.NewInt(1), 64), new(big.Int).Lsh(big.NewInt(1), 63))}[rc.Intn(6)]
			o.Count("memop:empty-range-far-away")
		}
	}
	switch name {
	case "MLOAD":
		a.push(off).op(vm.MLOAD)
	case "MSTORE":
		a.pushN(1).push(off).op(vm.MSTORE)
	case "MSTORE8":
		a.pushN(1).push(off).op(vm.MSTORE8)
	case "SHA3":
		a.push(size).push(off).op(vm.SHA3)
	case "CALLDATACOPY":
		a.push(size).pushN(0).push(off).op(vm.CALLDATACOPY)
	case "CODECOPY":
		a.push(size).pushN(0).push(off).op(vm.CODECOPY)
	case "RETURNDATACOPY":
		if rc.Bool() {
			a.push(size).pushN(0).push(off).op(vm.RETURNDATACOPY)
		} else {
			// with 32 bytes of return data from a previous call: the data offset and length are checked against it,
			// also when their sum wraps around 2^64 or 2^256
			name += "+data"
			env.sdb.CreateAccount(evContract(2))
			env.sdb.SetCode(evContract(2), (&asm{}).pushN(7).returnTop().b)
			a.pushN(0).pushN(0).pushN(0).pushN(0).pushB(to).pushN(50000).op(vm.STATICCALL).op(vm.POP)
			dataOff := memSize(rc)
			if rc.Chance(40) {
				dataOff = big.NewInt(int64(rc.Intn(34)))
			}
			ln := big.NewInt(int64(rc.Intn(40)))
			if rc.Chance(20) {
				ln = memSize(rc)
			}
			a.push(ln).push(dataOff).pushN(uint64(rc.Intn(64))).op(vm.RETURNDATACOPY)
		}
	case "EXTCODECOPY":
		a.push(size).pushN(0).push(off).pushB(to).op(vm.EXTCODECOPY)
	case "MCOPY":
		src := memSize(rc)
		if rc.Chance(50) {
			// one end far away (top of the 64-bit range, top half of the 256-bit range), the other near, a short length:
			// the far end decides what has to be paid for
			far := []*big.Int{new(big.Int).Lsh(big.NewInt(1), 255), new(big.Int).Add(new(big.Int).Lsh(big.NewInt(1), 255), big.NewInt(1<<32)),
				new(big.Int).Sub(new(big.Int).Lsh(big.NewInt(1), 256), big.NewInt(1)), new(big.Int).Lsh(big.NewInt(1), 64), new(big.Int).SetUint64(^uint64(0) - 31)}[rc.Intn(5)]
			near := big.NewInt(int64(rc.Intn(128)))
			size = big.NewInt(int64(1 + rc.Intn(64)))
			if rc.Bool() {
				off, src = far, near
			} else {
				off, src = near, far
			}
			name += "+far"
		}
		a.push(size).push(src).push(off).op(vm.MCOPY)
	case "LOG0":
		a.push(size).push(off).op(vm.LOG0)
	case "LOG2":
		a.pushN(1).pushN(2).push(size).push(off).op(vm.LOG2)
	case "CREATE":
		a.push(size).push(off).pushN(0).op(vm.CREATE)
	case "CREATE2":
		a.pushN(5).push(size).push(off).pushN(0).op(vm.CREATE2)
	case "CALL", "CALLCODE":
		oc := vm.CALL
		if name == "CALLCODE" {
			oc = vm.CALLCODE
		}
		// with and without value: a value-carrying CALL to an account that does not exist yet also pays for the new
		// account, on top of the memory its in / out regions need (sizes capped: were the memory fee missing the
		// region would really be allocated)
		val := uint64(rc.Intn(2))
		if val != 0 {
			capm := big.NewInt(1 << 24)
			size, off = new(big.Int).Mod(size, capm), new(big.Int).Mod(off, capm)
			name += "+value"
		}
		if rc.Bool() {
			a.pushN(0).pushN(0).push(size).push(off).pushN(val).pushB(to).pushN(1000).op(oc)
		} else {
			a.push(size).push(off).pushN(0).pushN(0).pushN(val).pushB(to).pushN(1000).op(oc)
		}
	case "DELEGATECALL", "STATICCALL":
		oc := vm.DELEGATECALL
		if name == "STATICCALL" {
			oc = vm.STATICCALL
		}
		if rc.Bool() {
			a.pushN(0).pushN(0).push(size).push(off).pushB(to).pushN(1000).op(oc)
		} else {
			a.push(size).push(off).pushN(0).pushN(0).pushB(to).pushN(1000).op(oc)
		}
	case "RETURN":
		a.push(size).push(off).op(vm.RETURN)
	case "REVERT":
		a.push(size).push(off).op(vm.REVERT)
	case "ETX":
		foreign := append([]byte{0x01, 0x05}, make([]byte, 18)...)
		if rc.Bool() {
			a.pushN(0).pushN(0).push(size).push(off).pushN(0).pushN(0).pushN(21000).pushN(1).pushB(foreign).pushN(0).op(vm.ETX)
		} else {
			a.push(size).push(off).pushN(0).pushN(0).pushN(0).pushN(0).pushN(21000).pushN(1).pushB(foreign).pushN(0).op(vm.ETX)
		}
	}
	a.op(vm.STOP)
	c1 := evContract(1)
	env.sdb.CreateAccount(c1)
	env.sdb.SetCode(c1, a.b)
	env.sdb.AddBalance(c1, big.NewInt(1_000_000))
	gas := uint64(30000 + rc.Intn(300000))
	if name == "ETX" && size.Sign() != 0 && (size.BitLen() > 26 || off.BitLen() > 26) {
		// ETX memory expansion is not metered (finding S5): a huge request would really be allocated (or abort the
		// process with a runtime fatal error). 64 MiB shows the missing charge without exhausting the sandbox.
		size = big.NewInt(1 << 26)
		a = &asm{}
		foreign := append([]byte{0x01, 0x05}, make([]byte, 18)...)
		a.pushN(0).pushN(0).push(size).pushN(0).pushN(0).pushN(0).pushN(21000).pushN(1).pushB(foreign).pushN(0).op(vm.ETX).op(vm.STOP)
		env.sdb.SetCode(c1, a.b)
	}
	o.Op("note")
	ans("ok")
	o.Count("memop:" + name)
	_, left, _, err := env.evm.Call(vm.AccountRef(common.NewAddressFromData(ptr(evContract(0xee)))), common.NewAddressFromData(&c1), nil, gas, new(big.Int))
	used := gas - left
	words := uint64(tr.peak / 32)
	if memCostGo(words) > used {
		o.Violate("c15-memory-not-paid:"+name, fmt.Sprintf("%s grew memory to %d words (cost %d) while the frame used %d gas (err=%v, size=%s off=%s)", name, words, memCostGo(words), used, err, size, off))
	}
	_ = errors.Is
}

// memCopySrc: the data-reading opcodes (CALLDATALOAD, CALLDATACOPY, CODECOPY, EXTCODECOPY) with any source offset -
// inside the data, straddling its end, at the top of the uint64 range, beyond it.  T3: the bytes delivered are the
// window [off, off+size) of the source, zero-padded where it runs past the end (a bound that wraps around must not
// read other bytes, and must not abort the node).
func memCopySrc(o *h.Out, rc *h.Rng, ans func(string)) {
	tr := &memTracer{}
	env := memEnv(tr)
	srcLen := rc.Intn(80)
	src := make([]byte, srcLen)
	for i := range src {
		src[i] = byte(1 + rc.Intn(255))
	}
	var off *big.Int
	switch rc.Intn(6) {
	case 0:
		off = big.NewInt(int64(rc.Intn(srcLen + 1)))
	case 1:
		off = big.NewInt(int64(srcLen + rc.Intn(40)))
	case 2:
		off = new(big.Int).Sub(new(big.Int).SetUint64(^uint64(0)), big.NewInt(int64(rc.Intn(70))))
	case 3:
		off = new(big.Int).Add(new(big.Int).SetUint64(^uint64(0)), big.NewInt(int64(1+rc.Intn(3))))
	case 4:
		off = new(big.Int).Lsh(big.NewInt(1), uint(8+rc.Intn(248)))
	default:
		off = memSize(rc)
	}
	size := uint64(rc.Intn(70))
	ops := []string{"CALLDATALOAD", "CALLDATACOPY", "CODECOPY", "EXTCODECOPY"}
	name := ops[rc.Intn(len(ops))]
	a := &asm{}
	var calldata, source []byte
	ext := evContract(2)
	switch name {
	case "CALLDATALOAD":
		size = 32
		calldata, source = src, src
		a.push(off).op(vm.CALLDATALOAD).pushN(0).op(vm.MSTORE)
	case "CALLDATACOPY":
		calldata, source = src, src
		a.pushN(size).push(off).pushN(0).op(vm.CALLDATACOPY)
	case "EXTCODECOPY":
		env.sdb.CreateAccount(ext)
		env.sdb.SetCode(ext, src)
		source = src
		a.pushN(size).push(off).pushN(0).pushB(ext.Bytes()).op(vm.EXTCODECOPY)
	}
	if name == "CODECOPY" {
		a.pushN(size).push(off).pushN(0).op(vm.CODECOPY)
	}
	a.pushN(size).pushN(0).op(vm.RETURN)
	if name == "CODECOPY" {
		source = a.b
	}
	c1 := evContract(1)
	env.sdb.CreateAccount(c1)
	env.sdb.SetCode(c1, a.b)
	o.Op("note")
	ans("ok")
	o.Count("memsrc:" + name)
	ret, _, _, err := env.evm.Call(vm.AccountRef(common.NewAddressFromData(ptr(evContract(0xee)))), common.NewAddressFromData(&c1), calldata, 200000, new(big.Int))
	if err != nil {
		o.Violate("c15-data-copy-fails:"+name, fmt.Sprintf("%s of %d bytes from source offset %s (source length %d): %v", name, size, off, len(source), err))
		return
	}
	want := make([]byte, size)
	if off.IsUint64() && off.Uint64() < uint64(len(source)) {
		copy(want, source[off.Uint64():])
		o.Count("memsrc-inside")
	} else {
		o.Count("memsrc-beyond")
	}
	if !bytes.Equal(ret, want) {
		o.Violate("c15-data-copy-wrong-window:"+name, fmt.Sprintf("%s of %d bytes from source offset %s (source length %d) delivers %x, the zero-padded window is %x", name, size, off, len(source), ret, want))
	}
}

// ---- (a) decoder fuzzing -------------------------------------------------------------------------------

// clearRandomFields walks a message and clears a random subset of its populated fields (recursively).
func clearRandomFields(rc *h.Rng, m protoreflect.Message, p int) {
	m.Range(func(fd protoreflect.FieldDescriptor, v protoreflect.Value) bool {
		if rc.Chance(p) {
			m.Clear(fd)
			return true
		}
		if fd.Kind() == protoreflect.MessageKind {
			if fd.IsList() {
				l := v.List()
				for i := 0; i < l.Len(); i++ {
					clearRandomFields(rc, l.Get(i).Message(), p)
				}
			} else if !fd.IsMap() {
				clearRandomFields(rc, v.Message(), p)
			}
		} else if fd.Kind() == protoreflect.BytesKind && !fd.IsList() && rc.Chance(p) {
			b := v.Bytes()
			switch rc.Intn(3) {
			case 0:
				m.Set(fd, protoreflect.ValueOfBytes(b[:len(b)/2]))
			case 1:
				m.Set(fd, protoreflect.ValueOfBytes(append(append([]byte(nil), b...), rc.Bytes(1+rc.Intn(40))...)))
			default:
				m.Set(fd, protoreflect.ValueOfBytes([]byte{}))
			}
		}
		return true
	})
}

func fuzzDecoders(o *h.Out, rc *h.Rng, ans func(string)) {
	o.Op("note")
	ans("ok")
	loc := common.Location{byte(rc.Intn(2)), byte(rc.Intn(2))}
	try := func(kind string, f func()) {
		defer func() {
			if p := recover(); p != nil {
				o.Violate("c15-decoder-panic:"+kind, fmt.Sprintf("%s decoder panics: %v at %s", kind, p, stackTop()))
			}
		}()
		f()
		o.Count("fuzz:" + kind)
	}
	switch rc.Intn(5) {
	case 0, 1:
		p := genTxParams(rc)
		tx := p.build()
		pb, err := tx.ProtoEncode()
		if err != nil {
			return
		}
		clearRandomFields(rc, pb.ProtoReflect(), 12)
		raw, _ := proto.Marshal(pb)
		raw = mutateBytes(rc, raw)
		try("transaction", func() {
			m := new(types.ProtoTransaction)
			if proto.Unmarshal(raw, m) == nil {
				t := new(types.Transaction)
				if t.ProtoDecode(m, loc) == nil {
					t.Hash(loc...)
					t.Size()
				}
			}
		})
	case 2:
		hd := types.EmptyHeader()
		fuzzSetters(rc, hd, loc)
		pb, err := hd.ProtoEncode()
		if err != nil {
			return
		}
		clearRandomFields(rc, pb.ProtoReflect(), 10)
		raw, _ := proto.Marshal(pb)
		raw = mutateBytes(rc, raw)
		try("header", func() {
			m := new(types.ProtoHeader)
			if proto.Unmarshal(raw, m) == nil {
				x := new(types.Header)
				if x.ProtoDecode(m, loc) == nil {
					x.Hash()
				}
			}
		})
	default:
		// a work object in every view
		wo := types.EmptyWorkObject(common.ZONE_CTX)
		fuzzSetters(rc, wo.Header(), loc)
		wo.WorkObjectHeader().SetLocation(loc)
		wo.WorkObjectHeader().SetPrimaryCoinbase(cAddr(rc, loc))
		var txs types.Transactions
		for i := rc.Intn(3); i > 0; i-- {
			txs = append(txs, genTxParams(rc).build())
		}
		wo.Body().SetTransactions(txs)
		view := []types.WorkObjectView{types.BlockObject, types.HeaderObject, types.PEtxObject, types.WorkShareObject, types.WorkShareTxObject}[rc.Intn(5)]
		pb, err := wo.ProtoEncode(view)
		if err != nil {
			return
		}
		clearRandomFields(rc, pb.ProtoReflect(), 8)
		raw, _ := proto.Marshal(pb)
		raw = mutateBytes(rc, raw)
		dview := view
		if rc.Chance(20) {
			dview = []types.WorkObjectView{types.BlockObject, types.HeaderObject, types.PEtxObject, types.WorkShareObject, types.WorkShareTxObject}[rc.Intn(5)]
		}
		try(fmt.Sprintf("workobject-view%d", dview), func() {
			m := new(types.ProtoWorkObject)
			if proto.Unmarshal(raw, m) == nil {
				x := new(types.WorkObject)
				if x.ProtoDecode(m, loc, dview) == nil {
					x.Hash()
				}
			}
		})
	}
}

func mutateBytes(rc *h.Rng, b []byte) []byte {
	if len(b) == 0 || rc.Chance(50) {
		return b
	}
	b = append([]byte(nil), b...)
	switch rc.Intn(4) {
	case 0:
		return b[:rc.Intn(len(b))]
	case 1:
		b[rc.Intn(len(b))] ^= 1 << uint(rc.Intn(8))
	case 2:
		i := rc.Intn(len(b))
		b = append(b[:i], append(rc.Bytes(1+rc.Intn(8)), b[i:]...)...)
	default:
		i := rc.Intn(len(b))
		j := i + rc.Intn(len(b)-i)
		b = append(b[:i], b[j:]...)
	}
	return b
}
