package main

// Zone chain harness: a real core.Slice for zone [0,0] with a real (cheap) blake3pow engine at local difficulty;
// blocks are assembled by the real worker, mined here to the full target, and appended with the harness playing
// the dominant chains (domOrigin = true).  Serves the chain-level areas (C06, C07, C08, C09, C10, C11).

import (
	"fmt"
	"math/big"
	"os"
	"time"

	"github.com/dominant-strategies/go-quai/common"
	"github.com/dominant-strategies/go-quai/consensus"
	"github.com/dominant-strategies/go-quai/consensus/blake3pow"
	"github.com/dominant-strategies/go-quai/core"
	"github.com/dominant-strategies/go-quai/core/rawdb"
	"github.com/dominant-strategies/go-quai/core/types"
	"github.com/dominant-strategies/go-quai/core/vm"
	"github.com/dominant-strategies/go-quai/ethdb"
	"github.com/dominant-strategies/go-quai/ethdb/memorydb"
	"github.com/dominant-strategies/go-quai/log"
	"github.com/dominant-strategies/go-quai/params"
)

type zoneNode struct {
	db      ethdb.Database
	cr      *core.Core
	sl      *core.Slice
	hc      *core.HeaderChain
	eng     consensus.Engine
	ghash   common.Hash
	loc     common.Location
	genesis *core.Genesis
	opts    zoneOpts
	// what the miner puts into the next header (all of it is the miner's free choice)
	nextDt       uint64
	nextData     []byte
	nextCoinbase common.Address
	h            *hier // set when the zone is the bottom of a real prime / region / zone hierarchy
	wantShare    bool  // also submit a work share (a weaker sealing of the same pending header) to the node
	shares       int
}

// zoneOpts: the node configuration dimensions the chain-level properties quantify over
type zoneOpts struct {
	snapshots   bool                    // snapshot-backed state reads
	index       bool                    // IndexAddressUtxos (address -> outpoints index)
	allocs      []params.GenesisAccount // balances released at block 1 (state.AddLockedBalances)
	genesisTime uint64
	reopen      bool // the database already holds a chain: no genesis pending header
}

var chainCoinbase = common.HexToAddress("0x0012345678901234567890123456789012345678", common.Location{0, 0})

// chainGenesisTime is fixed per process so that every node of a run shares the genesis block
var chainGenesisTime = uint64(time.Now().Unix()) - 40_000_000

func newZoneNode(db ethdb.Database, opts ...zoneOpts) (*zoneNode, error) {
	var o zoneOpts
	if len(opts) > 0 {
		o = opts[0]
	}
	loc := common.Location{0, 0}
	logger := log.Global
	gen := core.DefaultLocalGenesisBlock("blake3", 0, nil)
	gen.Difficulty = big.NewInt(3000)
	gen.Timestamp = chainGenesisTime
	if o.genesisTime != 0 {
		gen.Timestamp = o.genesisTime
	}
	cfg0, ghash, err := core.SetupGenesisBlock(db, gen, 0, nil, loc, logger)
	if err != nil {
		return nil, fmt.Errorf("genesis: %w", err)
	}
	chainCfg := params.ChainConfig{ChainID: cfg0.ChainID, ConsensusEngine: cfg0.ConsensusEngine, Blake3Pow: cfg0.Blake3Pow, Progpow: cfg0.Progpow, Location: loc, IndexAddressUtxos: o.index}
	chainCfg.DefaultGenesisHash = ghash
	pow := params.PowConfig{PowMode: params.ModeNormal, DurationLimit: params.LocalDurationLimit, GasCeil: params.LocalGasCeil, MinDifficulty: big.NewInt(1000), NodeLocation: loc, WorkShareThreshold: 3, NumThreads: 1, GenAllocs: o.allocs}
	// slot 0 is the engine of headers without AuxPoW; slot Kawpow is only dereferenced by the address index
	eng := make([]consensus.Engine, params.TotalPowEngines)
	eng[0] = blake3pow.New(pow, nil, false, logger)
	eng[types.Kawpow] = eng[0]
	mcfg := &core.Config{QuaiCoinbase: chainCoinbase, QiCoinbase: chainCoinbase, GasCeil: params.LocalGasCeil, GasPrice: big.NewInt(1), Recommit: time.Hour, ExtraData: []byte("verif")}
	tcfg := core.DefaultTxPoolConfig
	tcfg.Journal = ""
	var lim uint64
	snapLimit := 0
	if o.snapshots {
		snapLimit = 16
	}
	cr, err := core.NewCore(db, mcfg, pow, &tcfg, &lim, &chainCfg, []common.Location{loc}, 0, nil, eng, &core.CacheConfig{TrieCleanLimit: 16, TrieDirtyLimit: 16, TrieTimeLimit: time.Minute, SnapshotLimit: snapLimit}, vm.Config{}, gen, logger)
	if err != nil {
		return nil, fmt.Errorf("slice: %w", err)
	}
	sl := cr.Slice()
	n := &zoneNode{db: db, cr: cr, sl: sl, hc: sl.HeaderChain(), eng: eng[0], ghash: ghash, loc: loc, genesis: gen, opts: o, nextDt: 1, nextCoinbase: chainCoinbase}
	if !o.reopen {
		if err := sl.NewGenesisPendingHeader(types.EmptyWorkObject(common.ZONE_CTX), ghash, ghash); err != nil {
			return nil, fmt.Errorf("genesis pending header: %w", err)
		}
	}
	return n, nil
}

// mine seals the pending header to its full target with the real engine's hash function.
func (n *zoneNode) mine(ph *types.WorkObject, wantOrder int) *types.WorkObject {
	before := ph.WorkObjectHeader().SealHash()
	defer func() {
		if ph.WorkObjectHeader().SealHash() != before && os.Getenv("QVH_DEBUG") != "" {
			fmt.Fprintf(os.Stderr, "sealhash changed by mine(): loc=%v sha=%v scr=%v sst=%v kd=%v data=%x\n", ph.WorkObjectHeader().Location(), ph.WorkObjectHeader().ShaDiffAndCount(), ph.WorkObjectHeader().ScryptDiffAndCount(), ph.WorkObjectHeader().ShaShareTarget(), ph.WorkObjectHeader().KawpowDifficulty(), ph.WorkObjectHeader().Data())
		}
	}()
	ph.WorkObjectHeader().SetLocation(n.loc)
	ph.WorkObjectHeader().SetAuxPow(nil)
	// the timestamp (>= parent's, not in the future) and the data field (lock byte, lockup contract, beneficiary)
	// are the miner's choice; nothing executed in the block reads them
	if parent := n.hc.GetHeaderByHash(ph.ParentHash(common.ZONE_CTX)); parent != nil {
		ph.WorkObjectHeader().SetTime(parent.Time() + n.nextDt)
	}
	if n.nextData != nil {
		ph.WorkObjectHeader().SetData(n.nextData)
	}
	if ph.WorkObjectHeader().PrimeTerminusNumber().Uint64() < params.KawPowForkBlock {
		// before the KawPow fork these fields do not exist (the dom part of the pending header leaves them unset)
		ph.WorkObjectHeader().SetShaDiffAndCount(types.NewPowShareDiffAndCount(nil, nil, nil))
		ph.WorkObjectHeader().SetScryptDiffAndCount(types.NewPowShareDiffAndCount(nil, nil, nil))
		ph.WorkObjectHeader().SetShaShareTarget(nil)
		ph.WorkObjectHeader().SetScryptShareTarget(nil)
		ph.WorkObjectHeader().SetKawpowDifficulty(nil)
	}
	target := new(big.Int).Div(common.Big2e256, ph.Difficulty())
	for nonce := uint64(0); ; nonce++ {
		ph.WorkObjectHeader().SetNonce(types.EncodeNonce(nonce))
		h, _ := n.eng.ComputePowHash(ph.WorkObjectHeader())
		if new(big.Int).SetBytes(h.Bytes()).Cmp(target) <= 0 {
			// a zone-only node cannot extend a block that is also a region / prime block (that needs the
			// dominant chains); a miner is free to skip such nonces
			if _, order, err := n.hc.CalcOrder(ph); err == nil && order == wantOrder {
				return ph
			}
		}
	}
}

// nextBlock asks the real worker for a pending header on top of the current head, mines and constructs the block.
func (n *zoneNode) nextBlock(wantOrder int) (*types.WorkObject, error) {
	if n.h != nil {
		n.h.nextDt, n.h.nextCoinbase, n.h.nextData = n.nextDt, n.nextCoinbase, n.nextData
		return n.h.next(wantOrder)
	}
	head := n.hc.CurrentHeader()
	zph, err := n.sl.GeneratePendingHeader(head, true)
	if err != nil {
		return nil, fmt.Errorf("pending header: %w", err)
	}
	if _, order, _ := n.hc.CalcOrder(head); order == common.REGION_CTX && !n.hc.IsGenesisHash(head.Hash()) {
		// the head is a region block: the harness plays the region chain and derives the region part of the
		// pending header the way the region's worker does (core/worker.go prepareWork with nodeCtx = REGION)
		best := types.CopyWorkObject(n.sl.ReadBestPh())
		rph := types.CopyWorkObject(best)
		rph.SetParentHash(head.Hash(), common.REGION_CTX)
		rph.SetNumber(new(big.Int).Add(head.Number(common.REGION_CTX), big.NewInt(1)), common.REGION_CTX)
		rph.Header().SetParentEntropy(n.hc.TotalLogEntropy(head), common.REGION_CTX)
		rph.Header().SetParentDeltaEntropy(n.hc.DeltaLogEntropy(head), common.REGION_CTX)
		rph.Header().SetParentUncledDeltaEntropy(n.hc.UncledDeltaLogEntropy(head), common.REGION_CTX)
		n.sl.MakeFullPendingHeader(best, rph, zph)
		return n.finishBlock(wantOrder)
	}
	// the harness plays the coordinator: the prime / region parts of the pending header stay those of the last
	// best pending header (no zone block made here is coincident with a dominant chain)
	best := types.CopyWorkObject(n.sl.ReadBestPh())
	n.sl.MakeFullPendingHeader(best, types.CopyWorkObject(best), zph)
	return n.finishBlock(wantOrder)
}

func (n *zoneNode) finishBlock(wantOrder int) (*types.WorkObject, error) {
	ph, err := n.sl.GetPendingHeader(types.Progpow, n.nextCoinbase)
	if err != nil {
		return nil, fmt.Errorf("get pending header: %w", err)
	}
	tm := time.Now()
	sealed := n.mine(ph, wantOrder)
	if os.Getenv("QVH_DEBUG") != "" {
		fmt.Fprintln(os.Stderr, "mine took", time.Since(tm))
	}
	if n.wantShare {
		n.wantShare = false
		n.submitShare(ph, sealed)
	}
	// the sealed header together with the body the worker assembled for it (what ConstructLocalMinedBlock does
	// for a header whose seal hash the worker has cached; here the miner also chose time and data)
	return types.NewWorkObject(sealed.WorkObjectHeader(), sealed.Body(), nil), nil
}

func (n *zoneNode) appendBlock(blk *types.WorkObject, inbound types.Transactions) error {
	if n.h != nil {
		_, err := n.h.add(blk)
		return err
	}
	n.sl.WriteBlock(blk)
	if _, order, err := n.hc.CalcOrder(blk); err == nil && order == common.REGION_CTX {
		// a region block: the harness plays the region, which appends to the zone with the inbound ETXs it confirmed
		t := n.hc.GetTerminiByHash(blk.ParentHash(common.ZONE_CTX))
		if t == nil {
			return fmt.Errorf("no termini for parent")
		}
		if _, err := n.sl.Append(blk, t.DomTerminus(n.loc), true, inbound); err != nil {
			return err
		}
		return n.hc.SetCurrentHeader(blk)
	}
	// an ordinary zone block (not coincident with region / prime): appended by the zone itself
	if _, err := n.sl.Append(blk, common.Hash{}, false, nil); err != nil {
		return err
	}
	return n.hc.SetCurrentHeader(blk)
}

// memorydb reports no location, so everything the node decodes from it (blocks read back after a reorg, say) would
// carry zone-less addresses; production nodes run on leveldb / pebble, which know their zone.
type locKV struct {
	*memorydb.Database
	loc common.Location
}

func (d locKV) Location() common.Location { return d.loc }

func newMemDB() ethdb.Database {
	return rawdb.NewDatabase(locKV{memorydb.New(log.Global), common.Location{0, 0}})
}

// safeStop stops a node's goroutines; a node that came up on a damaged image may not be fully wired
func safeStop(n *zoneNode) {
	defer func() { recover() }()
	if n != nil && n.sl != nil {
		n.sl.Stop()
	}
}

// submitShare: another miner's sealing of the same pending header that reaches the work-share threshold (3 bits
// below the block target) but not the block target; the node keeps it and its worker includes it as an uncle in one
// of the next blocks.
func (n *zoneNode) submitShare(ph, sealed *types.WorkObject) {
	ws := types.CopyWorkObjectHeader(ph.WorkObjectHeader())
	ws.SetPrimaryCoinbase(n.nextCoinbase)
	ws.SetTime(sealed.WorkObjectHeader().Time())
	target := new(big.Int).Div(common.Big2e256, ws.Difficulty())
	shareTarget := new(big.Int).Lsh(target, uint(params.WorkSharesThresholdDiff))
	for nonce := uint64(1 << 40); nonce < 1<<40+200_000; nonce++ {
		ws.SetNonce(types.EncodeNonce(nonce))
		hs, _ := n.eng.ComputePowHash(ws)
		v := new(big.Int).SetBytes(hs.Bytes())
		if v.Cmp(shareTarget) <= 0 && v.Cmp(target) > 0 {
			if err := n.cr.SendWorkShare(ws); err == nil {
				n.shares++
			} else if os.Getenv("QVH_DEBUG") != "" {
				fmt.Fprintln(os.Stderr, "work share refused:", err)
			}
			return
		}
	}
}

func rawdbWithLoc(loc common.Location) ethdb.Database {
	return rawdb.NewDatabase(locKV{memorydb.New(log.Global), loc})
}
