package main

// Zone chain harness: a real core.Slice for zone [0,0] with a real (cheap) blake3pow engine at local difficulty;
// blocks are assembled by the real worker, mined here to the full target, and appended with the harness playing
// the dominant chains (domOrigin = true).  Serves the chain-level areas (C06, C07, C08, C09, C10, C11).

import (
	"fmt"
	"math/big"
	"os"
	"time"

	"github.com/dominant-strategies/go-quai/common"
	"github.com/dominant-strategies/go-quai/consensus"
	"github.com/dominant-strategies/go-quai/consensus/blake3pow"
	"github.com/dominant-strategies/go-quai/core"
	"github.com/dominant-strategies/go-quai/core/types"
	"github.com/dominant-strategies/go-quai/core/vm"
	"github.com/dominant-strategies/go-quai/ethdb"
	"github.com/dominant-strategies/go-quai/log"
	"github.com/dominant-strategies/go-quai/params"
)

type zoneNode struct {
	db     ethdb.Database
	sl     *core.Slice
	hc     *core.HeaderChain
	eng    consensus.Engine
	ghash  common.Hash
	loc    common.Location
	genesis *core.Genesis
}

var chainCoinbase = common.HexToAddress("0x0012345678901234567890123456789012345678", common.Location{0, 0})

func newZoneNode(db ethdb.Database) (*zoneNode, error) {
	loc := common.Location{0, 0}
	logger := log.Global
	gen := core.DefaultLocalGenesisBlock("blake3", 0, nil)
	cfg0, ghash, err := core.SetupGenesisBlock(db, gen, 0, nil, loc, logger)
	if err != nil {
		return nil, fmt.Errorf("genesis: %w", err)
	}
	chainCfg := params.ChainConfig{ChainID: cfg0.ChainID, ConsensusEngine: cfg0.ConsensusEngine, Blake3Pow: cfg0.Blake3Pow, Progpow: cfg0.Progpow, Location: loc}
	chainCfg.DefaultGenesisHash = ghash
	pow := params.PowConfig{PowMode: params.ModeNormal, DurationLimit: params.LocalDurationLimit, GasCeil: params.LocalGasCeil, MinDifficulty: big.NewInt(1000), NodeLocation: loc, WorkShareThreshold: 3, NumThreads: 1}
	eng := []consensus.Engine{blake3pow.New(pow, nil, false, logger)}
	mcfg := &core.Config{QuaiCoinbase: chainCoinbase, QiCoinbase: chainCoinbase, GasCeil: params.LocalGasCeil, GasPrice: big.NewInt(1), Recommit: time.Hour, ExtraData: []byte("verif")}
	tcfg := core.DefaultTxPoolConfig
	tcfg.Journal = ""
	var lim uint64
	sl, err := core.NewSlice(db, mcfg, pow, &tcfg, &lim, &chainCfg, []common.Location{loc}, 0, nil, eng, &core.CacheConfig{TrieCleanLimit: 16, TrieDirtyLimit: 16, TrieTimeLimit: time.Minute, SnapshotLimit: 0}, vm.Config{}, gen, logger)
	if err != nil {
		return nil, fmt.Errorf("slice: %w", err)
	}
	n := &zoneNode{db: db, sl: sl, hc: sl.HeaderChain(), eng: eng[0], ghash: ghash, loc: loc, genesis: gen}
	if err := sl.NewGenesisPendingHeader(types.EmptyWorkObject(common.ZONE_CTX), ghash, ghash); err != nil {
		return nil, fmt.Errorf("genesis pending header: %w", err)
	}
	return n, nil
}

// mine seals the pending header to its full target with the real engine's hash function.
func (n *zoneNode) mine(ph *types.WorkObject) *types.WorkObject {
	before := ph.WorkObjectHeader().SealHash()
	defer func() {
		if ph.WorkObjectHeader().SealHash() != before && os.Getenv("QVH_DEBUG") != "" {
			fmt.Fprintf(os.Stderr, "sealhash changed by mine(): loc=%v sha=%v scr=%v sst=%v kd=%v data=%x\n", ph.WorkObjectHeader().Location(), ph.WorkObjectHeader().ShaDiffAndCount(), ph.WorkObjectHeader().ScryptDiffAndCount(), ph.WorkObjectHeader().ShaShareTarget(), ph.WorkObjectHeader().KawpowDifficulty(), ph.WorkObjectHeader().Data())
		}
	}()
	ph.WorkObjectHeader().SetLocation(n.loc)
	ph.WorkObjectHeader().SetAuxPow(nil)
	if ph.WorkObjectHeader().PrimeTerminusNumber().Uint64() < params.KawPowForkBlock {
		// before the KawPow fork these fields do not exist (the dom part of the pending header leaves them unset)
		ph.WorkObjectHeader().SetShaDiffAndCount(types.NewPowShareDiffAndCount(nil, nil, nil))
		ph.WorkObjectHeader().SetScryptDiffAndCount(types.NewPowShareDiffAndCount(nil, nil, nil))
		ph.WorkObjectHeader().SetShaShareTarget(nil)
		ph.WorkObjectHeader().SetScryptShareTarget(nil)
		ph.WorkObjectHeader().SetKawpowDifficulty(nil)
	}
	target := new(big.Int).Div(common.Big2e256, ph.Difficulty())
	for nonce := uint64(0); ; nonce++ {
		ph.WorkObjectHeader().SetNonce(types.EncodeNonce(nonce))
		h, _ := n.eng.ComputePowHash(ph.WorkObjectHeader())
		if new(big.Int).SetBytes(h.Bytes()).Cmp(target) <= 0 {
			return ph
		}
	}
}

// nextBlock asks the real worker for a pending header on top of the current head, mines and constructs the block.
func (n *zoneNode) nextBlock() (*types.WorkObject, error) {
	zph, err := n.sl.GeneratePendingHeader(n.hc.CurrentHeader(), true)
	if err != nil {
		return nil, fmt.Errorf("pending header: %w", err)
	}
	// the harness plays the coordinator: the prime / region parts of the pending header stay those of the last
	// best pending header (no zone block made here is coincident with a dominant chain)
	best := types.CopyWorkObject(n.sl.ReadBestPh())
	n.sl.MakeFullPendingHeader(best, types.CopyWorkObject(best), zph)
	ph, err := n.sl.GetPendingHeader(types.Progpow, chainCoinbase)
	if err != nil {
		return nil, fmt.Errorf("get pending header: %w", err)
	}
	sealed := n.mine(ph)
	blk, err := n.sl.ConstructLocalMinedBlock(sealed)
	if err != nil {
		return nil, fmt.Errorf("construct: %w", err)
	}
	return blk, nil
}

func (n *zoneNode) appendBlock(blk *types.WorkObject) error {
	n.sl.WriteBlock(blk)
	// an ordinary zone block (not coincident with region / prime): appended by the zone itself
	if _, err := n.sl.Append(blk, common.Hash{}, false, nil); err != nil {
		return err
	}
	return n.hc.SetCurrentHeader(blk)
}
