package main

// Area c10: reorganisation leaves exactly the state of the winning branch.
//
// Node X builds a common prefix and branch A; node Y (fresh database) replays the prefix and builds branch B with
// independent activity.  B is handed to X as side blocks, X's head is switched to B's tip (the real
// HeaderChain.SetCurrentHeader: roll back A from the undo records, roll forward B), X extends the new branch with
// blocks of its own (its pool has re-injected the abandoned branch's transactions), is switched back to A's tip
// and forth again.  After every switch X is compared with a node that only ever followed the winning branch, and
// the model (QuaiVerif.Model.Reorg), fed the same blocks' actions, must arrive at the same ledger digest.

import (
	"bytes"
	"encoding/binary"
	"fmt"
	"math/big"
	"os"
	"sort"
	"strings"

	"verifharness/internal/h"

	"github.com/dominant-strategies/go-quai/common"
	"github.com/dominant-strategies/go-quai/core/rawdb"
	"github.com/dominant-strategies/go-quai/core/types"
	"github.com/dominant-strategies/go-quai/ethdb"
	"github.com/dominant-strategies/go-quai/params"
	"google.golang.org/protobuf/proto"
)

func init() { areas["c10"] = runC10 }

const c10Mod = 2305843009213693951

func c10StrHash(s string) uint64 {
	hv := uint64(7)
	m := new(big.Int).SetUint64(c10Mod)
	for _, c := range s { // (h*131 + c) mod p, in big arithmetic to avoid overflow
		x := new(big.Int).Mul(new(big.Int).SetUint64(hv), big.NewInt(131))
		x.Add(x, big.NewInt(int64(c)))
		hv = x.Mod(x, m).Uint64()
	}
	return hv
}

func utxoVal(u *types.UtxoEntry) string {
	lock := "0"
	if u.Lock != nil {
		lock = u.Lock.String()
	}
	return fmt.Sprintf("%d:%s:%s", u.Denomination, h.Hex(u.Address), lock)
}

// ledgerDigest: the model's digest computed from a scan of the real database
func ledgerDigest(db ethdb.Database) (n int, sum uint64) {
	add := func(s string) {
		sum = (sum + c10StrHash(s)) % c10Mod
		n++
	}
	it := db.NewIterator(rawdb.UtxoPrefix, nil)
	for it.Next() {
		k := it.Key()
		if len(k) != rawdb.UtxoKeyLength {
			continue
		}
		p := new(types.ProtoTxOut)
		u := new(types.UtxoEntry)
		if proto.Unmarshal(it.Value(), p) != nil || u.ProtoDecode(p) != nil {
			add("u" + short(k) + "=undecodable")
			continue
		}
		add("u" + short(k) + "=" + utxoVal(u))
	}
	it.Release()
	it = db.NewIterator(rawdb.CoinbaseLockupPrefix, nil)
	for it.Next() {
		if len(it.Key()) == rawdb.CoinbaseLockupKeyLength {
			add("l" + short(it.Key()) + "=" + short(it.Value()))
		}
	}
	it.Release()
	return
}

// blockActs: the block's actions on the ledger, from its undo records and the database after it
func blockActs(db ethdb.Database, blk *types.WorkObject, before map[string][]byte) (acts []string) {
	spent, _ := rawdb.ReadSpentUTXOs(db, blk.Hash())
	trimmed, _ := rawdb.ReadTrimmedUTXOs(db, blk.Hash())
	gone := map[string]string{}
	for _, s := range append(append([]*types.SpentUtxoEntry{}, spent...), trimmed...) {
		gone[string(rawdb.UtxoKey(s.TxHash, s.Index))] = utxoVal(s.UtxoEntry)
	}
	created, _ := rawdb.ReadCreatedUTXOKeys(db, blk.Hash())
	for _, k := range created {
		if len(k) < rawdb.UtxoKeyLength {
			continue
		}
		k = k[:rawdb.UtxoKeyLength]
		val := gone[string(k)]
		if raw, _ := db.Get(k); len(raw) > 0 {
			p := new(types.ProtoTxOut)
			u := new(types.UtxoEntry)
			if proto.Unmarshal(raw, p) == nil && u.ProtoDecode(p) == nil {
				val = utxoVal(u)
			}
		}
		if val == "" {
			val = "unknown"
		}
		acts = append(acts, "cu "+short(k)+" "+val)
	}
	for _, s := range spent {
		acts = append(acts, "su "+short(rawdb.UtxoKey(s.TxHash, s.Index)))
	}
	for _, s := range trimmed {
		acts = append(acts, "tu "+short(rawdb.UtxoKey(s.TxHash, s.Index)))
	}
	deleted, _ := rawdb.ReadDeletedCoinbaseLockups(db, blk.Hash())
	perKey := map[string][][]byte{}
	var keys []string
	note := func(k []byte) {
		if _, ok := perKey[string(k)]; !ok {
			perKey[string(k)] = nil
			keys = append(keys, string(k))
		}
	}
	for _, d := range deleted {
		note(d.Key)
		perKey[string(d.Key)] = append(perKey[string(d.Key)], d.Value)
	}
	ck, _ := rawdb.ReadCreatedCoinbaseLockupKeys(db, blk.Hash())
	for _, k := range ck {
		note(k)
	}
	sort.Strings(keys)
	for _, k := range keys {
		id := short([]byte(k))
		D := perKey[k]
		after, _ := db.Get([]byte(k))
		if len(D) == 0 {
			if len(after) > 0 {
				acts = append(acts, "ln "+id+" "+short(after))
			}
			continue
		}
		if !bytes.Equal(D[0], before[k]) {
			acts = append(acts, "ln "+id+" "+short(D[0]))
		}
		for i := 1; i < len(D); i++ {
			acts = append(acts, "lr "+id+" "+short(D[i]))
		}
		if len(after) > 0 {
			acts = append(acts, "lr "+id+" "+short(after))
		} else {
			acts = append(acts, "ld "+id)
		}
	}
	return
}

// chainImage: the key spaces a reorganisation must leave as on a node that only followed the winning branch
func chainImage(n *zoneNode, withIndex bool) map[string]string {
	m := map[string]string{}
	prefixes := [][]byte{rawdb.UtxoPrefix, rawdb.CoinbaseLockupPrefix}
	if withIndex {
		prefixes = append(prefixes, rawdb.AddressUtxosPrefix, rawdb.AddressLockupsPrefix)
	}
	for _, p := range prefixes {
		it := n.db.NewIterator(p, nil)
		for it.Next() {
			k := string(it.Key())
			if bytes.Equal(p, rawdb.UtxoPrefix) && len(k) != rawdb.UtxoKeyLength {
				continue
			}
			if bytes.Equal(p, rawdb.CoinbaseLockupPrefix) && len(k) != rawdb.CoinbaseLockupKeyLength {
				continue
			}
			m[k] = string(it.Value())
			if bytes.Equal(p, rawdb.AddressUtxosPrefix) {
				// the index value is a list of outpoints: compared as a set (list order is not meaningful)
				ao := &types.ProtoAddressOutPoints{}
				if proto.Unmarshal(it.Value(), ao) == nil {
					var items []string
					for _, op := range ao.OutPoints {
						b, _ := proto.Marshal(op)
						items = append(items, string(b))
					}
					sort.Strings(items)
					m[k] = strings.Join(items, "|")
				}
			}
		}
		it.Release()
	}
	head := n.hc.CurrentHeader()
	m["@head"] = head.Hash().Hex()
	m["@headhash-db"] = rawdb.ReadHeadBlockHash(n.db).Hex()
	for i := uint64(0); i <= head.NumberU64(common.ZONE_CTX)+8; i++ {
		m[fmt.Sprintf("@canonical-%d", i)] = rawdb.ReadCanonicalHash(n.db, i).Hex()
	}
	return m
}

func imageDiff(a, b map[string]string) []string {
	set := map[string]bool{}
	for k, v := range a {
		if b[k] != v {
			set[k] = true
		}
	}
	for k := range b {
		if _, ok := a[k]; !ok {
			set[k] = true
		}
	}
	var out []string
	for k := range set {
		if strings.HasPrefix(k, "auwh") && os.Getenv("QVH_DEBUG") != "" {
			dec := func(v string) (l []string) {
				for _, it := range strings.Split(v, "|") {
					op := &types.ProtoOutPointAndDenomination{}
					if proto.Unmarshal([]byte(it), op) == nil && len(op.GetHash().GetValue()) >= 4 {
						l = append(l, fmt.Sprintf("%x:%d:d%d:l%x", op.GetHash().GetValue()[:4], op.GetIndex(), op.GetDenomination(), op.GetLock()))
					}
				}
				return
			}
			fmt.Fprintln(os.Stderr, "auwh", h.Hex([]byte(k[4:])), "\n  have", dec(a[k]), "\n  want", dec(b[k]))
		}
		if !strings.HasPrefix(k, "auwh") && os.Getenv("QVH_DEBUG") != "" {
			fmt.Fprintf(os.Stderr, "DIFF %s %x\n  have %x\n  want %x\n", keyClass(k), k, a[k], b[k])
		}
		if strings.HasPrefix(k, "@") {
			out = append(out, k)
		} else {
			out = append(out, keyClass(k)+":"+short([]byte(k)))
		}
	}
	sort.Strings(out)
	if len(out) > 8 {
		out = append(out[:8], fmt.Sprintf("... %d keys", len(out)))
	}
	return out
}

// onlyIndexDuplicates: the images differ only in address-index entries, and only by repeated outpoints
func onlyIndexDuplicates(a, b map[string]string) bool {
	dedup := func(v string) string {
		seen := map[string]bool{}
		var out []string
		for _, it := range strings.Split(v, "|") {
			if !seen[it] {
				seen[it] = true
				out = append(out, it)
			}
		}
		return strings.Join(out, "|")
	}
	for k, v := range a {
		if b[k] != v && !(strings.HasPrefix(k, "auwh") && dedup(v) == dedup(b[k])) {
			return false
		}
	}
	for k := range b {
		if _, ok := a[k]; !ok {
			return false
		}
	}
	return true
}

// addSide stores a block and appends its header without touching the state (a block of another branch)
func (n *zoneNode) addSide(blk *types.WorkObject, inbound types.Transactions) error {
	n.sl.WriteBlock(blk)
	if _, order, err := n.hc.CalcOrder(blk); err == nil && order == common.REGION_CTX {
		t := n.hc.GetTerminiByHash(blk.ParentHash(common.ZONE_CTX))
		if t == nil {
			return fmt.Errorf("no termini for parent")
		}
		_, err := n.sl.Append(blk, t.DomTerminus(n.loc), true, inbound)
		return err
	}
	_, err := n.sl.Append(blk, common.Hash{}, false, nil)
	return err
}

func (w *cwWorld) cloneFor(node *zoneNode, rc *h.Rng) *cwWorld {
	c := &cwWorld{node: node, rc: rc, rg: w.rg, qi: w.qi, hist: map[string]int{}, spentInPool: map[string]bool{}, born: map[types.OutPoint]uint64{},
		owner: w.owner, store: w.store, etxSeq: w.etxSeq + 1<<32, hunt: w.hunt}
	for _, a := range w.quai {
		cp := *a
		c.quai = append(c.quai, &cp)
	}
	for k, v := range w.born {
		c.born[k] = v
	}
	// what the dominant chains still owe this node's chain: the ETXs of its blocks from the last region-order block
	// (inclusive: a block's own ETXs are rolled up by the next coincident block) to its head - recomputed from the
	// node's chain, which may be shorter than the chain of the world being cloned
	var blocks []*types.WorkObject
	for b := node.hc.GetBlockByHash(node.hc.CurrentHeader().Hash()); b != nil && !node.hc.IsGenesisHash(b.Hash()); b = node.hc.GetBlockByHash(b.ParentHash(common.ZONE_CTX)) {
		blocks = append(blocks, b)
		if _, order, err := node.hc.CalcOrder(b); err == nil && order < common.ZONE_CTX {
			break
		}
	}
	for i := len(blocks) - 1; i >= 0; i-- {
		c.emitted = append(c.emitted, blocks[i].OutboundEtxs()...)
	}
	return c
}

type c10Block struct {
	st   cwStep
	acts []string
}

func runC10(seed uint64, n int, outDir string, replay string) {
	o := h.NewOut(outDir, "c10")
	r := h.NewRng(seed)
	ans := func(s string) { o.Ans("impl", "%s", s) }
	for c := 0; c < n; c++ {
		rc := r.Fork()
		o.NewCase()
		o.Op("newcase")
		ans("ok")
		rg := cwRegime{preTx: rc.Chance(10)}

		cwSetParams(rg)
		func() {
			defer func() {
				if p := recover(); p != nil {
					o.Violate("c10-panic", fmt.Sprintf("panic: %v at %s", p, stackTop()))
					o.Pad("panic %v", p)
				}
			}()
			index := rc.Chance(50) || c == 0
			wx, err := newWorld(newMemDB(), rc.Fork(), rg, zoneOpts{index: index})
			if err != nil {
				panic(err)
			}
			defer safeStop(wx.node)
			wx.busy = c%2 == 1                // many region blocks, each delivering several coinbases for one lockup record
			wx.hunt = rc.Chance(30) || c == 0 // case 0 replays the known finding: a spent-and-trimmed output on a rolled-back block
			X := wx.node
			digestAns := func(wf string) string {
				nn, sum := ledgerDigest(X.db)
				hd := X.hc.CurrentHeader()
				name := "genesis"
				if hd.NumberU64(common.ZONE_CTX) > 0 {
					name = short(hd.Hash().Bytes())
				}
				return fmt.Sprintf("%sn=%d sum=%d head=%s height=%d", wf, nn, sum, name, hd.NumberU64(common.ZONE_CTX))
			}
			// emit: the model processes a block X has just processed as its new head
			emit := func(b *c10Block, observable bool) {
				o.Op("begin")
				ans("ok")
				for _, a := range b.acts {
					o.Op("%s", a)
					ans("ok")
				}
				o.Op("commit %s", short(b.st.blk.Hash().Bytes()))
				if observable {
					ans(digestAns("wf=? "))
				} else {
					ans("?")
				}
			}
			buildOn := func(w *cwWorld, foreign bool) (*c10Block, error) {
				before := lockupValues(w.node.db)
				var st *cwStep
				var err error
				if foreign {
					st, err = w.foreignStep()
				} else {
					st, err = w.step()
				}
				if err != nil {
					return nil, err
				}
				return &c10Block{st: *st, acts: blockActs(w.node.db, st.blk, before)}, nil
			}
			// 1. common prefix on X
			var prefix, A, B []*c10Block
			plen := 8 + rc.Intn(10)
			if wx.busy {
				// directed: the last prefix block and the second block of branch A both process a burst of coinbases
				// for one lockup record, within one epoch: A rewrites, more than once, a record that exists at the fork
				plen = 2*int(params.CoinbaseEpochBlocks) + rc.Intn(int(params.CoinbaseEpochBlocks)-2)
			}
			for i, p := 0, plen; i < p; i++ {
				if wx.busy && i == p-2 {
					wx.forceRegion = 1
				}
				b, err := buildOn(wx, false)
				if err != nil {
					o.Violate("c07-own-block-rejected", fmt.Sprintf("prefix block %d: %v", i+1, err))
					return
				}
				prefix = append(prefix, b)
				emit(b, true)
			}
			// 2. node Y replays the prefix
			_, allocs := cwAllAllocs()
			Y, err := newZoneNode(newMemDB(), zoneOpts{index: index, allocs: allocs})
			if err != nil {
				panic(err)
			}
			defer safeStop(Y)
			for _, b := range prefix {
				if err := Y.appendBlock(b.st.blk, b.st.inbound); err != nil {
					o.Violate("c06-replica-rejects-block", fmt.Sprintf("prefix block rejected by the second node: %v", err))
					return
				}
			}
			wy := wx.cloneFor(Y, rc.Fork())
			// 3. branch A on X, branch B on Y
			wx.qiBoost = rc.Intn(4)
			hit := false
			atFork := lockupValues(X.db)
			alen := 1 + rc.Intn(5)
			if wx.busy {
				alen, wx.forceRegion = max(alen, 2), 1
			}
			for i, a := 0, alen; i < a || (c == 0 && !hit && i < 16); i++ {
				foreignBlock := rc.Chance(60) && c != 0 && !(wx.busy && i < 2)
				if rc.Chance(55) {
					// a block nobody asks anything of: if it changes the Qi ledger, then only by trimming old outputs
					wx.quiet, foreignBlock = true, false
				}
				b, err := buildOn(wx, foreignBlock)
				if err != nil {
					o.Violate("c07-own-block-rejected", fmt.Sprintf("branch A block %d: %v", i+1, err))
					return
				}
				A = append(A, b)
				emit(b, true)
				if sp, _ := rawdb.ReadSpentUTXOs(X.db, b.st.blk.Hash()); len(sp) == 0 {
					if ck, _ := rawdb.ReadCreatedUTXOKeys(X.db, b.st.blk.Hash()); len(ck) == 0 {
						if tr, _ := rawdb.ReadTrimmedUTXOs(X.db, b.st.blk.Hash()); len(tr) > 0 {
							o.Count("abandoned-block:only-trims")
						}
					}
				}
				hit = hit || len(doubleRemovals(X.db, b.st.blk)) > 0
				if dcl, err := rawdb.ReadDeletedCoinbaseLockups(X.db, b.st.blk.Hash()); err == nil {
					per := map[string]int{}
					for _, d := range dcl {
						per[string(d.Key)]++
					}
					ck, _ := rawdb.ReadCreatedCoinbaseLockupKeys(X.db, b.st.blk.Hash())
					for _, k := range ck {
						delete(per, string(k)) // created by this block: the rollback deletes it whatever was restored
					}
					for kk := range per {
						if _, ok := atFork[kk]; !ok {
							delete(per, kk) // created on the abandoned branch: the rollback of that block deletes it
						}
					}
					for kk, k := range per {
						if k >= 2 && os.Getenv("QVH_DEBUG") != "" {
							fmt.Fprintf(os.Stderr, "DBG case %d A-block %d key %s x%d\n", c, len(A), short([]byte(kk)), k)
							for _, d := range dcl {
								if string(d.Key) == kk {
									fmt.Fprintf(os.Stderr, "   old %s\n", short(d.Value))
								}
							}
						}
						if k >= 2 {
							o.Count("abandoned-block:rewrites-an-existing-lockup-record-more-than-once")
							break
						}
					}
				}
			}
			imageA := chainImage(X, index)
			for i, bn := 0, 1+rc.Intn(5); i < bn; i++ {
				b, err := buildOn(wy, rc.Chance(60))
				if err != nil {
					o.Violate("c07-own-block-rejected", fmt.Sprintf("branch B block %d: %v", i+1, err))
					return
				}
				B = append(B, b)
			}
			o.Count(fmt.Sprintf("branches:%dv%d", len(A), len(B)))
			// hand the other branch to each node as side blocks
			for _, b := range B {
				if err := X.addSide(b.st.blk, b.st.inbound); err != nil {
					o.Violate("c10-side-block-refused", fmt.Sprintf("X refuses a block of branch B as a side block: %v", err))
					return
				}
			}
			switchTo := func(what string, from, to []*c10Block, ref map[string]string) bool {
				if err := X.hc.SetCurrentHeader(to[len(to)-1].st.blk); err != nil {
					o.Violate("c10-switch-failed", fmt.Sprintf("%s: SetCurrentHeader: %v", what, err))
					return false
				}
				for i := len(from) - 1; i >= 0; i-- {
					o.Op("rollback %s", short(from[i].st.blk.Hash().Bytes()))
					if i == 0 {
						ans("?") // not observable between the rollback and the roll-forward
					} else {
						ans("?")
					}
				}
				for i, b := range to {
					emit(b, i == len(to)-1)
				}
				if sx, sy := qiSupplyOf(chainImage(X, index)), qiSupplyOf(ref); sx.Cmp(sy) != 0 {
					// the unspent Qi outputs of the node that reorganised are worth something else than those of a node
					// that only ever saw the winning branch: outputs of the abandoned branch survive, or spent ones stay spent
					o.Violate("c01-qi-supply-differs-after-reorg", fmt.Sprintf("%s: the unspent outputs of the reorganised node are worth %s qits, those of a node that only followed the winning branch %s", what, sx, sy))
				}
				if d := imageDiff(chainImage(X, index), ref); len(d) > 0 {
					if onlyIndexDuplicates(chainImage(X, index), ref) {
						// consequence of the known C06 finding: an output listed in both the spent and the trimmed undo
						// record of a rolled-back block is appended twice to its address's index entry
						o.Violate("c10-index-duplicate-after-spent-and-trimmed", fmt.Sprintf("%s: the address index of X lists an outpoint twice after rolling back a block that both spent and trimmed it (%v)", what, d))
					} else {
						o.Violate("c10-reorg-state-differs", fmt.Sprintf("%s: X differs from a node that only followed the winning branch in %v", what, d))
						return false
					}
				}
				o.Count("switch:" + what)
				return true
			}
			if !switchTo("A->B", A, B, chainImage(Y, index)) {
				return
			}
			// 4. X extends the new branch itself (its pool now also holds the abandoned branch's transactions)
			var ext []*c10Block
			for i, e := 0, rc.Intn(4)+min(wx.qiBoost, 1); i < e; i++ {
				b, err := buildOn(wx, rc.Chance(60))
				if err != nil {
					o.Violate("c07-own-block-rejected", fmt.Sprintf("extension block %d after the reorg: %v", i+1, err))
					return
				}
				ext = append(ext, b)
				emit(b, true)
				if err := Y.appendBlock(b.st.blk, b.st.inbound); err != nil {
					o.Violate("c06-replica-rejects-block", fmt.Sprintf("extension block built by X after its reorg is rejected by the node that only followed B: %v", err))
					return
				}
				if d := imageDiff(chainImage(X, index), chainImage(Y, index)); len(d) > 0 {
					if onlyIndexDuplicates(chainImage(X, index), chainImage(Y, index)) {
						// the duplicate left by the rollback (known finding above) stays in the entry while the chain grows
						o.Violate("c10-index-duplicate-after-spent-and-trimmed", fmt.Sprintf("after extension block %d: the address index of X still lists an outpoint twice (%v)", i+1, d))
					} else {
						o.Violate("c10-reorg-state-differs", fmt.Sprintf("after extension block %d: X differs from the node that only followed B in %v", i+1, d))
						return
					}
				}
				for _, tx := range b.st.blk.Transactions() {
					for _, ab := range A {
						for _, atx := range ab.st.blk.Transactions() {
							if atx.Hash() == tx.Hash() && tx.Type() != types.ExternalTxType {
								o.Count(fmt.Sprintf("ext-block-includes-abandoned-tx:type%d", tx.Type()))
							}
						}
					}
				}
				// same-block create-and-spend: the case the rollback has to get right
				sp, _ := rawdb.ReadSpentUTXOs(X.db, b.st.blk.Hash())
				ck, _ := rawdb.ReadCreatedUTXOKeys(X.db, b.st.blk.Hash())
				for _, s := range sp {
					for _, k := range ck {
						if len(k) >= rawdb.UtxoKeyLength && bytes.Equal(k[:rawdb.UtxoKeyLength], rawdb.UtxoKey(s.TxHash, s.Index)) {
							o.Count("same-block-create-and-spend")
						}
					}
				}
			}
			Bx := append(append([]*c10Block{}, B...), ext...)
			imageB := chainImage(Y, index)
			// 5. back and forth
			if !switchTo("B->A", Bx, A, imageA) {
				return
			}
			if rc.Chance(70) {
				if !switchTo("A->B again", A, Bx, imageB) {
					return
				}
				if rc.Chance(50) {
					if !switchTo("B->A again", Bx, A, imageA) {
						return
					}
				}
			}
			for k, v := range wx.hist {
				o.Hist[k] += v
			}
			_ = binary.BigEndian
		}()
		o.EndCase(fmt.Sprint(rc.U64()), true)
	}
	o.Close(nil)
}

// qiSupplyOf: the value of the unspent Qi outputs in a database image ('ut' key space; denominations valued with the
// start-up copy of the table)
func qiSupplyOf(image map[string]string) *big.Int {
	t := new(big.Int)
	for k, v := range image {
		if len(k) != rawdb.UtxoKeyLength || !bytes.HasPrefix([]byte(k), rawdb.UtxoPrefix) {
			continue
		}
		p := new(types.ProtoTxOut)
		if proto.Unmarshal([]byte(v), p) != nil {
			continue
		}
		u := new(types.UtxoEntry)
		if u.ProtoDecode(p) != nil {
			continue
		}
		t.Add(t, utDenom(u.Denomination))
	}
	return t
}
