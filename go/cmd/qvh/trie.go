package main

// Area trie (C18): random histories on the real trie.Trie / SecureTrie (with commit + reload at arbitrary
// points), Prove / VerifyProof, DeriveSha over StackTrie vs. full trie.  Every root is compared byte
// for byte with the Lean model's (concrete keccak + RLP).  T3: history independence (rebuild from the
// final content in other orders), reload, proof soundness under single-bit corruption, stack = full.

import (
	"bytes"
	"fmt"
	"sort"
	"strings"

	"verifharness/internal/h"

	"github.com/dominant-strategies/go-quai/common"
	"github.com/dominant-strategies/go-quai/core/rawdb"
	"github.com/dominant-strategies/go-quai/core/types"
	"github.com/dominant-strategies/go-quai/crypto"
	"github.com/dominant-strategies/go-quai/ethdb/memorydb"
	"github.com/dominant-strategies/go-quai/log"
	"github.com/dominant-strategies/go-quai/trie"
)

func init() { areas["trie"] = runTrie }

type byteList [][]byte

func (l byteList) Len() int                           { return len(l) }
func (l byteList) EncodeIndex(i int, w *bytes.Buffer) { w.Write(l[i]) }

func trKey(rc *h.Rng) []byte {
	// shared prefixes, keys that are prefixes of one another, different lengths
	alphabet := []byte{0x00, 0x01, 0x10, 0x11, 0x80, 0xff}
	n := 1 + rc.Intn(4)
	if rc.Chance(10) {
		n = 0
	}
	b := make([]byte, n)
	for i := range b {
		b[i] = alphabet[rc.Intn(len(alphabet))]
	}
	if rc.Chance(20) {
		b = append(b, rc.Bytes(1+rc.Intn(30))...)
	}
	return b
}

func trVal(rc *h.Rng) []byte {
	switch rc.Intn(6) {
	case 0:
		return []byte{byte(rc.Intn(128))}
	case 1:
		return rc.Bytes(32 + rc.Intn(40))
	case 2:
		return []byte{0x80 + byte(rc.Intn(10))}
	}
	return rc.Bytes(1 + rc.Intn(31))
}

func runTrie(seed uint64, n int, outDir string, replay string) {
	o := h.NewOut(outDir, "trie")
	r := h.NewRng(seed)
	ans := func(s string) { o.Ans("impl", "%s", s) }
	for c := 0; c < n; c++ {
		rc := r.Fork()
		o.NewCase()
		o.Op("newcase")
		ans("ok")
		func() {
			defer func() {
				if p := recover(); p != nil {
					o.Violate("trie-panic", fmt.Sprintf("panic: %v at %s", p, stackTop()))
					o.Pad("panic %v", p)
				}
			}()
			if rc.Chance(15) {
				trieDerive(o, rc, ans)
			} else if rc.Chance(12) {
				trieGC(o, rc)
			} else if rc.Chance(12) {
				trieRange(o, rc)
			} else {
				trieHistory(o, rc, ans, rc.Chance(30))
			}
		}()
		o.EndCase(fmt.Sprint(rc.U64()), true)
	}
	o.Close(nil)
}

// trieGC: the node store under the tries - a chain of "blocks", each changing a few keys of the previous block's trie
// (sometimes changing nothing, or writing and deleting the same key: the same root again), committed into one
// trie.Database whose roots are reference counted as the state processor does it (Reference(root, {}) per block,
// Dereference of old blocks, Cap to a size, Commit of a root to disk).  T3: as long as a block holds a reference its
// trie has exactly that block's content and root (also for a reader that opens it freshly), and a root committed to
// disk can be read back from the disk alone.
func trieGC(o *h.Out, rc *h.Rng) {
	disk := rawdb.NewMemoryDatabase(log.Global)
	tdb := trie.NewDatabase(disk)
	type blk struct {
		root    common.Hash
		content map[string][]byte
	}
	var live []blk // blocks holding one reference each
	cur := map[string][]byte{}
	tr, _ := trie.New(common.Hash{}, tdb)
	var keys [][]byte
	for i := 0; i < 4+rc.Intn(12); i++ {
		keys = append(keys, trKey(rc))
	}
	check := func(b blk, where string, db *trie.Database) {
		t, err := trie.New(b.root, db)
		if err != nil {
			if len(b.content) == 0 {
				return
			}
			o.Violate("c18-referenced-trie-lost", fmt.Sprintf("%s: a trie with root %x that still holds a reference cannot be opened: %v", where, b.root[:6], err))
			return
		}
		for k, v := range b.content {
			got, err := t.TryGet([]byte(k))
			if err != nil {
				o.Violate("c18-referenced-trie-lost", fmt.Sprintf("%s: reading key %x of the referenced trie %x: %v", where, k, b.root[:6], err))
				return
			}
			if !bytes.Equal(got, v) {
				o.Violate("c18-referenced-trie-content-changed", fmt.Sprintf("%s: key %x of the referenced trie %x reads %x, it was committed as %x", where, k, b.root[:6], got, v))
				return
			}
		}
	}
	nblocks := 3 + rc.Intn(12)
	for n := 0; n < nblocks; n++ {
		switch x := rc.Intn(10); {
		case x < 2: // nothing changes: the same root is referenced once more
		case x < 4: // a key written and deleted again
			k := trKey(rc)
			if _, ok := cur[string(k)]; !ok {
				tr.Update(k, trVal(rc))
				tr.Delete(k)
			}
		default:
			for j := 0; j < 1+rc.Intn(4); j++ {
				k := keys[rc.Intn(len(keys))]
				if rc.Chance(25) {
					tr.Delete(k)
					delete(cur, string(k))
				} else {
					v := trVal(rc)
					tr.Update(k, v)
					cur[string(k)] = v
				}
			}
		}
		root, err := tr.Commit(nil)
		if err != nil {
			panic(err)
		}
		tdb.Reference(root, common.Hash{})
		content := map[string][]byte{}
		for k, v := range cur {
			content[k] = v
		}
		live = append(live, blk{root, content})
		o.Count("gc:block")
		if n > 0 && live[len(live)-1].root == live[len(live)-2].root {
			o.Count("gc:same-root-twice")
		}
		// the processor continues on a trie opened at the new root
		if tr, err = trie.New(root, tdb); err != nil {
			o.Violate("c18-referenced-trie-lost", fmt.Sprintf("block %d: the trie just committed and referenced (root %x) cannot be opened: %v", n, root[:6], err))
			return
		}
		// garbage collection as the chain does it
		switch y := rc.Intn(10); {
		case y < 5 && len(live) > 1:
			i := rc.Intn(len(live) - 1) // never the newest: the chain keeps its head
			tdb.Dereference(live[i].root)
			live = append(live[:i], live[i+1:]...)
			o.Count("gc:dereference")
		case y < 6:
			tdb.Cap(common.StorageSize(rc.Intn(2000)))
			o.Count("gc:cap")
		case y < 7:
			b := live[rc.Intn(len(live))]
			if err := tdb.Commit(b.root, false, nil); err != nil {
				o.Violate("c18-commit-fails", fmt.Sprintf("Commit(%x): %v", b.root[:6], err))
			}
			check(b, "a fresh node store over the disk after Commit", trie.NewDatabase(disk))
			o.Count("gc:commit")
		}
		for _, b := range live {
			check(b, fmt.Sprintf("after block %d", n), tdb)
		}
	}
}

// trieRange: range proofs over a trie of fixed-length keys (as state sync uses them).  T3: the proof of a contiguous run
// of the sorted content verifies and says correctly whether more keys follow; the same proof does not verify a run with
// an altered value, a missing inner entry or a foreign entry; a zero-element proof ("nothing at or after this key")
// verifies exactly when no stored key is at or after it - in particular not when the key itself is stored.
func trieRange(o *h.Out, rc *h.Rng) {
	db := trie.NewDatabase(rawdb.NewMemoryDatabase(log.Global))
	tr, _ := trie.New(common.Hash{}, db)
	n := 1 + rc.Intn(40)
	if rc.Chance(15) {
		n = 200 + rc.Intn(200)
	}
	content := map[string][]byte{}
	for len(content) < n {
		k := rc.Bytes(32)
		v := trVal(rc)
		content[string(k)] = v
		tr.Update(k, v)
	}
	var keys [][]byte
	for k := range content {
		keys = append(keys, []byte(k))
	}
	sort.Slice(keys, func(i, j int) bool { return bytes.Compare(keys[i], keys[j]) < 0 })
	vals := make([][]byte, len(keys))
	for i, k := range keys {
		vals[i] = content[string(k)]
	}
	if rc.Bool() { // committed and reloaded, or fresh in memory
		root, _ := tr.Commit(nil)
		db.Commit(root, false, nil)
		tr, _ = trie.New(root, db)
	}
	root := tr.Hash()
	proofOf := func(ks ...[]byte) *memorydb.Database {
		p := memorydb.New(log.Global)
		for _, k := range ks {
			if err := tr.Prove(k, 0, p); err != nil {
				panic(err)
			}
		}
		return p
	}
	o.Count("range:trie")
	// (1) a contiguous run
	i := rc.Intn(n)
	j := i + 1 + rc.Intn(n-i)
	ks, vs := keys[i:j], vals[i:j]
	p := proofOf(ks[0], ks[len(ks)-1])
	more, err := trie.VerifyRangeProof(root, ks[0], ks[len(ks)-1], ks, vs, p)
	if err != nil {
		o.Violate("c18-range-proof-rejected", fmt.Sprintf("the proof of entries %d..%d of %d sorted entries does not verify: %v", i, j-1, n, err))
	} else if more != (j < n) {
		o.Violate("c18-range-proof-wrong-continuation", fmt.Sprintf("entries %d..%d of %d: the verifier says more=%v", i, j-1, n, more))
	}
	// (2) deviations of the run under the same proof
	if len(ks) >= 1 {
		av := append([][]byte{}, vs...)
		x := rc.Intn(len(av))
		av[x] = append(append([]byte{}, av[x]...), 0x01)
		if _, err := trie.VerifyRangeProof(root, ks[0], ks[len(ks)-1], ks, av, p); err == nil {
			o.Violate("c18-range-proof-accepts-wrong-content", fmt.Sprintf("entries %d..%d of %d with the value of entry %d altered still verify", i, j-1, n, i+x))
		}
	}
	if len(ks) >= 3 {
		x := 1 + rc.Intn(len(ks)-2)
		dk := append(append([][]byte{}, ks[:x]...), ks[x+1:]...)
		dv := append(append([][]byte{}, vs[:x]...), vs[x+1:]...)
		if _, err := trie.VerifyRangeProof(root, ks[0], ks[len(ks)-1], dk, dv, p); err == nil {
			o.Violate("c18-range-proof-accepts-wrong-content", fmt.Sprintf("entries %d..%d of %d with inner entry %d left out still verify", i, j-1, n, i+x))
		}
	}
	// (3) zero-element proofs: at a stored key (the greatest, another one), just after the greatest, in a gap
	probe := func(k []byte, what string) {
		atOrAfter := false
		for _, s := range keys {
			if bytes.Compare(s, k) >= 0 {
				atOrAfter = true
				break
			}
		}
		_, err := trie.VerifyRangeProof(root, k, nil, nil, nil, proofOf(k))
		switch {
		case atOrAfter && err == nil:
			o.Violate("c18-empty-range-proof-accepted", fmt.Sprintf("a proof that nothing is stored at or after %x.. verifies although %s (%d entries)", k[:4], what, n))
		case !atOrAfter && err != nil:
			o.Violate("c18-range-proof-rejected", fmt.Sprintf("the proof that nothing is stored at or after %x.. (%s) does not verify: %v", k[:4], what, err))
		}
		o.Count("range:empty:" + what)
	}
	probe(keys[n-1], "the key is stored and is the greatest")
	probe(keys[rc.Intn(n)], "the key is stored")
	after := append([]byte{}, keys[n-1]...)
	for b := 31; b >= 0; b-- {
		after[b]++
		if after[b] != 0 {
			break
		}
	}
	if bytes.Compare(after, keys[n-1]) > 0 {
		probe(after, "the key follows the greatest stored key")
	}
	before := append([]byte{}, keys[0]...)
	before[31] ^= 0x01
	if _, ok := content[string(before)]; !ok {
		probe(before, "the key is not stored, others follow or not")
	}
}

func trieDerive(o *h.Out, rc *h.Rng, ans func(string)) {
	n := rc.Intn(20)
	switch rc.Intn(5) {
	case 0:
		n = 120 + rc.Intn(20) // around the 0x7f / 0x80 ordering boundary
	case 1:
		n = 250 + rc.Intn(20) // around the one-byte / two-byte key boundary
	}
	var l byteList
	var hs []string
	for i := 0; i < n; i++ {
		v := trVal(rc)
		l = append(l, v)
		hs = append(hs, h.Hex(v))
	}
	o.Op("derive %s", strings.Join(hs, " "))
	st := types.DeriveSha(l, trie.NewStackTrie(nil))
	ans(h.Hex(st[:]))
	// T3: the streaming hasher agrees with the full trie
	full, _ := trie.New(common.Hash{}, trie.NewDatabase(rawdb.NewMemoryDatabase(log.Global)))
	if ft := types.DeriveSha(l, full); ft != st {
		o.Violate("c18-stacktrie-differs-from-trie", fmt.Sprintf("DeriveSha over StackTrie %x, over Trie %x for %d items", st[:6], ft[:6], n))
	}
	// and with a trie filled in plain index order
	plain, _ := trie.New(common.Hash{}, trie.NewDatabase(rawdb.NewMemoryDatabase(log.Global)))
	for i := range l {
		plain.Update(rlpUint(uint64(i)), l[i])
	}
	if pt := plain.Hash(); pt != st {
		o.Violate("c18-derivesha-not-content-root", fmt.Sprintf("DeriveSha %x but the trie of {rlp(i) -> item i} has root %x for %d items", st[:6], pt[:6], n))
	}
}

func rlpUint(i uint64) []byte {
	if i == 0 {
		return []byte{0x80}
	}
	if i < 128 {
		return []byte{byte(i)}
	}
	var b []byte
	for x := i; x > 0; x >>= 8 {
		b = append([]byte{byte(x)}, b...)
	}
	return append([]byte{0x80 + byte(len(b))}, b...)
}

type trieLike interface {
	TryUpdate(key, value []byte) error
	TryGet(key []byte) ([]byte, error)
	Hash() common.Hash
}

func trieHistory(o *h.Out, rc *h.Rng, ans func(string), secure bool) {
	db := trie.NewDatabase(rawdb.NewMemoryDatabase(log.Global))
	var tr *trie.Trie
	var st *trie.SecureTrie
	var cur trieLike
	if secure {
		st, _ = trie.NewSecure(common.Hash{}, db)
		cur = st
	} else {
		tr, _ = trie.New(common.Hash{}, db)
		cur = tr
	}
	content := map[string][]byte{}
	var keys [][]byte
	nops := 1 + rc.Intn(40)
	if rc.Chance(10) {
		nops = 100 + rc.Intn(200)
	}
	up, gt := "upd", "get"
	if secure {
		up, gt = "supd", "sget"
	}
	for i := 0; i < nops; i++ {
		var k []byte
		if len(keys) > 0 && rc.Chance(45) {
			k = keys[rc.Intn(len(keys))]
		} else {
			k = trKey(rc)
			keys = append(keys, k)
		}
		switch x := rc.Intn(100); {
		case x < 55:
			v := trVal(rc)
			cur.TryUpdate(k, v)
			content[string(k)] = v
			rt := cur.Hash()
			o.Op("%s %s %s", up, h.Hex(k), h.Hex(v))
			ans(h.Hex(rt[:]))
		case x < 75:
			cur.TryUpdate(k, nil)
			delete(content, string(k))
			rt := cur.Hash()
			o.Op("%s %s -", up, h.Hex(k))
			ans(h.Hex(rt[:]))
		case x < 88:
			v, err := cur.TryGet(k)
			o.Op("%s %s", gt, h.Hex(k))
			if err != nil || len(v) == 0 {
				ans("nf")
			} else {
				ans("v " + h.Hex(v))
			}
			if want, ok := content[string(k)]; (ok && !bytes.Equal(want, v)) || (!ok && len(v) != 0) {
				o.Violate("c18-get-not-latest", fmt.Sprintf("get %x = %x, content says %x", k, v, want))
			}
		case x < 94:
			// commit and reload at this point
			var root common.Hash
			var err error
			if secure {
				root, err = st.Commit(nil)
			} else {
				root, err = tr.Commit(nil)
			}
			if err != nil {
				panic(err)
			}
			db.Commit(root, false, nil)
			if secure {
				st, err = trie.NewSecure(root, db)
				cur = st
			} else {
				tr, err = trie.New(root, db)
				cur = tr
			}
			if err != nil {
				o.Violate("c18-reload-fails", err.Error())
				return
			}
			o.Op("root")
			rt := cur.Hash()
			ans(h.Hex(rt[:]))
		default:
			if secure {
				continue
			}
			// proof for k (present or absent)
			pdb := memorydb.New(log.Global)
			if err := tr.Prove(k, 0, pdb); err != nil {
				continue
			}
			var encs []string
			it := pdb.NewIterator(nil, nil)
			var nodes [][2][]byte
			for it.Next() {
				encs = append(encs, h.Hex(it.Value()))
				nodes = append(nodes, [2][]byte{common.CopyBytes(it.Key()), common.CopyBytes(it.Value())})
			}
			it.Release()
			sort.Strings(encs)
			o.Op("prove %s", h.Hex(k))
			if len(encs) == 0 {
				ans("0")
			} else {
				ans(fmt.Sprintf("%d %s", len(encs), strings.Join(encs, " ")))
			}
			// T3: the proof verifies to exactly the stored value (or absence)
			v, err := trie.VerifyProof(tr.Hash(), k, pdb)
			want := content[string(k)]
			if len(content) == 0 {
				continue // an empty trie has no root node to prove absence from (VerifyProof needs one)
			}
			if err != nil || !bytes.Equal(v, want) {
				o.Violate("c18-proof-not-exact", fmt.Sprintf("VerifyProof(%x) = %x, %v; stored %x", k, v, err, want))
			}
			// every single-bit corruption of one proof node must not verify to a different value
			if len(nodes) > 0 {
				nd := nodes[rc.Intn(len(nodes))]
				bit := rc.Intn(len(nd[1]) * 8)
				bad := common.CopyBytes(nd[1])
				bad[bit/8] ^= 1 << uint(bit%8)
				pdb2 := memorydb.New(log.Global)
				for _, x := range nodes {
					if bytes.Equal(x[0], nd[0]) {
						// the verifier builds its node store by hashing the proof elements it received
						pdb2.Put(crypto.Keccak256(bad), bad)
					} else {
						pdb2.Put(x[0], x[1])
					}
				}
				v2, err2 := trie.VerifyProof(tr.Hash(), k, pdb2)
				if err2 == nil && !bytes.Equal(v2, want) {
					o.Violate("c18-corrupted-proof-verifies", fmt.Sprintf("corrupted proof for %x verifies to %x (stored %x)", k, v2, want))
				}
			}
		}
	}
	// T3: history independence — rebuild from the final content, sorted and shuffled
	final := cur.Hash()
	var ks []string
	for k := range content {
		ks = append(ks, k)
	}
	sort.Strings(ks)
	for round := 0; round < 2; round++ {
		fresh := trie.NewDatabase(rawdb.NewMemoryDatabase(log.Global))
		var ft trieLike
		if secure {
			x, _ := trie.NewSecure(common.Hash{}, fresh)
			ft = x
		} else {
			x, _ := trie.New(common.Hash{}, fresh)
			ft = x
		}
		order := append([]string(nil), ks...)
		if round == 1 {
			for i := len(order) - 1; i > 0; i-- {
				j := rc.Intn(i + 1)
				order[i], order[j] = order[j], order[i]
			}
		}
		for _, k := range order {
			ft.TryUpdate([]byte(k), content[k])
		}
		if fr := ft.Hash(); fr != final {
			o.Violate("c18-root-depends-on-history", fmt.Sprintf("root %x after the history, %x when rebuilt from the final content (%d keys, round %d)", final[:6], fr[:6], len(ks), round))
		}
	}
	// T3: a copy is independent.  Deleting (and so collapsing branches) on a copy that shares the uncommitted nodes
	// must leave the original's lookups and root as they are.
	if len(ks) > 0 {
		var cp trieLike
		switch x := cur.(type) {
		case *trie.SecureTrie:
			cp = x.Copy()
		case *trie.Trie:
			c := *x
			cp = &c
		}
		if cp != nil {
			for i, nd := 0, 1+rc.Intn(3); i < nd; i++ {
				cp.TryUpdate([]byte(ks[rc.Intn(len(ks))]), nil) // an empty value deletes
			}
			cp.Hash()
			for _, k := range ks {
				if v, _ := cur.TryGet([]byte(k)); !bytes.Equal(v, content[k]) {
					o.Violate("c18-copy-not-independent", fmt.Sprintf("after deleting keys on a copy, the original returns %x for key %x (content %x)", v, k, content[k]))
					break
				}
			}
			if again := cur.Hash(); again != final {
				o.Violate("c18-copy-not-independent", fmt.Sprintf("after deleting keys on a copy, the original's root went from %x to %x", final[:6], again[:6]))
			}
			o.Count("copy-delete-probe")
		}
	}
	// T3: the root is the canonical one - a second hasher (the streaming StackTrie, fed in key order) over the same
	// content gives the same root.  StackTrie cannot hold a key that is a prefix of another, such contents are skipped.
	eff := map[string][]byte{}
	for k, v := range content {
		ek := k
		if secure {
			ek = string(crypto.Keccak256([]byte(k)))
		}
		eff[ek] = v
	}
	var eks []string
	for k := range eff {
		eks = append(eks, k)
	}
	sort.Strings(eks)
	prefixFree := len(eks) > 0 && eks[0] != ""
	for i := 0; i+1 < len(eks); i++ {
		if strings.HasPrefix(eks[i+1], eks[i]) {
			prefixFree = false
		}
	}
	if prefixFree {
		st := trie.NewStackTrie(nil)
		for _, k := range eks {
			st.TryUpdate([]byte(k), eff[k])
		}
		if sr := st.Hash(); sr != final {
			o.Violate("c18-root-not-canonical", fmt.Sprintf("Trie root %x, StackTrie root over the same %d entries %x", final[:6], len(eks), sr[:6]))
		}
		o.Count("stacktrie-reference")
	}
}
