package main

// Area c09: accepted headers extend their parent by the protocol's rules.
//
// A case is one chainworld history (varying block times, zone and region blocks).  For every block the model's
// formulas are evaluated on the real header fields and compared with the real CalcDifficulty / CalcGasLimit /
// CalcStateLimit / TotalLogEntropy / DeltaLogEntropy / CalcOrder; the accumulated entropy must grow; order and
// entropy must be the same on repeated calls and on a second node that computes them cold; single-field
// deviations of the (valid) block must be refused by VerifyHeader.

import (
	"fmt"
	"math/big"
	"time"

	"verifharness/internal/h"

	"github.com/dominant-strategies/go-quai/common"
	"github.com/dominant-strategies/go-quai/consensus/misc"
	"github.com/dominant-strategies/go-quai/core"
	"github.com/dominant-strategies/go-quai/core/types"
	"github.com/dominant-strategies/go-quai/params"
)

func init() { areas["c09"] = runC09 }

type c09Mut struct {
	kind  string
	apply func(m *types.WorkObject)
}

var c09Mutations = []c09Mut{
	{"number+1", func(m *types.WorkObject) { m.SetNumber(bump(m.Number(common.ZONE_CTX)), common.ZONE_CTX) }},
	{"number-1", func(m *types.WorkObject) {
		m.SetNumber(new(big.Int).Sub(m.Number(common.ZONE_CTX), big.NewInt(1)), common.ZONE_CTX)
	}},
	{"time-before-parent", nil}, // filled per block (needs the parent)
	{"difficulty+1", func(m *types.WorkObject) { m.WorkObjectHeader().SetDifficulty(bump(m.Difficulty())) }},
	{"difficulty-1", func(m *types.WorkObject) {
		m.WorkObjectHeader().SetDifficulty(new(big.Int).Sub(m.Difficulty(), big.NewInt(1)))
	}},
	{"gaslimit+1", func(m *types.WorkObject) { m.Header().SetGasLimit(m.GasLimit() + 1) }},
	{"statelimit+1", func(m *types.WorkObject) { m.Header().SetStateLimit(m.StateLimit() + 1) }},
	{"basefee+1", func(m *types.WorkObject) { m.Header().SetBaseFee(bump(m.BaseFee())) }},
	{"primeterminushash", func(m *types.WorkObject) { m.Header().SetPrimeTerminusHash(flip(m.PrimeTerminusHash())) }},
	{"primeterminusnumber+1", func(m *types.WorkObject) { m.WorkObjectHeader().SetPrimeTerminusNumber(bump(m.PrimeTerminusNumber())) }},
	{"expansion+1", func(m *types.WorkObject) { m.Header().SetExpansionNumber(m.ExpansionNumber() + 1) }},
	{"parententropy+1", func(m *types.WorkObject) {
		m.Header().SetParentEntropy(bump(m.ParentEntropy(common.ZONE_CTX)), common.ZONE_CTX)
	}},
	{"parentdelta+1", func(m *types.WorkObject) {
		m.Header().SetParentDeltaEntropy(bump(m.ParentDeltaEntropy(common.ZONE_CTX)), common.ZONE_CTX)
	}},
	{"parentuncleddelta+1", func(m *types.WorkObject) {
		m.Header().SetParentUncledDeltaEntropy(bump(m.ParentUncledDeltaEntropy(common.ZONE_CTX)), common.ZONE_CTX)
	}},
	{"location-other-zone", func(m *types.WorkObject) { m.WorkObjectHeader().SetLocation(common.Location{0, 1}) }},
	{"lock-byte-nonzero", func(m *types.WorkObject) { m.WorkObjectHeader().SetLock(1) }},
	{"data-empty", func(m *types.WorkObject) { m.WorkObjectHeader().SetData([]byte{}) }},
	{"data-lock-out-of-range", func(m *types.WorkObject) { m.WorkObjectHeader().SetData([]byte{9}) }},
	{"gasused-over-limit", func(m *types.WorkObject) { m.Header().SetGasUsed(m.GasLimit() + 1) }},
	{"sha-diff-present-before-fork", func(m *types.WorkObject) {
		m.WorkObjectHeader().SetShaDiffAndCount(types.NewPowShareDiffAndCount(big.NewInt(1), big.NewInt(1), big.NewInt(0)))
	}},
	{"kawpow-difficulty-present-before-fork", func(m *types.WorkObject) { m.WorkObjectHeader().SetKawpowDifficulty(big.NewInt(5)) }},
	{"time-far-future", func(m *types.WorkObject) { m.WorkObjectHeader().SetTime(uint64(time.Now().Unix()) + 16 + 60) }},
	{"time-just-past-allowed", func(m *types.WorkObject) { m.WorkObjectHeader().SetTime(uint64(time.Now().Unix()) + 15 + 3) }},
	{"number+2^64+1", func(m *types.WorkObject) {
		m.SetNumber(new(big.Int).Add(bump(m.Number(common.ZONE_CTX)), new(big.Int).Lsh(big.NewInt(1), 64)), common.ZONE_CTX) // parent + 1 modulo 2^64, one more
	}},
	{"number+2^64", func(m *types.WorkObject) {
		m.SetNumber(new(big.Int).Add(m.Number(common.ZONE_CTX), new(big.Int).Lsh(big.NewInt(1), 64)), common.ZONE_CTX) // parent + 1 modulo 2^64
	}},
	{"time-top-bit-set", func(m *types.WorkObject) { m.WorkObjectHeader().SetTime(uint64(1)<<63 + uint64(time.Now().Unix())) }},
	{"time-max-uint64", func(m *types.WorkObject) { m.WorkObjectHeader().SetTime(^uint64(0) - uint64(3)) }},
	{"extra-too-long", func(m *types.WorkObject) { m.Header().SetExtra(make([]byte, params.MaximumExtraDataSize+1)) }},
	{"stateused-over-limit", func(m *types.WorkObject) { m.Header().SetStateUsed(m.StateLimit() + 1) }},
	{"coinbase-other-zone", func(m *types.WorkObject) {
		b := m.PrimaryCoinbase().Bytes()
		b[0] = 0x01
		m.WorkObjectHeader().SetPrimaryCoinbase(common.BytesToAddress(b, common.Location{0, 0})) // as the wire decoder builds it: with the block's location
	}},
	{"lockup-contract-other-zone", func(m *types.WorkObject) {
		d := append([]byte{0}, make([]byte, 20)...)
		d[1] = 0x01
		d[20] = 7
		m.WorkObjectHeader().SetData(d)
	}},
	{"beneficiary-other-zone", func(m *types.WorkObject) {
		d := append([]byte{0}, make([]byte, 40)...)
		d[20] = 7
		d[21] = 0x01
		d[40] = 9
		m.WorkObjectHeader().SetData(d)
	}},
	{"region-state-root-set", nil}, // not a zone rule: skipped (kept so that the table lists what is out of reach here)
}

func runC09(seed uint64, n int, outDir string, replay string) {
	o := h.NewOut(outDir, "c09")
	r := h.NewRng(seed)
	ans := func(s string) { o.Ans("impl", "%s", s) }
	_, allocs := cwAllAllocs()
	blocksPerCase := 30
	for c := 0; c < n; c++ {
		rc := r.Fork()
		o.NewCase()
		o.Op("newcase")
		ans("ok")
		rg := cwRegime{preTx: rc.Chance(15)}
		cwSetParams(rg)
		func() {
			defer func() {
				if p := recover(); p != nil {
					o.Violate("c09-panic", fmt.Sprintf("panic: %v at %s", p, stackTop()))
					o.Pad("panic %v", p)
				}
			}()
			w, err := newWorld(newMemDB(), rc.Fork(), rg, zoneOpts{})
			if err != nil {
				panic(err)
			}
			defer safeStop(w.node)
			Y, err := newZoneNode(newMemDB(), zoneOpts{allocs: allocs})
			if err != nil {
				panic(err)
			}
			defer safeStop(Y)
			hc := w.node.hc
			exp := uint8(0)
			primeTarget, regionTarget := params.PrimeEntropyTarget(exp), params.RegionEntropyTarget(exp)
			// BitsToBigBits hands its argument to mathutil.BinaryLog, which shifts it in place: give it fresh values
			primeBits, regionBits := common.BitsToBigBits(params.PrimeEntropyTarget(exp)), common.BitsToBigBits(params.RegionEntropyTarget(exp))
			for b := 0; b < blocksPerCase; b++ {
				st, err := w.step()
				if err != nil {
					o.Violate("c07-own-block-rejected", fmt.Sprintf("block %d: %v", b+1, err))
					return
				}
				blk := st.blk
				num := blk.NumberU64(common.ZONE_CTX)
				parent := hc.GetBlockByHash(blk.ParentHash(common.ZONE_CTX))
				if parent == nil {
					o.Violate("c09-parent-missing", fmt.Sprintf("block %d", num))
					return
				}
				// --- formulas (T2)
				if gp := hc.GetHeaderByHash(parent.ParentHash(common.ZONE_CTX)); gp != nil && !hc.IsGenesisHash(parent.Hash()) && !hc.IsGenesisHash(gp.Hash()) {
					o.Op("diff %s 1000 %s %d", params.LocalDurationLimit, parent.Difficulty(), int64(parent.Time())-int64(gp.Time()))
					ans(hc.CalcDifficulty(parent.WorkObjectHeader(), parent.ExpansionNumber()).String())
				}
				pn := parent.NumberU64(common.ZONE_CTX)
				o.Op("limit %d %d %d %d %d %d", params.TimeToStartTx, params.MinGasLimit(pn), params.BlocksPerMonth, params.LocalGasCeil, pn, parent.GasLimit())
				ans(fmt.Sprint(core.CalcGasLimit(parent, params.LocalGasCeil)))
				o.Op("limit %d %d %d %d %d %d", params.TimeToStartTx, params.MinGasLimit(pn), params.BlocksPerMonth, params.StateCeil, pn, parent.StateLimit())
				ans(fmt.Sprint(misc.CalcStateLimit(parent, params.StateCeil)))
				if rc.Chance(30) {
					// the same two rules on a parent of any height and limit (a copy of this parent with other numbers): the
					// first block that may carry gas (parent limit zero), the ramp below and above the floor, past the ramp
					for k := 0; k < 3; k++ {
						sp := types.CopyWorkObject(parent)
						spn := []uint64{params.TimeToStartTx - 1, params.TimeToStartTx, params.TimeToStartTx + 1, 259200, 259201, params.BlocksPerMonth,
							2*params.BlocksPerMonth - 1, 2 * params.BlocksPerMonth, 3 * params.BlocksPerMonth, uint64(rc.Intn(int(3 * params.BlocksPerMonth)))}[rc.Intn(10)]
						sp.SetNumber(new(big.Int).SetUint64(spn), common.ZONE_CTX)
						lim := uint64(0)
						if rc.Chance(60) {
							lim = uint64(1 + rc.Intn(40_000_000))
						}
						sp.Header().SetGasLimit(lim)
						sp.Header().SetStateLimit(lim)
						o.Op("limit %d %d %d %d %d %d", params.TimeToStartTx, params.MinGasLimit(spn), params.BlocksPerMonth, params.LocalGasCeil, spn, lim)
						ans(fmt.Sprint(core.CalcGasLimit(sp, params.LocalGasCeil)))
						o.Op("limit %d %d %d %d %d %d", params.TimeToStartTx, params.MinGasLimit(spn), params.BlocksPerMonth, params.StateCeil, spn, lim)
						ans(fmt.Sprint(misc.CalcStateLimit(sp, params.StateCeil)))
					}
				}
				// minimum base fee and the conversion-flow average: protocol values derived from the parent
				if pt := hc.GetHeaderByHash(parent.PrimeTerminusHash()); pt != nil && !hc.IsGenesisHash(parent.Hash()) {
					rate := pt.ExchangeRate()
					if hc.IsGenesisHash(parent.ParentHash(common.ZONE_CTX)) {
						rate = params.ExchangeRate
					}
					qr, qi := misc.CalculateQuaiReward(parent.WorkObjectHeader(), parent.Difficulty(), rate), misc.CalculateQiReward(parent.WorkObjectHeader(), parent.Difficulty())
					o.Op("basefee %s %s %s %d", qr, qi, params.MinBaseFeeInQits, params.TxGas)
					ans(hc.CalcBaseFee(parent).String())
					if bf := hc.CalcBaseFee(parent); bf != nil && blk.BaseFee().Cmp(bf) != 0 {
						o.Violate("c09-basefee-not-derived-from-parent", fmt.Sprintf("block %d carries base fee %s, the value derived from its parent is %s", num, blk.BaseFee(), bf))
					}
				}
				{
					cur := new(big.Int).Mul(big.NewInt(int64(rc.Intn(100000))), new(big.Int).Exp(big.NewInt(10), big.NewInt(int64(12+rc.Intn(10))), nil))
					o.Op("flow %s %s %d %s", parent.ConversionFlowAmount(), cur, params.MinerDifficultyWindow, params.MinConversionFlowAmount)
					ans(hc.ComputeConversionFlowAmount(parent, cur).String())
				}
				intrinsic, order, err := hc.CalcOrder(blk)
				if err != nil {
					o.Violate("c09-calcorder-error", fmt.Sprintf("block %d: %v", num, err))
					return
				}
				ws, _ := hc.WorkShareLogEntropy(blk)
				s := new(big.Int).Add(intrinsic, ws)
				o.Op("total %d %s %s %s %s %s %s", order, blk.ParentEntropy(common.PRIME_CTX), blk.ParentEntropy(common.REGION_CTX), blk.ParentEntropy(common.ZONE_CTX),
					blk.ParentDeltaEntropy(common.REGION_CTX), blk.ParentDeltaEntropy(common.ZONE_CTX), s)
				total := hc.TotalLogEntropy(blk)
				ans(total.String())
				o.Op("delta %d %s %s %s", order, blk.ParentDeltaEntropy(common.REGION_CTX), blk.ParentDeltaEntropy(common.ZONE_CTX), s)
				ans(hc.DeltaLogEntropy(blk).String())
				target := new(big.Int).Div(common.Big2e256, blk.Difficulty())
				zoneThr := common.IntrinsicLogEntropy(common.BytesToHash(target.Bytes()))
				o.Op("order %s %s %s %s %s %s %s %s", intrinsic, zoneThr, blk.ParentDeltaEntropy(common.REGION_CTX), blk.ParentDeltaEntropy(common.ZONE_CTX), primeTarget, regionTarget, primeBits, regionBits)
				ans(fmt.Sprint(order))
				// other seals of the same header (not appended): the order is a function of the seal and the recorded deltas,
				// also for seals lucky enough to be of prime order, which a lone zone never appends
				{
					cand := types.CopyWorkObject(blk)
					found := 0
					for nonce := uint64(1 << 50); nonce < 1<<50+400_000 && found < 5; nonce++ {
						cand.WorkObjectHeader().SetNonce(types.EncodeNonce(nonce))
						ph, err := w.node.eng.ComputePowHash(cand.WorkObjectHeader())
						if err != nil || new(big.Int).SetBytes(ph.Bytes()).Cmp(target) > 0 {
							continue
						}
						found++
						ci, co, err := hc.CalcOrder(cand)
						if err != nil {
							continue
						}
						o.Op("order %s %s %s %s %s %s %s %s", ci, zoneThr, cand.ParentDeltaEntropy(common.REGION_CTX), cand.ParentDeltaEntropy(common.ZONE_CTX), primeTarget, regionTarget, primeBits, regionBits)
						ans(fmt.Sprint(co))
						o.Count(fmt.Sprintf("candidate-seal-order:%d", co))
						cand = types.CopyWorkObject(blk) // a fresh object: no memoised hashes carried over
					}
				}
				o.Op("acc %d %s", order, s)
				ans(total.String())
				// --- T3: the block verifies, entropy grows, order / entropy are stable
				if err := hc.VerifyHeader(blk); err != nil {
					o.Violate("c09-accepted-header-fails-verify", fmt.Sprintf("block %d was appended but VerifyHeader says: %v", num, err))
				}
				if pt := hc.TotalLogEntropy(parent); total.Cmp(pt) <= 0 {
					o.Violate("c09-entropy-not-increasing", fmt.Sprintf("block %d: entropy %s, parent %s", num, total, pt))
				}
				if blk.ParentEntropy(common.ZONE_CTX).Cmp(hc.TotalLogEntropy(parent)) != 0 {
					o.Violate("c09-parent-entropy-field-wrong", fmt.Sprintf("block %d", num))
				}
				for rep := 0; rep < 3; rep++ {
					i2, o2, _ := hc.CalcOrder(blk)
					d2 := hc.DeltaLogEntropy(blk)
					t2 := hc.TotalLogEntropy(blk)
					if o2 != order || i2.Cmp(intrinsic) != 0 || t2.Cmp(total) != 0 || d2.Cmp(hc.DeltaLogEntropy(blk)) != 0 {
						o.Violate("c09-order-or-entropy-not-stable", fmt.Sprintf("block %d: repeated call %d gives order %d intrinsic %s total %s, first call order %d intrinsic %s total %s", num, rep+1, o2, i2, t2, order, intrinsic, total))
						break
					}
				}
				if err := Y.appendBlock(blk, st.inbound); err != nil {
					o.Violate("c06-replica-rejects-block", fmt.Sprintf("block %d: %v", num, err))
					return
				}
				if i3, o3, _ := Y.hc.CalcOrder(blk); o3 != order || i3.Cmp(intrinsic) != 0 || Y.hc.TotalLogEntropy(blk).Cmp(total) != 0 {
					o.Violate("c09-order-or-entropy-differs-on-cold-node", fmt.Sprintf("block %d: a node computing cold gets order %d total %s, the first node order %d total %s", num, o3, Y.hc.TotalLogEntropy(blk), order, total))
				}
				o.Count(fmt.Sprintf("order:%d", order))
				// --- T3: single-field deviations are refused
				if rc.Chance(40) {
					perm := rc.Intn(len(c09Mutations))
					for k := 0; k < 4; k++ {
						mu := c09Mutations[(perm+k)%len(c09Mutations)]
						m := types.CopyWorkObject(blk)
						if mu.apply == nil && mu.kind != "time-before-parent" {
							continue
						}
						if mu.kind == "time-before-parent" {
							if parent.Time() == 0 {
								continue
							}
							m.WorkObjectHeader().SetTime(parent.Time() - 1)
						} else {
							mu.apply(m)
						}
						m.WorkObjectHeader().SetHeaderHash(m.Body().Header().Hash())
						if m.Hash() == blk.Hash() {
							// the field does not exist in this fork regime (it is not encoded, so not part of the block): no deviation
							o.Count("not-a-different-block:" + mu.kind)
							continue
						}
						if err := hc.VerifyHeader(m); err == nil {
							o.Violate("c09-deviating-header-accepted:"+mu.kind, fmt.Sprintf("block %d with %s passes VerifyHeader", num, mu.kind))
						} else {
							o.Count("refused:" + mu.kind)
						}
					}
				}
			}
		}()
		o.EndCase(fmt.Sprint(rc.U64()), true)
	}
	o.Close(nil)
}
