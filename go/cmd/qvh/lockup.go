package main

// Area lockup (C13, and the lockup side of C12/C10): the contract-held coinbase lockup ledger through the
// real AddNewLock and the real lockup precompile (EVM.Call) on a real block batch in pending mode:
// accumulate, claim before/at/after unlock, repeated, by non-owners, twice in one block (records on disk
// and in the batch), and claims inside call frames that revert.

import (
	"encoding/binary"
	"fmt"
	"math/big"
	"os"
	"strings"

	"verifharness/internal/h"

	"github.com/dominant-strategies/go-quai/common"
	"github.com/dominant-strategies/go-quai/core"
	"github.com/dominant-strategies/go-quai/core/rawdb"
	"github.com/dominant-strategies/go-quai/core/state"
	"github.com/dominant-strategies/go-quai/core/vm"
	"github.com/dominant-strategies/go-quai/ethdb"
	"github.com/dominant-strategies/go-quai/log"
	"github.com/dominant-strategies/go-quai/params"
)

func init() { areas["lockup"] = runLockup }

func lkAddr(i int, qi bool) common.Address {
	b := make([]byte, 20)
	b[0] = 0x00
	b[18] = 0x77
	b[19] = byte(i)
	if qi {
		b[1] = 0x80
	}
	return common.BytesToAddress(b, evLoc)
}

func lkRec(db ethdb.KeyValueReader, batch ethdb.Batch, o, m common.Address, b byte, e uint32) string {
	bal, unlock, elems, del := rawdb.ReadCoinbaseLockup(db, batch, o, m, b, e)
	d := 0
	if !del.Equal(common.Zero) {
		d = int(del.Bytes()[19])
	}
	return fmt.Sprintf("%s %d %d %d", bal, unlock, elems, d)
}

func runLockup(seed uint64, n int, outDir string, replay string) {
	lkTmp, _ := os.MkdirTemp("", "qvh-lockup")
	defer os.RemoveAll(lkTmp)
	vm.InitializePrecompiles(evLoc)
	o := h.NewOut(outDir, "lockup")
	r := h.NewRng(seed)
	ans := func(s string) { o.Ans("impl", "%s", s) }
	lockupAddr := vm.LockupContractAddresses[[2]byte{0, 0}]
	for c := 0; c < n; c++ {
		rc := r.Fork()
		o.NewCase()
		o.Op("newcase")
		ans("ok")
		o.Op("cfg epochblocks %d", params.CoinbaseEpochBlocks)
		ans("ok")
		func() {
			defer func() {
				if p := recover(); p != nil {
					o.Violate("lockup-panic", fmt.Sprintf("panic: %v at %s", p, stackTop()))
					o.Pad("panic %v", p)
				}
			}()
			// the database is one of the three storage engines: a block's reads of
			// its own uncommitted lockup writes and deletes go through the engine's batch
			var mdb ethdb.Database = rawdb.NewMemoryDatabase(log.Global)
			engine := rc.Intn(4)
			if e := os.Getenv("QVH_ENGINE"); e != "" {
				engine = int(e[0] - '0')
			}
			switch engine {
			case 0:
				if d, err := rawdb.NewLevelDBDatabase(fmt.Sprintf("%s/lk-l%d", lkTmp, c), 16, 16, "", false, log.Global, evLoc); err == nil {
					mdb = d
					defer d.Close()
					o.Count("engine:leveldb")
				}
			case 1:
				if d, err := rawdb.NewPebbleDBDatabase(fmt.Sprintf("%s/lk-p%d", lkTmp, c), 16, 16, "", false, log.Global, evLoc); err == nil {
					mdb = d
					defer d.Close()
					o.Count("engine:pebble")
				}
			}
			sdbDB := state.NewDatabase(mdb) // AddNewLock reads committed records through the state's underlying database
			sdb, err := state.New(common.Hash{}, common.Hash{}, new(big.Int), sdbDB, sdbDB, nil, evLoc, log.Global)
			if err != nil {
				panic(err)
			}
			sdb.ConfigureAccessListChecks(false)
			batch := mdb.NewBatch()
			batch.SetPending(true)
			blockNumber := uint64(2*params.CoinbaseEpochBlocks + uint64(rc.Intn(int(params.CoinbaseEpochBlocks))))
			cfg := *params.ProgpowColosseumChainConfig
			cfg.Location = evLoc
			eligible := true
			newEVM := func() *vm.EVM {
				bctx := vm.BlockContext{CanTransfer: core.CanTransfer, Transfer: core.Transfer, GetHash: func(uint64) common.Hash { return common.Hash{} },
					CheckIfEtxEligible: func(common.Hash, common.Location) bool { return eligible },
					BlockNumber:        new(big.Int).SetUint64(blockNumber), Time: big.NewInt(1), Difficulty: big.NewInt(1), BaseFee: big.NewInt(1),
					GasLimit: 30_000_000, QuaiStateSize: big.NewInt(1000), PrimeTerminusNumber: params.ShaEquivalentDifficultyForkBlock + 100}
				return vm.NewEVM(bctx, vm.TxContext{Origin: lkAddr(0xee, false), GasPrice: big.NewInt(1), Hash: common.BytesToHash([]byte{9})}, sdb, &cfg, vm.Config{}, batch)
			}
			evm := newEVM()
			// owner contracts 1..2: code = copy calldata to memory, CALL the lockup contract with the first 53 bytes,
			// then REVERT if calldata byte 53 is non-zero, else STOP
			for i := 1; i <= 2; i++ {
				a := &asm{}
				a.op(vm.CALLDATASIZE).pushN(0).pushN(0).op(vm.CALLDATACOPY)
				a.pushN(0).pushN(0).pushN(53).pushN(0).pushN(0).pushB(lockupAddr.Bytes()).pushN(3_000_000).op(vm.CALL).op(vm.POP)
				a.pushN(53).op(vm.CALLDATALOAD).pushN(uint64(len(a.b) + 2 + 1 + 1 + 1)).op(vm.JUMPI) // placeholder, fixed below
				_ = a
				ia, _ := lkAddr(i, false).InternalAndQuaiAddress()
				sdb.CreateAccount(ia)
				sdb.SetCode(ia, lkOwnerCode(lockupAddr))
				sdb.AddBalance(ia, big.NewInt(1_000_000))
			}
			// outer contract 9: forwards calldata to owner contract named by calldata byte 54, ignores the result
			outer, _ := lkAddr(9, false).InternalAndQuaiAddress()
			sdb.CreateAccount(outer)
			type key struct {
				o, m int
				b    byte
				e    uint32
			}
			pickKey := func() key {
				return key{1 + rc.Intn(2), 1 + rc.Intn(2), byte(1 + rc.Intn(3)), uint32(rc.Intn(3))}
			}
			// T3 bookkeeping, independent of the code under test: what was added to each tranche since its last pay-out
			owed := map[key]*big.Int{}
			zeroUnlock := map[key]bool{}
			nops := 6 + rc.Intn(25)
			var again, readNext *key
			for i := 0; i < nops; i++ {
				k := pickKey()
				x := rc.Intn(100)
				forcedPlain := false
				if again != nil {
					// directed: the same tranche once more (a claim after a reverted claim, after a successful one, after a
					// reward added in this block), then a read of it
					k, x, forcedPlain = *again, 60, true
					again = nil
					kk := k
					readNext = &kk
				} else if readNext != nil {
					k, x = *readNext, 80
					readNext = nil
				}
				oa, ma := lkAddr(k.o, false), lkAddr(0x10+k.m, false)
				switch {
				case x < 40:
					// add a reward to the tranche
					del := rc.Intn(3)
					dAddr := common.Zero
					if del != 0 {
						dAddr = lkAddr(0x20+del, false)
					}
					unlockHeight := uint64(k.e+1)*params.CoinbaseEpochBlocks + uint64(rc.Intn(int(params.CoinbaseEpochBlocks)))
					if rc.Chance(8) {
						unlockHeight = uint64(rc.Intn(int(params.CoinbaseEpochBlocks))) // early chain: epoch-aligned height 0
					} else if rc.Chance(15) {
						unlockHeight = uint64(k.e+1+uint32(rc.Intn(2))) * params.CoinbaseEpochBlocks // exactly on an epoch boundary
					}
					value := big.NewInt(int64(rc.Intn(1000)))
					// a reward arrives with a coinbase ETX, which is a transaction of its own: whatever the contracts claimed
					// before it belongs to earlier transactions (the EVM's per-transaction claim bookkeeping starts afresh)
					evm.Reset(evm.TxContext, sdb)
					before := lkRec(mdb, batch, oa, ma, k.b, k.e)
					deleted, oldData, _, _, _, err := vm.AddNewLock(sdb, batch, oa, ma, dAddr, common.OneInternal(evLoc), k.b, unlockHeight, k.e, value, evLoc, log.Global, common.Hash{}, true)
					dd := 0
					if del != 0 {
						dd = 0x20 + del
					}
					o.Op("add %d %d %d %d %d %d %s", k.o, 0x10+k.m, k.b, k.e, dd, unlockHeight, value)
					if err != nil {
						ans("err")
						continue
					}
					undo := "none"
					if deleted {
						// decode the undo record the way the reorg code does
						tmp := rawdb.NewMemoryDatabase(log.Global)
						tmp.Put(rawdb.CoinbaseLockupKey(oa, ma, k.b, k.e), oldData)
						tb := tmp.NewBatch()
						undo = lkRec(tmp, tb, oa, ma, k.b, k.e)
						if undo != before {
							o.Violate("c10-lockup-undo-record-not-old", fmt.Sprintf("AddNewLock replaced record `%s` but its undo record decodes to `%s`", before, undo))
						}
					}
					ans(fmt.Sprintf("ok del=%d rec=%s undo=%s", map[bool]int{false: 0, true: 1}[deleted], lkRec(mdb, batch, oa, ma, k.b, k.e), undo))
					// (early-chain quirk, heights below one epoch: a tranche whose epoch-aligned unlock height is 0 reads as
					// "no record", so the next reward restarts it and a claim finds nothing)
					if owed[k] == nil || zeroUnlock[k] {
						owed[k] = new(big.Int)
					}
					if rc.Chance(30) {
						kk := k
						again = &kk // a reward added and the tranche claimed in the same block
					}
					owed[k].Add(owed[k], value)
					zeroUnlock[k] = unlockHeight < params.CoinbaseEpochBlocks && (owed[k].Cmp(value) == 0)
				case x < 75:
					// claim, directly from the owner contract or another caller, possibly inside a reverting frame
					caller := k.o
					if rc.Chance(15) {
						caller = 3 - k.o // the other contract: not the owner of this key
					}
					pair := !forcedPlain && rc.Chance(45) // this claim is followed by a plain claim of the same tranche
					bn := blockNumber
					if rc.Chance(30) || forcedPlain || pair {
						_, unlock, _, _ := rawdb.ReadCoinbaseLockup(mdb, batch, oa, ma, k.b, k.e)
						if unlock != 0 {
							bn = uint64(unlock) + uint64(rc.Intn(3)) - 1
							if forcedPlain || pair {
								bn = uint64(unlock) + uint64(rc.Intn(3)) // directed sequences work on unlocked tranches
							}
						}
					}
					evm.Context.BlockNumber = new(big.Int).SetUint64(bn)
					toQi := rc.Chance(10)
					gl := uint64(21000 + rc.Intn(100))
					gas := uint64(3_000_000)
					if rc.Chance(8) {
						gas = gl - 1
					}
					input := make([]byte, 53)
					copy(input[0:20], ma.Bytes())
					copy(input[20:40], lkAddr(0x30, toQi).Bytes())
					input[40] = k.b
					binary.BigEndian.PutUint32(input[41:45], k.e)
					binary.BigEndian.PutUint64(input[45:53], gl)
					reverting := rc.Chance(25) && !forcedPlain
					if pair {
						kk := k
						again = &kk
						if rc.Chance(60) {
							reverting = true // reverted claim, then the real one
						}
					}
					base := len(evm.ETXCache)
					if !reverting {
						o.Op("claim %d %d %d %d %d %d %d %d %d", caller, 0x10+k.m, k.b, k.e, bn, gas, gl, map[bool]int{true: 0, false: 1}[toQi], base)
						_, _, _, err := evm.Call(vm.AccountRef(lkAddr(caller, false)), lockupAddr, input, gas, new(big.Int))
						if err != nil {
							ans("err")
							if len(evm.ETXCache) != base {
								o.Violate("c13-failed-claim-emits", "a failed claim left an ETX in the cache")
							}
						} else {
							v := new(big.Int)
							if len(evm.ETXCache) == base+1 {
								v = evm.ETXCache[base].Value()
							} else {
								o.Violate("c13-claim-without-etx", fmt.Sprintf("successful claim emitted %d ETXs", len(evm.ETXCache)-base))
							}
							ans("ok " + v.String())
							ck := key{caller, k.m, k.b, k.e}
							if owed[ck] == nil || owed[ck].Sign() == 0 {
								o.Violate("c13-paid-out-twice", fmt.Sprintf("claim of tranche %v paid %s although nothing is owed (already claimed or never rewarded)", ck, v))
							} else if owed[ck].Cmp(v) != 0 {
								o.Violate("c13-payout-not-accumulated-balance", fmt.Sprintf("claim of tranche %v paid %s, rewards accumulated since the last pay-out are %s", ck, v, owed[ck]))
							}
							delete(owed, ck)
						}
					} else {
						// the owner contract claims and then REVERTs (flag byte 53 = 1); its caller ignores the failure
						before := lkRec(mdb, batch, lkAddr(caller, false), ma, k.b, k.e)
						allRecs := func() string {
							var sb strings.Builder
							for oo := 1; oo <= 2; oo++ {
								for mm := 1; mm <= 2; mm++ {
									for bb := byte(1); bb <= 3; bb++ {
										for ee := uint32(0); ee < 3; ee++ {
											sb.WriteString(lkRec(mdb, batch, lkAddr(oo, false), lkAddr(0x10+mm, false), bb, ee) + ";")
										}
									}
								}
							}
							return sb.String()
						}
						allBefore := allRecs()
						o.Op("snap")
						ans("ok")
						o.Op("claim %d %d %d %d %d %d %d %d %d", caller, 0x10+k.m, k.b, k.e, bn, 3_000_000, gl, map[bool]int{true: 0, false: 1}[toQi], base)
						data := append(append([]byte(nil), input...), make([]byte, 32)...)
						data[53+31] = 1
						_, _, _, err := evm.Call(vm.AccountRef(lkAddr(0xee, false)), lkAddr(caller, false), data, 5_000_000, new(big.Int))
						// the inner claim's own verdict is not observable from outside the reverted frame; recompute it the
						// way the model does is not allowed - so observe through a non-reverting twin on a scratch copy? no:
						// we only compare the state after the revert.
						_ = err
						ans("?")
						o.Op("revert")
						ans("ok")
						o.Op("read %d %d %d %d", caller, 0x10+k.m, k.b, k.e)
						after := lkRec(mdb, batch, lkAddr(caller, false), ma, k.b, k.e)
						ans(after)
						if after != before {
							o.Violate("c12-lockup-claim-survives-revert", fmt.Sprintf("record `%s` before a claim inside a reverted frame, `%s` after", before, after))
							// the block's UTXO root was computed with the hash of the record as it stood (balance, unlock height,
							// elements, delegate); the frame left nothing behind in the accumulator, so the database now holds a
							// lockup the header does not commit to
							o.Violate("c06-stored-lockup-not-the-committed-record", fmt.Sprintf("the lockup record the header commits to is `%s`; after a claim inside a reverted frame the database holds `%s`", before, after))
						}
						if len(evm.ETXCache) != base {
							o.Violate("c12-lockup-claim-etx-survives-revert", "ETX of a reverted claim stays in the cache")
						}
						// and two more records, read through the model as well
						for j := 0; j < 2; j++ {
							k2 := pickKey()
							o.Op("read %d %d %d %d", k2.o, 0x10+k2.m, k2.b, k2.e)
							ans(lkRec(mdb, batch, lkAddr(k2.o, false), lkAddr(0x10+k2.m, false), k2.b, k2.e))
						}
						if allAfter := allRecs(); allAfter != allBefore {
							// e.g. a record claimed by an earlier, successful frame of the same transaction comes back
							o.Violate("c12-reverted-frame-changes-other-lockup-records", "the lockup ledger (all owners, miners, bytes, epochs) differs before and after a frame that claimed and reverted")
							if len(evm.ETXCache) > 0 {
								// the earlier frame completed: its ETX stays emitted while the debit it stands for is undone
								o.Violate("c05-completed-claim-undone-by-later-revert", fmt.Sprintf("a frame that reverted changed lockup records it did not own while %d ETX(s) of earlier, completed claims of the same transaction stay emitted: a completed frame's effects are no longer all there", len(evm.ETXCache)))
							}
						}
					}
				case x < 85:
					o.Op("read %d %d %d %d", k.o, 0x10+k.m, k.b, k.e)
					ans(lkRec(mdb, batch, oa, ma, k.b, k.e))
				default:
					// block boundary: commit the batch, start the next block
					if err := batch.Write(); err != nil {
						panic(err)
					}
					batch.Reset()
					batch.SetPending(true)
					blockNumber += uint64(1 + rc.Intn(20000))
					evm = newEVM()
					o.Op("write")
					ans("ok")
				}
			}
		}()
		o.EndCase(fmt.Sprint(rc.U64()), true)
	}
	o.Close(nil)
}

// lkOwnerCode: CALLDATACOPY(0,0,size); CALL(gas, lockup, 0, 0, 53, 0, 0); if calldata word at 53 != 0 REVERT else STOP
func lkOwnerCode(lockup common.Address) []byte {
	a := &asm{}
	a.op(vm.CALLDATASIZE).pushN(0).pushN(0).op(vm.CALLDATACOPY)
	a.pushN(0).pushN(0).pushN(53).pushN(0).pushN(0).pushB(lockup.Bytes()).pushN(3_000_000).op(vm.CALL).op(vm.POP)
	a.pushN(53).op(vm.CALLDATALOAD)
	// JUMPI to the REVERT block
	jumpPos := len(a.b)
	a.b = append(a.b, byte(vm.PUSH1), 0) // destination patched below
	a.op(vm.JUMPI).op(vm.STOP)
	dest := len(a.b)
	a.op(vm.JUMPDEST).pushN(0).pushN(0).op(vm.REVERT)
	a.b[jumpPos+1] = byte(dest)
	return a.b
}
