package main

// Area c06: block execution determinism and "header commitments = stored state".
//
// Each case is one history produced by chainworld on a primary node (memory database, trie-backed reads), which
// is replayed block by block on two replicas that differ in everything the property quantifies over: storage
// backend, snapshot-backed reads, address index, GOMAXPROCS.  After every block
//   - the ledger key spaces ('ut', 'cl') of each database are scanned and hashed independently of the node,
//   - the model (Lean, QuaiVerif.Model.Ledger) is fed the block's own bookkeeping (created / spent / trimmed
//     entries as recorded in the block's undo records) and predicts the set size and whether commitment and
//     content still agree.

import (
	"bytes"
	"encoding/binary"
	"fmt"
	"os"
	"runtime"
	"sort"
	"strings"

	"verifharness/internal/h"

	"github.com/dominant-strategies/go-quai/common"
	"github.com/dominant-strategies/go-quai/core/rawdb"
	"github.com/dominant-strategies/go-quai/core/types"
	"github.com/dominant-strategies/go-quai/crypto"
	"github.com/dominant-strategies/go-quai/crypto/multiset"
	"github.com/dominant-strategies/go-quai/ethdb"
	"github.com/dominant-strategies/go-quai/log"
)

func init() { areas["c06"] = runC06 }

func short(b []byte) string { return h.Hex(crypto.Keccak256(b)[:6]) }

// blockLedgerOps derives, from the undo records the block wrote, what it claims to have created / spent / trimmed.
// ids: "u<outpoint digest>" for outputs, "l<key digest>.<value digest>" for a version of a lockup record.
func blockLedgerOps(db ethdb.Database, blk *types.WorkObject, before map[string][]byte) (ops []string) {
	created, _ := rawdb.ReadCreatedUTXOKeys(db, blk.Hash())
	for _, k := range created {
		if len(k) >= rawdb.UtxoKeyLength {
			ops = append(ops, "c u"+short(k[:rawdb.UtxoKeyLength]))
		}
	}
	spent, _ := rawdb.ReadSpentUTXOs(db, blk.Hash())
	for _, s := range spent {
		ops = append(ops, "s u"+short(rawdb.UtxoKey(s.TxHash, s.Index)))
	}
	trimmed, _ := rawdb.ReadTrimmedUTXOs(db, blk.Hash())
	for _, s := range trimmed {
		ops = append(ops, "t u"+short(rawdb.UtxoKey(s.TxHash, s.Index)))
	}
	// lockups: the undo records hold, per key and in order, every version the block deleted; versions other than
	// the one present before the block were also created by it, as is the version present afterwards
	deleted, _ := rawdb.ReadDeletedCoinbaseLockups(db, blk.Hash())
	perKey := map[string][][]byte{}
	var keys []string
	note := func(k []byte) {
		if _, ok := perKey[string(k)]; !ok {
			perKey[string(k)] = nil
			keys = append(keys, string(k))
		}
	}
	for _, d := range deleted {
		note(d.Key)
		perKey[string(d.Key)] = append(perKey[string(d.Key)], d.Value)
	}
	ck, _ := rawdb.ReadCreatedCoinbaseLockupKeys(db, blk.Hash())
	for _, k := range ck {
		note(k)
	}
	sort.Strings(keys)
	for _, k := range keys {
		id := "l" + short([]byte(k)) + "."
		for i, v := range perKey[k] {
			if !(i == 0 && bytes.Equal(v, before[k])) {
				ops = append(ops, "c "+id+short(v))
			}
			ops = append(ops, "s "+id+short(v))
		}
		if v, _ := db.Get([]byte(k)); len(v) > 0 && (len(perKey[k]) > 0 || !bytes.Equal(v, before[k])) {
			ops = append(ops, "c "+id+short(v))
		}
	}
	return ops
}

func lockupValues(db ethdb.Database) map[string][]byte {
	m := map[string][]byte{}
	it := db.NewIterator(rawdb.CoinbaseLockupPrefix, nil)
	defer it.Release()
	for it.Next() {
		if len(it.Key()) == rawdb.CoinbaseLockupKeyLength {
			m[string(it.Key())] = append([]byte{}, it.Value()...)
		}
	}
	return m
}

// doubleRemovals: outputs a block both spent through a transaction and trimmed
func doubleRemovals(db ethdb.Database, blk *types.WorkObject) (out []common.Hash) {
	spent, _ := rawdb.ReadSpentUTXOs(db, blk.Hash())
	trimmed, _ := rawdb.ReadTrimmedUTXOs(db, blk.Hash())
	for _, s := range spent {
		for _, t := range trimmed {
			if s.TxHash == t.TxHash && s.Index == t.Index {
				out = append(out, types.UTXOHash(s.TxHash, s.Index, s.UtxoEntry))
			}
		}
	}
	return
}

type c06Replica struct {
	name  string
	node  *zoneNode
	procs int
	dead  bool // it rejected a block: nothing later can be compared
}

func receiptsDigest(n *zoneNode, blk *types.WorkObject) string {
	rs := rawdb.ReadReceipts(n.db, blk.Hash(), blk.NumberU64(common.ZONE_CTX), n.sl.Config())
	var sb strings.Builder
	for _, r := range rs {
		fmt.Fprintf(&sb, "%d:%d:%d:%d:%x;", r.Status, r.GasUsed, len(r.Logs), len(r.OutboundEtxs), r.ContractAddress.Bytes())
	}
	return fmt.Sprintf("%d:%s", len(rs), h.Hex(crypto.Keccak256([]byte(sb.String()))[:8]))
}

func runC06(seed uint64, n int, outDir string, replay string) {
	o := h.NewOut(outDir, "c06")
	r := h.NewRng(seed)
	ans := func(s string) { o.Ans("impl", "%s", s) }
	tmp, err := os.MkdirTemp("", "qvh-c06")
	if err != nil {
		panic(err)
	}
	defer os.RemoveAll(tmp)
	blocksPerCase := 40
	for c := 0; c < n; c++ {
		rc := r.Fork()
		o.NewCase()
		o.Op("newcase")
		ans("ok")
		rg := cwRegime{preTx: c%5 == 4}
		cwSetParams(rg)
		func() {
			defer func() {
				if p := recover(); p != nil {
					o.Violate("c06-panic", fmt.Sprintf("panic: %v at %s", p, stackTop()))
					o.Pad("panic %v", p)
				}
			}()
			w, err := newWorld(newMemDB(), rc, rg, zoneOpts{})
			if err != nil {
				panic(err)
			}
			defer safeStop(w.node)
			w.hunt = c == 0 || rc.Chance(50)
			if c%2 == 1 {
				w.qiBoost = 1 + rc.Intn(3) // blocks that spend several outputs while several denominations are being trimmed
			}
			var reps []*c06Replica
			ldb, err := rawdb.NewLevelDBDatabase(fmt.Sprintf("%s/l%d", tmp, c), 16, 16, "", false, log.Global, w.node.loc)
			if err != nil {
				panic(err)
			}
			pdb, err := rawdb.NewPebbleDBDatabase(fmt.Sprintf("%s/p%d", tmp, c), 16, 16, "", false, log.Global, w.node.loc)
			if err != nil {
				panic(err)
			}
			_, allocs := cwAllAllocs()
			for _, rp := range []struct {
				name string
				db   ethdb.Database
				o    zoneOpts
				p    int
			}{{"leveldb+snap+index", ldb, zoneOpts{snapshots: true, index: true, allocs: allocs}, 0}, {"pebble+1proc", pdb, zoneOpts{allocs: allocs}, 1}} {
				nd, err := newZoneNode(rp.db, rp.o)
				if err != nil {
					panic(err)
				}
				reps = append(reps, &c06Replica{name: rp.name, node: nd, procs: rp.p})
			}
			defer func() {
				for _, rp := range reps {
					safeStop(rp.node)
					rp.node.db.Close()
				}
			}()
			var known []common.Hash // entries removed twice from the commitment (known finding)
			for b := 0; b < blocksPerCase; b++ {
				before := lockupValues(w.node.db)
				st, err := w.step()
				if err != nil {
					// the node refused a block its own worker assembled: C07's concern, reported there too
					o.Violate("c07-own-block-rejected", fmt.Sprintf("block %d: %v", b+1, err))
					break
				}
				blk := st.blk
				o.Op("blk")
				ans("ok")
				for _, op := range blockLedgerOps(w.node.db, blk, before) {
					o.Op("%s", op)
					ans("ok")
				}
				sc := scanLedger(w.node.db, w.node.loc)
				rootOK := sc.root() == blk.UTXORoot()
				size := rawdb.ReadUTXOSetSize(w.node.db, blk.Hash())
				o.Op("end")
				ans(fmt.Sprintf("size=%d consistent=%s wf=?", size, b01(rootOK)))
				// T3: commitment = content
				dr := doubleRemovals(w.node.db, blk)
				known = append(known, dr...)
				if len(dr) > 0 {
					o.Violate("c06-spent-and-trimmed-in-same-block", fmt.Sprintf("block %d spends %d output(s) through a transaction and trims them in the same block: the header UTXO root / set size (%d) no longer match the database (%d entries)", blk.NumberU64(common.ZONE_CTX), len(dr), size, len(sc.hashes)))
				}
				if !rootOK || size != uint64(len(sc.hashes)) {
					ms := multiset.New()
					for _, x := range sc.hashes {
						ms.Add(x.Bytes())
					}
					for _, x := range known {
						ms.Remove(x.Bytes())
					}
					if len(known) > 0 && ms.Hash() == blk.UTXORoot() && size+uint64(len(known)) == uint64(len(sc.hashes)) {
						o.Count("mismatch-explained-by-known-double-removal")
					} else {
						o.Violate("c06-utxo-commitment-not-db-content", fmt.Sprintf("block %d: header UTXORoot %x setsize %d; database scan root %x entries %d", blk.NumberU64(common.ZONE_CTX), blk.UTXORoot().Bytes()[:6], size, sc.root().Bytes()[:6], len(sc.hashes)))
					}
				}
				// T3: the EVM / ETX roots open to the state later blocks use
				if stt, err := w.node.hc.StateAt(blk.EVMRoot(), blk.EtxSetRoot(), blk.QuaiStateSize()); err != nil {
					o.Violate("c06-state-does-not-open", fmt.Sprintf("block %d: StateAt: %v", blk.NumberU64(common.ZONE_CTX), err))
				} else if stt.IntermediateRoot(true) != blk.EVMRoot() || stt.ETXRoot() != blk.EtxSetRoot() {
					o.Violate("c06-state-root-mismatch", fmt.Sprintf("block %d: reopened state has other roots", blk.NumberU64(common.ZONE_CTX)))
				}
				// T3: every replica accepts the block and ends in the same ledger and receipts
				want := strings.Join(sc.utxos, " ") + "|" + strings.Join(sc.lockups, " ")
				wantRc := receiptsDigest(w.node, blk)
				for _, rp := range reps {
					if rp.dead {
						continue
					}
					old := 0
					if rp.procs > 0 {
						old = runtime.GOMAXPROCS(rp.procs)
					}
					err := rp.node.appendBlock(blk, st.inbound)
					if rp.procs > 0 {
						runtime.GOMAXPROCS(old)
					}
					if err != nil {
						o.Violate("c06-replica-rejects-block", fmt.Sprintf("block %d accepted by the primary is rejected by replica %s: %v", blk.NumberU64(common.ZONE_CTX), rp.name, err))
						rp.dead = true
						continue
					}
					rs := scanLedger(rp.node.db, rp.node.loc)
					if got := strings.Join(rs.utxos, " ") + "|" + strings.Join(rs.lockups, " "); got != want {
						o.Violate("c06-replica-ledger-differs", fmt.Sprintf("block %d: replica %s holds a different UTXO / lockup set", blk.NumberU64(common.ZONE_CTX), rp.name))
					}
					if got := receiptsDigest(rp.node, blk); got != wantRc {
						o.Violate("c06-replica-receipts-differ", fmt.Sprintf("block %d: replica %s receipts %s, primary %s", blk.NumberU64(common.ZONE_CTX), rp.name, got, wantRc))
					}
					if rawdb.ReadUTXOSetSize(rp.node.db, blk.Hash()) != size {
						o.Violate("c06-replica-setsize-differs", fmt.Sprintf("block %d: replica %s", blk.NumberU64(common.ZONE_CTX), rp.name))
					}
				}
				o.Count(fmt.Sprintf("blocktxs:%d", min(len(blk.Transactions())/4*4, 16)))
				{
					// which shapes of removal the block exercised: outputs spent by transactions, and how many
					// denominations' trimming passes removed something (each pass is its own goroutine in Finalize)
					spent, _ := rawdb.ReadSpentUTXOs(w.node.db, blk.Hash())
					trimmed, _ := rawdb.ReadTrimmedUTXOs(w.node.db, blk.Hash())
					den := map[uint8]bool{}
					for _, t := range trimmed {
						den[t.Denomination] = true
					}
					if len(trimmed) > 0 {
						o.Count(fmt.Sprintf("trim:block-with-%d-denominations-trimmed", min(len(den), 3)))
						if len(den) >= 2 && len(spent) >= 3 {
							o.Count("trim:two-passes-and-three-or-more-spent")
						}
					}
					o.Count(fmt.Sprintf("spent-per-block:%d", min(len(spent), 6)))
				}
				if st.order == common.REGION_CTX {
					o.Count("region-blocks")
				}
			}
			for k, v := range w.hist {
				o.Hist[k] += v
			}
			_ = binary.BigEndian
		}()
		o.EndCase(fmt.Sprint(rc.U64()), true)
	}
	o.Close(nil)
}
